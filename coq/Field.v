(* Field.v — path segments and path parsing (path.go: parseField, parsePath, parsePathIdx). *)
From Ucfg Require Import Base ParseInt Consts.

Inductive field := FName (s : string) | FIdx (i : Z).

Definition field_eqb (a b : field) : bool :=
  match a, b with
  | FName s, FName t => String.eqb s t
  | FIdx i, FIdx j => Z.eqb i j
  | _, _ => false
  end.

Definition field_str (f : field) : string :=
  match f with FName s => s | FIdx i => dec i end.

(* parseField: a segment is an index iff numeric keys are off and it is an integer
   literal (strconv.ParseInt base 0) within [0, maxIdx]. *)
Definition parse_field (s : string) (maxIdx : Z) (numKeys : bool) : field :=
  if numKeys then FName s
  else match parse_int0 s with
       | Some i => if (0 <=? i) && (i <=? maxIdx) then FIdx i else FName s
       | None => FName s
       end.

(* `^\[.*\]$` : '.' does not match a newline; '$' is end of text. *)
Definition escape_match (s : string) : bool :=
  match s with
  | String a r =>
    Ascii.eqb a "["%char &&
    match srev r with
    | String b m => Ascii.eqb b "]"%char && negb (mem_ascii (ch 10) m)
    | EmptyString => false
    end
  | EmptyString => false
  end.

Definition parse_path (s sep : string) (maxIdx : Z) (numKeys escape : bool) : list field :=
  if String.eqb sep "" || (escape && escape_match s)
  then [parse_field s maxIdx numKeys]
  else
    let elems := split s sep in
    let nk := match elems with _ :: _ :: _ => false | _ => numKeys end in
    map (fun e => parse_field e maxIdx nk) elems.

Definition parse_path_idx (name : string) (idx : Z) (sep : string) (maxIdx : Z)
           (numKeys escape : bool) : list field :=
  if String.eqb name "" then [FIdx idx]
  else let p := parse_path name sep maxIdx numKeys escape in
       if 0 <=? idx then p ++ [FIdx idx] else p.

(* cfgPath.String *)
Definition path_str (p : list field) (sep : string) : string :=
  match p with
  | [] => ""
  | [f] => field_str f
  | _ => join (if String.eqb sep "" then "." else sep) (map field_str p)
  end.
