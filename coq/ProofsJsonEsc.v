(* ProofsJsonEsc.v — C17: double-quoted strings with escapes.  Every string over the printable
   ASCII characters - the quote and the backslash included - written between double quotes with
   its quotes and backslashes escaped (each preceded by a backslash) is read back unchanged by the string scanner
   of parse.Value: the scanner finds the closing quote (a quote is escaped exactly when an odd
   number of backslashes precedes it) and strconv.Unquote's model undoes the escapes. *)
From Ucfg Require Import Base ParseInt Consts Field Tree F64 ParseValue ProofsFlags ProofsParse ProofsDec ProofsJson.
From Coq Require Import Lia.
Local Open Scope nat_scope.
Local Open Scope string_scope.

Definition pchar (a : ascii) : bool := let c := byte_of a in ((32 <=? c) && (c <? 127))%N.
Fixpoint pstr (s : string) : bool :=
  match s with EmptyString => true | String a r => pchar a && pstr r end.

Definition bs : ascii := "\"%char.

(* the spelling between the quotes *)
Fixpoint esc (s : string) : string :=
  match s with
  | EmptyString => EmptyString
  | String a r =>
    if Ascii.eqb a q then String bs (String q (esc r))
    else if Ascii.eqb a bs then String bs (String bs (esc r))
    else String a (esc r)
  end.

Lemma esc_length_le s : String.length s <= String.length (esc s).
Proof.
  induction s as [|a r IH]; cbn [esc String.length]; [lia|].
  destruct (Ascii.eqb a q); [cbn [String.length]; lia|].
  destruct (Ascii.eqb a bs); cbn [String.length]; lia.
Qed.

Lemma pchar_facts a : pchar a = true ->
  (byte_of a =? 10)%N = false /\ (128 <=? byte_of a)%N = false.
Proof.
  unfold pchar. intro H. apply andb_prop in H. destruct H as [H1 H2].
  apply N.leb_le in H1. apply N.ltb_lt in H2.
  split; [apply N.eqb_neq; lia|apply N.leb_gt; lia].
Qed.

Lemma byte_q : byte_of q = 34%N. Proof. reflexivity. Qed.
Lemma byte_bs : byte_of bs = 92%N. Proof. reflexivity. Qed.

Lemma eqb_byte a b : Ascii.eqb a b = false -> (byte_of a =? byte_of b)%N = false.
Proof.
  intro H. apply N.eqb_neq. intro E. apply Ascii.eqb_neq in H. apply H.
  unfold byte_of in E. rewrite <- (ascii_N_embedding a), <- (ascii_N_embedding b). rewrite E. reflexivity.
Qed.

(** strconv.Unquote undoes the escapes *)
Lemma unquote_body_esc json body : forall fuel acc rest,
  pstr body = true -> String.length (esc body) < fuel ->
  unquote_body json fuel (esc body +++ String q rest) acc = Some (srev (rev_app body acc), rest).
Proof.
  induction body as [|a r IH]; intros fuel acc rest S L.
  - destruct fuel; [cbn in L; lia|]. cbn. unfold srev. reflexivity.
  - cbn [pstr] in S. apply andb_prop in S. destruct S as [Sa Sr].
    destruct (pchar_facts a Sa) as [E10 E128].
    cbn [esc]. destruct (Ascii.eqb a q) eqn:EQ.
    + apply Ascii.eqb_eq in EQ. subst a.
      destruct fuel; [cbn in L; lia|]. cbn [esc String.length] in L. rewrite Ascii.eqb_refl in L. cbn [String.length] in L.
      cbn [String.append unquote_body]. rewrite byte_bs. cbn [N.eqb Pos.eqb N.leb N.compare Pos.compare Pos.compare_cont negb].
      rewrite byte_q. cbn [N.eqb Pos.eqb].
      rewrite (IH fuel (String (ch 34) acc) rest Sr ltac:(lia)). reflexivity.
    + destruct (Ascii.eqb a bs) eqn:EB.
      * apply Ascii.eqb_eq in EB. subst a.
        destruct fuel; [cbn in L; lia|]. cbn [esc String.length] in L. rewrite EQ in L. rewrite Ascii.eqb_refl in L. cbn [String.length] in L.
        cbn [String.append unquote_body]. rewrite byte_bs. cbn [N.eqb Pos.eqb N.leb N.compare Pos.compare Pos.compare_cont negb].
        rewrite (IH fuel (String (ch 92) acc) rest Sr ltac:(lia)). reflexivity.
      * destruct fuel; [cbn in L; lia|]. cbn [esc String.length] in L. rewrite EQ, EB in L. cbn [String.length] in L.
        cbn [String.append unquote_body].
        pose proof (eqb_byte a q EQ) as N34. rewrite byte_q in N34.
        pose proof (eqb_byte a bs EB) as N92. rewrite byte_bs in N92.
        rewrite N34, E10, E128, N92. cbn [negb].
        rewrite (IH fuel (String a acc) rest Sr ltac:(lia)). reflexivity.
Qed.

(** the scanner finds the closing quote *)
Lemma sdrop_next : forall off s c tail, sdrop off s = String c tail -> sdrop (S off) s = tail.
Proof.
  induction off as [|off IH]; intros s c tail H.
  - cbn in H. subst s. reflexivity.
  - destruct s as [|a r]; [discriminate H|]. cbn [sdrop] in *. exact (IH r c tail H).
Qed.

(* a byte that is no quote is stepped over *)
Lemma dq_end_step f s off c tail :
  sdrop off s = String c tail -> Ascii.eqb c q = false -> dq_end f s off = dq_end f s (S off).
Proof.
  intros H NQ. destruct f as [|f]; [reflexivity|]. cbn [dq_end].
  rewrite H, (sdrop_next off s c tail H). cbn [index_byte]. rewrite NQ.
  destruct (index_byte tail q) as [i|]; [|reflexivity].
  replace (S i + off) with (i + S off) by lia. reflexivity.
Qed.

(* the run of backslashes a text ends with *)
Definition run (pre : string) : nat := count_leading_bs (srev pre).

Lemma run_snoc pre c : run (pre +++ String c "") = if Ascii.eqb c bs then S (run pre) else O.
Proof. unfold run. rewrite srev_snoc. reflexivity. Qed.

Lemma app_snoc_s pre c x : (pre +++ String c "") +++ x = pre +++ String c x.
Proof. rewrite app_assoc_s. reflexivity. Qed.

Lemma sdrop_pre pre x : sdrop (S (String.length pre)) (String q (pre +++ x)) = x.
Proof. cbn [sdrop]. apply sdrop_app. Qed.

Lemma stake_pre pre x : sdrop 1 (stake (S (String.length pre)) (String q (pre +++ x))) = pre.
Proof. cbn [stake sdrop]. apply stake_app. Qed.

Lemma length_snoc pre c : String.length (pre +++ String c "") = S (String.length pre).
Proof. rewrite length_app_s. cbn. lia. Qed.

Lemma dq_end_esc body : forall pre rest f,
  Nat.even (run pre) = true -> String.length body < f ->
  dq_end f (String q (pre +++ esc body +++ String q rest)) (S (String.length pre))
  = Some (S (String.length pre + String.length (esc body))).
Proof.
  induction body as [|a r IH]; intros pre rest f EV L.
  - destruct f as [|f]; [lia|]. cbn [esc String.append dq_end].
    rewrite sdrop_pre. cbn [index_byte]. rewrite Ascii.eqb_refl. cbn [Nat.add].
    rewrite stake_pre. fold (run pre). rewrite <- Nat.negb_even, EV. cbn [negb String.length]. f_equal. lia.
  - cbn [esc]. destruct (Ascii.eqb a q) eqn:EQ.
    + (* an escaped quote: the backslash is stepped over, the quote is seen with an odd run *)
      cbn [String.append].
      rewrite (dq_end_step f _ (S (String.length pre)) bs (String q (esc r +++ String q rest)));
        [|apply sdrop_pre|reflexivity].
      destruct f as [|f]; [cbn in L; lia|]. cbn [dq_end].
      replace (String q (pre +++ String bs (String q (esc r +++ String q rest))))
        with (String q ((pre +++ String bs "") +++ String q (esc r +++ String q rest)))
        by (rewrite app_snoc_s; reflexivity).
      replace (S (S (String.length pre))) with (S (String.length (pre +++ String bs ""))) by (rewrite length_snoc; reflexivity).
      rewrite sdrop_pre. cbn [index_byte]. rewrite Ascii.eqb_refl. cbn [Nat.add].
      rewrite stake_pre. fold (run (pre +++ String bs "")). rewrite run_snoc. rewrite Ascii.eqb_refl.
      rewrite Nat.odd_succ, EV.
      replace (String q ((pre +++ String bs "") +++ String q (esc r +++ String q rest)))
        with (String q (((pre +++ String bs "") +++ String q "") +++ esc r +++ String q rest))
        by (rewrite app_snoc_s; reflexivity).
      replace (S (S (String.length (pre +++ String bs "")))) with (S (String.length ((pre +++ String bs "") +++ String q "")))
        by (rewrite length_snoc; reflexivity).
      rewrite (IH ((pre +++ String bs "") +++ String q "") rest f); [|rewrite run_snoc; reflexivity|cbn in L; lia].
      rewrite !length_snoc. cbn [String.length]. f_equal. lia.
    + destruct (Ascii.eqb a bs) eqn:EB.
      * (* a doubled backslash: both are stepped over, the run grows by two *)
        cbn [String.append].
        rewrite (dq_end_step f _ (S (String.length pre)) bs (String bs (esc r +++ String q rest)));
          [|apply sdrop_pre|reflexivity].
        replace (String q (pre +++ String bs (String bs (esc r +++ String q rest))))
          with (String q ((pre +++ String bs "") +++ String bs (esc r +++ String q rest)))
          by (rewrite app_snoc_s; reflexivity).
        replace (S (S (String.length pre))) with (S (String.length (pre +++ String bs ""))) by (rewrite length_snoc; reflexivity).
        rewrite (dq_end_step f _ (S (String.length (pre +++ String bs ""))) bs (esc r +++ String q rest));
          [|apply sdrop_pre|reflexivity].
        replace (String q ((pre +++ String bs "") +++ String bs (esc r +++ String q rest)))
          with (String q (((pre +++ String bs "") +++ String bs "") +++ esc r +++ String q rest))
          by (rewrite app_snoc_s; reflexivity).
        replace (S (S (String.length (pre +++ String bs "")))) with (S (String.length ((pre +++ String bs "") +++ String bs "")))
          by (rewrite length_snoc; reflexivity).
        rewrite (IH ((pre +++ String bs "") +++ String bs "") rest f);
          [|rewrite !run_snoc; cbn [Ascii.eqb]; rewrite Ascii.eqb_refl; cbn [Nat.even]; exact EV|cbn in L; lia].
        rewrite !length_snoc. cbn [String.length]. f_equal. lia.
      * (* any other byte is stepped over and ends the run *)
        cbn [String.append].
        rewrite (dq_end_step f _ (S (String.length pre)) a (esc r +++ String q rest));
          [|apply sdrop_pre|exact EQ].
        replace (String q (pre +++ String a (esc r +++ String q rest)))
          with (String q ((pre +++ String a "") +++ esc r +++ String q rest))
          by (rewrite app_snoc_s; reflexivity).
        replace (S (S (String.length pre))) with (S (String.length (pre +++ String a ""))) by (rewrite length_snoc; reflexivity).
        rewrite (IH (pre +++ String a "") rest f); [|rewrite run_snoc, EB; reflexivity|cbn in L; lia].
        rewrite length_snoc. cbn [String.length]. f_equal. lia.
Qed.

Lemma srev_rev_app_nil' body : srev (rev_app body "") = body.
Proof. fold (srev body). apply srev_involutive. Qed.

Lemma unquote_dq_esc body :
  pstr body = true -> unquote_dq (String q (esc body +++ String q "")) = Some body.
Proof.
  intro S. unfold unquote_dq, unquote_gen. change (Ascii.eqb q """"%char) with true. cbv iota.
  rewrite (unquote_body_esc true body _ "" "" S).
  - rewrite srev_rev_app_nil'. reflexivity.
  - rewrite length_app_s. cbn. lia.
Qed.

(** the string scanner of parse.Value reads every printable-ASCII string back from its escaped spelling *)
Theorem parse_dquote_escaped body rest :
  pstr body = true ->
  parse_dquote (String q (esc body +++ String q rest)) = POk (body, rest).
Proof.
  intro HS. unfold parse_dquote.
  set (s := String q (esc body +++ String q rest)).
  assert (dq_end (S (String.length s)) s 1 = Some (S (String.length (esc body)))) as D.
  { subst s.
    pose proof (dq_end_esc body "" rest (S (String.length (String q (esc body +++ String q rest))))) as H.
    cbn [String.append] in H. change (String.length "") with O in H.
    rewrite H; [reflexivity|reflexivity|].
    cbn [String.length]. rewrite length_app_s. pose proof (esc_length_le body). cbn [String.length]. lia. }
  rewrite D.
  change (stake (S (S (String.length (esc body)))) s) with (String q (stake (S (String.length (esc body))) (esc body +++ String q rest))).
  replace (S (String.length (esc body))) with (String.length (esc body +++ String q "")) at 1
    by (rewrite length_app_s; simpl; lia).
  replace (esc body +++ String q rest) with ((esc body +++ String q "") +++ rest)
    by (rewrite app_assoc_s; reflexivity).
  rewrite stake_app. rewrite (unquote_dq_esc body HS).
  change (sdrop (S (S (String.length (esc body)))) s) with (sdrop (S (String.length (esc body))) (esc body +++ String q rest)).
  replace (S (String.length (esc body))) with (String.length (esc body +++ String q "")) by (rewrite length_app_s; simpl; lia).
  replace (esc body +++ String q rest) with ((esc body +++ String q "") +++ rest) by (rewrite app_assoc_s; reflexivity).
  rewrite sdrop_app. reflexivity.
Qed.

(* the premise is satisfiable and the statement is about something: a text of quotes and backslashes *)
Example parse_dquote_escaped_example :
  pstr "a""b\c\\""" = true /\
  esc "a""b\c\\""" = "a\""b\\c\\\\\""" /\
  parse_dquote (String q (esc "a""b\c\\""" +++ String q ", next")) = POk ("a""b\c\\""", ", next").
Proof. vm_compute. repeat split. Qed.

(** the fragment with escapes: every document whose texts and keys are printable ASCII (quotes and
    backslashes included), printed compactly with the escaped spelling, is read back *)
Theorem json_escaped_roundtrip cfg v :
  c_array cfg = true -> c_dq cfg = true -> c_object cfg = true ->
  wf pstr v = true ->
  parse_value_with_config cfg (print esc v) = POk (data v).
Proof.
  intros Ha Hd Ho W. apply (json_fragment_roundtrip esc pstr); try assumption.
  intros body rest Hb. apply parse_dquote_escaped. exact Hb.
Qed.

Example json_escaped_example :
  let v := JObj [("k""ey\", JArr [JStr "say ""hi"" \o/"; JStr "\\"; JInt (-7)]); ("a", JStr """")] in
  wf pstr v = true /\
  print esc v = "{""k\""ey\\"":[""say \""hi\"" \\o/"",""\\\\"",-7],""a"":""\""""}" /\
  parse_value_with_config DefaultConfig (print esc v) = POk (data v).
Proof. vm_compute. repeat split; reflexivity. Qed.
