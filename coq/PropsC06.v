(* PropsC06.v — C06: Struct -> Config -> struct is the identity.
   Statements only; proofs are in ProofsReify.v.

   PARTIAL: proved is the leaf of the round trip - a bool, a string, a signed or unsigned
   integer of any width up to 64 bits and a float64 that is no NaN, stored as normalization
   stores it, converts back to exactly the same value.  NOT proved: the round trip of whole
   struct values (tags, inline, nesting, collections), float32 and durations (the latter
   travel as text through time.Duration.String / time.ParseDuration, oracles supplied by the
   harness).  They are decided by the correspondence run (model of Merge-from-struct and
   Unpack against the implementation, and the round-trip equality on the implementation's
   own results).  F15 is the known deviation. *)
From Ucfg Require Import Base ParseInt Consts Field Tree PathOps Merge OTree F64 Conv Reify ProofsReify.
Local Open Scope Z_scope.

Theorem c06_primitive_roundtrip_partial : forall ft dur k c, fits k c -> conv ft dur k (stored c) = Ok c.
Proof. exact prim_roundtrip. Qed.
Print Assumptions c06_primitive_roundtrip_partial.

(* the hypothesis is met by the extreme values of the widest kinds *)
Theorem c06_fits_extremes :
  fits (KInt 64) (CI (- 2 ^ 63)) /\ fits (KInt 64) (CI (2 ^ 63 - 1)) /\ fits (KUint 64) (CU (2 ^ 64 - 1))
  /\ fits (KInt 8) (CI (-128)) /\ fits KString (CS "${x}.,{}").
Proof. exact fits_extremes. Qed.
Print Assumptions c06_fits_extremes.
