(* PropsC06.v *)
From Ucfg Require Import Base ParseInt Consts Field Tree PathOps Merge OTree F64 Conv Reify.
