(* PropsC06.v — C06: Struct -> Config -> struct is the identity.
   Statements only; proofs are in ProofsReify.v.

   PARTIAL.  Proved: EVERY struct whose exported fields, with distinct names, are of the kinds
   bool, string, signed and unsigned integers of every width up to 64 bits, float64 (no NaN), or
   are again such structs - to any nesting depth and any width - merged into an empty config and
   unpacked into a zero value of the same type comes back identical (Normalize.v composed with
   Reify.v; c06_nested_struct_roundtrip, induction over the nesting depth); the flat case with
   its own statement; and the leaf of that round trip.
   NOT proved: config tags (renames, dotted names, inline, ignore), pointers, collections,
   float32 and durations (the latter travel as text through time.Duration.String /
   time.ParseDuration, oracles supplied by the harness).  They are decided by the correspondence
   run (model of Merge-from-struct and Unpack against the implementation, and the round-trip
   equality on the implementation's own results).  F15 is the known deviation. *)
From Ucfg Require Import Base ParseInt Consts Field Tree PathOps Merge OTree F64 Conv VarParse Normalize Reify
     ProofsNormData ProofsReify ProofsRoundStruct ProofsRoundNested.
Local Open Scope Z_scope.

Theorem c06_nested_struct_roundtrip : forall o ro n fs fuel,
  r_p ro = n_p o -> p_sep (n_p o) = "" -> n_varexp o = false ->
  Forall (fld_ok o (RT o n)) fs -> NoDup (map fkey fs) -> (need n <= fuel)%nat ->
  let x := struct_side fs in
  exists cfg, normalize_value o (s_g x) = Ok (cfg, None) /\
              reify_struct (S (S fuel)) ro (s_t x) (s_z x) cfg = Ok (s_v x).
Proof. exact nested_struct_roundtrip. Qed.
Print Assumptions c06_nested_struct_roundtrip.

Theorem c06_nested_struct_example :
  let o := {| n_p := {| p_sep := ""; p_maxIdx := 1024; p_numKeys := false; p_escape := false |};
              n_varexp := false; n_m := {| m_h := 0%N; m_ft := None |} |} in
  let ro := {| r_p := n_p o; r_h := 0%N; r_vo := {| vo_dur := fun _ => None |}; r_ft := [] |} in
  let srv := struct_side [("Port", prim_side (KInt 64) (CI 8080)); ("Name", prim_side KString (CS "a.b,${c}"))] in
  let deep := struct_side [("In", struct_side [("V", prim_side (KUint 8) (CU 255)); ("W", prim_side (KInt 8) (CI (-128)))])] in
  let top := [("Srv", srv); ("Debug", prim_side KBool (CB true)); ("Deep", deep)] in
  Forall (fld_ok o (RT o 2)) top /\ NoDup (map fkey top) /\
  (exists cfg, normalize_value o (s_g (struct_side top)) = Ok (cfg, None) /\
               reify_struct 10 ro (s_t (struct_side top)) (s_z (struct_side top)) cfg = Ok (s_v (struct_side top))) /\
  s_v (struct_side top)
  = GStructV [GStructV [GP (CI 8080); GP (CS "a.b,${c}")]; GP (CB true); GStructV [GStructV [GP (CU 255); GP (CI (-128))]]].
Proof. exact nested_roundtrip_example. Qed.
Print Assumptions c06_nested_struct_example.

Theorem c06_flat_struct_roundtrip_partial : forall o ro f2 fs,
  r_p ro = n_p o -> p_sep (n_p o) = "" -> n_varexp o = false ->
  Forall (field_ok o) fs -> NoDup (map key_of fs) ->
  exists cfg, normalize_value o (gstruct fs) = Ok (cfg, None) /\
              reify_struct (S (S (S f2))) ro (TStruct (tfields fs)) (GStructV (zfields fs)) cfg
              = Ok (GStructV (vfields fs)).
Proof. exact flat_struct_roundtrip. Qed.
Print Assumptions c06_flat_struct_roundtrip_partial.

Theorem c06_flat_struct_example :
  let o := {| n_p := {| p_sep := ""; p_maxIdx := 1024; p_numKeys := false; p_escape := false |};
              n_varexp := false; n_m := {| m_h := 0%N; m_ft := None |} |} in
  let fs := [ {| f_go := "Name"; f_kind := KString; f_val := CS "a.b,${c}" |};
              {| f_go := "Max"; f_kind := KUint 64; f_val := CU 18446744073709551615 |};
              {| f_go := "Min"; f_kind := KInt 8; f_val := CI (-128) |};
              {| f_go := "On"; f_kind := KBool; f_val := CB true |};
              {| f_go := "Ratio"; f_kind := KFloat64; f_val := CF 4602678819172646912 |} ] in
  Forall (field_ok o) fs /\ NoDup (map key_of fs).
Proof. exact flat_struct_example. Qed.
Print Assumptions c06_flat_struct_example.

Theorem c06_primitive_roundtrip_partial : forall ft dur k c, fits k c -> conv ft dur k (stored c) = Ok c.
Proof. exact prim_roundtrip. Qed.
Print Assumptions c06_primitive_roundtrip_partial.

(* the hypothesis is met by the extreme values of the widest kinds *)
Theorem c06_fits_extremes :
  fits (KInt 64) (CI (- 2 ^ 63)) /\ fits (KInt 64) (CI (2 ^ 63 - 1)) /\ fits (KUint 64) (CU (2 ^ 64 - 1))
  /\ fits (KInt 8) (CI (-128)) /\ fits KString (CS "${x}.,{}").
Proof. exact fits_extremes. Qed.
Print Assumptions c06_fits_extremes.
