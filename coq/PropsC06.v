(* PropsC06.v — C06: Struct -> Config -> struct is the identity.
   Statements only; proofs are in ProofsReify.v.

   PARTIAL.  Proved: EVERY flat struct - any number of exported fields of the kinds bool, string,
   signed and unsigned integers of every width up to 64 bits, float64 (no NaN), with distinct
   names - merged into an empty config and unpacked into a zero value of the same type comes
   back identical (Normalize.v composed with Reify.v); and the leaf of that round trip.
   NOT proved: config tags (renames, dotted names, inline, ignore), nested structs, pointers,
   collections, float32 and durations (the latter travel as text through
   time.Duration.String / time.ParseDuration, oracles supplied by the harness).  They are
   decided by the correspondence run (model of Merge-from-struct and Unpack against the
   implementation, and the round-trip equality on the implementation's own results).  F15 is
   the known deviation. *)
From Ucfg Require Import Base ParseInt Consts Field Tree PathOps Merge OTree F64 Conv VarParse Normalize Reify
     ProofsNormData ProofsReify ProofsRoundStruct.
Local Open Scope Z_scope.

Theorem c06_flat_struct_roundtrip_partial : forall o ro f2 fs,
  r_p ro = n_p o -> p_sep (n_p o) = "" -> n_varexp o = false ->
  Forall (field_ok o) fs -> NoDup (map key_of fs) ->
  exists cfg, normalize_value o (gstruct fs) = Ok (cfg, None) /\
              reify_struct (S (S (S f2))) ro (TStruct (tfields fs)) (GStructV (zfields fs)) cfg
              = Ok (GStructV (vfields fs)).
Proof. exact flat_struct_roundtrip. Qed.
Print Assumptions c06_flat_struct_roundtrip_partial.

Theorem c06_flat_struct_example :
  let o := {| n_p := {| p_sep := ""; p_maxIdx := 1024; p_numKeys := false; p_escape := false |};
              n_varexp := false; n_m := {| m_h := 0%N; m_ft := None |} |} in
  let fs := [ {| f_go := "Name"; f_kind := KString; f_val := CS "a.b,${c}" |};
              {| f_go := "Max"; f_kind := KUint 64; f_val := CU 18446744073709551615 |};
              {| f_go := "Min"; f_kind := KInt 8; f_val := CI (-128) |};
              {| f_go := "On"; f_kind := KBool; f_val := CB true |};
              {| f_go := "Ratio"; f_kind := KFloat64; f_val := CF 4602678819172646912 |} ] in
  Forall (field_ok o) fs /\ NoDup (map key_of fs).
Proof. exact flat_struct_example. Qed.
Print Assumptions c06_flat_struct_example.

Theorem c06_primitive_roundtrip_partial : forall ft dur k c, fits k c -> conv ft dur k (stored c) = Ok c.
Proof. exact prim_roundtrip. Qed.
Print Assumptions c06_primitive_roundtrip_partial.

(* the hypothesis is met by the extreme values of the widest kinds *)
Theorem c06_fits_extremes :
  fits (KInt 64) (CI (- 2 ^ 63)) /\ fits (KInt 64) (CI (2 ^ 63 - 1)) /\ fits (KUint 64) (CU (2 ^ 64 - 1))
  /\ fits (KInt 8) (CI (-128)) /\ fits KString (CS "${x}.,{}").
Proof. exact fits_extremes. Qed.
Print Assumptions c06_fits_extremes.
