(* PropsC04.v — C04: a successful Unpack returns only values that satisfy every declared validator. *)
From Ucfg Require Import Base ParseInt Consts Field Tree PathOps Merge OTree F64 Conv Reify.
