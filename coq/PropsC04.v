(* PropsC04.v — C04: a successful Unpack returns only values that satisfy every declared
   validator.  Statements only; proofs are in ProofsReify.v.

   PARTIAL.  Proved: for EVERY struct type built from primitive fields and struct fields to any
   depth (any names, ignore tags and unexported fields anywhere, any validate tags on the primitive
   fields), every pre-filled value and every configuration, the result of a successful Unpack
   passes the deep re-validation rec_validate - the function the correspondence check applies to
   what the implementation returned: each exported, non-ignored primitive field at each depth
   satisfies every validator of its tag, whether its value was converted from a setting or was
   there before (c04_nested_struct_result_is_valid; the flat case with the per-field reading is
   c04_flat_struct_result_is_valid_partial); the soundness of a validator run (success means
   every validator accepted, a failing validator is never masked); the meaning of the individual
   validators on integers and strings.  NOT proved: the same statement through pointers,
   collections and inline fields (the model applies an inline field's validate tag since the F37
   repair); it is decided by the correspondence run, where prop_holds re-validates the ENTIRE
   value the implementation returned with rec_validate.
   Not modelled: Validate() methods and InitDefaults (exercised by the CHooked cases of the
   stream on the implementation only: vRange/vOuter with Validate hooks, vInit with InitDefaults
   on primitive types under validate tags). *)
From Ucfg Require Import Base ParseInt Consts Field Tree PathOps Merge OTree F64 Conv Reify ProofsReify ProofsValid ProofsValidNested.
Local Open Scope Z_scope.

Theorem c04_nested_struct_result_is_valid : forall f o fs vs cfg g,
  Forall plain_field fs ->
  reify_struct f o (TStruct fs) (GStructV vs) cfg = Ok g ->
  rec_validate (r_vo o) (TStruct fs) g [] = Ok tt.
Proof. exact nested_struct_validated. Qed.
Print Assumptions c04_nested_struct_result_is_valid.

Theorem c04_nested_struct_example :
  let o := {| r_p := {| p_sep := "."; p_maxIdx := 1024; p_numKeys := false; p_escape := false |}; r_h := 0%N;
              r_vo := {| vo_dur := fun _ => None |}; r_ft := [] |} in
  let inner := TStruct [("Port", "port", "min=1,max=65535", TPrim (KInt 64)); ("Name", "", "nonzero", TPrim KString)] in
  let t := [("Srv", "srv", "", inner); ("Retries", "", "positive", TPrim (KInt 64)); ("skip", "", "min=99", TPrim (KInt 64))] in
  Forall plain_field t /\
  reify_struct 8 o (TStruct t) (GStructV [GStructV [GP (CI 0); GP (CS "n")]; GP (CI 3); GP (CI 0)])
               (VSub [("srv", ("srv", VSub [("port", ("port", VUint 8080))] None))] None)
  = Ok (GStructV [GStructV [GP (CI 8080); GP (CS "n")]; GP (CI 3); GP (CI 0)])
  /\ (exists r p, reify_struct 8 o (TStruct t) (GStructV [GStructV [GP (CI 0); GP (CS "n")]; GP (CI 3); GP (CI 0)]) (VSub [] None) = Err r p).
Proof. exact nested_validated_example. Qed.
Print Assumptions c04_nested_struct_example.

Theorem c04_flat_struct_result_is_valid_partial : forall f2 o fs vs cfg g,
  Forall prim_field fs -> List.length vs = List.length fs ->
  reify_struct (S (S (S f2))) o (TStruct fs) (GStructV vs) cfg = Ok g ->
  exists r, g = GStructV r /\ Forall2 (field_valid (r_vo o)) fs r.
Proof. exact flat_struct_validated. Qed.
Print Assumptions c04_flat_struct_result_is_valid_partial.

Theorem c04_flat_struct_example :
  let o := {| r_p := {| p_sep := "."; p_maxIdx := 1024; p_numKeys := false; p_escape := false |}; r_h := 0%N;
              r_vo := {| vo_dur := fun _ => None |}; r_ft := [] |} in
  let t := [("Port", "port", "min=1,max=65535", TPrim (KInt 64)); ("Name", "", "nonzero", TPrim KString)] in
  reify_struct 5 o (TStruct t) (GStructV [GP (CI 0); GP (CS "n")]) (VSub [("port", ("port", VUint 8080))] None)
  = Ok (GStructV [GP (CI 8080); GP (CS "n")])
  /\ (exists r p, reify_struct 5 o (TStruct t) (GStructV [GP (CI 0); GP (CS "n")]) (VSub [] None) = Err r p)
  /\ (exists r p, reify_struct 5 o (TStruct t) (GStructV [GP (CI 0); GP (CS "n")]) (VSub [("port", ("port", VUint 70000))] None) = Err r p).
Proof. exact flat_validated_example. Qed.
Print Assumptions c04_flat_struct_example.

Theorem c04_validator_run_sound_partial : forall vo ts w,
  run_validators vo ts w = Ok tt -> Forall (fun t => run_vtag vo t w = Ok tt) ts.
Proof. exact run_validators_sound. Qed.
Print Assumptions c04_validator_run_sound_partial.

Theorem c04_failing_validator_rejects_partial : forall vo ts w t r p,
  In t ts -> run_vtag vo t w = Err r p -> run_validators vo ts w <> Ok tt.
Proof. exact failing_validator_rejects. Qed.
Print Assumptions c04_failing_validator_rejects_partial.

Theorem c04_converted_value_is_validated_partial : forall f o th vts val k g,
  reify_primitive (S f) (o, th, vts) val (TPrim k) = Ok g -> is_nil (Some val) = false ->
  exists c, g = GP c /\ conv (r_ft o) (vo_dur (r_vo o)) k val = Ok c /\
            Forall (fun t => run_vtag (r_vo o) t (WPrim c) = Ok tt) vts.
Proof. exact reify_primitive_validated. Qed.
Print Assumptions c04_converted_value_is_validated_partial.

Theorem c04_default_is_validated_partial : forall f o cfg goname ctag vtagtext ft fr x vr r vts,
  struct_loop f o cfg ((goname, ctag, vtagtext, ft) :: fr) (x :: vr) = Ok r ->
  untouched (goname, ctag, vtagtext, ft) = false ->
  unmentioned o cfg (goname, ctag, vtagtext, ft) ->
  parse_vtags vtagtext = Some vts ->
  rec_validate (r_vo o) ft x vts = Ok tt.
Proof. exact kept_field_is_validated. Qed.
Print Assumptions c04_default_is_validated_partial.

Theorem c04_positive_means_nonnegative : forall i, validate_positive (WPrim (CI i)) = Ok tt <-> 0 <= i.
Proof. exact positive_int_means_nonneg. Qed.
Print Assumptions c04_positive_means_nonnegative.

Theorem c04_nonzero_int : forall i, validate_nonzero (WPrim (CI i)) = Ok tt <-> i <> 0.
Proof. exact nonzero_int_means_nonzero. Qed.
Print Assumptions c04_nonzero_int.

Theorem c04_nonzero_string : forall s, validate_nonzero (WPrim (CS s)) = Ok tt <-> s <> "".
Proof. exact nonzero_string_means_nonempty. Qed.
Print Assumptions c04_nonzero_string.

Theorem c04_min_bound : forall vo p b i,
  parse_int0 p = Some b -> (validate_minmax vo true p (WPrim (CI i)) = Ok tt <-> b <= i).
Proof. exact min_int_means_bound. Qed.
Print Assumptions c04_min_bound.

Theorem c04_max_bound : forall vo p b i,
  parse_int0 p = Some b -> (validate_minmax vo false p (WPrim (CI i)) = Ok tt <-> i <= b).
Proof. exact max_int_means_bound. Qed.
Print Assumptions c04_max_bound.

Theorem c04_required_rejects_nil_pointer : validate_required WPtrNil = Err ERequired "".
Proof. exact required_rejects_nil_pointer. Qed.
Print Assumptions c04_required_rejects_nil_pointer.

(* since fix F84 the emptiness checks judge the value at the end of a chain of non-nil pointers of
   ANY length ([ptrs n w]: n pointers around w), like the numeric validators *)
Theorem c04_nonzero_string_behind_pointers : forall n s,
  validate_nonzero (ptrs n (WPrim (CS s))) = Ok tt <-> s <> "".
Proof. exact nonzero_string_behind_pointers. Qed.
Print Assumptions c04_nonzero_string_behind_pointers.

Theorem c04_required_list_behind_pointers : forall n isnil len,
  validate_required (ptrs (S n) (WSlice isnil len)) = Ok tt <-> (isnil = false /\ len <> 0%nat).
Proof. exact required_list_behind_pointers. Qed.
Print Assumptions c04_required_list_behind_pointers.
