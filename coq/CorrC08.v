(* CorrC08.v — C08 shares the evaluation machinery of C02. *)
From Ucfg Require Export CorrC02.
