(* CorrC19.v — repeated flags accumulate like sequential merges with the flag's options. *)
From Ucfg Require Export Base ParseInt Consts Field Tree PathOps Merge OTree F64 ParseValue VarParse Normalize Ops Flags.

Record fstep := { fs_arg : string; fs_ret : obs; fs_err : obs; fs_cfg : value;
                  fs_ref : obs }.     (* fs_ref: the reference fold after this argument: OV tree or its first error *)

Inductive case :=
| CFlags (o : nopts) (autoBool : bool) (init : value) (steps : list fstep)
| CSticky (first : string) (later : list string).
    (* the collector behind the flags, used directly: the text of the first failure, and what every
       later Add returned / Error() said afterwards *)

(* a plain (non-ucfg) error carries its message in the path field: the model does not
   predict message texts *)
Definition eobs_eqb (a b : obs) : bool :=
  match a, b with
  | OE EOther _, OE EOther _ => true
  | _, _ => obs_eqb a b
  end.

Fixpoint steps_agree (o : nopts) (autoBool : bool) (st : fstate) (ss : list fstep) : bool :=
  match ss with
  | [] => true
  | s :: r =>
    let '(ret, st') := flag_set o (n_m o) autoBool st (fs_arg s) in
    match ret with
    | OSkip => true
    | _ =>
      eobs_eqb ret (fs_ret s) && eobs_eqb (f_err st') (fs_err s) && value_eqb (f_cfg st') (fs_cfg s)
      && steps_agree o autoBool st' r
    end
  end.

Definition model_agrees (c : case) : bool :=
  match c with
  | CFlags o ab init ss => steps_agree o ab {| f_cfg := init; f_err := OV VNil |} ss
  | CSticky _ _ => true
  end.

(* the property on the implementation's observations: while the reference fold has not
   failed the collected config equals it and no error is recorded; from the first failing
   argument on, the recorded error and the config no longer change *)
Fixpoint follows_ref (prev_cfg : value) (failed : option obs) (ss : list fstep) : bool :=
  match ss with
  | [] => true
  | s :: r =>
    match failed with
    | Some e => obs_eqb (fs_err s) e && value_eqb (fs_cfg s) prev_cfg && follows_ref prev_cfg failed r
    | None =>
      match fs_ref s with
      | OV t => no_err (fs_err s) && value_eqb (fs_cfg s) t && follows_ref (fs_cfg s) None r
      | OE re rp =>
        (* the reference failed here: the collector must record an error of that kind *)
        match fs_err s with
        | OE e _ => ereason_eqb e re && value_eqb (fs_cfg s) prev_cfg && follows_ref prev_cfg (Some (fs_err s)) r
        | _ => false
        end
      | _ => false
      end
    end
  end.

Definition prop_holds (c : case) : bool :=
  match c with
  | CFlags o ab init ss =>
    follows_ref init None ss && forallb (fun s => match fs_ret s with OPanic => false | _ => true end) ss
  | CSticky first later => forallb (String.eqb first) later
  end.

Definition signature (c : case) : N := 0%N.

Definition verdict (c : case) : N :=
  ((if model_agrees c then 0 else 1) + (if prop_holds c then 0 else 2))%N.

Fixpoint run_cases (i : N) (cs : list case) : list (N * N * N) :=
  match cs with
  | [] => []
  | c :: r =>
    let v := verdict c in
    if (v =? 0)%N then run_cases (i + 1)%N r
    else (i, v, signature c) :: run_cases (i + 1)%N r
  end.
