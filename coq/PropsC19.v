(* PropsC19.v — C19: repeated flags accumulate like sequential merges with the flag's options.
   Statements only; proofs are in ProofsFlags.v. *)
From Ucfg Require Import Base ParseInt Consts Field Tree PathOps Merge F64 ParseValue VarParse Normalize Ops Flags ProofsFlags.

(* The collector after a sequence of Set calls is the left fold of single steps ... *)
Theorem c19_fold : forall o co ab st a args,
  run_flags o co ab st (a :: args) = run_flags o co ab (snd (flag_set o co ab st a)) args.
Proof. exact run_flags_cons. Qed.
Print Assumptions c19_fold.

(* ... where a step that succeeds merges the setting, created with the flag's options [o],
   into the collected config with the collector's options [co] (the flag passes its own) *)
Theorem c19_step_is_merge : forall o co ab st arg c m,
  no_err (f_err st) = true ->
  load_arg o ab arg = Some (Ok c) ->
  merge_full co (Some (f_cfg st)) c = Ok m ->
  flag_set o co ab st arg = (OV VNil, {| f_cfg := m; f_err := OV VNil |}).
Proof. exact flag_set_merges. Qed.
Print Assumptions c19_step_is_merge.

(* the setting of "key=value" is {key: parse.Value(value)} normalized with the flag's options;
   the key is everything before the FIRST '=' *)
Theorem c19_key_value : forall o ab key v,
  index_byte key "="%char = None -> v <> "" ->
  load_arg o ab (key +++ String "="%char v) =
  match parse_value_with_config DefaultConfig v with
  | POk x => Some (normalize o (GMap true [(KStr key, pv_to_gval x)]))
  | PErr _ => Some (Err EOther "!raw")
  | PPanic => Some Panic
  | PUnknown => Some OutOfModel
  end.
Proof. exact key_value_split. Qed.
Print Assumptions c19_key_value.

(* a key with an empty value is ignored *)
Theorem c19_empty_value_ignored : forall o co ab st key,
  index_byte key "="%char = None -> flag_set o co ab st (key +++ "=") = (OV VNil, st).
Proof. exact empty_value_ignored. Qed.
Print Assumptions c19_empty_value_ignored.

(* a bare key means true *)
Theorem c19_bare_key_true : forall o key,
  index_byte key "="%char = None ->
  load_arg o true key = Some (normalize o (GMap true [(KStr key, GBool true)])).
Proof. exact bare_key_is_true. Qed.
Print Assumptions c19_bare_key_true.

(* the first failing argument is recorded ... *)
Theorem c19_first_error_recorded : forall o co ab st arg e p,
  no_err (f_err st) = true -> load_arg o ab arg = Some (Err e p) ->
  flag_set o co ab st arg = (OE e p, {| f_cfg := f_cfg st; f_err := OE e p |}).
Proof. exact flag_set_records_first_error. Qed.
Print Assumptions c19_first_error_recorded.

(* ... and after it the collector keeps reporting that error: no sequence of further
   arguments changes the error or the config *)
Theorem c19_error_sticky : forall o co ab args st,
  no_err (f_err st) = false -> run_flags o co ab st args = st.
Proof. exact run_flags_sticky. Qed.
Print Assumptions c19_error_sticky.

Example c19_ex_append :   (* AppendValues: a=[1,2] then a=[3] gives [1,2,3] *)
  let o := {| n_p := {| p_sep := "."; p_maxIdx := 1024; p_numKeys := false; p_escape := false |};
              n_varexp := false; n_m := plain_opts hAppend |} in
  f_cfg (run_flags o (n_m o) true {| f_cfg := empty_cfg; f_err := OV VNil |} ["a=[1,2]"; "a=[3]"])
  = VSub [("a", ("a", VSub [] (Some [("0", VUint 1); ("1", VUint 2); ("2", VUint 3)])))] None.
Proof. vm_compute. reflexivity. Qed.
