(* PropsC19.v — C19: repeated flags accumulate like sequential merges. *)
From Ucfg Require Import Base ParseInt Consts Field Tree PathOps Merge F64 ParseValue VarParse Normalize Ops Flags.
