(* PropsC07.v — C07: no input makes the library panic, hang or allocate without bound.
   Statements only; proofs are in ProofsParse.v, ProofsTotal.v and ProofsTree.v.

   In the model a run that would panic ends in the distinguished result Panic / PPanic; the
   theorems say that this result is unreachable, for ALL inputs, in the modelled entry
   points: parse.Value / ValueWithConfig under every configuration, and the path-addressed
   getters, setters and Remove for every name, index, tree and MaxIdx; and they bound the
   growth of a list under any single write.  PARTIAL with respect to the property: the three
   format loaders (third-party decoders), the splice lexer goroutine, flag handling and
   Unpack into arbitrary target types are not modelled; for those, and for hangs and
   goroutine leaks everywhere, the check is the outcome class of every call on the
   implementation (CTotal cases).  That the models behave as the implementation on exactly
   these inputs is checked by the correspondence run (CHist7, CParse7 cases). *)
From Ucfg Require Import Base ParseInt Consts Field Tree PathOps F64 ParseValue
     ProofsTree ProofsParse ProofsTotal.
Local Open Scope Z_scope.

Theorem c07_parser_never_panics : forall cfg content, parse_value_with_config cfg content <> PPanic.
Proof. exact parse_never_panics. Qed.
Print Assumptions c07_parser_never_panics.

Theorem c07_getters_never_panic : forall o rp name idx root, get_value o rp name idx root <> Panic.
Proof. exact get_value_no_panic. Qed.
Print Assumptions c07_getters_never_panic.

Theorem c07_setters_never_panic : forall o rp name idx ov val root,
  set_value o rp name idx ov val root <> Panic.
Proof. exact set_value_no_panic. Qed.
Print Assumptions c07_setters_never_panic.

Theorem c07_remove_never_panics : forall o rp name idx root, remove_value o rp name idx root <> Panic.
Proof. exact remove_value_no_panic. Qed.
Print Assumptions c07_remove_never_panics.

(* a write at ANY explicit index leaves the list no longer than max(old length, MaxIdx + 1) *)
Theorem c07_explicit_index_growth_bound : forall mx i pp d a ov v d' a',
  set_field mx (FIdx i) pp (VSub d a) ov v = Ok (VSub d' a') ->
  lenZ (arr_of a') <= Z.max (lenZ (arr_of a)) (mx + 1).
Proof. exact explicit_index_growth. Qed.
Print Assumptions c07_explicit_index_growth_bound.

(* ... and an index that came out of a path never exceeds MaxIdx in the first place *)
Theorem c07_parsed_index_growth_bound : forall mx input sep maxIdx nk esc i pp d a ov v d' a',
  In (FIdx i) (parse_path input sep maxIdx nk esc) ->
  set_field mx (FIdx i) pp (VSub d a) ov v = Ok (VSub d' a') ->
  lenZ (arr_of a') <= Z.max (lenZ (arr_of a)) (maxIdx + 1).
Proof. exact parsed_index_growth. Qed.
Print Assumptions c07_parsed_index_growth_bound.

(* non-vacuity: the huge index that used to exhaust memory is an error, the last allowed index
   is a write *)
Theorem c07_examples :
  set_value {| p_sep := "."; p_maxIdx := 8; p_numKeys := false; p_escape := false |} "" "" (2 ^ 62) None (VInt 1) empty_cfg
  = Err EIndexOutOfRange ""
  /\ (exists t, set_value {| p_sep := "."; p_maxIdx := 8; p_numKeys := false; p_escape := false |} "" "" 8 None (VInt 1) empty_cfg = Ok t)
  /\ get_value {| p_sep := "."; p_maxIdx := 8; p_numKeys := false; p_escape := false |} "" "" (- 2 ^ 63) empty_cfg
     = Err EMissing "-9223372036854775808".
Proof. exact total_examples. Qed.
Print Assumptions c07_examples.
