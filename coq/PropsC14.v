(* PropsC14.v — C14: every failure is a typed error that names the offending setting.
   Statements only; proofs are in ProofsReify.v.

   PARTIAL.  In the model every failure is a value  Err reason path  with reason drawn from the
   enumeration ereason (Base.v), so "typed, with a non-nil Reason" holds by construction and
   the translator harness/consts.go ties the enumeration to the Err* variables of error.go.
   The Unpack model builds the path bottom-up: the site of a failure raises with the empty
   path and every enclosing list entry, map entry and struct field puts its (stored) name in
   front.  Proved: a conversion that fails at a struct field is reported under exactly the path
   of the setting it was read from; enclosing levels compose by putting their names in front;
   a missing setting is reported with the full requested path (getters), at the field where
   the walk stopped; a failed conversion keeps the reason of the conversion; a list of the wrong
   length for a fixed-size array is ErrArraySizeMismatch.  NOT in the model: the text of the
   message and the source inside it.  Decided on the implementation by the correspondence run:
   one fault is injected at every setting of valid (configuration, type) pairs; the returned
   error must be a ucfg.Error whose Path() equals the model's path and the path of exactly that
   setting, and whose message contains that path and the source it was loaded from. *)
From Ucfg Require Import Base ParseInt Consts Field Tree PathOps Merge OTree F64 Conv Reify ProofsReify.

Theorem c14_struct_field_error_names_setting_partial :
  forall f2 o cfg goname ctag vtagtext k fr x vr vts pth v r p0,
  negb (is_upper_first goname) || tag_ignore ctag = false ->
  parse_vtags vtagtext = Some vts -> tag_squash ctag = false ->
  get_path "" (opts_path (r_p o) (if String.eqb (tag_name ctag) "" then lower_ascii_str goname else tag_name ctag)) cfg
    = Ok (Some (pth, v)) ->
  is_nil (Some v) = false ->
  conv (r_ft o) (vo_dur (r_vo o)) k v = Err r p0 ->
  struct_loop (S (S f2)) o cfg ((goname, ctag, vtagtext, TPrim k) :: fr) (x :: vr)
  = in_seg pth (Err r p0).
Proof. exact struct_field_error_names_setting. Qed.
Print Assumptions c14_struct_field_error_names_setting_partial.

Theorem c14_enclosing_names_compose_partial : forall A s1 s2 (r : res A), s1 <> "" -> s2 <> "" ->
  in_seg s1 (in_seg s2 r) = in_seg (s1 +++ "." +++ s2) r.
Proof. exact @in_seg_compose. Qed.
Print Assumptions c14_enclosing_names_compose_partial.

(* a negative port in the second entry of a list of structs with a dotted tag *)
Theorem c14_error_path_example :
  let o := {| r_p := {| p_sep := "."; p_maxIdx := 1024; p_numKeys := false; p_escape := false |}; r_h := 0%N;
              r_vo := {| vo_dur := fun _ => None |}; r_ft := [] |} in
  let t := TStruct [("Srv", "srv", "", TSlice (TStruct [("Port", "net.port", "", TPrim (KUint 16))]))] in
  unpack o (TPtr t) (GPtr (zero t))
    (VSub [("srv", ("srv", VSub [] (Some [("0", VSub [("net", ("net", VSub [("port", ("port", VUint 80))] None))] None);
                                           ("1", VSub [("net", ("net", VSub [("port", ("port", VInt (-1)))] None))] None)])))] None)
  = Err ENegative "srv.1.net.port".
Proof. exact error_path_example. Qed.
Print Assumptions c14_error_path_example.

Theorem c14_missing_setting_names_full_path_partial : forall o rp name idx root,
  get_path rp (opts_path_idx o name idx) root = Ok None ->
  get_value o rp name idx root = Err EMissing (path_of rp (path_str (opts_path_idx o name idx) (p_sep o))).
Proof. exact get_value_missing_names_path. Qed.
Print Assumptions c14_missing_setting_names_full_path_partial.

(* a walk that stops names the path walked so far: the path of the node it stands on and the
   name that is missing there (pp is that node's path) - also when the last step runs into a
   value that holds no settings *)
Theorem c14_walk_stops_at_missing_field_partial : forall rp f f2 rest pp cur,
  get_field f pp cur = Ok None ->
  get_path_go rp (f :: f2 :: rest) pp cur = Err EMissing (path_of pp (field_str f)).
Proof. exact get_path_inner_missing. Qed.
Print Assumptions c14_walk_stops_at_missing_field_partial.

Theorem c14_last_step_names_full_path_partial : forall rp f pp cur r s,
  get_field f pp cur = Err r s -> get_path_go rp [f] pp cur = Err EMissing (path_of pp (field_str f)).
Proof. exact get_path_last_field_missing. Qed.
Print Assumptions c14_last_step_names_full_path_partial.

Theorem c14_conversion_failure_keeps_reason_partial : forall f o th vts val k r p,
  is_nil (Some val) = false -> conv (r_ft o) (vo_dur (r_vo o)) k val = Err r p ->
  reify_primitive (S f) (o, th, vts) val (TPrim k) = Err r p.
Proof. exact reify_primitive_error_is_conv_error. Qed.
Print Assumptions c14_conversion_failure_keeps_reason_partial.

Theorem c14_wrong_list_length_partial : forall f fo n e val arr,
  cast_arr val = Ok arr -> List.length arr <> n ->
  reify_value (S f) fo (TArray n e) val = Err EArraySizeMismatch "".
Proof. exact array_length_mismatch_is_error. Qed.
Print Assumptions c14_wrong_list_length_partial.
