(* PropsC14.v — C14: every failure is a typed error that names the offending setting.
   Statements only; proofs are in ProofsReify.v.

   PARTIAL.  In the model every failure is a value  Err reason path  with reason drawn from the
   enumeration ereason (Base.v), so "typed, with a non-nil Reason" holds by construction and
   the translator harness/consts.go ties the enumeration to the Err* variables of error.go.
   Proved: a missing setting is reported with the full requested path (getters), at the
   field where the walk stopped; a failed conversion keeps the reason of the conversion; a
   list of the wrong length for a fixed-size array is EArraySizeMismatch.  NOT in the model:
   the text of the message and the path and source inside it for Unpack failures (Reify.v
   carries no paths).  That part is decided on the implementation by the correspondence run:
   one fault is injected at every setting of valid (configuration, type) pairs and the
   returned error must be a ucfg.Error whose message contains the dotted path of exactly
   that setting and the source it was loaded from. *)
From Ucfg Require Import Base ParseInt Consts Field Tree PathOps Merge OTree F64 Conv Reify ProofsReify.

Theorem c14_missing_setting_names_full_path_partial : forall o rp name idx root,
  get_path rp (opts_path_idx o name idx) root = Ok None ->
  get_value o rp name idx root = Err EMissing (path_of rp (path_str (opts_path_idx o name idx) (p_sep o))).
Proof. exact get_value_missing_names_path. Qed.
Print Assumptions c14_missing_setting_names_full_path_partial.

Theorem c14_walk_stops_at_missing_field_partial : forall rp f f2 rest pp cur,
  get_field f pp cur = Ok None ->
  get_path_go rp (f :: f2 :: rest) pp cur = Err EMissing (path_of rp (field_str f)).
Proof. exact get_path_inner_missing. Qed.
Print Assumptions c14_walk_stops_at_missing_field_partial.

Theorem c14_conversion_failure_keeps_reason_partial : forall f o th vts val k r p,
  is_nil (Some val) = false -> conv (r_ft o) (vo_dur (r_vo o)) k val = Err r p ->
  reify_primitive (S f) (o, th, vts) val (TPrim k) = Err r p.
Proof. exact reify_primitive_error_is_conv_error. Qed.
Print Assumptions c14_conversion_failure_keeps_reason_partial.

Theorem c14_wrong_list_length_partial : forall f fo n e val arr,
  cast_arr val = Ok arr -> List.length arr <> n ->
  reify_value (S f) fo (TArray n e) val = Err EArraySizeMismatch "".
Proof. exact array_length_mismatch_is_error. Qed.
Print Assumptions c14_wrong_list_length_partial.
