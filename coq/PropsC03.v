(* PropsC03.v — C03: typed unpacking preserves the value or fails - it never wraps around.
   Statements only; proofs are in ProofsConv.v. *)
From Ucfg Require Import Base ParseInt Consts Field Tree F64 Conv ProofsField ProofsConv.

(* A sized signed integer target holds exactly the integer the setting converts to, and that
   integer lies in the target's range. *)
Theorem c03_signed_sound : forall ft dur bits v c,
  conv ft dur (KInt bits) v = Ok c ->
  exists i, c = CI i /\ to_int v = Ok i /\ - 2 ^ (bits - 1) <= i <= 2 ^ (bits - 1) - 1.
Proof. exact conv_int_sound. Qed.
Print Assumptions c03_signed_sound.

(* ... and a value outside the range of the target is always an error (no wrap-around). *)
Theorem c03_signed_never_wraps : forall ft dur bits v i,
  to_int v = Ok i -> ~ (- 2 ^ (bits - 1) <= i <= 2 ^ (bits - 1) - 1) ->
  conv ft dur (KInt bits) v = Err EOverflow "".
Proof. exact conv_int_overflow. Qed.
Print Assumptions c03_signed_never_wraps.

Theorem c03_unsigned_sound : forall ft dur bits v c,
  conv ft dur (KUint bits) v = Ok c ->
  exists u, c = CU u /\ to_uint v = Ok u /\ u <= 2 ^ bits - 1.
Proof. exact conv_uint_sound. Qed.
Print Assumptions c03_unsigned_sound.

Theorem c03_unsigned_never_wraps : forall ft dur bits v u,
  to_uint v = Ok u -> 2 ^ bits - 1 < u -> conv ft dur (KUint bits) v = Err EOverflow "".
Proof. exact conv_uint_overflow. Qed.
Print Assumptions c03_unsigned_never_wraps.

(* a negative integer is never an unsigned value *)
Theorem c03_negative_is_error_for_unsigned : forall i, i < 0 -> to_uint (VInt i) = Err ENegative "".
Proof. exact to_uint_negative_int. Qed.
Print Assumptions c03_negative_is_error_for_unsigned.

(* Floats to integers: the result is the truncation toward zero of the float's exact value
   m*2^e, and it fits into int64; ... *)
Theorem c03_float_to_int_exact : forall bits t,
  float_to_int bits = Ok t ->
  exists neg m e, decode bits = FFin neg m e /\ t = fin_trunc neg m e /\ minI64 <= t <= maxI64.
Proof. exact float_to_int_sound. Qed.
Print Assumptions c03_float_to_int_exact.

(* ... where truncation means: |t| <= m*2^e < |t|+1 (stated without rationals) *)
Theorem c03_trunc_is_toward_zero : forall m e, 0 <= m ->
  let t := fin_trunc false m e in
  if 0 <=? e then t = m * 2 ^ e else t * 2 ^ (- e) <= m < (t + 1) * 2 ^ (- e).
Proof. exact fin_trunc_pos_spec. Qed.
Print Assumptions c03_trunc_is_toward_zero.

(* ... a float whose truncation does not fit is an error, and so are NaN and the infinities *)
Theorem c03_float_out_of_range_is_error : forall bits,
  (forall neg m e, decode bits = FFin neg m e -> ~ (minI64 <= fin_trunc neg m e <= maxI64)) ->
  float_to_int bits = Err EOverflow "".
Proof. exact float_to_int_complete. Qed.
Print Assumptions c03_float_out_of_range_is_error.

Theorem c03_nan_inf_are_errors_for_int : forall bits,
  (decode bits = FNaN \/ exists n, decode bits = FInf n) -> float_to_int bits = Err EOverflow "".
Proof. exact float_to_int_nan_inf. Qed.
Print Assumptions c03_nan_inf_are_errors_for_int.

Theorem c03_nan_inf_are_errors_for_uint : forall bits,
  (decode bits = FNaN \/ exists n, decode bits = FInf n) -> exists r, float_to_uint bits = Err r "".
Proof. exact float_to_uint_nan_inf. Qed.
Print Assumptions c03_nan_inf_are_errors_for_uint.

(* every integer the library hands out for a well-formed stored value is an int64 *)
Theorem c03_to_int_is_int64 : forall v i, wf_prim v -> to_int v = Ok i -> minI64 <= i <= maxI64.
Proof. exact to_int_range. Qed.
Print Assumptions c03_to_int_is_int64.

(* Numbers to durations mean seconds: exact nanoseconds or an error. *)
Theorem c03_duration_seconds_exact : forall ft dur i c,
  conv ft dur KDuration (VInt i) = Ok c -> c = CD (i * second_ns) /\ minI64 <= i * second_ns <= maxI64.
Proof. exact conv_duration_int. Qed.
Print Assumptions c03_duration_seconds_exact.

Theorem c03_duration_never_wraps : forall ft dur i,
  ~ (minI64 <= i * second_ns <= maxI64) -> conv ft dur KDuration (VInt i) = Err EOverflow "".
Proof. exact conv_duration_int_overflow. Qed.
Print Assumptions c03_duration_never_wraps.

Theorem c03_duration_nan_inf_are_errors : forall ft dur bits,
  (decode bits = FNaN \/ exists n, decode bits = FInf n) ->
  conv ft dur KDuration (VFloat bits) = Err EOverflow "".
Proof. exact conv_duration_float_nan_inf. Qed.
Print Assumptions c03_duration_nan_inf_are_errors.

(* Non-vacuity and the former failures, evaluated on the model. *)
Example c03_ex_int8_max : conv [] (fun _ => None) (KInt 8) (VInt 127) = Ok (CI 127). Proof. reflexivity. Qed.
Example c03_ex_int8_over : conv [] (fun _ => None) (KInt 8) (VInt 128) = Err EOverflow "". Proof. reflexivity. Qed.
Example c03_ex_float_2p63 :   (* float64 2^63 into int64: was MinInt64 *)
  conv [] (fun _ => None) (KInt 64) (VFloat 4890909195324358656) = Err EOverflow "". Proof. vm_compute. reflexivity. Qed.
Example c03_ex_float_trunc :  (* -1.5 into int8 is -1 *)
  conv [] (fun _ => None) (KInt 8) (VFloat 13832806255468478464) = Ok (CI (-1)). Proof. vm_compute. reflexivity. Qed.
Example c03_ex_nan : conv [] (fun _ => None) (KInt 32) (VFloat nan_bits) = Err EOverflow "". Proof. vm_compute. reflexivity. Qed.
Example c03_ex_duration_over : conv [] (fun _ => None) KDuration (VInt 9223372037) = Err EOverflow "". Proof. vm_compute. reflexivity. Qed.
Example c03_ex_uint_string : conv [] (fun _ => None) (KUint 16) (VStr "0x10") = Ok (CU 16). Proof. vm_compute. reflexivity. Qed.
