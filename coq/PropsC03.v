(* PropsC03.v — C03: typed unpacking preserves the value or fails - it never wraps around. *)
From Ucfg Require Import Base ParseInt Consts Field Tree F64 Conv.
