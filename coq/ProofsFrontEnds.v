(* ProofsFrontEnds.v — C18: a document decoded by a decoder that keeps integers (YAML) and by
   one that turns every number into a float64 (JSON, HJSON) normalizes to configs with the
   same data, numbers compared by value. *)
From Coq Require Import Sorting.Sorted.
From Ucfg Require Import Base ParseInt Consts Field Tree PathOps Merge OTree F64 ParseValue VarParse Normalize
     ProofsNormalize ProofsNormData CorrC17 CorrC18.

(** what the decoders return for a document whose data is [t]: the YAML decoder keeps integers,
    encoding/json and hjson-go return float64 for every number *)
Fixpoint floatify (t : otree) : otree :=
  match t with
  | OInt z | OUint z => OFloat (f64_of_Z z)
  | OList l => OList (map floatify l)
  | OMap m => OMap ((fix go (l : list (string * otree)) : list (string * otree) :=
                       match l with [] => [] | (k, x) :: r => (k, floatify x) :: go r end) m)
  | _ => t
  end.
Definition yaml_decoded (t : otree) : gval := gval_of t.
Definition json_decoded (t : otree) : gval := gval_of (floatify t).

Definition map_floatify (m : list (string * otree)) : list (string * otree) :=
  (fix go (l : list (string * otree)) : list (string * otree) :=
     match l with [] => [] | (k, x) :: r => (k, floatify x) :: go r end) m.

(** the integers of the document are exactly representable (true up to 2^53: the harness
    documents beyond that are the known finding F17) *)
Fixpoint ints_exact (t : otree) : Prop :=
  match t with
  | OInt z | OUint z => num_eq_int_float z (f64_of_Z z) = true
  | OList l => (fix go (l : list otree) : Prop := match l with [] => True | x :: r => ints_exact x /\ go r end) l
  | OMap m => (fix go (l : list (string * otree)) : Prop :=
                 match l with [] => True | (_, x) :: r => ints_exact x /\ go r end) m
  | ODyn => False
  | _ => True
  end.

Lemma plain_floatify o : forall t, plain o t -> plain o (floatify t).
Proof.
  induction t using otree_ind'; intro PL; try exact PL.
  - simpl. constructor.
  - simpl. constructor.
  - inversion PL as [| | | | | |l' PLl|]; subst. simpl. constructor.
    rewrite Forall_forall in *. intros x Hx. apply in_map_iff in Hx. destruct Hx as [y [Ey Hy]]. subst x. auto.
  - inversion PL as [| | | | | | |m' PLm Sm]; subst.
    change (floatify (OMap m)) with (OMap (map_floatify m)). constructor.
    + clear Sm PL. induction m as [|[k x] r IH]; [constructor|].
      inversion H as [|? ? Hx Hr]; subst. inversion PLm as [|? ? [Hn Hp] PLr]; subst.
      change (map_floatify ((k, x) :: r)) with ((k, floatify x) :: map_floatify r).
      constructor; [split; [exact Hn|apply Hx; exact Hp]|]. apply IH; auto.
    + clear H PLm PL. induction Sm as [|[k2 b] r' Sr IH Ha]; [constructor|].
      change (map_floatify ((k2, b) :: r')) with ((k2, floatify b) :: map_floatify r').
      constructor; [exact IH|].
      clear -Ha. induction Ha as [|[k3 c] r'' Hc Hr IH2]; [constructor|].
      change (map_floatify ((k3, c) :: r'')) with ((k3, floatify c) :: map_floatify r'').
      constructor; [exact Hc|exact IH2].
Qed.

(* what comes back from the two configs is the same data, numbers by value *)
Lemma num_equiv_map_cons k a r1 k2 b r2 :
  num_equiv (OMap ((k, a) :: r1)) (OMap ((k2, b) :: r2))
  = String.eqb k k2 && num_equiv a b && num_equiv (OMap r1) (OMap r2).
Proof. reflexivity. Qed.
Lemma num_equiv_list_cons a r1 b r2 :
  num_equiv (OList (a :: r1)) (OList (b :: r2)) = num_equiv a b && num_equiv (OList r1) (OList r2).
Proof. reflexivity. Qed.

Lemma back_floatify_equiv : forall t, ints_exact t -> num_equiv (back t) (back (floatify t)) = true.
Proof.
  induction t as [| b | z | z | f | s | | l H | m H] using otree_ind'; intro E; try reflexivity.
  - simpl. apply Bool.eqb_reflx.
  - simpl in *. destruct (0 <? z); exact E.
  - simpl in *. exact E.
  - simpl. apply Z.eqb_refl.
  - simpl. apply String.eqb_refl.
  - contradiction.
  - change (back (OList l)) with (OList (map back l)).
    change (floatify (OList l)) with (OList (map floatify l)).
    change (back (OList (map floatify l))) with (OList (map back (map floatify l))).
    induction l as [|a r IH]; [reflexivity|].
    inversion H as [|? ? Ha Hr]; subst. simpl in E. destruct E as [Ea Er].
    cbn [map]. rewrite num_equiv_list_cons, (Ha Ea). simpl. apply IH; auto.
  - assert (forall r, Forall (fun kv : string * otree => ints_exact (snd kv) ->
                               num_equiv (back (snd kv)) (back (floatify (snd kv))) = true) r ->
                      ints_exact (OMap r) ->
                      num_equiv (OMap (map_back r)) (OMap (map_back (map_floatify r))) = true) as G.
    { induction r as [|[k2 y] r2 IH]; intros Hr Er; [reflexivity|].
      inversion Hr as [|? ? Hy Hr2]; subst. simpl in Er. destruct Er as [Ey Er2]. simpl in Hy.
      change (map_back ((k2, y) :: r2)) with ((k2, back y) :: map_back r2).
      change (map_floatify ((k2, y) :: r2)) with ((k2, floatify y) :: map_floatify r2).
      change (map_back ((k2, floatify y) :: map_floatify r2)) with ((k2, back (floatify y)) :: map_back (map_floatify r2)).
      rewrite num_equiv_map_cons, String.eqb_refl, (Hy Ey). simpl. apply IH; auto. }
    destruct m as [|[k x] r]; [reflexivity|].
    change (back (OMap ((k, x) :: r))) with (OMap (map_back ((k, x) :: r))).
    change (floatify (OMap ((k, x) :: r))) with (OMap (map_floatify ((k, x) :: r))).
    change (back (OMap (map_floatify ((k, x) :: r)))) with (OMap (map_back (map_floatify ((k, x) :: r)))).
    apply G; auto.
Qed.

Theorem front_ends_agree o : p_sep (n_p o) = "" -> n_varexp o = false ->
  forall t, plain o t -> ints_exact t ->
  exists vy vj, normalize_value o (yaml_decoded t) = Ok (vy, None) /\
                normalize_value o (json_decoded t) = Ok (vj, None) /\
                num_equiv (strip vy) (strip vj) = true.
Proof.
  intros Hs Hv t PL E.
  destruct (normalize_value_back o Hs Hv t PL) as [vy [Ey Sy]].
  destruct (normalize_value_back o Hs Hv (floatify t) (plain_floatify o t PL)) as [vj [Ej Sj]].
  exists vy, vj. split; [exact Ey|]. split; [exact Ej|]. rewrite Sy, Sj. apply back_floatify_equiv. exact E.
Qed.

(* the hypothesis on integers holds for ordinary values and fails beyond 2^53 (F17) *)
Lemma ints_exact_examples :
  ints_exact (OMap [("a", OInt (-7)); ("b", OList [OUint 9007199254740992; OUint 0; OInt 1000000007])])
  /\ num_eq_int_float 9007199254740993 (f64_of_Z 9007199254740993) = false.
Proof. vm_compute. repeat split; reflexivity. Qed.
