(* ProofsDotted.v — C05: a dotted key is the nesting it spells.  For every chain of names
   n1.n2...nk and every value, {"n1.n2...nk": x} normalizes (with the separator ".") to the
   same config as {"n1": {"n2": ... {"nk": x}}}. *)
From Ucfg Require Import Base ParseInt Consts Field Tree PathOps Merge OTree VarParse Normalize
     ProofsFlags ProofsTree ProofsNormalize ProofsNormData.
From Coq Require Import Lia.
Local Open Scope nat_scope.
Local Open Scope string_scope.

(** * strings.Split on the separator "." *)
Definition no_dot (s : string) : Prop := mem_ascii "."%char s = false.

Lemma prefix_dot a r : String.prefix "." (String a r) = Ascii.eqb "."%char a.
Proof.
  cbn [String.prefix]. destruct (ascii_dec "."%char a) as [X|X].
  - subst a. rewrite Ascii.eqb_refl. destruct r; reflexivity.
  - destruct (Ascii.eqb "."%char a) eqn:E; [apply Ascii.eqb_eq in E; contradiction|reflexivity].
Qed.

(* scanning a word without a dot only collects it *)
Lemma split_go_word w : forall fuel cur rest,
  no_dot w -> String.length w <= fuel ->
  split_go (fuel + 0) "." cur (w +++ rest)
  = split_go (fuel - String.length w) "." (rev_app w cur) rest.
Proof.
  induction w as [|a r IH]; intros fuel cur rest Hn Hl.
  - simpl. rewrite Nat.add_0_r, Nat.sub_0_r. reflexivity.
  - destruct fuel as [|f]; [simpl in Hl; lia|].
    unfold no_dot in Hn. cbn [mem_ascii] in Hn. apply Bool.orb_false_elim in Hn. destruct Hn as [Ha Hr].
    cbn [String.append Nat.add split_go]. rewrite prefix_dot, Ha.
    cbn [String.length Nat.sub rev_app]. apply IH; [exact Hr|simpl in Hl; lia].
Qed.

Lemma srev_rev_app w : srev (rev_app w "") = w.
Proof. fold (srev w). apply srev_involutive. Qed.

Fixpoint total_len (l : list string) : nat :=
  match l with [] => 0 | x :: r => S (String.length x + total_len r) end.

Lemma split_go_names : forall names w cur fuel,
  no_dot w -> Forall no_dot names ->
  String.length w + total_len names < fuel ->
  split_go fuel "." cur (w +++ fold_right (fun n acc => String "."%char (n +++ acc)) "" names)
  = srev (rev_app w cur) :: names.
Proof.
  induction names as [|n r IH]; intros w cur fuel Hw F L.
  - cbn [fold_right]. replace fuel with (fuel + 0) by lia. rewrite split_go_word; [|exact Hw|simpl in L; lia].
    destruct (fuel - String.length w) eqn:E; [simpl in L; lia|]. reflexivity.
  - inversion F as [|? ? Hn Fr]; subst. cbn [fold_right].
    replace fuel with (fuel + 0) by lia. rewrite split_go_word; [|exact Hw|simpl in L; lia].
    destruct (fuel - String.length w) as [|f'] eqn:E; [simpl in L; lia|].
    cbn [split_go]. rewrite prefix_dot. rewrite Ascii.eqb_refl.
    change (sdrop (String.length ".") (String "."%char (n +++ fold_right (fun n0 acc => String "."%char (n0 +++ acc)) "" r)))
      with (n +++ fold_right (fun n0 acc => String "."%char (n0 +++ acc)) "" r).
    f_equal. rewrite (IH n "" f' Hn Fr); [|simpl in L; lia].
    f_equal. apply srev_rev_app.
Qed.

(* the dotted spelling of a chain of names *)
Definition dotted (n : string) (r : list string) : string :=
  n +++ fold_right (fun n acc => String "."%char (n +++ acc)) "" r.

Lemma dotted_nil n : dotted n [] = n.
Proof. unfold dotted. simpl. apply append_nil_r. Qed.

Lemma length_app_s2 a b : String.length (a +++ b) = String.length a + String.length b.
Proof. induction a as [|x r IH]; simpl; [reflexivity|]. rewrite IH. reflexivity. Qed.

Lemma dotted_length n r : String.length (dotted n r) = String.length n + total_len r.
Proof.
  unfold dotted. rewrite length_app_s2. f_equal.
  induction r as [|x r' IH]; simpl; [reflexivity|]. rewrite length_app_s2, IH. lia.
Qed.

Theorem split_dotted n r : no_dot n -> Forall no_dot r -> split (dotted n r) "." = n :: r.
Proof.
  intros Hn F. unfold split. rewrite dotted_length. unfold dotted.
  rewrite (split_go_names r n "" _ Hn F); [|lia]. f_equal. apply srev_rev_app.
Qed.

(** * the chain a dotted key builds, and the chain nesting builds *)
Fixpoint chain (names : list string) (v : value) : value :=
  match names with
  | [] => v
  | n :: r => VSub [(n, (n, chain r v))] None
  end.

Fixpoint gchain (names : list string) (x : gval) : gval :=
  match names with
  | [] => x
  | n :: r => GMap true [(KStr n, gchain r x)]
  end.

Section Chain.
  Variable o : nopts.
  Hypothesis sep_dot : p_sep (n_p o) = ".".
  Hypothesis no_escape : p_escape (n_p o) = false.

  (* a name: no dot, and not read as a list index *)
  Definition seg_name (k : string) : Prop :=
    no_dot k /\ parse_field k (p_maxIdx (n_p o)) false = FName k /\
    parse_field k (p_maxIdx (n_p o)) (p_numKeys (n_p o)) = FName k.

  Lemma opts_path_single k : seg_name k -> opts_path (n_p o) k = [FName k].
  Proof.
    intros [Hd [_ Hp]]. unfold opts_path, parse_path. rewrite sep_dot, no_escape. cbn [String.eqb Ascii.eqb Bool.eqb orb andb].
    pose proof (split_dotted k [] Hd (Forall_nil _)) as S. rewrite dotted_nil in S. rewrite S. cbn [map]. rewrite Hp. reflexivity.
  Qed.

  Lemma opts_path_dotted n n2 r : Forall seg_name (n :: n2 :: r) ->
    opts_path (n_p o) (dotted n (n2 :: r)) = map FName (n :: n2 :: r).
  Proof.
    intro F. unfold opts_path, parse_path. rewrite sep_dot, no_escape. cbn [String.eqb Ascii.eqb Bool.eqb orb andb].
    inversion F as [|? ? [Hn _] Fr]; subst.
    rewrite (split_dotted n (n2 :: r) Hn).
    2:{ rewrite Forall_forall in *. intros x Hx. destruct (Fr x Hx) as [H _]. exact H. }
    clear -F. induction F as [|x l [_ [Hx _]] Fl IH]; [reflexivity|]. cbn [map]. rewrite Hx. f_equal.
    destruct l as [|y l']; [reflexivity|]. exact IH.
  Qed.

  (* intermediate nodes built for a new path are the chain *)
  Lemma build_chain mx : forall names v,
    build mx (map FName names) None v = Ok (match names with [] => None | _ => None end, chain names v).
  Proof.
    induction names as [|n r IH]; intro v; [reflexivity|].
    cbn [map build]. rewrite IH. cbn [bind fst snd set_field empty_cfg dict_set]. destruct r; reflexivity.
  Qed.

  Lemma set_path_chain mx n r v :
    set_path mx (map FName (n :: r)) "" empty_cfg None v = Ok (chain (n :: r) v).
  Proof.
    destruct r as [|n2 r2].
    - reflexivity.
    - cbn [map set_path]. cbn [get_field to_cfg empty_cfg dict_get].
      change (FName n2 :: map FName r2) with (map FName (n2 :: r2)). rewrite build_chain.
      cbn [bind fst snd set_field dict_set]. reflexivity.
  Qed.

  Lemma set_field_norm_chain n r v : Forall seg_name (n :: r) ->
    set_field_norm o empty_cfg (dotted n r) None v = Ok (chain (n :: r) v).
  Proof.
    intro F. unfold set_field_norm.
    assert (opts_path (n_p o) (dotted n r) = map FName (n :: r)) as P.
    { destruct r as [|n2 r2].
      - inversion F; subst. rewrite dotted_nil. apply opts_path_single; assumption.
      - apply opts_path_dotted. exact F. }
    rewrite P. unfold get_path. cbn [map].
    assert (get_path_go "" (FName n :: map FName r) "" empty_cfg = Err EMissing n \/
            get_path_go "" (FName n :: map FName r) "" empty_cfg = Ok None) as G.
    { destruct r as [|n2 r2]; [right; reflexivity|left; reflexivity]. }
    destruct G as [G|G]; rewrite G; cbn [bind is_nil negb andb];
      change (FName n :: map FName r) with (map FName (n :: r)); apply set_path_chain.
  Qed.

  (* the nested spelling *)
  Lemma normalize_gchain x v : normalize_value o x = Ok (v, None) ->
    forall names, Forall seg_name names -> normalize_value o (gchain names x) = Ok (chain names v, None).
  Proof.
    intros Hx. induction names as [|n r IH]; intro F; [exact Hx|].
    inversion F as [|? ? Hn Fr]; subst. cbn [gchain]. rewrite normalize_value_map. cbn [negb].
    unfold map_into, norm_entries. cbn [map fst snd kv_names kv_sort kv_insert set_fields_norm].
    rewrite (IH Fr). cbn [bind fst snd].
    pose proof (set_field_norm_chain n [] (chain r v) (Forall_cons n Hn (Forall_nil _))) as S.
    rewrite dotted_nil in S. rewrite S. reflexivity.
  Qed.

  (* a dotted key is the nesting it spells *)
  Theorem dotted_is_nested n r x v :
    Forall seg_name (n :: r) -> normalize_value o x = Ok (v, None) ->
    normalize_value o (GMap true [(KStr (dotted n r), x)]) = normalize_value o (gchain (n :: r) x).
  Proof.
    intros F Hx. rewrite (normalize_gchain x v Hx (n :: r) F).
    rewrite normalize_value_map. cbn [negb]. unfold map_into, norm_entries.
    cbn [map fst snd kv_names kv_sort kv_insert set_fields_norm]. rewrite Hx. cbn [bind fst snd].
    rewrite (set_field_norm_chain n r v F). reflexivity.
  Qed.
End Chain.

Example dotted_example :
  let o := {| n_p := {| p_sep := "."; p_maxIdx := 1024; p_numKeys := false; p_escape := false |};
              n_varexp := false; n_m := {| m_h := 0%N; m_ft := None |} |} in
  Forall (seg_name o) ["output"; "elasticsearch"; "hosts"] /\
  dotted "output" ["elasticsearch"; "hosts"] = "output.elasticsearch.hosts" /\
  normalize o (GMap true [(KStr "output.elasticsearch.hosts", GList [GStr "a"; GStr "b"])])
  = normalize o (GMap true [(KStr "output", GMap true [(KStr "elasticsearch", GMap true [(KStr "hosts", GList [GStr "a"; GStr "b"])])])]).
Proof.
  split; [|split; [reflexivity|vm_compute; reflexivity]].
  repeat constructor.
Qed.
