(* Keys.v — Path(), FlattenedKeys (ucfg.go) and diff.CompareConfigs (diff/keys.go) over
   the tree model, and the positional specification they are compared with (C15). *)
From Ucfg Require Import Base ParseInt Consts Field Tree PathOps.

Fixpoint insert_sorted (s : string) (l : list string) : list string :=
  match l with
  | [] => [s]
  | x :: r => if String.leb s x then s :: l else x :: insert_sorted s r
  end.
Definition sort_strings (l : list string) : list string := fold_right insert_sorted [] l.

(* context.path(sep) of a child: the parent's path joined with the stored name *)
Definition cpath (sep pp name : string) : string :=
  if String.eqb name "" then ""
  else if String.eqb pp "" then name else pp +++ sep +++ name.

(* no references: every setting is there to be listed (a node may hold named settings and a
   list part at once) *)
Fixpoint static (v : value) : bool :=
  match v with
  | VRef _ _ | VSplice _ => false
  | VSub d a =>
    (fix gd (l : list (string * (string * value))) : bool :=
       match l with [] => true | (_, (_, x)) :: r => static x && gd r end) d
    && match a with
       | None => true
       | Some l => (fix ga (l : list (string * value)) : bool :=
                      match l with [] => true | (_, x) :: r => static x && ga r end) l
       end
  | _ => true
  end.

(** FlattenedKeys: the paths (from stored names) of the values that are not configs; a node
    is walked through its dictionary and through its list. *)
Fixpoint flat_keys (sep pp : string) (v : value) {struct v} : res (list string) :=
  match v with
  | VSub d a =>
    let walk := (fix go (l : list (string * value)) : res (list string) :=
                   match l with
                   | [] => Ok []
                   | (nm, x) :: r =>
                     here <- match x with
                             | VSub _ _ => flat_keys sep (cpath sep pp nm) x
                             | VNil => Ok []                 (* a nil is an empty config *)
                             | VRef _ _ | VSplice _ => OutOfModel
                             | _ => Ok [cpath sep pp nm]
                             end ;;
                     rest <- go r ;;
                     Ok (here ++ rest)
                   end) in
    dk <- (fix god (l : list (string * (string * value))) : res (list string) :=
             match l with
             | [] => Ok []
             | (_, (nm, x)) :: r =>
               here <- match x with
                       | VSub _ _ => flat_keys sep (cpath sep pp nm) x
                       | VNil => Ok []
                       | VRef _ _ | VSplice _ => OutOfModel
                       | _ => Ok [cpath sep pp nm]
                       end ;;
               rest <- god r ;;
               Ok (here ++ rest)
             end) d ;;
    ak <- match a with Some l => walk l | None => Ok [] end ;;
    Ok (dk ++ ak)
  | _ => Ok []
  end.

(* each level sorts its result; sorting once at the end gives the same list *)
Definition flattened_keys (sep : string) (root : value) : res (list string) :=
  let sep := if String.eqb sep "" then "." else sep in
  x <- flat_keys sep "" root ;; Ok (sort_strings x).

(** the positional specification: root-relative paths, by actual keys and indices, of the
    non-nil primitive settings *)
Fixpoint leaf_paths (sep pp : string) (v : value) {struct v} : list string :=
  match v with
  | VSub d a =>
    (fix god (l : list (string * (string * value))) : list string :=
       match l with
       | [] => []
       | (k, (_, x)) :: r =>
         match x with
         | VSub _ _ => leaf_paths sep (cpath sep pp k) x
         | VNil => []
         | _ => [cpath sep pp k]
         end ++ god r
       end) d
    ++
    match a with
    | None => []
    | Some l =>
      (fix goa (i : Z) (l : list (string * value)) : list string :=
         match l with
         | [] => []
         | (_, x) :: r =>
           match x with
           | VSub _ _ => leaf_paths sep (cpath sep pp (dec i)) x
           | VNil => []
           | _ => [cpath sep pp (dec i)]
           end ++ goa (i + 1) r
         end) 0 l
    end
  | _ => []
  end.

(** stored field name = actual key / index, everywhere (the invariant behind Path()) *)
Fixpoint names_ok (v : value) : bool :=
  match v with
  | VSub d a =>
    (fix god (l : list (string * (string * value))) : bool :=
       match l with
       | [] => true
       | (k, (nm, x)) :: r => String.eqb k nm && names_ok x && god r
       end) d
    &&
    match a with
    | None => true
    | Some l =>
      (fix goa (i : Z) (l : list (string * value)) : bool :=
         match l with
         | [] => true
         | (nm, x) :: r => String.eqb nm (dec i) && names_ok x && goa (i + 1) r
         end) 0 l
    end
  | _ => true
  end.

(** diff.CompareConfigs on two sorted key lists *)
Definition mem_str (s : string) (l : list string) : bool := existsb (String.eqb s) l.
Fixpoint dedup (l : list string) : list string :=
  match l with
  | [] => []
  | x :: r => if mem_str x r then dedup r else x :: dedup r
  end.
Definition diff_keep (old new : list string) : list string :=
  sort_strings (dedup (filter (fun k => mem_str k old) new)).
Definition diff_add (old new : list string) : list string :=
  sort_strings (dedup (filter (fun k => negb (mem_str k old)) new)).
Definition diff_remove (old new : list string) : list string :=
  sort_strings (dedup (filter (fun k => negb (mem_str k new)) old)).
