(* ProofsTree.v — laws of the tree model: dictionaries, list parts, single-field and
   path-addressed reads and writes (C12, C20 growth bound, C07 allocation bound). *)
From Ucfg Require Import Base ParseInt Consts Field Tree PathOps CorrC20 ProofsField.
From Coq Require Import ZifyBool.

Local Open Scope Z_scope.

(** * dictionaries *)
Lemma string_compare_refl k : String.compare k k = Eq.
Proof.
  induction k as [|a k IH]; cbn; [reflexivity|].
  assert (E : Ascii.compare a a = Eq).
  { unfold Ascii.compare. apply N.compare_refl. }
  rewrite E. exact IH.
Qed.

Lemma string_compare_eq k k2 : String.compare k k2 = Eq <-> k = k2.
Proof. split; [apply String.compare_eq_iff|intros ->; apply string_compare_refl]. Qed.

Lemma dict_get_set_same {A} k (x : A) d : dict_get k (dict_set k x d) = Some x.
Proof.
  induction d as [|[k2 y] r IH]; cbn.
  - rewrite String.eqb_refl. reflexivity.
  - destruct (String.compare k k2) eqn:C; cbn.
    + rewrite String.eqb_refl. reflexivity.
    + rewrite String.eqb_refl. reflexivity.
    + destruct (String.eqb k k2) eqn:E.
      * apply String.eqb_eq in E. subst. rewrite string_compare_refl in C. discriminate.
      * exact IH.
Qed.

Lemma dict_get_set_other {A} k k' (x : A) d :
  k <> k' -> dict_get k' (dict_set k x d) = dict_get k' d.
Proof.
  intros N. induction d as [|[k2 y] r IH]; cbn.
  - destruct (String.eqb k' k) eqn:E; [apply String.eqb_eq in E; congruence|reflexivity].
  - destruct (String.compare k k2) eqn:C; cbn.
    + apply string_compare_eq in C. subst k2.
      destruct (String.eqb k' k) eqn:E; [apply String.eqb_eq in E; congruence|reflexivity].
    + destruct (String.eqb k' k) eqn:E; [apply String.eqb_eq in E; congruence|reflexivity].
    + destruct (String.eqb k' k2); [reflexivity|exact IH].
Qed.

Lemma dict_has_set_same {A} k (x : A) d : dict_has k (dict_set k x d) = true.
Proof. unfold dict_has. rewrite dict_get_set_same. reflexivity. Qed.

Lemma dict_get_del_other {A} k k' (d : list (string * A)) :
  k <> k' -> dict_get k' (dict_del k d) = dict_get k' d.
Proof.
  intros N. induction d as [|[k2 y] r IH]; cbn; [reflexivity|].
  destruct (String.eqb k k2) eqn:E.
  - apply String.eqb_eq in E. subst k2.
    destruct (String.eqb k' k) eqn:E2; [apply String.eqb_eq in E2; congruence|reflexivity].
  - cbn. destruct (String.eqb k' k2); [reflexivity|exact IH].
Qed.

(* keys are unique in a dictionary built by dict_set from unique keys *)
Definition keys {A} (d : list (string * A)) : list string := map fst d.

Lemma dict_get_none_not_in {A} k (d : list (string * A)) : dict_get k d = None <-> ~ In k (keys d).
Proof.
  induction d as [|[k2 y] r IH]; cbn; [tauto|].
  destruct (String.eqb k k2) eqn:E.
  - apply String.eqb_eq in E. subst. split; [discriminate|]. intros H; exfalso; apply H; auto.
  - apply String.eqb_neq in E. rewrite IH. split; intros H; [intros [C|C]; [congruence|tauto]|tauto].
Qed.

Lemma dict_del_removes {A} k (d : list (string * A)) :
  NoDup (keys d) -> dict_get k (dict_del k d) = None.
Proof.
  induction d as [|[k2 y] r IH]; intros ND; cbn; [reflexivity|].
  inversion ND as [|? ? NI ND']; subst.
  destruct (String.eqb k k2) eqn:E.
  - apply String.eqb_eq in E. subst k2. apply dict_get_none_not_in. exact NI.
  - cbn. rewrite E. apply IH. exact ND'.
Qed.

(** * list parts *)
Lemma nth_opt_app_l {A} (l1 l2 : list A) n : (n < List.length l1)%nat -> nth_opt (l1 ++ l2) n = nth_opt l1 n.
Proof.
  revert n. induction l1 as [|x r IH]; intros n H; cbn in *; [lia|].
  destruct n; [reflexivity|]. apply IH. lia.
Qed.

Lemma nth_opt_app_r {A} (l1 l2 : list A) n : nth_opt (l1 ++ l2) (List.length l1 + n) = nth_opt l2 n.
Proof. induction l1 as [|x r IH]; cbn; [reflexivity|exact IH]. Qed.

Lemma nth_opt_set_nth_same {A} (l : list A) n v : (n < List.length l)%nat -> nth_opt (set_nth l n v) n = Some v.
Proof.
  revert n. induction l as [|x r IH]; intros n H; cbn in *; [lia|].
  destruct n; [reflexivity|]. cbn. apply IH. lia.
Qed.

Lemma nth_opt_set_nth_other {A} (l : list A) n m v : n <> m -> nth_opt (set_nth l n v) m = nth_opt l m.
Proof.
  revert n m. induction l as [|x r IH]; intros n m H; cbn; [reflexivity|].
  destruct n, m; cbn; try reflexivity; try congruence. apply IH. congruence.
Qed.

Lemma set_nth_length {A} (l : list A) n v : List.length (set_nth l n v) = List.length l.
Proof. revert n. induction l as [|x r IH]; intros n; cbn; [reflexivity|]. destruct n; cbn; [reflexivity|]. rewrite IH. reflexivity. Qed.

Lemma pad_nils_length from n : List.length (pad_nils from n) = n.
Proof. revert from. induction n as [|n IH]; intros from; cbn; [reflexivity|]. rewrite IH. reflexivity. Qed.

Lemma pad_nils_nth from n j : (j < n)%nat -> nth_opt (pad_nils from n) j = Some (dec (from + Z.of_nat j), VNil).
Proof.
  revert from j. induction n as [|n IH]; intros from j H; [lia|].
  destruct j; cbn.
  - f_equal. f_equal. f_equal. lia.
  - rewrite IH by lia. f_equal. f_equal. f_equal. lia.
Qed.

(* fields.setAt: the list grows to exactly max(len, idx+1) entries *)
Lemma arr_set_at_length a idx e :
  0 <= idx -> lenZ (arr_of (arr_set_at a idx e)) = Z.max (lenZ (arr_of a)) (idx + 1).
Proof.
  intros H. unfold arr_set_at. destruct (lenZ (arr_of a) <=? idx) eqn:E; cbn [arr_of].
  - unfold lenZ in *. rewrite !app_length, pad_nils_length. cbn [List.length]. lia.
  - unfold lenZ in *. rewrite set_nth_length. lia.
Qed.

(* the written entry is read back *)
Lemma arr_set_at_same a idx e :
  0 <= idx -> nth_opt (arr_of (arr_set_at a idx e)) (Z.to_nat idx) = Some e.
Proof.
  intros H. unfold arr_set_at. destruct (lenZ (arr_of a) <=? idx) eqn:E; cbn [arr_of].
  - unfold lenZ in *.
    replace (Z.to_nat idx) with (List.length (arr_of a) + (Z.to_nat (idx - Z.of_nat (List.length (arr_of a))) + 0))%nat by lia.
    rewrite nth_opt_app_r.
    rewrite <- (pad_nils_length (Z.of_nat (List.length (arr_of a))) (Z.to_nat (idx - Z.of_nat (List.length (arr_of a))))) at 2.
    rewrite nth_opt_app_r. reflexivity.
  - unfold lenZ in *. apply nth_opt_set_nth_same. lia.
Qed.

(* writing past the end pads the gap with nils named by their index *)
Lemma arr_set_at_pads a idx e j :
  lenZ (arr_of a) <= j < idx ->
  nth_opt (arr_of (arr_set_at a idx e)) (Z.to_nat j) = Some (dec j, VNil).
Proof.
  intros [H1 H2]. unfold arr_set_at. destruct (lenZ (arr_of a) <=? idx) eqn:E; [|lia]. cbn [arr_of].
  unfold lenZ in *.
  replace (Z.to_nat j) with (List.length (arr_of a) + Z.to_nat (j - Z.of_nat (List.length (arr_of a))))%nat by lia.
  rewrite nth_opt_app_r. rewrite nth_opt_app_l by (rewrite pad_nils_length; lia).
  rewrite pad_nils_nth by lia. f_equal. f_equal. f_equal. lia.
Qed.

(* entries below the old length are untouched *)
Lemma arr_set_at_other a idx e j :
  0 <= idx -> (Z.of_nat j < lenZ (arr_of a)) -> Z.of_nat j <> idx ->
  nth_opt (arr_of (arr_set_at a idx e)) j = nth_opt (arr_of a) j.
Proof.
  intros H Hj N. unfold arr_set_at. destruct (lenZ (arr_of a) <=? idx) eqn:E; cbn [arr_of].
  - unfold lenZ in *. apply nth_opt_app_l. lia.
  - apply nth_opt_set_nth_other. lia.
Qed.

(* removing from a list shifts the later entries down *)
Lemma del_nth_before {A} (l : list A) i j : (j < i)%nat -> nth_opt (del_nth l i) j = nth_opt l j.
Proof.
  revert i j. induction l as [|x r IH]; intros i j H; cbn; [reflexivity|].
  destruct i; [lia|]. destruct j; cbn; [reflexivity|]. apply IH. lia.
Qed.

Lemma del_nth_after {A} (l : list A) i j : (i <= j)%nat -> nth_opt (del_nth l i) j = nth_opt l (S j).
Proof.
  revert i j. induction l as [|x r IH]; intros i j H; cbn; [reflexivity|].
  destruct i; [reflexivity|]. destruct j; [lia|]. cbn. apply IH. lia.
Qed.

Lemma del_nth_length {A} (l : list A) i : (i < List.length l)%nat -> List.length (del_nth l i) = pred (List.length l).
Proof.
  revert i. induction l as [|x r IH]; intros i H; cbn in *; [lia|].
  destruct i; [reflexivity|]. cbn. rewrite IH by lia. lia.
Qed.

(** * single-field writes and reads *)
Lemma set_get_name n pp d a ov v :
  get_field (FName n) pp (VSub (dict_set n (match ov with Some s => s | None => n end, v) d) a)
  = Ok (Some (path_join pp (match ov with Some s => s | None => n end), v)).
Proof. cbn. rewrite dict_get_set_same. reflexivity. Qed.

Lemma set_field_name_same mx n pp d a ov v node' :
  set_field mx (FName n) pp (VSub d a) ov v = Ok node' ->
  exists p', get_field (FName n) pp node' = Ok (Some (p', v)).
Proof.
  cbn. intros H; inversion H; subst. eexists. cbn. rewrite dict_get_set_same. reflexivity.
Qed.

Lemma set_field_name_other mx n n' pp d a ov v node' :
  n <> n' -> set_field mx (FName n) pp (VSub d a) ov v = Ok node' ->
  get_field (FName n') pp node' = get_field (FName n') pp (VSub d a).
Proof.
  intros N. cbn. intros H; inversion H; subst. cbn. rewrite dict_get_set_other by exact N. reflexivity.
Qed.

(* a write into the list part never touches the dictionary part and vice versa *)
Lemma set_field_name_keeps_list mx n pp d a ov v node' i :
  set_field mx (FName n) pp (VSub d a) ov v = Ok node' ->
  get_field (FIdx i) pp node' = get_field (FIdx i) pp (VSub d a).
Proof. cbn. intros H; inversion H; subst. reflexivity. Qed.

Lemma set_field_idx_keeps_dict mx i pp d a ov v node' n :
  set_field mx (FIdx i) pp (VSub d a) ov v = Ok node' ->
  get_field (FName n) pp node' = get_field (FName n) pp (VSub d a).
Proof.
  cbn. destruct (i <? 0); [discriminate|]. destruct ((lenZ (arr_of a) <=? i) && (mx <? i)); [discriminate|].
  intros H; inversion H; subst. reflexivity.
Qed.

Lemma set_field_idx_same mx i pp d a ov v node' :
  set_field mx (FIdx i) pp (VSub d a) ov v = Ok node' ->
  exists p', get_field (FIdx i) pp node' = Ok (Some (p', v)).
Proof.
  cbn [set_field]. destruct (i <? 0) eqn:N; [discriminate|]. destruct ((lenZ (arr_of a) <=? i) && (mx <? i)); [discriminate|].
  intros H; inversion H; subst. cbn [get_field to_cfg].
  assert (Hi : 0 <= i) by lia.
  rewrite N. cbn [orb].
  rewrite (arr_set_at_length a i _ Hi).
  destruct (Z.max (lenZ (arr_of a)) (i + 1) <=? i) eqn:M; [lia|].
  rewrite (arr_set_at_same a i _ Hi). eexists. reflexivity.
Qed.

(* the allocation bound: one write grows the list to at most max(old length, idx+1) *)
Lemma set_field_idx_growth mx i pp d a ov v d' a' :
  set_field mx (FIdx i) pp (VSub d a) ov v = Ok (VSub d' a') ->
  lenZ (arr_of a') = Z.max (lenZ (arr_of a)) (i + 1).
Proof.
  cbn [set_field]. destruct (i <? 0) eqn:N; [discriminate|]. destruct ((lenZ (arr_of a) <=? i) && (mx <? i)); [discriminate|].
  intros H; inversion H; subst. apply arr_set_at_length. lia.
Qed.

(* a failed write changes nothing (it returns no new tree at all), and writes through a
   primitive are rejected *)
Lemma set_field_non_config mx f pp v ov x :
  is_sub v = false -> exists r p, set_field mx f pp v ov x = Err r p.
Proof. destruct v; cbn; try discriminate; intros _; eauto. Qed.

(** * path-addressed writes are read back (for every path, every tree) *)
Lemma set_field_same_any mx f pp1 node ov v node' :
  set_field mx f pp1 node ov v = Ok node' ->
  forall pp2, exists p', get_field f pp2 node' = Ok (Some (p', v)).
Proof.
  intros H pp2. destruct node; try (destruct f; discriminate).
  destruct f as [n|i].
  - cbn in H. inversion H; subst. eexists. cbn. rewrite dict_get_set_same. reflexivity.
  - cbn [set_field] in H. destruct (i <? 0) eqn:N; [discriminate|]. destruct ((lenZ (arr_of a) <=? i) && (mx <? i)); [discriminate|].
    inversion H; subst. cbn [get_field to_cfg].
    assert (Hi : 0 <= i) by lia.
    rewrite N. cbn [orb]. rewrite (arr_set_at_length a i _ Hi).
    destruct (Z.max (lenZ (arr_of a)) (i + 1) <=? i) eqn:M; [lia|].
    rewrite (arr_set_at_same a i _ Hi). eexists. reflexivity.
Qed.

Lemma set_field_is_sub mx f pp node ov v node' :
  set_field mx f pp node ov v = Ok node' -> is_sub node = true /\ is_sub node' = true.
Proof.
  destruct node; try (destruct f; discriminate). destruct f as [n|i]; cbn.
  - intros H; inversion H; subst. split; reflexivity.
  - destruct (i <? 0); [discriminate|]. destruct ((lenZ (arr_of a) <=? i) && (mx <? i)); [discriminate|].
    intros H; inversion H; subst. split; reflexivity.
Qed.

(* intermediate nodes built for a new path lead to the written value *)
Lemma build_leads_to mx rp fs : forall ov v x,
  build mx fs ov v = Ok x ->
  match fs with
  | [] => snd x = v
  | _ => is_sub (snd x) = true /\ forall pp, exists p', get_path_go rp fs pp (snd x) = Ok (Some (p', v))
  end.
Proof.
  induction fs as [|f r IH]; intros ov v x H.
  - cbn in H. inversion H; subst. reflexivity.
  - cbn [build] in H. destruct (build mx r ov v) as [y| | |] eqn:B; cbn [bind] in H; try discriminate.
    destruct (set_field mx f "" empty_cfg (fst y) (snd y)) as [n| | |] eqn:S; cbn [bind] in H; try discriminate.
    inversion H; subst. cbn [snd]. specialize (IH ov v y B).
    split; [apply (set_field_is_sub _ _ _ _ _ _ _ S)|].
    intros pp. destruct (set_field_same_any _ _ _ _ _ _ _ S pp) as [p' G].
    destruct r as [|f2 r2].
    + cbn in IH. subst. cbn [get_path_go]. rewrite G. eauto.
    + destruct IH as [_ IH]. cbn [get_path_go]. rewrite G. apply IH.
Qed.

Lemma get_path_go_unfold rp f f2 r2 pp node :
  get_path_go rp (f :: f2 :: r2) pp node =
  match get_field f pp node with
  | Ok None => Err EMissing (path_of pp (field_str f))
  | Ok (Some (pp', v)) => get_path_go rp (f2 :: r2) pp' v
  | Err r p => Err r p
  | Panic => Panic
  | OutOfModel => OutOfModel
  end.
Proof. reflexivity. Qed.

Lemma replace_child_get f pp node pp' v0 v' :
  is_sub node = true ->
  get_field f pp node = Ok (Some (pp', v0)) ->
  get_field f pp (replace_child f node v') = Ok (Some (pp', v')).
Proof.
  destruct node; try discriminate. intros _ H. destruct f as [n|i].
  - cbn [get_field to_cfg] in H. cbn [replace_child]. unfold nv, dict, arr in *.
    destruct (dict_get n d) as [[nm x]|] eqn:G; rewrite ?G in H; [|inversion H].
    inversion H; subst. cbn [get_field to_cfg]. rewrite dict_get_set_same. reflexivity.
  - destruct a as [l|].
    + cbn [get_field to_cfg arr_of] in H. cbn [replace_child]. unfold nv, dict, arr in *.
      destruct ((i <? 0) || (lenZ l <=? i)) eqn:B; [discriminate H|].
      destruct (nth_opt l (Z.to_nat i)) as [[nm x]|] eqn:G; [|discriminate H].
      inversion H; subst. cbn [get_field to_cfg arr_of]. unfold nv, dict, arr in *.
      unfold lenZ in *. rewrite set_nth_length. rewrite B.
      rewrite nth_opt_set_nth_same by lia. reflexivity.
    + cbn [get_field to_cfg arr_of] in H. unfold lenZ in H. cbn [List.length] in H.
      destruct ((i <? 0) || (Z.of_nat 0 <=? i)) eqn:B; [discriminate H|]. lia.
Qed.

Lemma get_field_some_cases f pp node pp' v0 :
  get_field f pp node = Ok (Some (pp', v0)) -> is_sub node = true \/ v0 = node.
Proof.
  intros H.
  destruct node; try (left; reflexivity);
    destruct f as [n|i]; unfold get_field, to_cfg in H;
    try discriminate H;
    try (destruct (i =? 0); [inversion H; subst; right; reflexivity|discriminate H]).
  (* VNil, an index: the empty list has no entry *)
  cbn [arr_of] in H. unfold lenZ in H. cbn [List.length] in H.
  destruct ((i <? 0) || (Z.of_nat 0 <=? i)) eqn:B; [discriminate H|]. lia.
Qed.

Lemma set_path_is_sub mx fs : forall pp node ov v node',
  fs <> [] -> set_path mx fs pp node ov v = Ok node' -> is_sub node = true.
Proof.
  induction fs as [|f rest IH]; intros pp node ov v node' NE H; [congruence|].
  destruct rest as [|f2 r2].
  - cbn in H. apply (set_field_is_sub _ _ _ _ _ _ _ H).
  - cbn [set_path] in H.
    assert (Fresh : (x <- build mx (f2 :: r2) ov v;; set_field mx f pp node (fst x) (snd x)) = Ok node' -> is_sub node = true).
    { intros F. destruct (build mx (f2 :: r2) ov v) as [y| | |]; cbn [bind] in F; try discriminate.
      apply (set_field_is_sub _ _ _ _ _ _ _ F). }
    destruct (get_field f pp node) as [[[pp' v0]|]|e p| |] eqn:G; try discriminate.
    + assert (Desc : (v' <- set_path mx (f2 :: r2) pp' v0 ov v;; Ok (replace_child f node v')) = Ok node' -> is_sub node = true).
      { intros D. destruct (set_path mx (f2 :: r2) pp' v0 ov v) as [v'| | |] eqn:S; cbn [bind] in D; try discriminate.
        assert (NE2 : f2 :: r2 <> []) by discriminate.
        pose proof (IH _ _ _ _ _ NE2 S) as Sub.
        destruct (get_field_some_cases _ _ _ _ _ G) as [Hs|He]; [exact Hs|subst; exact Sub]. }
      destruct v0; try (apply Desc; exact H). apply Fresh; exact H.
    + apply Fresh; exact H.
    + destruct e; try discriminate. apply Fresh; exact H.
Qed.

(* C12: a value written at an address is read back from that address, for every path *)
Lemma set_path_get_path mx rp fs : forall pp node ov v node',
  fs <> [] ->
  set_path mx fs pp node ov v = Ok node' ->
  exists p', get_path_go rp fs pp node' = Ok (Some (p', v)).
Proof.
  induction fs as [|f rest IH]; intros pp node ov v node' NE H; [congruence|].
  destruct rest as [|f2 r2].
  - cbn [set_path] in H. cbn [get_path_go].
    destruct (set_field_same_any _ _ _ _ _ _ _ H pp) as [p' G]. rewrite G. eauto.
  - cbn [set_path] in H.
    assert (Fresh : (x <- build mx (f2 :: r2) ov v;; set_field mx f pp node (fst x) (snd x)) = Ok node' ->
                    exists p', get_path_go rp (f :: f2 :: r2) pp node' = Ok (Some (p', v))).
    { intros F. destruct (build mx (f2 :: r2) ov v) as [y| | |] eqn:B; cbn [bind] in F; try discriminate.
      destruct (set_field_same_any _ _ _ _ _ _ _ F pp) as [p1 G].
      pose proof (build_leads_to mx rp (f2 :: r2) ov v y B) as [_ L].
      cbn [get_path_go]. rewrite G. apply L. }
    destruct (get_field f pp node) as [[[pp' v0]|]|e p| |] eqn:G; try discriminate.
    + assert (Desc : (v' <- set_path mx (f2 :: r2) pp' v0 ov v;; Ok (replace_child f node v')) = Ok node' ->
                     exists p', get_path_go rp (f :: f2 :: r2) pp node' = Ok (Some (p', v))).
      { intros D. destruct (set_path mx (f2 :: r2) pp' v0 ov v) as [v'| | |] eqn:S; cbn [bind] in D; try discriminate.
        inversion D; subst node'.
        assert (NE2 : f2 :: r2 <> []) by discriminate.
        pose proof (set_path_is_sub mx (f2 :: r2) _ _ _ _ _ NE2 S) as Sub0.
        assert (SubN : is_sub node = true).
        { destruct (get_field_some_cases _ _ _ _ _ G) as [Hs|He]; [exact Hs|subst; exact Sub0]. }
        rewrite (get_path_go_unfold rp f f2 r2 pp (replace_child f node v')).
        rewrite (replace_child_get _ _ _ _ _ v' SubN G).
        apply (IH pp' v0 ov v v' NE2 S). }
      destruct v0; try (apply Desc; exact H). apply Fresh; exact H.
    + apply Fresh; exact H.
    + destruct e; try discriminate. apply Fresh; exact H.
Qed.

(* C20 / C07: an index that came out of path parsing never grows a list beyond maxIdx+1 *)
Lemma parsed_index_growth mx input sep maxIdx nk esc i pp d a ov v d' a' :
  In (FIdx i) (parse_path input sep maxIdx nk esc) ->
  set_field mx (FIdx i) pp (VSub d a) ov v = Ok (VSub d' a') ->
  lenZ (arr_of a') <= Z.max (lenZ (arr_of a)) (maxIdx + 1).
Proof.
  intros HI HS. apply ProofsField.parse_path_idx_bound in HI.
  rewrite (set_field_idx_growth _ _ _ _ _ _ _ _ _ HS). lia.
Qed.

(* C07: an EXPLICIT index (Set*/SetChild) beyond the maximum index never grows a list either:
   after any single write the list is no longer than max(old length, maxIdx + 1) *)
Lemma explicit_index_growth mx i pp d a ov v d' a' :
  set_field mx (FIdx i) pp (VSub d a) ov v = Ok (VSub d' a') ->
  lenZ (arr_of a') <= Z.max (lenZ (arr_of a)) (mx + 1).
Proof.
  intro HS. pose proof (set_field_idx_growth _ _ _ _ _ _ _ _ _ HS) as G. rewrite G.
  cbn [set_field] in HS. destruct (i <? 0) eqn:N; [discriminate|].
  destruct ((lenZ (arr_of a) <=? i) && (mx <? i)) eqn:B; [discriminate|]. lia.
Qed.

(* writes never panic, whatever the index *)
Lemma set_field_no_panic mx f pp node ov v : set_field mx f pp node ov v <> Panic.
Proof.
  destruct node; try (destruct f; discriminate). destruct f as [n|i]; cbn; [discriminate|].
  destruct (i <? 0); [discriminate|]. destruct ((lenZ (arr_of a) <=? i) && (mx <? i)); discriminate.
Qed.
