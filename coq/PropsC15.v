(* PropsC15.v — C15: Path, Parent, FlattenedKeys and diff always describe the actual structure. *)
From Ucfg Require Import Base ParseInt Consts Field Tree PathOps Merge OTree Ops Keys.
