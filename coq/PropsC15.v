(* PropsC15.v — C15: Path, Parent, FlattenedKeys and diff always describe the actual structure.
   Statements only; proofs are in ProofsKeys.v. *)
From Ucfg Require Import Base ParseInt Consts Field Tree PathOps Merge OTree Ops Keys ProofsTree ProofsKeys.

(* When every stored field name equals the actual key / index ([names_ok]) and the tree holds no
   references ([static]; a node may hold named settings and a list part at once), FlattenedKeys (computed from the STORED
   names, as the implementation does) returns exactly the root-relative POSITIONAL paths of
   the non-nil primitive settings - for every tree, of any depth. *)
Theorem c15_flattened_keys_are_leaf_paths : forall sep v pp,
  names_ok v = true -> static v = true -> flat_keys sep pp v = Ok (leaf_paths sep pp v).
Proof. exact flat_keys_leaf_paths. Qed.
Print Assumptions c15_flattened_keys_are_leaf_paths.

(* The invariant "stored name = actual position" is kept by the operations of a history: *)
(* - a write of a fresh value under a name *)
Theorem c15_names_kept_by_named_write : forall mx n pp d a v node',
  names_ok (VSub d a) = true -> names_ok v = true ->
  set_field mx (FName n) pp (VSub d a) None v = Ok node' -> names_ok node' = true.
Proof. exact set_field_name_names_ok. Qed.
Print Assumptions c15_names_kept_by_named_write.

(* - removal of a named key *)
Theorem c15_names_kept_by_named_removal : forall n d a b node',
  names_ok (VSub d a) = true ->
  remove_field (FName n) (VSub d a) = Ok (b, node') -> names_ok node' = true.
Proof. exact remove_name_names_ok. Qed.
Print Assumptions c15_names_kept_by_named_removal.

(* - removal from the middle of a list: the entries that move down are renumbered *)
Theorem c15_names_kept_by_list_removal : forall i d a b node',
  names_ok (VSub d a) = true ->
  remove_field (FIdx i) (VSub d a) = Ok (b, node') -> names_ok node' = true.
Proof. exact remove_index_names_ok. Qed.
Print Assumptions c15_names_kept_by_list_removal.

(* - array append / prepend merges, which move elements *)
Theorem c15_names_kept_by_append : forall a1 l2,
  arr_ok 0 a1 = true -> forallb (fun e => names_ok (snd e)) l2 = true ->
  arr_ok 0 (a1 ++ renumber (lenZ a1) l2) = true.
Proof. exact append_names_ok. Qed.
Print Assumptions c15_names_kept_by_append.

Theorem c15_names_kept_by_prepend : forall a1 l2,
  forallb (fun e => names_ok (snd e)) a1 = true -> forallb (fun e => names_ok (snd e)) l2 = true ->
  arr_ok 0 (renumber 0 (l2 ++ a1)) = true.
Proof. exact prepend_names_ok. Qed.
Print Assumptions c15_names_kept_by_prepend.

(* CompareConfigs partitions the keys: kept = in both, added = only in the new config,
   removed = only in the old one (so the three are disjoint and exhaustive) ... *)
Theorem c15_diff_keep : forall k o n, In k (diff_keep o n) <-> In k o /\ In k n.
Proof. exact diff_keep_in. Qed.
Print Assumptions c15_diff_keep.

Theorem c15_diff_add : forall k o n, In k (diff_add o n) <-> In k n /\ ~ In k o.
Proof. exact diff_add_in. Qed.
Print Assumptions c15_diff_add.

Theorem c15_diff_remove : forall k o n, In k (diff_remove o n) <-> In k o /\ ~ In k n.
Proof. exact diff_remove_in. Qed.
Print Assumptions c15_diff_remove.

(* ... and a config compared with an equal one reports no change. *)
Theorem c15_diff_refl : forall o, diff_add o o = [] /\ diff_remove o o = [].
Proof. intro o. split; [exact (diff_refl_add o)|exact (diff_refl_remove o)]. Qed.
Print Assumptions c15_diff_refl.

(* Non-vacuity, and the statement that was false before the fix of F12a:
   {l:[{x:0},{x:1},{x:2}]} after Remove("l", 0). *)
Example c15_ex_remove_middle :
  let t := VSub [("l", ("l", VSub [] (Some [("0", VSub [("x", ("x", VUint 0))] None);
                                            ("1", VSub [("x", ("x", VUint 1))] None);
                                            ("2", VSub [("x", ("x", VUint 2))] None)])))] None in
  match remove_go [FName "l"; FIdx 0] "" t with
  | Ok (true, t') => names_ok t' = true /\ flattened_keys "." t' = Ok ["l.0.x"; "l.1.x"]
  | _ => False
  end.
Proof. vm_compute. split; reflexivity. Qed.
