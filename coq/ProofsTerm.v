(* ProofsTerm.v — C08: evaluation of plain references terminates.  The tree that is read and every
   Env config consist of plain references (no splices; any shape, any depth, references may be
   cyclic, dangling, point into lists, at containers or at other references); there are no
   resolvers.  A reference is looked up from the root of the tree it stands in, then in the Env
   configs, most recent first; what it finds may again be a reference, standing in another tree.
   With fuel above the number of references of all the trees together the evaluator model never
   runs out of fuel: every read is decided - a value or an error.  With ProofsFuel this outcome
   is the outcome at every larger fuel. *)
From Ucfg Require Import Base ParseInt Consts Field Tree PathOps Merge OTree F64 ParseValue VarParse Normalize Flags VarEval ProofsVarEval.
From Coq Require Import Lia.
Local Open Scope nat_scope.

(** sub-values *)
Inductive child : value -> value -> Prop :=
| child_dict d a k nm x : In (k, (nm, x)) d -> child x (VSub d a)
| child_arr d l nm x : In (nm, x) l -> child x (VSub d (Some l)).

Inductive sub : value -> value -> Prop :=
| sub_refl v : sub v v
| sub_step x y z : child x y -> sub y z -> sub x z.

Lemma dict_get_in {A} k (d : list (string * A)) x : dict_get k d = Some x -> In (k, x) d.
Proof.
  induction d as [|[k' y] r IH]; cbn [dict_get]; [discriminate|].
  destruct (String.eqb k k') eqn:E.
  - intro H. injection H as H. subst y. apply String.eqb_eq in E. subst k'. left. reflexivity.
  - intro H. right. apply IH. exact H.
Qed.

Lemma nth_opt_in {A} (l : list A) n x : nth_opt l n = Some x -> In x l.
Proof.
  revert n. induction l as [|y r IH]; intros n; destruct n; cbn [nth_opt]; try discriminate.
  - intro H. injection H as H. left. exact H.
  - intro H. right. exact (IH n H).
Qed.

Lemma get_field_child fl pp cv pp' x :
  is_sub cv = true -> get_field fl pp cv = Ok (Some (pp', x)) -> child x cv.
Proof.
  intros Hs H. destruct cv as [| | | | | | | |d a]; try discriminate Hs. destruct fl as [n|i]; cbn [get_field to_cfg] in H; cbv zeta in H; unfold nv, dict, arr in *.
  - destruct (dict_get n d) as [[nm v]|] eqn:E; [|discriminate H]. injection H as _ H. subst v.
    apply (child_dict d a n nm x). apply dict_get_in. exact E.
  - match type of H with (if ?c then _ else _) = _ => destruct c end; cbv iota in H; [discriminate H|].
    match type of H with match ?c with _ => _ end = _ => destruct c as [[nm v]|] eqn:E end; cbv iota in H; [|discriminate H].
    injection H as _ H. subst v.
    destruct a as [l|]; [|destruct (Z.to_nat i); discriminate E].
    apply (child_arr d l nm x). exact (nth_opt_in _ _ _ E).
Qed.

Lemma get_field_decided fl pp cv : is_sub cv = true ->
  get_field fl pp cv <> OutOfModel /\ get_field fl pp cv <> Panic.
Proof.
  intro Hs. destruct cv as [| | | | | | | |d a]; try discriminate Hs. destruct fl as [n|i]; cbn [get_field to_cfg]; cbv zeta; unfold nv, dict, arr in *.
  - split; discriminate.
  - match goal with |- (if ?c then _ else _) <> _ /\ _ => destruct c end; cbv iota; [split; discriminate|].
    match goal with |- match ?c with _ => _ end <> _ /\ _ => destruct c as [[nm v]|] end; cbv iota; split; discriminate.
Qed.

Definition is_dyn (v : value) : bool := match v with VRef _ _ | VSplice _ => true | _ => false end.

(** the chain of active names only grows inside one evaluation *)
Definition le_act (a a' : act) : Prop := forall n, act_has n a = true -> act_has n a' = true.

Lemma le_act_refl a : le_act a a.
Proof. intros n H. exact H. Qed.

Lemma le_act_trans a b c : le_act a b -> le_act b c -> le_act a c.
Proof. intros H1 H2 n H. apply H2. apply H1. exact H. Qed.

Lemma act_has_add n m a : act_has n (act_add m a) = String.eqb n m || act_has n a.
Proof.
  destruct a as [|s r]; cbn [act_add act_has existsb]; [rewrite !Bool.orb_false_r; reflexivity|].
  rewrite Bool.orb_assoc. reflexivity.
Qed.

Lemma le_act_add n a : le_act a (act_add n a).
Proof. intros k H. rewrite act_has_add, H. apply Bool.orb_true_r. Qed.

Lemma act_has_mark_true n a : act_has n a = true -> act_has n (act_mark a) = true.
Proof.
  induction a as [|s r IH]; [discriminate|].
  destruct r as [|s2 r2].
  - cbn [act_mark act_has existsb]. rewrite !Bool.orb_false_r. intro H. rewrite H. apply Bool.orb_true_r.
  - change (act_mark (s :: s2 :: r2)) with (s :: act_mark (s2 :: r2)).
    cbn [act_has existsb] in *. intro H. apply Bool.orb_true_iff in H. apply Bool.orb_true_iff.
    destruct H as [H|H]; [left; exact H|right; apply IH; exact H].
Qed.

Lemma le_act_mark a : le_act a (act_mark a).
Proof. intros n H. apply act_has_mark_true. exact H. Qed.

Section Term.
  Variable o : eopts.
  Hypothesis Hres : eo_res o = [].
  Variable own : value.             (* the tree that is read *)
  Variable S0 : list string.        (* the names of the references of all the trees *)

  Definition all : list value := own :: eo_envs o.
  Definition good (v : value) : Prop := exists rt, In rt all /\ sub v rt.
  Hypothesis Href : forall p sep, good (VRef p sep) -> In (path_str p sep) S0.
  Hypothesis Hspl : forall e, ~ good (VSplice e).
  Hypothesis Hflt : forall f, good (VFloat f) -> ftext_lookup (eo_ftext o) f <> None.

  (* a located value: it stands in one of the trees, and its root is that tree *)
  Definition lgood (v : loc) : Prop := In (l_root v) all /\ sub (l_val v) (l_root v).
  Lemma lgood_good v : lgood v -> good (l_val v).
  Proof. intros [I S]. exists (l_root v). split; assumption. Qed.

  Lemma in_all_rev rt root : In root all -> In rt (root :: rev (eo_envs o)) -> In rt all.
  Proof.
    intros Hr [E|I]; [subst rt; exact Hr|]. right. apply in_rev. exact I.
  Qed.

  (* how many reference names are not being evaluated *)
  Definition free_in (a : act) (l : list string) : nat := List.length (filter (fun n => negb (act_has n a)) l).
  Definition m (a : act) : nat := free_in a S0.

  Lemma free_le a a' l : le_act a a' -> free_in a' l <= free_in a l.
  Proof.
    intro L. unfold free_in. induction l as [|x r IH]; [apply Nat.le_refl|]. cbn [filter].
    destruct (act_has x a) eqn:E.
    - rewrite (L x E). cbn [negb]. exact IH.
    - cbn [negb]. destruct (negb (act_has x a')); cbn [List.length]; lia.
  Qed.

  Lemma free_lt a a' n l : le_act a a' -> In n l -> act_has n a = false -> act_has n a' = true ->
    free_in a' l < free_in a l.
  Proof.
    intros L I Ha Ha'. unfold free_in. induction l as [|x r IH]; [contradiction|]. cbn [filter].
    destruct I as [I|I].
    - subst x. rewrite Ha, Ha'. cbn [negb List.length]. pose proof (free_le a a' r L) as Q. unfold free_in in Q. lia.
    - specialize (IH I). destruct (act_has x a) eqn:E.
      + rewrite (L x E). cbn [negb]. exact IH.
      + cbn [negb]. destruct (negb (act_has x a')); cbn [List.length]; lia.
  Qed.

  Lemma m_le a a' : le_act a a' -> m a' <= m a.
  Proof. apply free_le. Qed.

  Lemma m_add n a : In n S0 -> act_has n a = false -> m (act_add n a) < m a.
  Proof.
    intros I H. apply (free_lt a (act_add n a) n); [apply le_act_add|exact I|exact H|].
    rewrite act_has_add, String.eqb_refl. reflexivity.
  Qed.

  Lemma free_bound a l : free_in a l <= List.length l.
  Proof.
    unfold free_in. induction l as [|x r IH]; [apply Nat.le_refl|]. cbn [filter].
    destruct (negb (act_has x a)); cbn [List.length]; lia.
  Qed.

  Lemma m_bound a : m a <= List.length S0.
  Proof. apply free_bound. Qed.

  Lemma no_resolver n : resolve_env o n = None.
  Proof. unfold resolve_env. rewrite Hres. reflexivity. Qed.

  (** what a recursive evaluator good for chains with fewer than K free names provides *)
  Definition dv_ok (K : nat) (dv : value -> act -> string -> value -> R loc) : Prop :=
    forall rt a dp d, In rt all -> sub d rt -> m a < K ->
      match dv rt a dp d with
      | Ok (v, a') => lgood v /\ le_act a a' /\ (is_dyn d = true -> m a' < m a)
      | OutOfModel => False
      | _ => True
      end.

  Section Step.
    Variable dv : value -> act -> string -> value -> R loc.
    Variable K fuel0 : nat.
    Hypothesis Hdv : dv_ok K dv.
    Hypothesis HK : K <= fuel0.

    Lemma to_cfg_dyn_ok : forall n a v, lgood v -> m a < n -> m a < K ->
      match to_cfg_dyn dv n a v with
      | Ok (c, a') => le_act a a' /\
                      (forall cl, c = Some cl -> is_sub (l_val cl) = true /\ In (l_root cl) all /\
                                                 (l_val cl = empty_cfg \/ sub (l_val cl) (l_root cl)))
      | OutOfModel => False
      | _ => True
      end.
    Proof.
      induction n as [|n IH]; intros a v [Hr Hg] Hn Hk; [lia|]. cbn [to_cfg_dyn].
      destruct (l_val v) as [ | | | | | |p sep|e|d0 a0] eqn:Ev;
        try (split; [apply le_act_refl|intros cl X; discriminate X]).
      - split; [apply le_act_refl|]. intros cl X. injection X as X. subst cl. cbn [l_val l_root].
        split; [reflexivity|]. split; [exact Hr|left; reflexivity].
      - pose proof (Hdv (l_root v) a (l_path v) (VRef p sep) Hr Hg Hk) as D.
        destruct (dv (l_root v) a (l_path v) (VRef p sep)) as [[v1 a1]|e1 pe| |]; [|..|exact I|contradiction].
        + destruct D as [G1 [L1 M1]]. specialize (M1 eq_refl).
          specialize (IH a1 v1 G1 ltac:(lia) ltac:(lia)).
          destruct (to_cfg_dyn dv n a1 v1) as [[c a2]|e2 pe2| |]; try exact I; [|contradiction].
          destruct IH as [L2 C]. split; [exact (le_act_trans _ _ _ L1 L2)|exact C].
        + split; [destruct (err_marked pe); [apply le_act_mark|apply le_act_refl]|intros cl X; discriminate X].
      - exfalso. apply (Hspl e). exists (l_root v). split; assumption.
      - split; [apply le_act_refl|]. intros cl X. injection X as X. subst cl. rewrite Ev.
        split; [reflexivity|]. split; [exact Hr|right; exact Hg].
    Qed.

    (* postcondition shared by the field and path readers *)
    Definition read_post (a : act) (x : R (res (option loc))) : Prop :=
      match x with
      | Ok (r, a') => le_act a a' /\ r <> OutOfModel /\ (forall l, r = Ok (Some l) -> lgood l)
      | OutOfModel => False
      | _ => True
      end.

    Lemma get_field_dyn_ok fl a elem : lgood elem -> m a < fuel0 -> m a < K ->
      read_post a (get_field_dyn dv fuel0 fl a elem).
    Proof.
      intros G Hn Hk. unfold get_field_dyn.
      pose proof (to_cfg_dyn_ok fuel0 a elem G Hn Hk) as T.
      destruct (to_cfg_dyn dv fuel0 a elem) as [[c a0]|e pe| |]; cbn [bind]; [|exact I|exact I|contradiction].
      destruct T as [_ C]. cbv zeta.
      assert (le_act a (if act_marked a0 then act_mark a else a)) as L
          by (destruct (act_marked a0); [apply le_act_mark|apply le_act_refl]).
      set (a1 := if act_marked a0 then act_mark a else a) in *.
      destruct c as [cl|].
      - destruct (C cl eq_refl) as [Hs [Hin Hc]].
        destruct (get_field_decided fl (l_path cl) (l_val cl) Hs) as [NO NP].
        pose proof (get_field_child fl (l_path cl) (l_val cl)) as CH.
        destruct (get_field fl (l_path cl) (l_val cl)) as [[[pp x]|]|e pe| |]; try contradiction; cbn [read_post].
        + split; [exact L|]. split; [discriminate|]. intros l X. injection X as X. subst l.
          split; [exact Hin|]. cbn [l_val l_root].
          specialize (CH pp x Hs eq_refl). destruct Hc as [Hc|Hc].
          * rewrite Hc in CH. inversion CH; subst; contradiction.
          * exact (sub_step _ _ _ CH Hc).
        + split; [exact L|]. split; [discriminate|]. intros l X. discriminate X.
        + split; [exact L|]. split; [discriminate|]. intros l X. discriminate X.
      - destruct fl as [nm|i]; [|destruct i as [|i|i]]; cbn [read_post];
          (split; [exact L|]; split; [discriminate|]; intros l X; try discriminate X).
        injection X as X. subst l. exact G.
    Qed.

    Lemma get_path_dyn_ok : forall fs a cur, lgood cur -> m a < fuel0 -> m a < K ->
      read_post a (get_path_dyn dv fuel0 fs a cur).
    Proof.
      induction fs as [|fl rest IH]; intros a cur G Hn Hk.
      - cbn [get_path_dyn read_post]. split; [apply le_act_refl|]. split; [discriminate|].
        intros l X. injection X as X. subst l. exact G.
      - pose proof (get_field_dyn_ok fl a cur G Hn Hk) as F.
        destruct rest as [|f2 rest'].
        + cbn [get_path_dyn]. destruct (get_field_dyn dv fuel0 fl a cur) as [[r a1]|e pe| |]; cbn [bind]; try exact F.
          cbn [read_post fst snd] in *. destruct F as [L [NO GL]].
          destruct r as [ol|e pe| |]; cbn [read_post]; try (split; [exact L|]; split; [assumption|exact GL]).
          split; [exact L|]. split; [discriminate|]. intros l X. discriminate X.
        + change (get_path_dyn dv fuel0 (fl :: f2 :: rest') a cur)
            with (x <- get_field_dyn dv fuel0 fl a cur ;;
                  match fst x with
                  | Ok (Some nxt) => get_path_dyn dv fuel0 (f2 :: rest') (snd x) nxt
                  | Ok None => Ok (Err EMissing "", snd x)
                  | r => Ok (r, snd x)
                  end).
          destruct (get_field_dyn dv fuel0 fl a cur) as [[r a1]|e pe| |]; cbn [bind]; try exact F.
          cbn [read_post fst snd] in *. destruct F as [L [NO GL]].
          pose proof (m_le _ _ L) as ML.
          destruct r as [[nxt|]|e pe| |]; cbn [read_post].
          * specialize (IH a1 nxt (GL nxt eq_refl) ltac:(lia) ltac:(lia)).
            destruct (get_path_dyn dv fuel0 (f2 :: rest') a1 nxt) as [[r2 a2]|e2 pe2| |]; try exact IH.
            cbn [read_post] in *. destruct IH as [L2 R2]. split; [exact (le_act_trans _ _ _ L L2)|exact R2].
          * split; [exact L|]. split; [discriminate|]. intros l X. discriminate X.
          * split; [exact L|]. split; [discriminate|]. intros l X. discriminate X.
          * split; [exact L|]. split; [discriminate|]. intros l X. discriminate X.
          * contradiction.
    Qed.

    (* the search through the roots: the own tree, then the Env configs *)
    Definition last_ok (r : rres) : Prop :=
      match r with RNone | RMissing | RCritical _ _ => True | _ => False end.
    Definition found_post (a : act) (x : rres * act) : Prop :=
      le_act a (snd x) /\ (forall r0, fst x = RStop r0 -> r0 = Panic) /\ (fst x <> RCyclic) /\ (forall v, fst x = RFound v -> lgood v).

    Lemma try_roots_ok p : forall roots a last,
      (forall rt, In rt roots -> In rt all) -> last_ok last -> m a < fuel0 -> m a < K ->
      found_post a (try_roots dv fuel0 p roots a last).
    Proof.
      induction roots as [|rt more IH]; intros a last Hin Hl Hn Hk.
      - cbn [try_roots]. split; [apply le_act_refl|]. cbn [fst snd].
        destruct last; try contradiction; (split; [intros r0 X; discriminate X|]; split; [discriminate|]; intros v X; discriminate X).
      - cbn [try_roots].
        assert (lgood {| l_root := rt; l_path := ""; l_val := rt |}) as GR
            by (split; [apply Hin; left; reflexivity|apply sub_refl]).
        pose proof (get_path_dyn_ok p a _ GR Hn Hk) as P.
        assert (forall x, In x more -> In x all) as Hin' by (intros x Hx; apply Hin; right; exact Hx).
        destruct (get_path_dyn dv fuel0 p a {| l_root := rt; l_path := ""; l_val := rt |}) as [[r a1]|e pe| |];
          [| |split; [apply le_act_refl|]; cbn [fst snd]; split; [intros r0 X; injection X as X; subst r0; reflexivity|]; split; [discriminate|]; intros v X; discriminate X|contradiction].
        + cbn [read_post] in P. destruct P as [L [NO GL]]. pose proof (m_le _ _ L) as ML.
          assert (forall lst, last_ok lst -> found_post a (try_roots dv fuel0 p more a1 lst)) as Next.
          { intros lst Hlst. destruct (IH a1 lst Hin' Hlst ltac:(lia) ltac:(lia)) as [L2 R2].
            split; [exact (le_act_trans _ _ _ L L2)|exact R2]. }
          destruct r as [[v|]|e pe| |].
          * split; [exact L|]. cbn [fst snd]. split; [intros r0 X; discriminate X|]. split; [discriminate|].
            intros v0 X. injection X as X. subst v0. exact (GL v eq_refl).
          * apply Next. exact I.
          * destruct e; apply Next; exact I.
          * split; [exact L|]. cbn [fst snd]. split; [intros r0 X; injection X as X; subst r0; reflexivity|]. split; [discriminate|]. intros v X; discriminate X.
          * contradiction.
        + split; [apply le_act_refl|]. cbn [fst snd]. split; [intros r0 X; discriminate X|]. split; [discriminate|]. intros v X; discriminate X.
    Qed.

    (* one unfolding of cfgDynamic.getValue handles one more free name *)
    Lemma dyn_step_ok : dv_ok (S K) (dyn_step o dv fuel0).
    Proof.
      intros rt a dp d Hrt G Hk.
      destruct d as [ | | | | | |p sep|e|d0 a0];
        try (cbn [dyn_step is_dyn]; split; [split; [exact Hrt|exact G]|]; split; [apply le_act_refl|discriminate]).
      - assert (In (path_str p sep) S0) as IN by (apply Href; exists rt; split; assumption).
        unfold dyn_step, resolve_ref.
        destruct (act_has (path_str p sep) a) eqn:EA.
        + rewrite no_resolver. unfold mkerr. exact I.
        + pose proof (m_add _ _ IN EA) as MA.
          pose proof (try_roots_ok p (rt :: rev (eo_envs o)) (act_add (path_str p sep) a) RNone
                        (fun x Hx => in_all_rev x rt Hrt Hx) I ltac:(lia) ltac:(lia)) as T.
          destruct (try_roots dv fuel0 p (rt :: rev (eo_envs o)) (act_add (path_str p sep) a) RNone) as [r a1].
          destruct T as [L [NO [NC GL]]]. cbn [fst snd] in *.
          destruct r as [v| | | |e pe|r0].
          * split; [exact (GL v eq_refl)|]. split; [exact (le_act_trans _ _ _ (le_act_add _ _) L)|].
            intros _. pose proof (m_le _ _ L). lia.
          * rewrite no_resolver. unfold mkerr. exact I.
          * rewrite no_resolver. unfold mkerr. exact I.
          * exfalso. apply NC. reflexivity.
          * rewrite no_resolver. unfold mkerr. exact I.
          * rewrite (NO r0 eq_refl). exact I.
      - exfalso. apply (Hspl e). exists rt. split; assumption.
    Qed.

    Lemma to_string_dyn_ok : forall n a v, lgood v -> m a < n -> m a < K -> to_string_dyn o dv n a v <> OutOfModel.
    Proof.
      induction n as [|n IH]; intros a v [Hr Hg] Hn Hk; [lia|]. cbn [to_string_dyn].
      destruct (l_val v) as [ | |z|z|f|s|p sep|e|d0 a0] eqn:Ev;
        try (unfold simple_string, with_mark, mkerr; cbn [bind]; discriminate).
      - destruct b; cbn [simple_string with_mark bind]; discriminate.
      - cbn [simple_string].
        assert (ftext_lookup (eo_ftext o) f <> None) as F by (apply Hflt; exists (l_root v); split; assumption).
        destruct (ftext_lookup (eo_ftext o) f); [|contradiction].
        cbn [with_mark bind]. discriminate.
      - pose proof (Hdv (l_root v) a (l_path v) (VRef p sep) Hr Hg Hk) as D.
        destruct (dv (l_root v) a (l_path v) (VRef p sep)) as [[v1 a1]|e1 pe| |]; cbn [bind]; try discriminate; [|contradiction].
        destruct D as [G1 [L1 M1]]. specialize (M1 eq_refl). cbn [fst snd]. apply IH; [exact G1|lia|lia].
      - exfalso. apply (Hspl e). exists (l_root v). split; assumption.
    Qed.
  End Step.

  Lemma dyn_value_ok : forall f, dv_ok f (dyn_value o f).
  Proof.
    induction f as [|f IH].
    - intros rt a dp d _ _ H. lia.
    - change (dyn_value o (S f)) with (dyn_step o (dyn_value o f) (S f)).
      apply dyn_step_ok; [exact IH|lia].
  Qed.

  (** Config.String on such trees is decided once the fuel exceeds the number of references *)
  Theorem read_string_decided fuel name idx : List.length S0 < fuel ->
    read_string o fuel own name idx <> OutOfModel.
  Proof.
    intro HF. unfold read_string, get_value_dyn.
    assert (lgood {| l_root := own; l_path := ""; l_val := own |}) as GR by (split; [left; reflexivity|apply sub_refl]).
    pose proof (m_bound fresh) as MB.
    pose proof (get_path_dyn_ok (dyn_value o fuel) fuel fuel (dyn_value_ok fuel) (Nat.le_refl _)
                  (opts_path_idx (eo_p o) name idx) fresh _ GR ltac:(lia) ltac:(lia)) as P.
    destruct (get_path_dyn (dyn_value o fuel) fuel (opts_path_idx (eo_p o) name idx) fresh
                {| l_root := own; l_path := ""; l_val := own |}) as [[r a1]|e pe| |]; cbn [bind]; try discriminate; [|contradiction].
    cbn [read_post fst snd] in *. destruct P as [L [NO GL]]. pose proof (m_le _ _ L) as ML.
    destruct r as [[v|]|e pe| |]; cbn [bind]; try (unfold mkerr; discriminate); [|contradiction].
    pose proof (to_string_dyn_ok (dyn_value o fuel) fuel fuel (dyn_value_ok fuel) (Nat.le_refl _) fuel a1 v (GL v eq_refl) ltac:(lia) ltac:(lia)) as T.
    cbn [fst snd]. destruct (to_string_dyn o (dyn_value o fuel) fuel a1 v) as [y|e pe| |]; cbn [bind fst snd]; [intro X; discriminate X|discriminate|discriminate|exfalso; apply T; reflexivity].
  Qed.
End Term.

(** * a decidable sufficient condition, and the statement for concrete trees *)
Fixpoint refs_only (ft : list (Z * string)) (S0 : list string) (v : value) : bool :=
  match v with
  | VRef p sep => existsb (String.eqb (path_str p sep)) S0
  | VSplice _ => false
  | VFloat f => match ftext_lookup ft f with Some _ => true | None => false end
  | VSub d a =>
    (fix gd (l : list (string * (string * value))) : bool :=
       match l with [] => true | (_, (_, x)) :: r => refs_only ft S0 x && gd r end) d
    && match a with
       | None => true
       | Some l => (fix ga (l : list (string * value)) : bool :=
                      match l with [] => true | (_, x) :: r => refs_only ft S0 x && ga r end) l
       end
  | _ => true
  end.

Lemma refs_only_child ft S0 x y : child x y -> refs_only ft S0 y = true -> refs_only ft S0 x = true.
Proof.
  intros C H. destruct C as [d a k nm x I|d l nm x I]; cbn [refs_only] in H; apply Bool.andb_true_iff in H; destruct H as [Hd Ha].
  - clear Ha. induction d as [|[k' [nm' x']] r IH]; [contradiction|].
    apply Bool.andb_true_iff in Hd. destruct Hd as [H1 H2].
    destruct I as [I|I]; [injection I as _ _ I; subst x'; exact H1|exact (IH I H2)].
  - clear Hd. induction l as [|[nm' x'] r IH]; [contradiction|].
    apply Bool.andb_true_iff in Ha. destruct Ha as [H1 H2].
    destruct I as [I|I]; [injection I as _ I; subst x'; exact H1|exact (IH I H2)].
Qed.

Lemma refs_only_sub ft S0 x root : sub x root -> refs_only ft S0 root = true -> refs_only ft S0 x = true.
Proof.
  intros H. induction H as [v|x y z C _ IH]; intro R; [exact R|].
  apply (refs_only_child ft S0 x y C). exact (IH R).
Qed.

(* every read of trees of plain references is decided, whatever the references point at *)
Theorem plain_references_terminate o own S0 fuel name idx :
  eo_res o = [] -> forallb (refs_only (eo_ftext o) S0) (own :: eo_envs o) = true ->
  List.length S0 < fuel -> read_string o fuel own name idx <> OutOfModel.
Proof.
  intros Hr Hk HF.
  assert (forall v, good o own v -> refs_only (eo_ftext o) S0 v = true) as K.
  { intros v [rt [I S]]. apply (refs_only_sub _ _ _ _ S). rewrite forallb_forall in Hk. apply Hk. exact I. }
  apply (read_string_decided o Hr own S0); [| | |exact HF].
  - intros p sep G. pose proof (K _ G) as X. cbn [refs_only] in X.
    apply existsb_exists in X. destruct X as [n [I E]]. apply String.eqb_eq in E. subst n. exact I.
  - intros e G. pose proof (K _ G) as X. discriminate X.
  - intros f G. pose proof (K _ G) as X. cbn [refs_only] in X.
    destruct (ftext_lookup (eo_ftext o) f); [discriminate|discriminate X].
Qed.

(* a tree with a cycle, a dangling reference, a reference into a list, a chain, and a reference that
   leads through one Env config into another: all decided *)
Example termination_example :
  let po := {| p_sep := "."; p_maxIdx := 1024; p_numKeys := false; p_escape := false |} in
  let e1 := VSub [("s", ("s", VRef [FName "u"] ".")); ("v", ("v", VStr "env1"))] None in
  let e2 := VSub [("u", ("u", VSub [("inner", ("inner", VRef [FName "v"] "."))] None)); ("v", ("v", VStr "env2"))] None in
  let o := {| eo_p := po; eo_envs := [e1; e2]; eo_res := []; eo_noparse := false; eo_nocomma := false;
              eo_n := {| n_p := po; n_varexp := true; n_m := {| m_h := 0%N; m_ft := None |} |};
              eo_ftext := [] |} in
  let root := VSub [("a", ("a", VRef [FName "b"] "."));
                    ("b", ("b", VRef [FName "a"] "."));
                    ("c", ("c", VRef [FName "nowhere"] "."));
                    ("d", ("d", VRef [FName "l"; FIdx 1] "."));
                    ("e", ("e", VRef [FName "d"] "."));
                    ("l", ("l", VSub [] (Some [("0", VInt 1); ("1", VStr "one")])));
                    ("x", ("x", VRef [FName "s"; FName "inner"] "."))] None in
  let names := ["b"; "a"; "nowhere"; "l.1"; "d"; "s.inner"; "u"; "v"] in
  forallb (refs_only (eo_ftext o) names) (root :: eo_envs o) = true /\
  (forall fuel name idx, 8 < fuel -> read_string o fuel root name idx <> OutOfModel) /\
  read_string o 9 root "a" (-1) = Err ECyclic "" /\
  read_string o 9 root "c" (-1) = Err EMissing "!raw" /\
  read_string o 9 root "e" (-1) = Ok "one"%string /\
  read_string o 9 root "x" (-1) = Ok "env2"%string.
Proof.
  split; [vm_compute; reflexivity|]. split.
  - intros fuel name idx L. apply (plain_references_terminate _ _ ["b"; "a"; "nowhere"; "l.1"; "d"; "s.inner"; "u"; "v"]%string);
      [reflexivity|vm_compute; reflexivity|exact L].
  - vm_compute. repeat split.
Qed.
