(* CorrC17.v — parse.Value: model vs implementation, the JSON reading property on the
   implementation's output, and validation of the strconv models (ParseFloat, Unquote). *)
From Ucfg Require Export Base ParseInt Consts Field Tree F64 ParseValue.

Inductive robs := ROk (v : pv) | RErr (e : perr) | RPanic.

Inductive case :=
| CParse (flags : bool * bool * bool * bool * bool) (input : string) (observed : robs)
| CJson (expected : pv) (text : string) (observed : robs)      (* text is a JSON document for [expected] *)
| CFloat (s : string) (observed : option Z)                   (* strconv.ParseFloat(s, 64): bits or error *)
| CUnquote (s : string) (observed : option string).           (* strconv.Unquote *)

Definition robs_eqb (a b : robs) : bool :=
  match a, b with
  | ROk x, ROk y => pv_eqb x y
  | RErr e, RErr f => perr_eqb e f
  | RPanic, RPanic => true
  | _, _ => false
  end.

Definition robs_of (r : pres pv) : option robs :=
  match r with
  | POk v => Some (ROk v)
  | PErr e => Some (RErr e)
  | PPanic => Some RPanic
  | PUnknown => None
  end.

(* numbers are compared by value: an integer and a float are equal when the float is
   finite and denotes exactly that integer *)
Definition num_eq_int_float (z : Z) (bits : Z) : bool :=
  match decode bits with
  | FFin neg m e => match fin_compare_Z neg m e z with Eq => true | _ => false end
  | _ => false
  end.

Fixpoint pv_equiv (x y : pv) {struct x} : bool :=
  match x, y with
  | PNil, PNil => true
  | PBool a, PBool b => Bool.eqb a b
  | PStr a, PStr b => String.eqb a b
  | PInt a, PInt b | PUint a, PUint b | PInt a, PUint b | PUint a, PInt b => Z.eqb a b
  | PFloat a, PFloat b => Z.eqb a b
  | PInt a, PFloat b | PUint a, PFloat b => num_eq_int_float a b
  | PFloat a, PInt b | PFloat a, PUint b => num_eq_int_float b a
  | PArr l1, PArr l2 =>
    (fix go (l1 l2 : list pv) : bool :=
       match l1, l2 with
       | [], [] => true
       | a :: r1, b :: r2 => pv_equiv a b && go r1 r2
       | _, _ => false
       end) l1 l2
  | PObj m1, PObj m2 =>
    (fix go (l1 l2 : list (string * pv)) : bool :=
       match l1, l2 with
       | [], [] => true
       | (k, a) :: r1, (k2, b) :: r2 => String.eqb k k2 && pv_equiv a b && go r1 r2
       | _, _ => false
       end) m1 m2
  | _, _ => false
  end.

(* empty arrays and objects read back as nil, as everywhere in the library *)
Fixpoint pv_canon (x : pv) : pv :=
  match x with
  | PArr [] => PNil
  | PObj [] => PNil
  | PArr l => PArr (map pv_canon l)
  | PObj m => PObj ((fix go (l : list (string * pv)) :=
                       match l with [] => [] | (k, v) :: r => (k, pv_canon v) :: go r end) m)
  | _ => x
  end.

Definition prop_holds (c : case) : bool :=
  match c with
  | CJson expected _ (ROk v) => pv_equiv (pv_canon expected) v
  | CJson _ _ _ => false
  | CParse _ _ RPanic => false
  | _ => true
  end.

Definition model_obs (c : case) : option robs :=
  match c with
  | CParse flags input _ => robs_of (parse_value_with_config (pcfg_of flags) input)
  | CJson _ text _ => robs_of (parse_value_with_config DefaultConfig text)
  | _ => None
  end.

Definition model_agrees (c : case) : bool :=
  match c with
  | CParse _ _ obs | CJson _ _ obs =>
    match model_obs c with Some m => robs_eqb m obs | None => true end
  | CFloat s obs =>
    match parse_float_dec s, obs with
    | PFOk b, Some o => Z.eqb b o
    | PFSyntax, None | PFRange, None => true
    | PFUnknown, _ => true
    | _, _ => false
    end
  | CUnquote s obs => opt_eqb String.eqb (unquote_go s) obs      (* strconv.Unquote itself *)
  end.

Definition skipped (c : case) : bool :=
  match c with
  | CParse _ _ _ | CJson _ _ _ => match model_obs c with None => true | _ => false end
  | CFloat s _ => match parse_float_dec s with PFUnknown => true | _ => false end
  | _ => false
  end.

(* known-finding signatures for the JSON property *)
Fixpoint ends_with_backslash_string (fuel : nat) (s : string) : bool :=
  (* some double-quoted literal in the text has content ending in an escaped backslash *)
  match fuel with
  | O => false
  | S f =>
    match s with
    | String a (String b (String c r)) =>
      (Ascii.eqb a "\"%char && Ascii.eqb b "\"%char && Ascii.eqb c """"%char)
      || ends_with_backslash_string f (String b (String c r))
    | _ => false
    end
  end.

Fixpoint has_sub (fuel : nat) (pat s : string) : bool :=
  match fuel with
  | O => false
  | S f => String.prefix pat s || match s with String _ r => has_sub f pat r | EmptyString => false end
  end.

Definition signature (c : case) : N :=
  match c with
  | CJson _ text _ =>
    let n := S (String.length text) in
    if has_sub n "\/" text || has_sub n "\ud8" text || has_sub n "\uD8" text
       || has_sub n "\ud9" text || has_sub n "\uD9" text || has_sub n "\uda" text
       || has_sub n "\uDA" text || has_sub n "\udb" text || has_sub n "\uDB" text then 21%N
    else if ends_with_backslash_string n text then 16%N
    else 0%N
  | CParse _ input RPanic => 1%N
  | _ => 0%N
  end.

Definition verdict (c : case) : N :=
  if skipped c then 8%N
  else ((if model_agrees c then 0 else 1) + (if prop_holds c then 0 else 2))%N.

Fixpoint run_cases (i : N) (cs : list case) : list (N * N * N) :=
  match cs with
  | [] => []
  | c :: r =>
    let v := verdict c in
    if (v =? 0)%N then run_cases (i + 1)%N r
    else (i, v, signature c) :: run_cases (i + 1)%N r
  end.
