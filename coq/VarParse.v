(* VarParse.v — the lexer and parser of variable-expansion strings (variables.go: lexer,
   parseVarExp, finalize, parseSplice).  The lexer goroutine is a pure function here. *)
From Ucfg Require Import Base ParseInt Consts Field Tree.

Inductive token := TOpen | TClose | TSep (op : string) | TStr (s : string).

Definition str_tok (s : string) (acc : list token) : list token :=
  if String.eqb s "" then acc else TStr s :: acc.

(* [content] is the remaining text, [off] the scan offset in it, [acc] tokens reversed.
   fuel: every iteration advances [off] or shortens [content]. *)
Fixpoint lex_go (fuel : nat) (content : string) (off : nat) (varcount : nat) (acc : list token)
  : list token :=
  match fuel with
  | O => rev acc
  | S f =>
    let finish := rev (str_tok content acc) in
    match content with
    | EmptyString => rev acc
    | _ =>
      match index_any (sdrop off content) (if Nat.eqb varcount 0 then "$" else "$:}") with
      | None => finish
      | Some i =>
        let idx := (i + off)%nat in
        let off' := S idx in
        match String.get idx content with
        | None => finish
        | Some c =>
          if Ascii.eqb c ":"%char then
            match String.get off' content with
            | None => finish                                  (* ':' at the end of the string *)
            | Some n =>
              let acc := str_tok (stake idx content) acc in
              if Ascii.eqb n "+"%char then lex_go f (sdrop (S off') content) 0 varcount (TSep opAlternative :: acc)
              else if Ascii.eqb n "?"%char then lex_go f (sdrop (S off') content) 0 varcount (TSep opError :: acc)
              else lex_go f (sdrop off' content) 0 varcount (TSep opDefault :: acc)
            end
          else if Ascii.eqb c "}"%char then
            lex_go f (sdrop off' content) 0 (Nat.pred varcount) (TClose :: str_tok (stake idx content) acc)
          else (* '$' *)
            match String.get off' content with
            | None => finish                                  (* '$' at the end of the string *)
            | Some n =>
              if Ascii.eqb n "{"%char then
                lex_go f (sdrop (S off') content) 0 (S varcount) (TOpen :: str_tok (stake idx content) acc)
              else if Ascii.eqb n "$"%char || Ascii.eqb n "}"%char then
                (* escape: drop the '$', keep (and skip) the next character *)
                lex_go f (stake idx content +++ sdrop off' content) off' varcount acc
              else lex_go f content off' varcount acc
            end
        end
      end
    end
  end.

Definition lexer (s : string) : list token := lex_go (S (S (String.length s))) s 0 0 [].

(** parser *)
Record pstate := { ps_right : bool; ps_isvar : bool; ps_op : string;
                   ps_left_pieces : list vexp; ps_right_pieces : list vexp }.
(* pieces are kept in reverse order *)

Definition add_string (ps : list vexp) (s : string) : list vexp :=
  match ps with
  | EConst c :: r => EConst (c +++ s) :: r
  | _ => EConst s :: ps
  end.

Definition add_piece (st : pstate) (p : vexp) : pstate :=
  if ps_right st
  then {| ps_right := true; ps_isvar := ps_isvar st; ps_op := ps_op st;
          ps_left_pieces := ps_left_pieces st; ps_right_pieces := p :: ps_right_pieces st |}
  else {| ps_right := false; ps_isvar := ps_isvar st; ps_op := ps_op st;
          ps_left_pieces := p :: ps_left_pieces st; ps_right_pieces := ps_right_pieces st |}.

Definition add_str (st : pstate) (s : string) : pstate :=
  if ps_right st
  then {| ps_right := true; ps_isvar := ps_isvar st; ps_op := ps_op st;
          ps_left_pieces := ps_left_pieces st; ps_right_pieces := add_string (ps_right_pieces st) s |}
  else {| ps_right := false; ps_isvar := ps_isvar st; ps_op := ps_op st;
          ps_left_pieces := add_string (ps_left_pieces st) s; ps_right_pieces := ps_right_pieces st |}.

Inductive vperr := VEEmptyExpansion | VEMissingBrace | VEFatal.

Section Parse.
  Variables (sep : string) (maxIdx : Z) (numKeys escape : bool).

  Definition extract (pieces_rev : list vexp) : vexp :=
    match pieces_rev with
    | [] => EConst ""
    | [p] => p
    | _ => ESplice (rev pieces_rev)
    end.

  Definition finalize (st : pstate) : vexp + vperr :=
    if negb (ps_isvar st) then inr VEFatal
    else match ps_left_pieces st with
         | [] => inr VEEmptyExpansion
         | lp =>
           if negb (ps_right st) then
             match lp with
             | [EConst s] => inl (ERef (parse_path s sep maxIdx numKeys escape) sep)
             | _ => inl (ESingle (ESplice (rev lp)) sep)
             end
           else
             let l := extract lp in
             let r := extract (ps_right_pieces st) in
             if String.eqb (ps_op st) opDefault then inl (EDefault l r sep)
             else if String.eqb (ps_op st) opAlternative then inl (EAlt l r sep)
             else if String.eqb (ps_op st) opError then inl (EErr l r sep)
             else inr VEFatal
         end.

  Fixpoint parse_toks (toks : list token) (stack : list pstate) : vexp + vperr :=
    match toks with
    | [] =>
      match stack with
      | [base] => inl (match ps_left_pieces base with [p] => p | ps => ESplice (rev ps) end)
      | [] => inr VEFatal
      | _ => inr VEMissingBrace
      end
    | t :: rest =>
      match t, stack with
      | TOpen, _ =>
        parse_toks rest ({| ps_right := false; ps_isvar := true; ps_op := "";
                            ps_left_pieces := []; ps_right_pieces := [] |} :: stack)
      | TClose, top :: below :: more =>
        match finalize top with
        | inr e => inr e
        | inl piece => parse_toks rest (add_piece below piece :: more)
        end
      | TClose, _ => inr VEFatal
      | TSep op, top :: more =>
        if negb (ps_isvar top) then inr VEFatal
        else if ps_right top then parse_toks rest (add_str top op :: more)
        else parse_toks rest ({| ps_right := true; ps_isvar := true; ps_op := op;
                                 ps_left_pieces := ps_left_pieces top;
                                 ps_right_pieces := ps_right_pieces top |} :: more)
      | TStr s, top :: more => parse_toks rest (add_str top s :: more)
      | _, [] => inr VEFatal
      end
    end.

  Definition parse_splice (s : string) : vexp + vperr :=
    parse_toks (lexer s) [{| ps_right := false; ps_isvar := false; ps_op := "";
                             ps_left_pieces := []; ps_right_pieces := [] |}].
End Parse.
