(* ProofsParse.v — facts about the parse.Value model (C17): what the parser options do, and
   faithful reading of single-quoted strings. *)
From Ucfg Require Import Base ParseInt Consts Field Tree F64 ParseValue.

(** * White space *)
Lemma trim_with_zero pre fuel s : pre s = O -> trim_with pre fuel s = s.
Proof. intro H. destruct fuel; simpl; [reflexivity|]. rewrite H. reflexivity. Qed.

(* a byte below 0x80 that is no ASCII space starts no white-space rune *)
Lemma space_prefix_ascii a r :
  is_space a = false -> (byte_of a <? 128)%N = true -> space_prefix (String a r) = O.
Proof.
  intros Hs Hb. unfold space_prefix. rewrite Hs.
  assert ((byte_of a =? 194)%N = false) as E1 by (apply N.eqb_neq; apply N.ltb_lt in Hb; lia).
  assert ((byte_of a =? 225)%N = false) as E2 by (apply N.eqb_neq; apply N.ltb_lt in Hb; lia).
  assert ((byte_of a =? 226)%N = false) as E3 by (apply N.eqb_neq; apply N.ltb_lt in Hb; lia).
  assert ((byte_of a =? 227)%N = false) as E4 by (apply N.eqb_neq; apply N.ltb_lt in Hb; lia).
  destruct r as [|b r2]; [reflexivity|]. rewrite E1. simpl.
  destruct r2 as [|e r3]; [reflexivity|]. rewrite E2, E3, E4. reflexivity.
Qed.

Lemma trim_left_ascii a r :
  is_space a = false -> (byte_of a <? 128)%N = true -> trim_left (String a r) = String a r.
Proof. intros. unfold trim_left. apply trim_with_zero. apply space_prefix_ascii; assumption. Qed.

(** * The parser options do what they say *)
Section Options.
  Variable cfg : pcfg.

  (* with arrays disabled an opening bracket is ordinary text *)
  Lemma array_disabled_is_literal f r stop :
    c_array cfg = false ->
    parse_value cfg (S f) (String "["%char r) stop = parse_primitive (String "["%char r) stop.
  Proof.
    intro H. cbn [parse_value]. rewrite (trim_left_ascii "["%char r eq_refl eq_refl).
    rewrite H. reflexivity.
  Qed.

  Lemma object_disabled_is_literal f r stop :
    c_object cfg = false ->
    parse_value cfg (S f) (String "{"%char r) stop = parse_primitive (String "{"%char r) stop.
  Proof.
    intro H. cbn [parse_value]. rewrite (trim_left_ascii "{"%char r eq_refl eq_refl).
    rewrite H. reflexivity.
  Qed.

  Lemma dquote_disabled_is_literal f r stop :
    c_dq cfg = false ->
    parse_value cfg (S f) (String """"%char r) stop = parse_primitive (String """"%char r) stop.
  Proof.
    intro H. cbn [parse_value]. rewrite (trim_left_ascii """"%char r eq_refl eq_refl).
    rewrite H. reflexivity.
  Qed.

  Lemma squote_disabled_is_literal f r stop :
    c_sq cfg = false ->
    parse_value cfg (S f) (String "'"%char r) stop = parse_primitive (String "'"%char r) stop.
  Proof.
    intro H. cbn [parse_value]. rewrite (trim_left_ascii "'"%char r eq_refl eq_refl).
    rewrite H. reflexivity.
  Qed.

  (* ... and enabled, the quote styles read a quoted string *)
  Lemma squote_enabled f r stop :
    c_sq cfg = true ->
    parse_value cfg (S f) (String "'"%char r) stop
    = (x <~ parse_squote (String "'"%char r) ;; POk (PStr (fst x), snd x)).
  Proof.
    intro H. cbn [parse_value]. rewrite (trim_left_ascii "'"%char r eq_refl eq_refl).
    rewrite H. reflexivity.
  Qed.

  Lemma dquote_enabled f r stop :
    c_dq cfg = true ->
    parse_value cfg (S f) (String """"%char r) stop
    = (x <~ parse_dquote (String """"%char r) ;; POk (PStr (fst x), snd x)).
  Proof.
    intro H. cbn [parse_value]. rewrite (trim_left_ascii """"%char r eq_refl eq_refl).
    rewrite H. reflexivity.
  Qed.

  (* objects without arrays is the one combination ValueWithConfig rejects *)
  Lemma invalid_config_rejected content :
    c_array cfg = false -> c_object cfg = true -> parse_value_with_config cfg content = PErr PECfg.
  Proof. intros Ha Ho. unfold parse_value_with_config, valid_cfg. rewrite Ha, Ho. reflexivity. Qed.
End Options.

(** * Single-quoted strings are read back verbatim, whatever they contain *)
Lemma index_byte_app body c rest :
  mem_ascii c body = false -> index_byte (body +++ String c rest) c = Some (String.length body).
Proof.
  induction body as [|a r IH]; simpl; intro H.
  - rewrite Ascii.eqb_refl. reflexivity.
  - destruct (Ascii.eqb a c) eqn:E.
    + rewrite Ascii.eqb_sym in E. rewrite E in H. discriminate.
    + rewrite Ascii.eqb_sym in E. rewrite E in H. rewrite (IH H). reflexivity.
Qed.

Lemma stake_app body rest : stake (String.length body) (body +++ rest) = body.
Proof. induction body as [|a r IH]; simpl; [destruct rest; reflexivity|]. rewrite IH. reflexivity. Qed.

Lemma sdrop_app body rest : sdrop (String.length body) (body +++ rest) = rest.
Proof. induction body as [|a r IH]; simpl; [reflexivity|]. exact IH. Qed.

Theorem squote_roundtrip body rest :
  mem_ascii "'"%char body = false ->
  parse_squote (String "'"%char (body +++ String "'"%char rest)) = POk (body, rest).
Proof.
  intro H. unfold parse_squote. simpl sdrop at 1.
  rewrite (index_byte_app body "'"%char rest H).
  change (sdrop 1 (String "'"%char (body +++ String "'"%char rest))) with (body +++ String "'"%char rest).
  rewrite stake_app.
  replace (String.length body + 2)%nat with (S (S (String.length body))) by lia.
  change (sdrop (S (S (String.length body))) (String "'"%char (body +++ String "'"%char rest)))
    with (sdrop (S (String.length body)) (body +++ String "'"%char rest)).
  replace (S (String.length body)) with (String.length (body +++ "'"))%nat.
  2:{ clear. induction body as [|a r IH]; simpl; [reflexivity|]. rewrite IH. reflexivity. }
  replace (body +++ String "'"%char rest) with ((body +++ "'") +++ rest).
  2:{ clear. induction body as [|a r IH]; simpl; [reflexivity|]. rewrite IH. reflexivity. }
  rewrite sdrop_app. reflexivity.
Qed.

(* a single-quoted string value at any position of a document *)
Theorem squote_value_roundtrip cfg f body rest stop :
  c_sq cfg = true -> mem_ascii "'"%char body = false ->
  parse_value cfg (S f) (String "'"%char (body +++ String "'"%char rest)) stop = POk (PStr body, rest).
Proof.
  intros Hc Hb. rewrite squote_enabled by exact Hc. rewrite squote_roundtrip by exact Hb. reflexivity.
Qed.

Lemma parse_examples :
  parse_value_with_config DefaultConfig "{""a"": [1, -2, 3.5, ""x\ty"", null, true], 'b': {}}"
  = POk (PObj [("a", PArr [PUint 1; PInt (-2); PFloat 4615063718147915776; PStr ("x" +++ String (ch 9) "y"); PNil; PBool true]); ("b", PNil)])
  /\ parse_value_with_config DefaultConfig "a,b" = POk (PArr [PStr "a"; PStr "b"])
  /\ parse_value_with_config {| c_array := true; c_object := true; c_dq := true; c_sq := true; c_nocomma := true |} "a,b"
     = POk (PStr "a,b")
  /\ parse_value_with_config NoopConfig "[1, 2]" = POk (PStr "[1, 2]").
Proof. vm_compute. repeat split; reflexivity. Qed.

(** * C07: the parser never panics (in the model: no run ends in PPanic) *)
Definition no_panic {A} (r : pres A) : Prop := r <> PPanic.

Lemma pbind_no_panic {A B} (x : pres A) (f : A -> pres B) :
  no_panic x -> (forall a, no_panic (f a)) -> no_panic (pbind x f).
Proof. unfold no_panic. destruct x; simpl; auto; intros; discriminate. Qed.

Lemma non_quoted_no_panic s stop : no_panic (non_quoted s stop).
Proof. unfold no_panic, non_quoted. destruct (index_any s stop) as [[|n]|]; discriminate. Qed.

Lemma primitive_of_no_panic c : no_panic (primitive_of c).
Proof.
  unfold no_panic, primitive_of. destruct (String.eqb c "null"); [discriminate|].
  destruct (bool_word c); [discriminate|]. destruct (parse_uint0_opt c); [discriminate|].
  destruct (parse_int0 c); [discriminate|]. destruct (parse_float_dec c); discriminate.
Qed.

Lemma parse_primitive_no_panic s stop : no_panic (parse_primitive s stop).
Proof.
  unfold parse_primitive. apply pbind_no_panic; [apply non_quoted_no_panic|]. intro x.
  apply pbind_no_panic; [apply primitive_of_no_panic|]. intro v. discriminate.
Qed.

Lemma parse_dquote_no_panic s : no_panic (parse_dquote s).
Proof.
  unfold no_panic, parse_dquote. destruct (dq_end _ s 1); [|discriminate].
  destruct (unquote_dq _); discriminate.
Qed.

Lemma parse_squote_no_panic s : no_panic (parse_squote s).
Proof. unfold no_panic, parse_squote. destruct (index_byte _ _); discriminate. Qed.

Lemma expect_char_no_panic c e s : no_panic (expect_char c e s).
Proof. unfold no_panic, expect_char. destruct s; [discriminate|]. destruct (Ascii.eqb _ _); discriminate. Qed.

Lemma parse_key_no_panic s : no_panic (parse_key s).
Proof.
  unfold parse_key. destruct s as [|a r]; [discriminate|].
  destruct (Ascii.eqb a """"%char); [apply parse_dquote_no_panic|].
  destruct (Ascii.eqb a "'"%char); [apply parse_squote_no_panic|]. apply non_quoted_no_panic.
Qed.

Section Loops.
  Variable cfg : pcfg.
  Variable f : nat.

  Definition arr_loop_of :=
    fix arr_loop (n : nat) (s : string) (acc : list pv) {struct n} : pres (pv * string) :=
      match n with
      | O => PUnknown
      | S n' =>
        let s := trim_left s in
        match s with
        | EmptyString => PErr PEArrClose
        | String c r' =>
          if Ascii.eqb c "]"%char
          then POk (match acc with [] => PNil | _ => PArr (rev acc) end, r')
          else
            x <~ parse_value cfg f s arrayElemStopSet ;;
            let s2 := trim_left (snd x) in
            match s2 with
            | EmptyString => PErr PEArrClose
            | String nx r2 =>
              if Ascii.eqb nx "]"%char then POk (PArr (rev (fst x :: acc)), r2)
              else if Ascii.eqb nx ","%char then arr_loop n' r2 (fst x :: acc)
              else PErr PEArrSep
            end
        end
      end.

  Definition obj_loop_of :=
    fix obj_loop (n : nat) (s : string) (acc : list (string * pv)) {struct n} : pres (pv * string) :=
      match n with
      | O => PUnknown
      | S n' =>
        let s := trim_left s in
        match s with
        | EmptyString => PErr PEDictSep
        | String c r' =>
          if Ascii.eqb c "}"%char
          then POk (match acc with [] => PNil | _ => PObj acc end, r')
          else
            k <~ parse_key s ;;
            s1 <~ expect_char ":"%char PEExpectColon (trim_left (snd k)) ;;
            x <~ parse_value cfg f s1 objValueStopSet ;;
            match trim_left (snd x) with
            | EmptyString => PErr PEDictSep
            | String nx r2 =>
              let acc' := dict_set (fst k) (fst x) acc in
              if Ascii.eqb nx "}"%char then POk (PObj acc', r2)
              else if Ascii.eqb nx ","%char then obj_loop n' r2 acc'
              else PErr PEDictSep
            end
        end
      end.

  Lemma parse_value_unfold s stop :
    parse_value cfg (S f) s stop =
    match trim_left s with
    | EmptyString => POk (PNil, trim_left s)
    | String a r =>
      if Ascii.eqb a "["%char && c_array cfg then arr_loop_of (S f) r []
      else if Ascii.eqb a "{"%char && c_object cfg then obj_loop_of (S f) r []
      else if Ascii.eqb a """"%char && c_dq cfg then x <~ parse_dquote (trim_left s) ;; POk (PStr (fst x), snd x)
      else if Ascii.eqb a "'"%char && c_sq cfg then x <~ parse_squote (trim_left s) ;; POk (PStr (fst x), snd x)
      else parse_primitive (trim_left s) stop
    end.
  Proof. cbn [parse_value]. destruct (trim_left s); reflexivity. Qed.

  Hypothesis IH : forall s stop, no_panic (parse_value cfg f s stop).

  Lemma arr_loop_no_panic : forall n s acc, no_panic (arr_loop_of n s acc).
  Proof.
    induction n as [|n' IHn]; intros s acc; [discriminate|].
    cbn [arr_loop_of]. destruct (trim_left s) as [|c r']; [discriminate|].
    destruct (Ascii.eqb c "]"%char); [discriminate|].
    apply pbind_no_panic; [apply IH|]. intro x.
    cbv zeta. destruct (trim_left (snd x)) as [|nx r2]; [discriminate|].
    destruct (Ascii.eqb nx "]"%char); [discriminate|].
    destruct (Ascii.eqb nx ","%char); [apply IHn|discriminate].
  Qed.

  Lemma obj_loop_no_panic : forall n s acc, no_panic (obj_loop_of n s acc).
  Proof.
    induction n as [|n' IHn]; intros s acc; [discriminate|].
    cbn [obj_loop_of]. destruct (trim_left s) as [|c r']; [discriminate|].
    destruct (Ascii.eqb c "}"%char); [discriminate|].
    apply pbind_no_panic; [apply parse_key_no_panic|]. intro k.
    apply pbind_no_panic; [apply expect_char_no_panic|]. intro s1.
    apply pbind_no_panic; [apply IH|]. intro x.
    destruct (trim_left (snd x)) as [|nx r2]; [discriminate|].
    cbv zeta. destruct (Ascii.eqb nx "}"%char); [discriminate|].
    destruct (Ascii.eqb nx ","%char); [apply IHn|discriminate].
  Qed.
End Loops.

Theorem parse_value_no_panic cfg : forall fuel s stop, no_panic (parse_value cfg fuel s stop).
Proof.
  induction fuel as [|f IH]; intros s stop; [discriminate|].
  rewrite parse_value_unfold. destruct (trim_left s) as [|a r]; [discriminate|].
  destruct (Ascii.eqb a "["%char && c_array cfg); [apply arr_loop_no_panic; exact IH|].
  destruct (Ascii.eqb a "{"%char && c_object cfg); [apply obj_loop_no_panic; exact IH|].
  destruct (Ascii.eqb a """"%char && c_dq cfg).
  { apply pbind_no_panic; [apply parse_dquote_no_panic|]. intro x. discriminate. }
  destruct (Ascii.eqb a "'"%char && c_sq cfg).
  { apply pbind_no_panic; [apply parse_squote_no_panic|]. intro x. discriminate. }
  apply parse_primitive_no_panic.
Qed.

Theorem parse_top_no_panic cfg : forall n s acc, no_panic (parse_top cfg n s acc).
Proof.
  induction n as [|n' IH]; intros s acc; [discriminate|].
  cbn [parse_top]. apply pbind_no_panic; [apply parse_value_no_panic|]. intro x.
  destruct (trim_left (snd x)) as [|c r]; [discriminate|].
  apply pbind_no_panic; [apply expect_char_no_panic|]. intro s3. apply IH.
Qed.

Theorem parse_never_panics cfg content : parse_value_with_config cfg content <> PPanic.
Proof.
  unfold parse_value_with_config. destruct (negb (valid_cfg cfg)); [discriminate|]. apply parse_top_no_panic.
Qed.
