(* ProofsParse.v — facts about the parse.Value model (C17): what the parser options do, and
   faithful reading of single-quoted strings. *)
From Ucfg Require Import Base ParseInt Consts Field Tree F64 ParseValue.

(** * White space *)
Lemma trim_with_zero pre fuel s : pre s = O -> trim_with pre fuel s = s.
Proof. intro H. destruct fuel; simpl; [reflexivity|]. rewrite H. reflexivity. Qed.

(* a byte below 0x80 that is no ASCII space starts no white-space rune *)
Lemma space_prefix_ascii a r :
  is_space a = false -> (byte_of a <? 128)%N = true -> space_prefix (String a r) = O.
Proof.
  intros Hs Hb. unfold space_prefix. rewrite Hs.
  assert ((byte_of a =? 194)%N = false) as E1 by (apply N.eqb_neq; apply N.ltb_lt in Hb; lia).
  assert ((byte_of a =? 225)%N = false) as E2 by (apply N.eqb_neq; apply N.ltb_lt in Hb; lia).
  assert ((byte_of a =? 226)%N = false) as E3 by (apply N.eqb_neq; apply N.ltb_lt in Hb; lia).
  assert ((byte_of a =? 227)%N = false) as E4 by (apply N.eqb_neq; apply N.ltb_lt in Hb; lia).
  destruct r as [|b r2]; [reflexivity|]. rewrite E1. simpl.
  destruct r2 as [|e r3]; [reflexivity|]. rewrite E2, E3, E4. reflexivity.
Qed.

Lemma trim_left_ascii a r :
  is_space a = false -> (byte_of a <? 128)%N = true -> trim_left (String a r) = String a r.
Proof. intros. unfold trim_left. apply trim_with_zero. apply space_prefix_ascii; assumption. Qed.

(** * The parser options do what they say *)
Section Options.
  Variable cfg : pcfg.

  (* with arrays disabled an opening bracket is ordinary text *)
  Lemma array_disabled_is_literal f r stop :
    c_array cfg = false ->
    parse_value cfg (S f) (String "["%char r) stop = parse_primitive (String "["%char r) stop.
  Proof.
    intro H. cbn [parse_value]. rewrite (trim_left_ascii "["%char r eq_refl eq_refl).
    rewrite H. reflexivity.
  Qed.

  Lemma object_disabled_is_literal f r stop :
    c_object cfg = false ->
    parse_value cfg (S f) (String "{"%char r) stop = parse_primitive (String "{"%char r) stop.
  Proof.
    intro H. cbn [parse_value]. rewrite (trim_left_ascii "{"%char r eq_refl eq_refl).
    rewrite H. reflexivity.
  Qed.

  Lemma dquote_disabled_is_literal f r stop :
    c_dq cfg = false ->
    parse_value cfg (S f) (String """"%char r) stop = parse_primitive (String """"%char r) stop.
  Proof.
    intro H. cbn [parse_value]. rewrite (trim_left_ascii """"%char r eq_refl eq_refl).
    rewrite H. reflexivity.
  Qed.

  Lemma squote_disabled_is_literal f r stop :
    c_sq cfg = false ->
    parse_value cfg (S f) (String "'"%char r) stop = parse_primitive (String "'"%char r) stop.
  Proof.
    intro H. cbn [parse_value]. rewrite (trim_left_ascii "'"%char r eq_refl eq_refl).
    rewrite H. reflexivity.
  Qed.

  (* ... and enabled, the quote styles read a quoted string *)
  Lemma squote_enabled f r stop :
    c_sq cfg = true ->
    parse_value cfg (S f) (String "'"%char r) stop
    = (x <~ parse_squote (String "'"%char r) ;; POk (PStr (fst x), snd x)).
  Proof.
    intro H. cbn [parse_value]. rewrite (trim_left_ascii "'"%char r eq_refl eq_refl).
    rewrite H. reflexivity.
  Qed.

  Lemma dquote_enabled f r stop :
    c_dq cfg = true ->
    parse_value cfg (S f) (String """"%char r) stop
    = (x <~ parse_dquote (String """"%char r) ;; POk (PStr (fst x), snd x)).
  Proof.
    intro H. cbn [parse_value]. rewrite (trim_left_ascii """"%char r eq_refl eq_refl).
    rewrite H. reflexivity.
  Qed.

  (* objects without arrays is the one combination ValueWithConfig rejects *)
  Lemma invalid_config_rejected content :
    c_array cfg = false -> c_object cfg = true -> parse_value_with_config cfg content = PErr PECfg.
  Proof. intros Ha Ho. unfold parse_value_with_config, valid_cfg. rewrite Ha, Ho. reflexivity. Qed.
End Options.

(** * Single-quoted strings are read back verbatim, whatever they contain *)
Lemma index_byte_app body c rest :
  mem_ascii c body = false -> index_byte (body +++ String c rest) c = Some (String.length body).
Proof.
  induction body as [|a r IH]; simpl; intro H.
  - rewrite Ascii.eqb_refl. reflexivity.
  - destruct (Ascii.eqb a c) eqn:E.
    + rewrite Ascii.eqb_sym in E. rewrite E in H. discriminate.
    + rewrite Ascii.eqb_sym in E. rewrite E in H. rewrite (IH H). reflexivity.
Qed.

Lemma stake_app body rest : stake (String.length body) (body +++ rest) = body.
Proof. induction body as [|a r IH]; simpl; [destruct rest; reflexivity|]. rewrite IH. reflexivity. Qed.

Lemma sdrop_app body rest : sdrop (String.length body) (body +++ rest) = rest.
Proof. induction body as [|a r IH]; simpl; [reflexivity|]. exact IH. Qed.

Theorem squote_roundtrip body rest :
  mem_ascii "'"%char body = false ->
  parse_squote (String "'"%char (body +++ String "'"%char rest)) = POk (body, rest).
Proof.
  intro H. unfold parse_squote. simpl sdrop at 1.
  rewrite (index_byte_app body "'"%char rest H).
  change (sdrop 1 (String "'"%char (body +++ String "'"%char rest))) with (body +++ String "'"%char rest).
  rewrite stake_app.
  replace (String.length body + 2)%nat with (S (S (String.length body))) by lia.
  change (sdrop (S (S (String.length body))) (String "'"%char (body +++ String "'"%char rest)))
    with (sdrop (S (String.length body)) (body +++ String "'"%char rest)).
  replace (S (String.length body)) with (String.length (body +++ "'"))%nat.
  2:{ clear. induction body as [|a r IH]; simpl; [reflexivity|]. rewrite IH. reflexivity. }
  replace (body +++ String "'"%char rest) with ((body +++ "'") +++ rest).
  2:{ clear. induction body as [|a r IH]; simpl; [reflexivity|]. rewrite IH. reflexivity. }
  rewrite sdrop_app. reflexivity.
Qed.

(* a single-quoted string value at any position of a document *)
Theorem squote_value_roundtrip cfg f body rest stop :
  c_sq cfg = true -> mem_ascii "'"%char body = false ->
  parse_value cfg (S f) (String "'"%char (body +++ String "'"%char rest)) stop = POk (PStr body, rest).
Proof.
  intros Hc Hb. rewrite squote_enabled by exact Hc. rewrite squote_roundtrip by exact Hb. reflexivity.
Qed.

Lemma parse_examples :
  parse_value_with_config DefaultConfig "{""a"": [1, -2, 3.5, ""x\ty"", null, true], 'b': {}}"
  = POk (PObj [("a", PArr [PUint 1; PInt (-2); PFloat 4615063718147915776; PStr ("x" +++ String (ch 9) "y"); PNil; PBool true]); ("b", PNil)])
  /\ parse_value_with_config DefaultConfig "a,b" = POk (PArr [PStr "a"; PStr "b"])
  /\ parse_value_with_config {| c_array := true; c_object := true; c_dq := true; c_sq := true; c_nocomma := true |} "a,b"
     = POk (PStr "a,b")
  /\ parse_value_with_config NoopConfig "[1, 2]" = POk (PStr "[1, 2]").
Proof. vm_compute. repeat split; reflexivity. Qed.
