(* ProofsTotal.v — C07: the path-addressed readers and writers of the model never end in
   Panic, whatever the names and indices, and no write makes a list longer than
   max(old length, MaxIdx + 1). *)
From Ucfg Require Import Base ParseInt Consts Field Tree PathOps ProofsTree.
Local Open Scope Z_scope.

Lemma get_field_no_panic f pp elem : get_field f pp elem <> Panic.
Proof.
  destruct f as [n|i]; cbn.
  - destruct (to_cfg elem); discriminate.
  - destruct (to_cfg elem) as [d a| |]; try discriminate.
    + destruct ((i <? 0) || (lenZ (arr_of a) <=? i)); [discriminate|].
      destruct (nth_opt (arr_of a) (Z.to_nat i)) as [[nm v]|]; discriminate.
    + destruct (i =? 0); discriminate.
Qed.

Lemma get_path_go_no_panic rp fs : forall pp cur, get_path_go rp fs pp cur <> Panic.
Proof.
  induction fs as [|f r IH]; intros pp cur; [discriminate|].
  destruct r as [|f2 r2].
  - cbn [get_path_go]. pose proof (get_field_no_panic f pp cur) as G.
    destruct (get_field f pp cur); try discriminate. contradiction.
  - rewrite get_path_go_unfold. pose proof (get_field_no_panic f pp cur) as G.
    destruct (get_field f pp cur) as [[[pp' v]|]| | |]; try discriminate; [apply IH|contradiction].
Qed.

Theorem get_value_no_panic o rp name idx root : get_value o rp name idx root <> Panic.
Proof.
  unfold get_value, get_path. pose proof (get_path_go_no_panic rp (opts_path_idx o name idx) rp root) as G.
  destruct (get_path_go rp (opts_path_idx o name idx) rp root) as [[x|]| | |]; try discriminate. contradiction.
Qed.

Lemma build_no_panic mx fs : forall ov v, build mx fs ov v <> Panic.
Proof.
  induction fs as [|f r IH]; intros ov v; [discriminate|].
  cbn [build]. pose proof (IH ov v) as B. destruct (build mx r ov v) as [x| | |]; try discriminate; [|contradiction].
  cbn [bind]. pose proof (set_field_no_panic mx f "" empty_cfg (fst x) (snd x)) as S.
  destruct (set_field mx f "" empty_cfg (fst x) (snd x)); try discriminate. contradiction.
Qed.

Theorem set_path_no_panic mx fs : forall pp node ov v, set_path mx fs pp node ov v <> Panic.
Proof.
  induction fs as [|f rest IH]; intros pp node ov v; [discriminate|].
  destruct rest as [|f2 r2].
  - cbn [set_path]. apply set_field_no_panic.
  - cbn [set_path].
    assert (Fresh : (x <- build mx (f2 :: r2) ov v;; set_field mx f pp node (fst x) (snd x)) <> Panic).
    { pose proof (build_no_panic mx (f2 :: r2) ov v) as B.
      destruct (build mx (f2 :: r2) ov v) as [x| | |]; try discriminate; [|contradiction].
      cbn [bind]. apply set_field_no_panic. }
    pose proof (get_field_no_panic f pp node) as G.
    destruct (get_field f pp node) as [[[pp' v0]|]|e p| |]; try discriminate; try contradiction; try exact Fresh.
    + assert (Desc : (v' <- set_path mx (f2 :: r2) pp' v0 ov v;; Ok (replace_child f node v')) <> Panic).
      { pose proof (IH pp' v0 ov v) as S. destruct (set_path mx (f2 :: r2) pp' v0 ov v); cbn [bind]; try discriminate. contradiction. }
      destruct v0; try exact Desc. exact Fresh.
    + destruct e; try discriminate; exact Fresh.
Qed.

Theorem set_value_no_panic o rp name idx ov val root : set_value o rp name idx ov val root <> Panic.
Proof. unfold set_value. apply set_path_no_panic. Qed.

Lemma remove_field_no_panic f cur : remove_field f cur <> Panic.
Proof.
  unfold remove_field. destruct (to_cfg cur) as [d a| |]; try discriminate.
  destruct cur; try discriminate. destruct f as [n|i].
  - destruct (dict_has n d); discriminate.
  - destruct ((i <? 0) || (lenZ (arr_of a) <=? i)); discriminate.
Qed.

Lemma remove_go_unfold f f2 r2 pp cur :
  remove_go (f :: f2 :: r2) pp cur =
  match get_field f pp cur with
  | Err EMissing _ => Ok (false, cur)
  | Err r p => Err r p
  | Ok None => Ok (false, cur)
  | Ok (Some (pp', v)) => x <- remove_go (f2 :: r2) pp' v ;; Ok (fst x, replace_child f cur (snd x))
  | Panic => Panic
  | OutOfModel => OutOfModel
  end.
Proof. reflexivity. Qed.

Theorem remove_go_no_panic fs : forall pp cur, remove_go fs pp cur <> Panic.
Proof.
  induction fs as [|f rest IH]; intros pp cur; [discriminate|].
  destruct rest as [|f2 r2].
  - cbn [remove_go]. apply remove_field_no_panic.
  - rewrite remove_go_unfold. pose proof (get_field_no_panic f pp cur) as G.
    destruct (get_field f pp cur) as [[[pp' v]|]|e p| |]; try discriminate; [| |contradiction].
    + pose proof (IH pp' v) as R. destruct (remove_go (f2 :: r2) pp' v); cbn [bind]; try discriminate. contradiction.
    + destruct e; discriminate.
Qed.

Theorem remove_value_no_panic o rp name idx root : remove_value o rp name idx root <> Panic.
Proof. unfold remove_value. apply remove_go_no_panic. Qed.

Lemma total_examples :
  set_value {| p_sep := "."; p_maxIdx := 8; p_numKeys := false; p_escape := false |} "" "" (2 ^ 62) None (VInt 1) empty_cfg
  = Err EIndexOutOfRange ""
  /\ (exists t, set_value {| p_sep := "."; p_maxIdx := 8; p_numKeys := false; p_escape := false |} "" "" 8 None (VInt 1) empty_cfg = Ok t)
  /\ get_value {| p_sep := "."; p_maxIdx := 8; p_numKeys := false; p_escape := false |} "" "" (- 2 ^ 63) empty_cfg
     = Err EMissing "-9223372036854775808".
Proof. split; [vm_compute; reflexivity|]. split; [eexists; vm_compute; reflexivity|vm_compute; reflexivity]. Qed.
