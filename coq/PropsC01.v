(* PropsC01.v — C01: Merge follows the selected policy exactly. Statements only. *)
From Ucfg Require Import Base ParseInt Consts Field Tree PathOps Merge OTree ProofsMerge.

Theorem c01_absent_takes_b : forall o v, merge_plain o None v = Ok v.
Proof. exact merge_absent. Qed.
Print Assumptions c01_absent_takes_b.

Theorem c01_b_wins_over_primitive : forall o ov v, to_cfg ov = CVNot -> merge_plain o (Some ov) v = Ok v.
Proof. exact merge_over_primitive. Qed.
Print Assumptions c01_b_wins_over_primitive.

Theorem c01_nil_keeps_container : forall o d a, merge_plain o (Some (VSub d a)) VNil = Ok (VSub d a).
Proof. exact merge_nil_keeps_container. Qed.
Print Assumptions c01_nil_keeps_container.

Theorem c01_merge_empty_right : forall o d a, merge_plain o (Some (VSub d a)) empty_cfg = Ok (VSub d a).
Proof. exact merge_empty_r. Qed.
Print Assumptions c01_merge_empty_right.
