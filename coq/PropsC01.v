(* PropsC01.v — C01: Merge follows the selected policy exactly. Statements only; proofs are
   in ProofsMerge.v and ProofsMergeSpec.v. *)
From Ucfg Require Import Base ParseInt Consts Field Tree PathOps Merge OTree ProofsMerge ProofsMergeSpec.

(* THE REFINEMENT.  For every source tree x whose nodes are dictionaries or lists with unique
   keys (any shape, any depth, nil values, empty containers, type changes at the same key),
   every global policy h, and every destination A of that kind: unpacking the merged config
   yields exactly the plain-tree merge of the two unpacked operands.
   ([refines h x] quantifies over all options o with policy h and all destinations.) *)
Theorem c01_merge_refines_plain_tree_spec : forall h x, wfb x = true -> refines h x.
Proof. exact merge_refines. Qed.
Print Assumptions c01_merge_refines_plain_tree_spec.

(* spelled out *)
Theorem c01_merge_refines_spelled_out : forall h o A B R,
  m_h o = h -> wf A = true -> wfb B = true ->
  merge_plain o (Some A) B = Ok R ->
  strip R = spec_merge h (strip A) (strip B).
Proof. intros h o A B R Ho WA WB M. exact (merge_refines h B WB o (Some A) R Ho M WA). Qed.
Print Assumptions c01_merge_refines_spelled_out.

(* What the plain-tree specification says (properties of [spec_merge], i.e. of the
   observable result by the theorem above): *)

(* B's value wins wherever A is not a container *)
Theorem c01_b_wins_over_primitive : forall h a b, parts a = None -> spec_merge h a b = b.
Proof. exact spec_merge_over_primitive. Qed.
Print Assumptions c01_b_wins_over_primitive.

(* a nil in B leaves a container of A in place *)
Theorem c01_nil_keeps_container : forall h a,
  spec_merge h a ONil = match parts a with Some _ => a | None => ONil end.
Proof. exact spec_merge_nil. Qed.
Print Assumptions c01_nil_keeps_container.

(* lists: A then B for append, B then A for prepend, B alone for replace *)
Theorem c01_append : forall la lb, lb <> [] -> spec_merge 3 (OList la) (OList lb) = OList (la ++ lb).
Proof. exact spec_append. Qed.
Print Assumptions c01_append.

Theorem c01_prepend : forall la lb, lb <> [] -> spec_merge 4 (OList la) (OList lb) = OList (lb ++ la).
Proof. exact spec_prepend. Qed.
Print Assumptions c01_prepend.

Theorem c01_replace : forall h la lb,
  (h = 2 \/ h = 5)%N -> lb <> [] -> spec_merge h (OList la) (OList lb) = OList lb.
Proof. exact spec_arr_replace. Qed.
Print Assumptions c01_replace.

(* append produces a list whose length is the sum of the operands (both orders preserved:
   it is the concatenation) *)
Theorem c01_append_length : forall la lb, lb <> [] ->
  match spec_merge 3 (OList la) (OList lb) with
  | OList l => List.length l = (List.length la + List.length lb)%nat
  | _ => False
  end.
Proof. exact append_length. Qed.
Print Assumptions c01_append_length.

(* index-wise merge by default *)
Theorem c01_default_is_indexwise : forall h la lb i va vb,
  nth_error la i = Some va -> nth_error lb i = Some vb ->
  nth_error (szip h la lb) i = Some (spec_merge h va vb).
Proof. exact szip_nth_both. Qed.
Print Assumptions c01_default_is_indexwise.

Theorem c01_default_length : forall h la lb,
  List.length (szip h la lb) = Nat.max (List.length la) (List.length lb).
Proof. exact szip_length. Qed.
Print Assumptions c01_default_length.

(* at the level of the model: merging an empty config is the identity on the right *)
Theorem c01_merge_empty_right : forall o d a, merge_plain o (Some (VSub d a)) empty_cfg = Ok (VSub d a).
Proof. exact merge_empty_r. Qed.
Print Assumptions c01_merge_empty_right.

Theorem c01_absent_takes_b : forall o v, merge_plain o None v = Ok v.
Proof. exact merge_absent. Qed.
Print Assumptions c01_absent_takes_b.

(* Non-vacuity: a three-level example with a type change and a nil, under append. *)
Example c01_ex :
  let A := VSub [("a", ("a", VSub [("l", ("l", VSub [] (Some [("0", VUint 1); ("1", VUint 2)])));
                                   ("p", ("p", VStr "x"))] None));
                 ("k", ("k", VSub [("z", ("z", VBool true))] None))] None in
  let B := VSub [("a", ("a", VSub [("l", ("l", VSub [] (Some [("0", VUint 3)])));
                                   ("p", ("p", VSub [("q", ("q", VInt 0))] None))] None));
                 ("k", ("k", VNil))] None in
  wf A = true /\ wfb B = true /\
  exists R, merge_plain (plain_opts hAppend) (Some A) B = Ok R /\
            strip R = OMap [("a", OMap [("l", OList [OUint 1; OUint 2; OUint 3]);
                                        ("p", OMap [("q", OInt 0)])]);
                            ("k", OMap [("z", OBool true)])].
Proof. cbn zeta. split; [reflexivity|]. split; [reflexivity|]. eexists. split; vm_compute; reflexivity. Qed.
