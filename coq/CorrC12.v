(* CorrC12.v — histories of low-level operations: model vs implementation, and the
   plain-tree laws (read-after-write, frame) evaluated on the implementation's reads. *)
From Ucfg Require Export Base ParseInt Consts Field Tree PathOps Merge OTree Ops.

(* one address probed after every step: Has, String, Child *)
Record probe := { pr_name : string; pr_idx : Z; pr_has : obs; pr_str : obs; pr_child : obs }.

Record step := {
  st_handle : option (string * Z);     (* None: on the root; Some: through Child(name, idx) *)
  st_op : op;
  st_res : obs;                        (* observed result *)
  st_tree : value;                     (* observed root tree afterwards *)
  st_probes : list probe;              (* observed reads afterwards *)
  st_isdict : bool; st_isarray : bool; st_count : obs
}.

Inductive case :=
| CHist (o : popts) (init : value) (probes0 : list probe) (steps : list step).

Definition probe_agrees (o : popts) (root : value) (p : probe) : bool :=
  obs_eqb (rd_has o "" root (pr_name p) (pr_idx p)) (pr_has p) &&
  obs_eqb (rd_string o "" root (pr_name p) (pr_idx p)) (pr_str p) &&
  obs_eqb (rd_child o "" root (pr_name p) (pr_idx p)) (pr_child p).

Fixpoint steps_agree (o : popts) (root : value) (ss : list step) : bool :=
  match ss with
  | [] => true
  | s :: r =>
    let '(res, root') :=
        match st_handle s with
        | None => apply_op o "" root (st_op s)
        | Some (hn, hi) => apply_on_child o root hn hi (st_op s)
        end in
    match res with
    | OSkip => true        (* outside the model: stop comparing this history *)
    | _ =>
      obs_eqb res (st_res s) && value_eqb root' (st_tree s) &&
      forallb (probe_agrees o (st_tree s)) (st_probes s) &&
      Bool.eqb (is_dict (st_tree s)) (st_isdict s) &&
      Bool.eqb (is_array (st_tree s)) (st_isarray s) &&
      obs_eqb (rd_count "" (st_tree s) "") (st_count s) &&
      steps_agree o (st_tree s) r
    end
  end.

Definition model_agrees (c : case) : bool :=
  match c with
  | CHist o init p0 ss => forallb (probe_agrees o init) p0 && steps_agree o init ss
  end.

(** * plain-tree laws on the observed reads *)
Definition addr (o : popts) (name : string) (idx : Z) : list field := opts_path_idx o name idx.

Fixpoint is_prefix_path (p q : list field) : bool :=
  match p, q with
  | [], _ => true
  | f :: r, g :: s => field_eqb f g && is_prefix_path r s
  | _, [] => false
  end.

(* the address [q] may be affected by an operation at [p]: one is a prefix of the other,
   or they differ first at two indices of the same list (padding / shifting) *)
Fixpoint related (p q : list field) : bool :=
  match p, q with
  | [], _ | _, [] => true
  | FIdx _ :: _, FIdx _ :: _ => true
  | f :: r, g :: s => field_eqb f g && related r s
  end.

Definition op_addr (o : popts) (h : option (string * Z)) (p : op) : option (list field) :=
  let pre := match h with Some (hn, hi) => addr o hn hi | None => [] end in
  match p with
  | OpSet n i _ | OpSetChild n i _ _ | OpSetChildNil n i | OpRemove n i => Some (pre ++ addr o n i)
  | OpMerge _ _ => None
  end.

(* same observation; for errors the reason must agree (which component of an unrelated
   path is reported missing may change when intermediate containers appear) *)
Definition obs_same (a b : obs) : bool :=
  match a, b with
  | OE r _, OE s _ => ereason_eqb r s
  | _, _ => obs_eqb a b
  end.
Definition probe_same (a b : probe) : bool :=
  obs_same (pr_has a) (pr_has b) && obs_same (pr_str a) (pr_str b) && obs_same (pr_child a) (pr_child b).

Fixpoint frame_ok (o : popts) (target : list field) (before after : list probe) : bool :=
  match before, after with
  | b :: br, a :: ar =>
    (related target (addr o (pr_name b) (pr_idx b)) || probe_same b a) && frame_ok o target br ar
  | _, _ => true
  end.

(* read-after-write at the written address (probe 0 of each step is the written address) *)
Definition written_ok (s : step) : bool :=
  match st_handle s, st_op s, st_res s, st_probes s with
  | None, OpSet n i v, OV VNil, p :: _ =>
    if String.eqb (pr_name p) n && (pr_idx p =? i)
    then obs_eqb (pr_has p) (OV (VBool true)) &&
         match v with
         | VFloat _ => true
         | _ => obs_eqb (pr_str p) (obs_of VStr (to_string_lite "" v))
         end
    else true
  | _, _, _, _ => true
  end.

Fixpoint laws_ok (o : popts) (prev : list probe) (ss : list step) : bool :=
  match ss with
  | [] => true
  | s :: r =>
    written_ok s &&
    match st_res s, op_addr o (st_handle s) (st_op s) with
    | OV _, Some t => frame_ok o t prev (tl (st_probes s))
    | OE _ _, _ => frame_ok o [FName "\0"%string] prev (tl (st_probes s))   (* a failed op changes nothing *)
    | _, _ => true
    end &&
    laws_ok o (tl (st_probes s)) r
  end.

(* IsDict/IsArray agree with the plain tree: a node with named keys is a dictionary, a node
   with list entries only is a list and not a dictionary *)
Definition isdict_law (s : step) : bool :=
  match st_tree s with
  | VSub (_ :: _) _ => st_isdict s
  | VSub [] (Some (_ :: _)) => negb (st_isdict s) && st_isarray s
  | _ => true
  end.

Definition prop_holds (c : case) : bool :=
  match c with
  | CHist o init p0 ss =>
    laws_ok o p0 ss && forallb isdict_law ss &&
    forallb (fun s => match st_res s with OPanic => false | _ => true end) ss
  end.

(* known-finding signatures: 30 = the only failing law is isdict_law (an emptied
   dictionary beside list entries still reports IsDict) *)
Definition signature (c : case) : N :=
  match c with
  | CHist o init p0 ss =>
    if laws_ok o p0 ss && forallb (fun s => match st_res s with OPanic => false | _ => true end) ss
       && negb (forallb isdict_law ss) then 30%N else 0%N
  end.

Definition verdict (c : case) : N :=
  ((if model_agrees c then 0 else 1) + (if prop_holds c then 0 else 2))%N.

Fixpoint run_cases (i : N) (cs : list case) : list (N * N * N) :=
  match cs with
  | [] => []
  | c :: r =>
    let v := verdict c in
    if (v =? 0)%N then run_cases (i + 1)%N r
    else (i, v, signature c) :: run_cases (i + 1)%N r
  end.
