(* SpecEval.v — the specification of variable expansion that C08 states, as an evaluator of its
   own: a reference is cyclic exactly when it is re-entered WHILE IT IS STILL BEING EVALUATED.
   The names being evaluated form a stack that is passed down and never handed back: a name is
   on it from the moment its lookup starts until the value found for it - followed through
   further references - is fully evaluated.  A second use of a variable, a diamond, a path that
   walks twice through the same reference are no re-entries.

   Everything else (lookup order own tree > Env configs > resolvers, the operators, what is
   parsed from expanded text) is as in VarEval.v, whose definitions of the non-recursive parts
   are reused.  The implementation keeps sets of names that only grow within a scope (VarEval.v
   models that); where the two evaluators differ on an implementation outcome, the
   implementation reports a cycle that is none, or misses one.

   Results carry a flag: a cyclic error was absorbed (by a default, an alternative, a resolver)
   somewhere on the way - with the per-call cache of the implementation such results may
   legitimately depend on the order of evaluation (F10), and comparisons are relaxed there. *)
From Ucfg Require Import Base ParseInt Consts Field Tree PathOps Merge OTree F64 ParseValue VarParse Normalize Flags VarEval.

Section Spec.
  Variable o : eopts.

  Definition SR (A : Type) := res (A * bool).
  Definition stack := list string.
  Definition on_stack (n : string) (st : stack) : bool := existsb (String.eqb n) st.
  Definition is_cyc (e : ereason) : bool := match e with ECyclic => true | _ => false end.
  (* an error raised after (or out of) an absorbed cyclic error carries the flag in its path text *)
  Definition taint {A : Type} (m : bool) (r : SR A) : SR A :=
    match r with
    | Ok (x, m') => Ok (x, m || m')
    | Err e p => if m && negb (err_marked p) then Err e (mark_pfx +++ p) else r
    | x => x
    end.
  Definition cyc_err (e : ereason) (p : string) : bool := is_cyc e || err_marked p.

  Section Step.
    (* evaluate a dynamic value completely: the result is no reference and no expression *)
    Variable dv : value -> stack -> string -> value -> SR loc.

    Definition force1 (st : stack) (v : loc) : SR loc :=
      match l_val v with
      | VRef _ _ | VSplice _ => dv (l_root v) st (l_path v) (l_val v)
      | _ => Ok (v, false)
      end.

    (* toConfig; None = not a config *)
    Definition to_cfg_s (st : stack) (v : loc) : SR (option loc) :=
      match force1 st v with
      | Ok (w, m) =>
        match l_val w with
        | VSub _ _ => Ok (Some w, m)
        | VNil => Ok (Some {| l_root := l_root w; l_path := l_path w; l_val := empty_cfg |}, m)
        | _ => Ok (None, m)
        end
      | Err e p => Ok (None, cyc_err e p)
      | Panic => Panic
      | OutOfModel => OutOfModel
      end.

    Definition get_field_s (fl : field) (st : stack) (elem : loc) : SR (res (option loc)) :=
      x <- to_cfg_s st elem ;;
      let '(c, m) := x in
      match c with
      | Some cl =>
        match get_field fl (l_path cl) (l_val cl) with
        | Ok (Some (pp, v)) => Ok (Ok (Some {| l_root := l_root cl; l_path := pp; l_val := v |}), m)
        | Ok None => Ok (Ok None, m)
        | Err e p => Ok (Err e p, m)
        | Panic => Panic
        | OutOfModel => OutOfModel
        end
      | None =>
        match fl with
        | FIdx 0 => Ok (Ok (Some elem), m)
        | _ => Ok (Err EExpectedObject "", m)
        end
      end.

    Fixpoint get_path_s (fs : list field) (st : stack) (cur : loc) {struct fs} : SR (res (option loc)) :=
      match fs with
      | [] => Ok (Ok (Some cur), false)
      | [fl] =>
        x <- get_field_s fl st cur ;;
        match fst x with
        | Err _ _ => Ok (Err EMissing "", snd x)
        | r => Ok (r, snd x)
        end
      | fl :: rest =>
        x <- get_field_s fl st cur ;;
        match fst x with
        | Ok (Some nxt) => y <- get_path_s rest st nxt ;; Ok (fst y, snd x || snd y)
        | Ok None => Ok (Err EMissing "", snd x)
        | r => Ok (r, snd x)
        end
      end.

    Fixpoint try_roots_s (p : list field) (roots : list value) (st : stack) (last : rres) (m : bool) {struct roots}
      : rres * bool :=
      match roots with
      | [] => (last, m)
      | rt :: more =>
        match get_path_s p st {| l_root := rt; l_path := ""; l_val := rt |} with
        | Ok (Ok (Some v), m') => (RFound v, m || m')
        | Ok (Ok None, m') => try_roots_s p more st RNone (m || m')
        | Ok (Err EMissing _, m') => try_roots_s p more st RMissing (m || m')
        | Ok (Err e pth, m') => try_roots_s p more st (RCritical e pth) (m || m')
        | Ok (Panic, _) => (RStop Panic, m)
        | Ok (OutOfModel, _) => (RStop OutOfModel, m)
        | Err e pth => (RCritical e pth, m)
        | Panic => (RStop Panic, m)
        | OutOfModel => (RStop OutOfModel, m)
        end
      end.

    (* the lookup of a reference; while it runs - and while what it finds is evaluated - the
       name is on the stack *)
    Definition resolve_ref_s (root : value) (st : stack) (p : list field) (sep : string) : rres * bool :=
      let name := path_str p sep in
      if on_stack name st then (RCyclic, false)
      else try_roots_s p (root :: rev (eo_envs o)) (name :: st) RNone false.

    Definition to_string_s (st : stack) (v : loc) : SR string :=
      w <- force1 st v ;;
      taint (snd w) (s <- simple_string (eo_ftext o) (l_val (fst w)) ;; Ok (s, false)).

    (* reference.resolve inside an expression: the value found, evaluated under the name *)
    Definition ref_eval_s (root : value) (st : stack) (p : list field) (sep : string) : SR string :=
      let name := path_str p sep in
      let '(r, m) := resolve_ref_s root st p sep in
      match r with
      | RFound v => taint m (to_string_s (name :: st) v)
      | RStop Panic => Panic
      | RStop _ => OutOfModel
      | RNone | RMissing | RCyclic | RCritical _ _ =>
        (* found in no tree (not set, cyclic, or the path runs into a value that is no object):
           the resolvers *)
        match resolve_env o name with
        | Some (s, _) =>
          if String.eqb s "" then taint m (Err EOther "!raw")
          else Ok (s, m || match r with RCyclic => true | _ => false end)
        | None => taint m (match r with RCyclic => Err ECyclic "" | RCritical e pth => Err e pth | _ => Err EMissing "!raw" end)
        end
      end.

    (* is the reference set to anything (the alternative operator) *)
    Definition ref_set_s (root : value) (st : stack) (p : list field) (sep : string) : SR bool :=
      let name := path_str p sep in
      let '(r, m) := resolve_ref_s root st p sep in
      match r with
      | RFound _ => Ok (true, m)
      | RStop Panic => Panic
      | RStop _ => OutOfModel
      | RNone | RMissing | RCyclic | RCritical _ _ =>
        match resolve_env o name with
        | Some (s, _) => Ok (negb (String.eqb s ""), m || match r with RCyclic => true | _ => false end)
        | None => taint m (match r with RCyclic => Err ECyclic "" | RCritical e pth => Err e pth | _ => Err EMissing "!raw" end)
        end
      end.

    Fixpoint exp_s (e : vexp) (root : value) (st : stack) {struct e} : SR string :=
      let po := eo_p o in
      let pth (s sep : string) := parse_path s sep (p_maxIdx po) (p_numKeys po) (p_escape po) in
      match e with
      | EConst s => Ok (s, false)
      | ERef p sep => ref_eval_s root st p sep
      | ESplice ps =>
        (fix pieces (l : list vexp) (acc : string) (m : bool) {struct l} : SR string :=
           match l with
           | [] => Ok (acc, m)
           | x :: r => y <- taint m (exp_s x root st) ;; pieces r (acc +++ fst y) (snd y)
           end) ps "" false
      | ESingle x sep =>
        y <- exp_s x root st ;;
        taint (snd y) (ref_eval_s root st (pth (fst y) (p_sep po)) (p_sep po))
      | EDefault l r sep =>
        let dflt (m : bool) : SR string := taint m (exp_s r root st) in
        match exp_s l root st with
        | Ok (path, m1) =>
          if String.eqb path "" then dflt m1
          else
            match ref_eval_s root st (pth path sep) sep with
            | Ok (v, m2) => if String.eqb v "" then dflt (m1 || m2) else Ok (v, m1 || m2)
            | Err e p => dflt (m1 || cyc_err e p)
            | Panic => Panic
            | OutOfModel => OutOfModel
            end
        | Err e p => dflt (cyc_err e p)
        | Panic => Panic
        | OutOfModel => OutOfModel
        end
      | EAlt l r sep =>
        match exp_s l root st with
        | Ok (path, m1) =>
          if String.eqb path "" then Ok ("", m1)
          else
            match ref_set_s root st (pth path sep) sep with
            | Ok (true, m2) => taint (m1 || m2) (exp_s r root st)
            | Ok (false, m2) => Ok ("", m1 || m2)
            | Err e p => Ok ("", m1 || cyc_err e p)
            | Panic => Panic
            | OutOfModel => OutOfModel
            end
        | Err e p => Ok ("", cyc_err e p)
        | Panic => Panic
        | OutOfModel => OutOfModel
        end
      | EErr l r sep =>
        let fail (m : bool) : SR string := y <- taint m (exp_s r root st) ;; taint (snd y) (Err EOther "!raw") in
        match exp_s l root st with
        | Ok (path, m1) =>
          if String.eqb path "" then fail m1
          else
            match ref_eval_s root st (pth path sep) sep with
            | Ok (v, m2) => if String.eqb v "" then fail (m1 || m2) else Ok (v, m1 || m2)
            | Err e p => fail (m1 || cyc_err e p)
            | Panic => Panic
            | OutOfModel => OutOfModel
            end
        | Err e p => fail (cyc_err e p)
        | Panic => Panic
        | OutOfModel => OutOfModel
        end
      end.

    (* cfgDynamic.getValue, followed to the end *)
    Definition dyn_step_s (root : value) (st : stack) (dp : string) (d : value) : SR loc :=
      match d with
      | VRef p sep =>
        let name := path_str p sep in
        let '(r, m) := resolve_ref_s root st p sep in
        match r with
        | RFound v => taint m (force1 (name :: st) v)
        | RStop Panic => Panic
        | RStop _ => OutOfModel
        | RNone | RMissing | RCyclic | RCritical _ _ =>
          match resolve_env o name with
          | Some (s, pc) =>
            taint (m || match r with RCyclic => true | _ => false end)
                  (v <- parse_value o root dp s pc ;; Ok (v, false))
          | None => taint m (match r with RCyclic => Err ECyclic "" | RCritical e pth => Err e pth | _ => Err EMissing "!raw" end)
          end
        end
      | VSplice e =>
        x <- exp_s e root st ;;
        taint (snd x) (v <- parse_value o root dp (fst x) DefaultConfig ;; Ok (v, false))
      | v => Ok ({| l_root := root; l_path := dp; l_val := v |}, false)
      end.
  End Step.

  Fixpoint dyn_s (fuel : nat) (root : value) (st : stack) (dp : string) (d : value) {struct fuel} : SR loc :=
    match fuel with
    | O => OutOfModel
    | S f => dyn_step_s (dyn_s f) root st dp d
    end.

  (* Config.String by the specification *)
  Definition spec_string (fuel : nat) (root : value) (name : string) (idx : Z) : SR string :=
    let p := opts_path_idx (eo_p o) name idx in
    x <- get_path_s (dyn_s fuel) p [] {| l_root := root; l_path := ""; l_val := root |} ;;
    match fst x with
    | Ok (Some v) => taint (snd x) (to_string_s (dyn_s fuel) [] v)
    | Ok None => taint (snd x) (Err EMissing (path_str p (p_sep (eo_p o))))
    | Err e pth => taint (snd x) (Err e pth)
    | Panic => Panic
    | OutOfModel => OutOfModel
    end.

  (** Unpack into interface{} by the specification: a reference stands for what it finds, and what
      it finds is unpacked after the lookup is over (the content of a config is evaluated setting
      by setting, each on its own).  A structure that contains itself has no finite unpacking:
      the fuel runs out and the specification is silent (OutOfModel). *)
  Fixpoint reify_s (fuel : nat) (n : nat) (v : loc) {struct n} : res (otree_like * bool) :=
    match n with
    | O => OutOfModel
    | S n' =>
      match l_val v with
      | VNil => Ok (XNil, false)
      | VBool b => Ok (XBool b, false)
      | VInt z => Ok (XInt z, false)
      | VUint z => Ok (XUint z, false)
      | VFloat f => Ok (XFloat f, false)
      | VStr s => Ok (XStr s, false)
      | VRef _ _ | VSplice _ =>
        x <- dyn_s fuel (l_root v) [] (l_path v) (l_val v) ;;
        taint (snd x) (reify_s fuel n' (fst x))
      | VSub d ar =>
        sd <- (fix gd (l : list (string * (string * value))) : res (list (string * otree_like) * bool) :=
                 match l with
                 | [] => Ok ([], false)
                 | (k, (nm, x)) :: r =>
                   y <- reify_s fuel n' {| l_root := l_root v; l_path := path_join (l_path v) nm; l_val := x |} ;;
                   rest <- gd r ;; Ok ((k, fst y) :: fst rest, snd y || snd rest)
                 end) d ;;
        sa <- match ar with
              | None => Ok ([], false)
              | Some l =>
                (fix ga (l : list (string * value)) : res (list otree_like * bool) :=
                   match l with
                   | [] => Ok ([], false)
                   | (nm, x) :: r =>
                     y <- reify_s fuel n' {| l_root := l_root v; l_path := path_join (l_path v) nm; l_val := x |} ;;
                     rest <- ga r ;; Ok (fst y :: fst rest, snd y || snd rest)
                   end) l
              end ;;
        Ok (XSub (fst sd) (fst sa) (match ar with Some _ => true | None => false end), snd sd || snd sa)
      end
    end.
End Spec.
