(* ProofsReify.v — facts about the Unpack model (C04, C06, C13): validators that ran accept
   the value that is returned; primitive kinds survive Struct -> Config -> struct; fields the
   config does not mention, ignored and unexported fields keep their value. *)
From Coq Require Import ZifyBool.
From Ucfg Require Import Base ParseInt Consts Field Tree PathOps Merge OTree F64 Conv VarParse Normalize Reify.

Local Open Scope Z_scope.

Lemma in_seg_ok {A} seg (r : res A) y : in_seg seg r = Ok y -> r = Ok y.
Proof. destruct r; simpl; intro H; congruence. Qed.
Lemma in_seg_of_ok {A} seg (y : A) : in_seg seg (Ok y) = Ok y.
Proof. reflexivity. Qed.

(** * C04: validators *)
Lemma run_validators_sound vo ts w :
  run_validators vo ts w = Ok tt -> Forall (fun t => run_vtag vo t w = Ok tt) ts.
Proof.
  induction ts as [|t r IH]; simpl; intro H; [constructor|].
  destruct (run_vtag vo t w) as [[]| | |] eqn:E; simpl in H; try discriminate.
  constructor; auto.
Qed.

Lemma run_validators_complete vo ts w t r p :
  In t ts -> run_vtag vo t w = Err r p -> exists r' p', run_validators vo ts w = Err r' p'
  \/ run_validators vo ts w = Panic \/ run_validators vo ts w = OutOfModel.
Proof.
  induction ts as [|t0 rest IH]; simpl; intros Hin He; [contradiction|].
  destruct Hin as [E|Hin].
  - subst t0. rewrite He. simpl. exists r, p. left. reflexivity.
  - destruct (run_vtag vo t0 w) as [[]| | |]; simpl.
    + apply IH; auto.
    + eexists _, _. left. reflexivity.
    + exists r, p. right. left. reflexivity.
    + exists r, p. right. right. reflexivity.
Qed.

(* a failing validator makes the whole run fail (it never reports success) *)
Lemma failing_validator_rejects vo ts w t r p :
  In t ts -> run_vtag vo t w = Err r p -> run_validators vo ts w <> Ok tt.
Proof.
  intros Hin He H. apply run_validators_sound in H. rewrite Forall_forall in H.
  specialize (H t Hin). congruence.
Qed.

(* a converted primitive is returned only if every validator of the field accepts it *)
Lemma reify_primitive_validated f o th vts val k g :
  reify_primitive (S f) (o, th, vts) val (TPrim k) = Ok g -> is_nil (Some val) = false ->
  exists c, g = GP c /\ conv (r_ft o) (vo_dur (r_vo o)) k val = Ok c /\
            Forall (fun t => run_vtag (r_vo o) t (WPrim c) = Ok tt) vts.
Proof.
  intros H Hn. cbn [reify_primitive] in H. rewrite Hn in H. simpl in H.
  destruct (conv (r_ft o) (vo_dur (r_vo o)) k val) as [c| | |] eqn:Ec; simpl in H; try discriminate.
  destruct (run_validators (r_vo o) vts (WPrim c)) as [[]| | |] eqn:Ev; simpl in H; try discriminate.
  inversion H; subst. exists c. split; [reflexivity|]. split; [reflexivity|].
  apply run_validators_sound. exact Ev.
Qed.

(* the validators, read as the conditions they stand for *)
Lemma positive_int_means_nonneg i : validate_positive (WPrim (CI i)) = Ok tt <-> 0 <= i.
Proof. unfold validate_positive. cbn [chase_view]. destruct (i <? 0) eqn:E; split; intro H; try discriminate; try reflexivity; lia. Qed.

Lemma nonzero_int_means_nonzero i : validate_nonzero (WPrim (CI i)) = Ok tt <-> i <> 0.
Proof. simpl. destruct (i =? 0) eqn:E; split; intro H; try discriminate; try reflexivity; lia. Qed.

Lemma nonzero_uint_means_nonzero u : validate_nonzero (WPrim (CU u)) = Ok tt <-> u <> 0.
Proof. simpl. destruct (u =? 0) eqn:E; split; intro H; try discriminate; try reflexivity; lia. Qed.

Lemma nonzero_string_means_nonempty s : validate_nonzero (WPrim (CS s)) = Ok tt <-> s <> "".
Proof.
  unfold validate_nonzero, nonempty_view. cbn [chase_view].
  destruct (String.eqb s "") eqn:E; split; intro H; try discriminate; try reflexivity.
  - apply String.eqb_eq in E. contradiction.
  - intro X. subst. discriminate.
Qed.

Lemma min_int_means_bound vo p b i :
  parse_int0 p = Some b -> (validate_minmax vo true p (WPrim (CI i)) = Ok tt <-> b <= i).
Proof.
  intro Hp. unfold validate_minmax. cbn [chase_view]. rewrite Hp. destruct (Z.compare i b) eqn:C; split; intro H; try discriminate; try reflexivity.
  - apply Z.compare_eq in C. lia.
  - rewrite Z.compare_lt_iff in C. lia.
  - rewrite Z.compare_gt_iff in C. lia.
Qed.

Lemma max_int_means_bound vo p b i :
  parse_int0 p = Some b -> (validate_minmax vo false p (WPrim (CI i)) = Ok tt <-> i <= b).
Proof.
  intro Hp. unfold validate_minmax. cbn [chase_view]. rewrite Hp. destruct (Z.compare i b) eqn:C; split; intro H; try discriminate; try reflexivity.
  - apply Z.compare_eq in C. lia.
  - rewrite Z.compare_lt_iff in C. lia.
  - rewrite Z.compare_gt_iff in C. lia.
Qed.

(* positive, min and max judge what a pointer points to *)
Lemma validators_look_through_pointers vo ismin p w :
  validate_positive (WPtr w) = validate_positive w /\ validate_minmax vo ismin p (WPtr w) = validate_minmax vo ismin p w.
Proof. split; reflexivity. Qed.

(* nonzero and required judge the string, list or map a pointer points to *)
Lemma emptiness_looks_through_pointers s isnil n :
  validate_nonzero (WPtr (WPrim (CS s))) = validate_nonzero (WPrim (CS s)) /\
  validate_required (WPtr (WPtr (WSlice isnil n))) = validate_required (WSlice isnil n).
Proof. split; reflexivity. Qed.

(* a chain of n non-nil pointers around a value *)
Fixpoint ptrs (n : nat) (w : vview) : vview := match n with O => w | S k => WPtr (ptrs k w) end.

Lemma chase_ptrs n w : chase_view (ptrs n w) = chase_view w.
Proof. induction n as [|n IH]; [reflexivity|]. cbn [ptrs chase_view]. exact IH. Qed.

(* nonzero judges the string at the end of a chain of pointers of any length *)
Lemma nonzero_string_behind_pointers n s :
  validate_nonzero (ptrs n (WPrim (CS s))) = Ok tt <-> s <> "".
Proof.
  destruct n as [|n]; [apply nonzero_string_means_nonempty|].
  cbn [ptrs]. unfold validate_nonzero, nonempty_view.
  cbn [chase_view]. rewrite chase_ptrs. cbn [chase_view].
  destruct (String.eqb s "") eqn:E; split; intro H; try discriminate; try reflexivity.
  - apply String.eqb_eq in E. contradiction.
  - intro X. subst. discriminate.
Qed.

(* required rejects the empty or nil list at the end of a chain of pointers *)
Lemma required_list_behind_pointers n isnil len :
  validate_required (ptrs (S n) (WSlice isnil len)) = Ok tt <-> (isnil = false /\ len <> 0%nat).
Proof.
  cbn [ptrs]. unfold validate_required, nonempty_view.
  cbn [chase_view]. rewrite chase_ptrs. cbn [chase_view].
  destruct isnil; [split; [discriminate|intros [H _]; discriminate]|].
  destruct (Nat.eqb len 0) eqn:E.
  - split; [discriminate|]. intros [_ H]. apply PeanoNat.Nat.eqb_eq in E. contradiction.
  - split; [intros _; split; [reflexivity|apply PeanoNat.Nat.eqb_neq; exact E]|reflexivity].
Qed.

Lemma required_rejects_nil_pointer : validate_required WPtrNil = Err ERequired "".
Proof. reflexivity. Qed.

(** * C06: primitive kinds survive the way through a Config *)
(* what normalization stores for a primitive field value (no variable expansion) *)
Definition stored (c : cval) : value :=
  match c with
  | CB b => VBool b
  | CI i => if 0 <? i then VUint i else VInt i
  | CU u => VUint u
  | CF f => VFloat f
  | CS s => VStr s
  | CD _ => VNil      (* durations travel as text through an oracle: not covered here *)
  end.

Definition fits (k : tkind) (c : cval) : Prop :=
  match k, c with
  | KBool, CB _ => True
  | KInt bits, CI i => - 2 ^ (bits - 1) <= i <= 2 ^ (bits - 1) - 1 /\ 0 < bits <= 64
  | KUint bits, CU u => 0 <= u <= 2 ^ bits - 1 /\ 0 < bits <= 64
  | KString, CS _ => True
  | KFloat64, CF f => decode f <> FNaN
  | _, _ => False
  end.

Lemma pow2_mono a b : 0 <= a <= b -> 2 ^ a <= 2 ^ b.
Proof. intro H. apply Z.pow_le_mono_r; lia. Qed.

Theorem prim_roundtrip ft dur k c : fits k c -> conv ft dur k (stored c) = Ok c.
Proof.
  destruct k, c; simpl; intro F; try contradiction; try reflexivity.
  - (* int *)
    destruct F as [[Hlo Hhi] [Hb1 Hb2]].
    assert (2 ^ (bits - 1) <= 2 ^ 63) as P by (apply pow2_mono; lia).
    destruct (0 <? z) eqn:E; simpl.
    + unfold maxI64, two63z. change (2 ^ 63) with 9223372036854775808 in P.
      destruct (9223372036854775808 - 1 <? z) eqn:E2; [lia|]. simpl.
      destruct ((- 2 ^ (bits - 1) <=? z) && (z <=? 2 ^ (bits - 1) - 1)) eqn:E3; [reflexivity|lia].
    + destruct ((- 2 ^ (bits - 1) <=? z) && (z <=? 2 ^ (bits - 1) - 1)) eqn:E3; [reflexivity|lia].
  - (* uint *)
    destruct F as [[Hlo Hhi] _]. destruct (z <=? 2 ^ bits - 1) eqn:E; [reflexivity|lia].
  - (* float64 *)
    destruct (decode bits) eqn:D; try reflexivity. contradiction.
Qed.

(** * C13: what Unpack leaves alone *)
(* the field loop of reify_struct, as a function *)
Definition struct_loop (f : nat) (o : ropts) (cfg : value) :=
  fix go (fl : list (string * string * string * ty)) (vl : list gv) {struct fl} : res (list gv) :=
    match fl, vl with
    | (goname, ctag, vtagtext, ft) :: fr, x :: vr =>
      if negb (is_upper_first goname) || tag_ignore ctag then
        rest <- go fr vr ;; Ok (x :: rest)
      else
        let th := tag_handling ctag in
        let o' := {| r_p := r_p o; r_h := th; r_vo := r_vo o; r_ft := r_ft o |} in
        match parse_vtags vtagtext with
        | None => Err EOther ""
        | Some vts =>
          y <- (if tag_squash ctag then
                  match base_ty ft with
                  | TStruct _ | TMap _ =>
                    y <- reify_merge_value f (o', th, []) ft x cfg ;;
                    _ <- run_validators (r_vo o) vts (view y) ;; Ok y
                  | TSlice _ | TArray _ _ => reify_merge_value f (o', th, vts) ft x cfg
                  | _ => Err ETypeMismatch ""
                  end
                else
                  let name := if String.eqb (tag_name ctag) "" then lower_ascii_str goname else tag_name ctag in
                  let p := opts_path (r_p o') name in
                  v <- match get_path "" p cfg with
                       | Ok (Some (_, v)) => Ok (Some v)
                       | Ok None => Ok None
                       | Err EMissing _ => Ok None
                       | Err r s => Err r s
                       | Panic => Panic
                       | OutOfModel => OutOfModel
                       end ;;
                  if is_nil v then
                    match ft with
                    | TStruct _ =>
                      reify_merge_value f (o', th, vts) ft x (match v with Some n => n | None => VNil end)
                    | _ => _ <- rec_validate (r_vo o) ft x vts ;; Ok x
                    end
                  else in_seg (match get_path "" p cfg with Ok (Some (pth, _)) => pth | _ => "" end)
                              (reify_merge_value f (o', th, vts) ft x (match v with Some n => n | None => VNil end))) ;;
          rest <- go fr vr ;;
          Ok (y :: rest)
        end
    | _, _ => Ok []
    end.

Lemma reify_struct_unfold f o fs vs cfg :
  reify_struct (S f) o (TStruct fs) (GStructV vs) cfg
  = (r <- struct_loop f o cfg fs vs ;; Ok (GStructV r)).
Proof. reflexivity. Qed.

Definition untouched (fld : string * string * string * ty) : bool :=
  let '(goname, ctag, _, _) := fld in negb (is_upper_first goname) || tag_ignore ctag.

(* the field's own setting is absent (or nil) in the configuration *)
Definition unmentioned (o : ropts) (cfg : value) (fld : string * string * string * ty) : Prop :=
  let '(goname, ctag, _, ft) := fld in
  tag_squash ctag = false /\
  (match ft with TStruct _ => False | _ => True end) /\
  let name := if String.eqb (tag_name ctag) "" then lower_ascii_str goname else tag_name ctag in
  match get_path "" (opts_path (r_p o) name) cfg with
  | Ok None | Err EMissing _ | Ok (Some (_, VNil)) => True
  | _ => False
  end.

Theorem struct_loop_frame f o cfg : forall fs vs r,
  struct_loop f o cfg fs vs = Ok r ->
  List.length vs = List.length fs ->
  List.length r = List.length fs /\
  forall i fld x, nth_error fs i = Some fld -> nth_error vs i = Some x ->
    (untouched fld = true \/ unmentioned o cfg fld) -> nth_error r i = Some x.
Proof.
  induction fs as [|[[[goname ctag] vtagtext] ft] fr IH]; intros vs r H L.
  - destruct vs; simpl in H; inversion H; subst; (split; [reflexivity|]; intros [|i] fld x Hf; discriminate).
  - destruct vs as [|x vr]; [discriminate|]. simpl in L. injection L as L.
    cbn [struct_loop] in H. fold (struct_loop f o cfg) in H.
    destruct (negb (is_upper_first goname) || tag_ignore ctag) eqn:U.
    + destruct (struct_loop f o cfg fr vr) as [rest| | |] eqn:Er; simpl in H; try discriminate.
      inversion H; subst. destruct (IH vr rest Er L) as [Ln Fr]. split; [simpl; congruence|].
      intros [|i] fld y Hf Hv Hc; simpl in *.
      * inversion Hf; inversion Hv; subst. reflexivity.
      * eapply Fr; eauto.
    + destruct (parse_vtags vtagtext) as [vts|]; [|discriminate].
      match type of H with (bind ?Y _) = _ => destruct Y as [y| | |] eqn:Ey end; simpl in H; try discriminate.
      destruct (struct_loop f o cfg fr vr) as [rest| | |] eqn:Er; simpl in H; try discriminate.
      inversion H; subst. destruct (IH vr rest Er L) as [Ln Fr]. split; [simpl; congruence|].
      intros [|i] fld z Hf Hv Hc; simpl in *.
      * inversion Hf; inversion Hv; subst. destruct Hc as [Hc|Hc].
        { unfold untouched in Hc. rewrite U in Hc. discriminate. }
        unfold unmentioned in Hc. destruct Hc as [Hs [Hns Hg]]. rewrite Hs in Ey.
        cbv zeta in Hg.
        assert (opts_path (r_p {| r_p := r_p o; r_h := tag_handling ctag; r_vo := r_vo o; r_ft := r_ft o |})
                = opts_path (r_p o)) as Ep by reflexivity.
        cbv zeta in Ey. cbn [r_p] in Ey.
        destruct (get_path "" (opts_path (r_p o)
                     (if String.eqb (tag_name ctag) "" then lower_ascii_str goname else tag_name ctag)) cfg)
          as [[[pp v]|]|e s| |] eqn:G; try contradiction.
        -- destruct v; try contradiction. simpl in Ey.
           destruct ft; try contradiction;
             (destruct (rec_validate (r_vo o) _ z vts) as [[]| | |]; simpl in Ey; try discriminate;
              inversion Ey; reflexivity).
        -- simpl in Ey.
           destruct ft; try contradiction;
             (destruct (rec_validate (r_vo o) _ z vts) as [[]| | |]; simpl in Ey; try discriminate;
              inversion Ey; reflexivity).
        -- destruct e; try contradiction. simpl in Ey.
           destruct ft; try contradiction;
             (destruct (rec_validate (r_vo o) _ z vts) as [[]| | |]; simpl in Ey; try discriminate;
              inversion Ey; reflexivity).
      * eapply Fr; eauto.
Qed.

Theorem reify_struct_frame f o fs vs cfg g :
  reify_struct (S f) o (TStruct fs) (GStructV vs) cfg = Ok g ->
  List.length vs = List.length fs ->
  exists r, g = GStructV r /\ List.length r = List.length fs /\
  forall i fld x, nth_error fs i = Some fld -> nth_error vs i = Some x ->
    (untouched fld = true \/ unmentioned o cfg fld) -> nth_error r i = Some x.
Proof.
  intros H L. rewrite reify_struct_unfold in H.
  destruct (struct_loop f o cfg fs vs) as [r| | |] eqn:E; simpl in H; try discriminate.
  inversion H; subst. exists r. split; [reflexivity|]. eapply struct_loop_frame; eauto.
Qed.

(* ... and a field that keeps its value was validated as it stands *)
Theorem kept_field_is_validated f o cfg goname ctag vtagtext ft fr x vr r vts :
  struct_loop f o cfg ((goname, ctag, vtagtext, ft) :: fr) (x :: vr) = Ok r ->
  untouched (goname, ctag, vtagtext, ft) = false ->
  unmentioned o cfg (goname, ctag, vtagtext, ft) ->
  parse_vtags vtagtext = Some vts ->
  rec_validate (r_vo o) ft x vts = Ok tt.
Proof.
  intros H U M Pv. cbn [struct_loop] in H. fold (struct_loop f o cfg) in H.
  unfold untouched in U. rewrite U, Pv in H.
  destruct M as [Hs [Hns Hg]]. rewrite Hs in H. cbv zeta in Hg, H.
  assert (opts_path (r_p {| r_p := r_p o; r_h := tag_handling ctag; r_vo := r_vo o; r_ft := r_ft o |})
          = opts_path (r_p o)) as Ep by reflexivity.
  cbn [r_p] in H.
  destruct (get_path "" (opts_path (r_p o)
               (if String.eqb (tag_name ctag) "" then lower_ascii_str goname else tag_name ctag)) cfg)
    as [[[pp v]|]|e s| |] eqn:G; try contradiction.
  - destruct v; try contradiction. simpl in H.
    destruct ft; try contradiction;
      (destruct (rec_validate (r_vo o) _ x vts) as [[]| | |]; simpl in H; try discriminate; reflexivity).
  - simpl in H.
    destruct ft; try contradiction;
      (destruct (rec_validate (r_vo o) _ x vts) as [[]| | |]; simpl in H; try discriminate; reflexivity).
  - destruct e; try contradiction. simpl in H.
    destruct ft; try contradiction;
      (destruct (rec_validate (r_vo o) _ x vts) as [[]| | |]; simpl in H; try discriminate; reflexivity).
Qed.

(** * C14: the errors of the path-addressed getters name the setting *)
Lemma get_value_missing_names_path o rp name idx root :
  get_path rp (opts_path_idx o name idx) root = Ok None ->
  get_value o rp name idx root = Err EMissing (path_of rp (path_str (opts_path_idx o name idx) (p_sep o))).
Proof. intro H. unfold get_value. rewrite H. reflexivity. Qed.

Lemma get_path_last_field_missing rp f pp cur r s :
  get_field f pp cur = Err r s -> get_path_go rp [f] pp cur = Err EMissing (path_of pp (field_str f)).
Proof. intro H. simpl. rewrite H. reflexivity. Qed.

Lemma get_path_inner_missing rp f f2 rest pp cur :
  get_field f pp cur = Ok None ->
  get_path_go rp (f :: f2 :: rest) pp cur = Err EMissing (path_of pp (field_str f)).
Proof. intro H. simpl. rewrite H. reflexivity. Qed.

(* conversion failures keep the reason of the underlying conversion *)
Lemma reify_primitive_error_is_conv_error f o th vts val k r p :
  is_nil (Some val) = false -> conv (r_ft o) (vo_dur (r_vo o)) k val = Err r p ->
  reify_primitive (S f) (o, th, vts) val (TPrim k) = Err r p.
Proof. intros Hn Hc. cbn [reify_primitive]. rewrite Hn. simpl. rewrite Hc. reflexivity. Qed.

Lemma array_length_mismatch_is_error f fo n e val arr :
  cast_arr val = Ok arr -> List.length arr <> n ->
  reify_value (S f) fo (TArray n e) val = Err EArraySizeMismatch "".
Proof.
  intros Hc Hl. cbn [reify_value]. destruct fo as [[o th] vts]. simpl. rewrite Hc. simpl.
  destruct (Nat.eqb (List.length arr) n) eqn:E; [apply Nat.eqb_eq in E; contradiction|reflexivity].
Qed.

Lemma fits_extremes :
  fits (KInt 64) (CI (- 2 ^ 63)) /\ fits (KInt 64) (CI (2 ^ 63 - 1)) /\ fits (KUint 64) (CU (2 ^ 64 - 1))
  /\ fits (KInt 8) (CI (-128)) /\ fits KString (CS "${x}.,{}").
Proof. cbv [fits]. repeat split; try lia; discriminate. Qed.

(** * C14: a failed conversion is reported under the path of the setting it came from *)
Lemma in_seg_err {A} seg e p :
  @in_seg A seg (Err e p) = Err e (if String.eqb seg "" then p else if String.eqb p "" then seg else seg +++ "." +++ p).
Proof. reflexivity. Qed.

Theorem struct_field_error_names_setting f2 o cfg goname ctag vtagtext k fr x vr vts pth v r p0 :
  negb (is_upper_first goname) || tag_ignore ctag = false ->
  parse_vtags vtagtext = Some vts -> tag_squash ctag = false ->
  get_path "" (opts_path (r_p o) (if String.eqb (tag_name ctag) "" then lower_ascii_str goname else tag_name ctag)) cfg
    = Ok (Some (pth, v)) ->
  is_nil (Some v) = false ->
  conv (r_ft o) (vo_dur (r_vo o)) k v = Err r p0 ->
  struct_loop (S (S f2)) o cfg ((goname, ctag, vtagtext, TPrim k) :: fr) (x :: vr)
  = in_seg pth (Err r p0).
Proof.
  intros U Pv Hs G Hn Hc. cbn [struct_loop]. rewrite U, Pv, Hs. cbv zeta. cbn [r_p].
  rewrite G. cbn [bind]. rewrite Hn.
  cbn [reify_merge_value]. cbn [reify_primitive]. rewrite Hn. cbn [base_ty r_ft r_vo]. rewrite Hc.
  cbn [bind in_seg]. reflexivity.
Qed.

(* an element of a list: the index is put in front of the path *)
Lemma in_seg_compose {A} s1 s2 (r : res A) : s1 <> "" -> s2 <> "" ->
  in_seg s1 (in_seg s2 r) = in_seg (s1 +++ "." +++ s2) r.
Proof.
  intros H1 H2. destruct r as [a|e p| |]; try reflexivity. cbn [in_seg].
  destruct (String.eqb s1 "") eqn:E1; [apply String.eqb_eq in E1; contradiction|].
  destruct (String.eqb s2 "") eqn:E2; [apply String.eqb_eq in E2; contradiction|].
  assert (String.eqb (s1 +++ "." +++ s2) "" = false) as E3.
  { destruct s1; [contradiction|]. reflexivity. }
  rewrite E3. destruct (String.eqb p "") eqn:Ep.
  - rewrite E2. reflexivity.
  - assert (String.eqb (s2 +++ "." +++ p) "" = false) as E4 by (destruct s2; [contradiction|reflexivity]).
    rewrite E4. f_equal.
    assert (forall a b c : string, (a +++ b) +++ c = a +++ (b +++ c)) as Assoc.
    { induction a as [|ch0 a' IHa]; intros b c; simpl; [reflexivity|]. rewrite IHa. reflexivity. }
    rewrite !Assoc. reflexivity.
Qed.

Example error_path_example :
  let o := {| r_p := {| p_sep := "."; p_maxIdx := 1024; p_numKeys := false; p_escape := false |}; r_h := 0%N;
              r_vo := {| vo_dur := fun _ => None |}; r_ft := [] |} in
  let t := TStruct [("Srv", "srv", "", TSlice (TStruct [("Port", "net.port", "", TPrim (KUint 16))]))] in
  unpack o (TPtr t) (GPtr (zero t))
    (VSub [("srv", ("srv", VSub [] (Some [("0", VSub [("net", ("net", VSub [("port", ("port", VUint 80))] None))] None);
                                           ("1", VSub [("net", ("net", VSub [("port", ("port", VInt (-1)))] None))] None)])))] None)
  = Err ENegative "srv.1.net.port".
Proof. vm_compute. reflexivity. Qed.
