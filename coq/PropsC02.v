(* PropsC02.v — C02: variable expansion is late-bound substitution with a fixed lookup order.
   Statements only; proofs are in ProofsVarEval.v.  Every theorem holds for EVERY recursive
   evaluator dv and loop bound fuel0 (the model's evaluator at any fuel is an instance).

   PARTIAL: proved are the lookup order (own tree first, then the Env configs most recent
   first, then the resolvers most recent first), the behaviour of each operator given the
   outcome of its reference, that an unresolvable reference is an error, and that names
   registered by one piece of a string are invisible to the next. NOT proved: that the result
   of a whole evaluation equals a textual substitution specification for all expressions (the
   correspondence run compares the model with the implementation read by read instead), and
   late binding across merges (the model evaluates at read time by construction: dynamic
   values are stored unevaluated in the tree, Normalize.normalize_string). *)
From Ucfg Require Import Base ParseInt Consts Field Tree PathOps Merge OTree F64 ParseValue VarParse
     Normalize Flags Ops VarEval ProofsVarEval.

Theorem c02_own_tree_first_partial : forall o dv fuel0 root a p sep v a',
  act_has (path_str p sep) a = false ->
  get_path_dyn dv fuel0 p (act_add (path_str p sep) a) {| l_root := root; l_path := ""; l_val := root |}
    = Ok (Ok (Some v), a') ->
  resolve_ref o dv fuel0 root a p sep = (RFound v, a').
Proof. exact resolve_ref_own_tree_first. Qed.
Print Assumptions c02_own_tree_first_partial.

Theorem c02_then_latest_env_partial : forall o dv fuel0 root a p sep a' envs e v a'',
  act_has (path_str p sep) a = false ->
  get_path_dyn dv fuel0 p (act_add (path_str p sep) a) {| l_root := root; l_path := ""; l_val := root |}
    = Ok (Err EMissing "", a') ->
  eo_envs o = envs ++ [e] ->
  get_path_dyn dv fuel0 p a' {| l_root := e; l_path := ""; l_val := e |} = Ok (Ok (Some v), a'') ->
  resolve_ref o dv fuel0 root a p sep = (RFound v, a'').
Proof. exact resolve_ref_then_envs. Qed.
Print Assumptions c02_then_latest_env_partial.

Theorem c02_latest_resolver_wins_partial : forall o rs t n x,
  eo_res o = rs ++ [t] -> dict_get n t = Some x -> resolve_env o n = Some x.
Proof. exact resolve_env_latest_wins. Qed.
Print Assumptions c02_latest_resolver_wins_partial.

Theorem c02_earlier_resolvers_next_partial : forall o rs t n,
  eo_res o = rs ++ [t] -> dict_get n t = None -> resolve_env o n = ask_resolvers (rev rs) n.
Proof. exact resolve_env_falls_back. Qed.
Print Assumptions c02_earlier_resolvers_next_partial.

Theorem c02_unresolved_is_error_partial : forall o dv fuel0 root a p sep a',
  resolve_ref o dv fuel0 root a p sep = (RMissing, a') \/ resolve_ref o dv fuel0 root a p sep = (RNone, a') ->
  resolve_env o (path_str p sep) = None ->
  ref_eval o dv fuel0 root a p sep = mkerr a' EMissing "!raw".
Proof. exact unresolved_reference_is_error. Qed.
Print Assumptions c02_unresolved_is_error_partial.

Theorem c02_empty_resolver_value_is_error_partial : forall o dv fuel0 root a p sep a' pc,
  resolve_ref o dv fuel0 root a p sep = (RMissing, a') ->
  resolve_env o (path_str p sep) = Some ("", pc) ->
  ref_eval o dv fuel0 root a p sep = mkerr a' EOther "!raw".
Proof. exact empty_resolver_value_is_error. Qed.
Print Assumptions c02_empty_resolver_value_is_error_partial.

Theorem c02_default_when_unset_partial : forall o dv fuel0 root a l r sep path a1 e pth,
  scoped a (eval_exp o dv fuel0 l root (act_push a)) = Ok (path, a1) -> path <> "" ->
  scoped a1 (ref_eval o dv fuel0 root (act_push a1)
               (parse_path path sep (p_maxIdx (eo_p o)) (p_numKeys (eo_p o)) (p_escape (eo_p o))) sep)
    = Err e pth ->
  eval_exp o dv fuel0 (EDefault l r sep) root a
  = scoped (absorbed e pth a1) (eval_exp o dv fuel0 r root (act_push (absorbed e pth a1))).
Proof. exact default_on_failure. Qed.
Print Assumptions c02_default_when_unset_partial.

Theorem c02_default_not_used_when_set_partial : forall o dv fuel0 root a l r sep path a1 v a2,
  scoped a (eval_exp o dv fuel0 l root (act_push a)) = Ok (path, a1) -> path <> "" ->
  scoped a1 (ref_eval o dv fuel0 root (act_push a1)
               (parse_path path sep (p_maxIdx (eo_p o)) (p_numKeys (eo_p o)) (p_escape (eo_p o))) sep)
    = Ok (v, a2) -> v <> "" ->
  eval_exp o dv fuel0 (EDefault l r sep) root a = Ok (v, a2).
Proof. exact default_not_used. Qed.
Print Assumptions c02_default_not_used_when_set_partial.

Theorem c02_error_operator_partial : forall o dv fuel0 root a l r sep path a1 e pth m a3,
  scoped a (eval_exp o dv fuel0 l root (act_push a)) = Ok (path, a1) -> path <> "" ->
  scoped a1 (ref_eval o dv fuel0 root (act_push a1)
               (parse_path path sep (p_maxIdx (eo_p o)) (p_numKeys (eo_p o)) (p_escape (eo_p o))) sep)
    = Err e pth ->
  scoped (absorbed e pth a1) (eval_exp o dv fuel0 r root (act_push (absorbed e pth a1))) = Ok (m, a3) ->
  eval_exp o dv fuel0 (EErr l r sep) root a = mkerr a3 EOther "!raw".
Proof. exact error_operator_fails. Qed.
Print Assumptions c02_error_operator_partial.

Theorem c02_alternative_unset_partial : forall o dv fuel0 root a l r sep path a1 e pth,
  scoped a (eval_exp o dv fuel0 l root (act_push a)) = Ok (path, a1) -> path <> "" ->
  scoped a1 (ref_resolve o dv fuel0 root (act_push a1)
               (parse_path path sep (p_maxIdx (eo_p o)) (p_numKeys (eo_p o)) (p_escape (eo_p o))) sep)
    = Err e pth ->
  eval_exp o dv fuel0 (EAlt l r sep) root a = Ok ("", absorbed e pth a1).
Proof. exact alternative_unset_is_empty. Qed.
Print Assumptions c02_alternative_unset_partial.

(* literal text: a string without a dollar sign is a constant, whatever else it contains *)
Theorem c02_text_without_dollar_is_literal_partial : forall sep maxIdx nk esc s,
  s <> "" -> mem_ascii "$"%char s = false -> parse_splice sep maxIdx nk esc s = inl (EConst s).
Proof. exact text_without_dollar_is_literal. Qed.
Print Assumptions c02_text_without_dollar_is_literal_partial.

(* the escapes $$ and $}, and the shapes of the expansions *)
Theorem c02_escape_examples :
  parse_splice "." 1024 false false "$$" = inl (EConst "$")
  /\ parse_splice "." 1024 false false "$}" = inl (EConst "}")
  /\ parse_splice "." 1024 false false "a$$b$}c" = inl (EConst "a$b}c")
  /\ parse_splice "." 1024 false false "$${x}" = inl (EConst "${x}")
  /\ parse_splice "." 1024 false false "${x}" = inl (ERef [FName "x"] ".")
  /\ parse_splice "." 1024 false false "${x:d}" = inl (EDefault (EConst "x") (EConst "d") ".").
Proof. exact escape_examples. Qed.
Print Assumptions c02_escape_examples.

(* mkerr a e p is the error e, carrying in front of its path the bookkeeping bit "a cyclic error was
   absorbed on the way" of the state a (used by the correspondence check only) *)
Theorem c02_mkerr_is_the_plain_error : forall A a e p, act_marked a = false -> @mkerr A a e p = Err e p.
Proof. exact @mkerr_unmarked. Qed.
Print Assumptions c02_mkerr_is_the_plain_error.

(* the hypotheses are met by concrete configurations: the model's reads of a small tree *)
Theorem c02_examples :
  read_string demo_opts 60 demo_root "twice" (-1) = Ok "x-x"
  /\ read_string demo_opts 60 demo_root "diamond" (-1) = Ok "x1x2"
  /\ read_string demo_opts 60 demo_root "self" (-1) = Err ECyclic ""
  /\ read_string demo_opts 60 demo_root "p" (-1) = Err ECyclic ""
  /\ read_string demo_opts 60 demo_root "saved" (-1) = Ok "dflt".
Proof. exact demo_reads. Qed.
Print Assumptions c02_examples.
