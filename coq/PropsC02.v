(* PropsC02.v — C02: variable expansion is late-bound substitution with a fixed lookup order. *)
From Ucfg Require Import Base ParseInt Consts Field Tree PathOps Merge VarParse Normalize VarEval.
