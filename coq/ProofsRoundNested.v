(* ProofsRoundNested.v — C06 through nesting: a struct whose fields are primitives (bool, string,
   integers of every width, unsigned, float64) or again such structs, to any depth and width,
   survives Struct -> Config -> struct: merged into an empty config and unpacked into the zero
   value of its type it comes back as it was. *)
From Ucfg Require Import Base ParseInt Consts Field Tree PathOps Merge OTree F64 Conv VarParse Normalize Reify
     ProofsTree ProofsNormData ProofsReify ProofsRoundStruct ProofsValidNested.
From Coq Require Import Lia.
Local Open Scope nat_scope.

(** what one field contributes on every side of the round trip:
    the Go value as data, its type, the zero value, the value, the setting it is stored as *)
Record side := { s_g : gval; s_t : ty; s_z : gv; s_v : gv; s_st : value }.
Definition fld := (string * side)%type.            (* Go field name, sides *)

Definition fkey (f : fld) : string := Normalize.to_lower (fst f).

Definition dict_of2 (d : dict) (fs : list fld) : dict :=
  fold_left (fun d f => dict_set (fkey f) (fkey f, s_st (snd f)) d) fs d.

Definition struct_side (fs : list fld) : side :=
  {| s_g := GStruct (map (fun f => (fst f, ""%string, s_g (snd f))) fs);
     s_t := TStruct (map (fun f => (fst f, ""%string, ""%string, s_t (snd f))) fs);
     s_z := GStructV (map (fun f => s_z (snd f)) fs);
     s_v := GStructV (map (fun f => s_v (snd f)) fs);
     s_st := VSub (dict_of2 [] fs) None |}.

Section Nested.
  Variable o : nopts.
  Hypothesis no_sep : p_sep (n_p o) = ""%string.
  Hypothesis no_varexp : n_varexp o = false.

  Definition fld_ok (P : side -> Prop) (f : fld) : Prop :=
    is_upper_ascii (fst f) = true /\ name_like o (fkey f) /\ P (snd f).

  (* the sides of a value of nesting depth at most n *)
  Fixpoint RT (n : nat) (x : side) : Prop :=
    (exists k c, fits k c /\
       x = {| s_g := gval_of_cval c; s_t := TPrim k; s_z := zero (TPrim k); s_v := GP c; s_st := stored c |}) \/
    match n with
    | O => False
    | S n' => exists fs, Forall (fld_ok (RT n')) fs /\ NoDup (map fkey fs) /\ x = struct_side fs
    end.

  (** * Struct -> Config *)
  Lemma normalize_fields : forall (fs : list fld) d,
    Forall (fun f => is_upper_ascii (fst f) = true /\ name_like o (fkey f) /\
                     normalize_value o (s_g (snd f)) = Ok (s_st (snd f), None)) fs ->
    NoDup (map fkey fs) ->
    (forall f, In f fs -> dict_get (fkey f) d = None) ->
    (fix into (cfg : value) (l : list (string * string * gval)) {struct l} : res value :=
       match l with
       | [] => Ok cfg
       | (goname, tag, x) :: r =>
         if negb (is_upper_ascii goname) then into cfg r
         else if Normalize.tag_ignore tag then into cfg r
         else if Normalize.tag_squash tag then
           match x with
           | GStruct fs2 =>
             cfg' <- (fix into2 (cfg : value) (l : list (string * string * gval)) {struct l} : res value :=
                        match l with
                        | [] => Ok cfg
                        | (g2, t2, x2) :: r2 =>
                          if negb (is_upper_ascii g2) || Normalize.tag_ignore t2 then into2 cfg r2
                          else if Normalize.tag_squash t2 then OutOfModel
                          else
                            y <- normalize_value o x2 ;;
                            cfg' <- set_field_norm o cfg (field_name (Normalize.tag_name t2) g2) (snd y) (fst y) ;;
                            into2 cfg' r2
                        end) cfg fs2 ;;
             into cfg' r
           | GMap ok kvs =>
             if negb ok then Err EKeyTypeNotString ""
             else
               cfg' <- map_into o cfg
                         ((fix go (l : list (gkey * gval)) : list (gkey * nres) :=
                             match l with
                             | [] => []
                             | (k, x2) :: r2 => (k, normalize_value o x2) :: go r2
                             end) kvs) ;;
               into cfg' r
           | _ => Err ETypeMismatch ""
           end
         else
           y <- normalize_value o x ;;
           cfg' <- set_field_norm o cfg (field_name (Normalize.tag_name tag) goname) (snd y) (fst y) ;;
           into cfg' r
       end) (VSub d None) (map (fun f => (fst f, ""%string, s_g (snd f))) fs)
    = Ok (VSub (dict_of2 d fs) None).
  Proof.
    induction fs as [|f r IH]; intros d F ND Habs; [reflexivity|].
    inversion F as [|? ? [Hu [Hn Hf]] Fr]; subst. inversion ND as [|? ? Hni NDr]; subst.
    cbn [map]. rewrite Hu. cbn [negb].
    change (Normalize.tag_ignore "") with false. change (Normalize.tag_squash "") with false. cbv iota.
    rewrite Hf. cbn [bind fst snd].
    change (field_name (Normalize.tag_name "") (fst f)) with (fkey f).
    rewrite (set_field_norm_absent o no_sep d (fkey f) _ Hn (Habs f (or_introl eq_refl))). cbn [bind].
    rewrite IH; [reflexivity|exact Fr|exact NDr|].
    intros g Hg. rewrite dict_get_set_other.
    - apply Habs. right. exact Hg.
    - intro E. apply Hni. rewrite E. apply in_map. exact Hg.
  Qed.

  Lemma RT_normalizes : forall n x, RT n x -> normalize_value o (s_g x) = Ok (s_st x, None).
  Proof.
    induction n as [|n IH]; intros x H; cbn [RT] in H.
    - destruct H as [[k [c [F E]]]|[]]. subst x. cbn [s_g s_st]. apply (normalize_cval o no_varexp c k F).
    - destruct H as [[k [c [F E]]]|[fs [Ff [ND E]]]].
      + subst x. cbn [s_g s_st]. apply (normalize_cval o no_varexp c k F).
      + subst x. cbn [struct_side s_g s_st].
        assert (Forall (fun f => is_upper_ascii (fst f) = true /\ name_like o (fkey f) /\
                                 normalize_value o (s_g (snd f)) = Ok (s_st (snd f), None)) fs) as F2.
        { rewrite Forall_forall in *. intros f Hf. destruct (Ff f Hf) as [Hu [Hn Hr]].
          split; [exact Hu|]. split; [exact Hn|]. exact (IH _ Hr). }
        pose proof (normalize_fields fs [] F2 ND (fun f _ => eq_refl)) as N.
        cbn [normalize_value]. unfold empty_cfg.
        match goal with |- bind ?X _ = _ => replace X with (Ok (VSub (dict_of2 [] fs) None) : res value) end;
          [reflexivity|try (symmetry; exact N)..].
  Qed.

  (** * Config -> struct *)
  Lemma dict_of2_keeps d (fs : list fld) k x :
    ~ In k (map fkey fs) -> dict_get k d = Some x -> dict_get k (dict_of2 d fs) = Some x.
  Proof.
    revert d. induction fs as [|f r IH]; intros d Hni G; [exact G|].
    cbn [dict_of2 fold_left]. apply IH.
    - intro H. apply Hni. right. exact H.
    - rewrite dict_get_set_other; [exact G|]. intro E. apply Hni. left. exact E.
  Qed.

  Lemma dict_of2_has : forall (fs : list fld) d, NoDup (map fkey fs) ->
    forall f, In f fs -> dict_get (fkey f) (dict_of2 d fs) = Some (fkey f, s_st (snd f)).
  Proof.
    induction fs as [|g r IH]; intros d ND f Hin; [destruct Hin|].
    inversion ND as [|? ? Hni NDr]; subst. cbn [dict_of2 fold_left]. destruct Hin as [E|Hin].
    - subst g. apply dict_of2_keeps; [exact Hni|]. apply dict_get_set_same.
    - apply IH; assumption.
  Qed.

  Definition need (n : nat) : nat := 2 + 2 * n.

  (* what unpacking one stored setting into the zero value gives *)
  Definition unpacks (fuel : nat) (x : side) : Prop :=
    is_nil (Some (s_st x)) = false /\
    forall ro th, r_p ro = n_p o ->
      reify_merge_value fuel (ro, th, []) (s_t x) (s_z x) (s_st x) = Ok (s_v x).

  Lemma loop_unpacks fuel ro (all : list fld) :
    r_p ro = n_p o -> NoDup (map fkey all) ->
    forall fs, (forall f, In f fs -> In f all /\ is_upper_ascii (fst f) = true /\ name_like o (fkey f) /\ unpacks fuel (snd f)) ->
    struct_loop fuel ro (VSub (dict_of2 [] all) None)
                (map (fun f => (fst f, ""%string, ""%string, s_t (snd f))) fs) (map (fun f => s_z (snd f)) fs)
    = Ok (map (fun f => s_v (snd f)) fs).
  Proof.
    intros Hp ND. induction fs as [|f r IH]; intro Hsub; [reflexivity|].
    destruct (Hsub f (or_introl eq_refl)) as [Hin [Hu [Hn [Hnil Hun]]]].
    cbn [map]. cbn [struct_loop]. fold (struct_loop fuel ro (VSub (dict_of2 [] all) None)).
    rewrite upper_same, Hu. cbn [negb orb].
    change (Reify.tag_ignore "") with false. cbv iota.
    change (parse_vtags "") with (Some (@nil vtag)). cbv iota.
    change (Reify.tag_squash "") with false. cbv iota. cbv zeta.
    change (String.eqb (Reify.tag_name "") "") with true. cbv iota.
    rewrite lower_same. cbn [r_p]. rewrite Hp.
    fold (fkey f). rewrite (opts_path_name o no_sep (fkey f) Hn).
    unfold get_path. cbn [get_path_go get_field to_cfg].
    pose proof (dict_of2_has all [] ND f Hin) as G. unfold nv, dict, arr in *. rewrite G. clear G. cbn [path_join bind].
    rewrite Hnil.
    match goal with |- context [reify_merge_value fuel (?o', ?th, [])] =>
      rewrite (Hun o' th ltac:(first [reflexivity|exact Hp])) end. cbn [in_seg bind].
    rewrite IH; [reflexivity|]. intros g Hg. apply Hsub. right. exact Hg.
  Qed.

  Lemma stored_not_nil2 k c : fits k c -> is_nil (Some (stored c)) = false.
  Proof. destruct k, c; simpl; intro F; try contradiction; try reflexivity. destruct (0 <? z)%Z; reflexivity. Qed.

  Lemma RT_unpacks : forall n x, RT n x -> forall fuel, need n <= fuel -> unpacks fuel x.
  Proof.
    induction n as [|n IH]; intros x H fuel Hf; cbn [RT] in H.
    - destruct H as [[k [c [F E]]]|[]]. subst x. unfold need in Hf.
      destruct fuel as [|[|f2]]; try lia. split; [apply (stored_not_nil2 k c F)|].
      intros ro th Hp. cbn [s_t s_z s_st s_v zero].
      cbn [reify_merge_value]. cbn [reify_primitive]. rewrite (stored_not_nil2 _ _ F).
      cbn [base_ty]. rewrite (prim_roundtrip _ _ _ _ F). cbn [bind run_validators pointerize]. reflexivity.
    - destruct H as [[k [c [F E]]]|[fs [Ff [ND E]]]].
      + subst x. unfold need in Hf. destruct fuel as [|[|f2]]; try lia. split; [apply (stored_not_nil2 k c F)|].
        intros ro th Hp. cbn [s_t s_z s_st s_v zero].
        cbn [reify_merge_value]. cbn [reify_primitive]. rewrite (stored_not_nil2 _ _ F).
        cbn [base_ty]. rewrite (prim_roundtrip _ _ _ _ F). cbn [bind run_validators pointerize]. reflexivity.
      + subst x. unfold need in Hf. destruct fuel as [|[|f2]]; try lia.
        split; [reflexivity|]. intros ro th Hp. cbn [struct_side s_t s_z s_st s_v].
        rewrite reify_merge_struct. cbn [to_cfg]. rewrite reify_struct_unfold.
        rewrite (loop_unpacks f2 ro fs Hp ND fs); [reflexivity|].
        intros f Hin. split; [exact Hin|]. rewrite Forall_forall in Ff. destruct (Ff f Hin) as [Hu [Hn Hr]].
        split; [exact Hu|]. split; [exact Hn|]. apply (IH _ Hr). unfold need. lia.
  Qed.
End Nested.

(** Struct -> Config -> struct for structs of primitives and structs, to any depth *)
Theorem nested_struct_roundtrip o ro n fs fuel :
  r_p ro = n_p o -> p_sep (n_p o) = ""%string -> n_varexp o = false ->
  Forall (fld_ok o (RT o n)) fs -> NoDup (map fkey fs) -> need n <= fuel ->
  let x := struct_side fs in
  exists cfg, normalize_value o (s_g x) = Ok (cfg, None) /\
              reify_struct (S (S fuel)) ro (s_t x) (s_z x) cfg = Ok (s_v x).
Proof.
  intros Hp Hs Hv F ND Hf x.
  assert (RT o (S n) x) as R by (right; exists fs; split; [exact F|split; [exact ND|reflexivity]]).
  exists (s_st x). split; [apply (RT_normalizes o Hs Hv (S n) x R)|].
  subst x. cbn [struct_side s_t s_z s_st s_v]. rewrite reify_struct_unfold.
  first [rewrite (loop_unpacks o Hs (S fuel) ro fs Hp ND fs)|rewrite (loop_unpacks o Hs Hv (S fuel) ro fs Hp ND fs)]; [reflexivity|].
  intros f Hin. split; [exact Hin|]. rewrite Forall_forall in F. destruct (F f Hin) as [Hu [Hn Hr]].
  split; [exact Hu|]. split; [exact Hn|]. first [apply (RT_unpacks o Hs Hv n _ Hr)|apply (RT_unpacks o Hs n _ Hr)]. lia.
Qed.

Definition prim_side (k : tkind) (c : cval) : side :=
  {| s_g := gval_of_cval c; s_t := TPrim k; s_z := zero (TPrim k); s_v := GP c; s_st := stored c |}.

Lemma RT_prim o n k c : fits k c -> RT o n (prim_side k c).
Proof. intro F. destruct n; left; exists k, c; split; [exact F|reflexivity|exact F|reflexivity]. Qed.

Lemma RT_struct o n fs : Forall (fld_ok o (RT o n)) fs -> NoDup (map fkey fs) -> RT o (S n) (struct_side fs).
Proof. intros F ND. right. exists fs. split; [exact F|split; [exact ND|reflexivity]]. Qed.

Lemma RT_mono o : forall n x, RT o n x -> RT o (S n) x.
Proof.
  induction n as [|n IH]; intros x H.
  - destruct H as [H|[]]. left. exact H.
  - destruct H as [H|[fs [F [ND E]]]]; [left; exact H|]. right. exists fs. split; [|split; [exact ND|exact E]].
    rewrite Forall_forall in *. intros f Hf. destruct (F f Hf) as [Hu [Hn Hr]]. split; [exact Hu|]. split; [exact Hn|]. exact (IH _ Hr).
Qed.

(* non-vacuity: three levels, several kinds, extreme values *)
Example nested_roundtrip_example :
  let o := {| n_p := {| p_sep := ""; p_maxIdx := 1024; p_numKeys := false; p_escape := false |};
              n_varexp := false; n_m := {| m_h := 0%N; m_ft := None |} |} in
  let ro := {| r_p := n_p o; r_h := 0%N; r_vo := {| vo_dur := fun _ => None |}; r_ft := [] |} in
  let srv := struct_side [("Port"%string, prim_side (KInt 64) (CI 8080)); ("Name"%string, prim_side KString (CS "a.b,${c}"))] in
  let deep := struct_side [("In"%string, struct_side [("V"%string, prim_side (KUint 8) (CU 255)); ("W"%string, prim_side (KInt 8) (CI (-128)))])] in
  let top := [("Srv"%string, srv); ("Debug"%string, prim_side KBool (CB true)); ("Deep"%string, deep)] in
  Forall (fld_ok o (RT o 2)) top /\ NoDup (map fkey top) /\
  (exists cfg, normalize_value o (s_g (struct_side top)) = Ok (cfg, None) /\
               reify_struct 10 ro (s_t (struct_side top)) (s_z (struct_side top)) cfg = Ok (s_v (struct_side top))) /\
  s_v (struct_side top)
  = GStructV [GStructV [GP (CI 8080); GP (CS "a.b,${c}")]; GP (CB true); GStructV [GStructV [GP (CU 255); GP (CI (-128))]]].
Proof.
  cbv zeta. split; [|split; [|split]].
  - apply Forall_cons; [|apply Forall_cons; [|apply Forall_cons; [|apply Forall_nil]]].
    + split; [reflexivity|]. split; [reflexivity|]. apply RT_mono. apply RT_struct.
      * apply Forall_cons; [|apply Forall_cons; [|apply Forall_nil]];
          (split; [reflexivity|]; split; [reflexivity|]; apply RT_prim; cbv [fits]; try lia; exact I).
      * vm_compute. repeat constructor; simpl; intuition discriminate.
    + split; [reflexivity|]. split; [reflexivity|]. apply RT_prim. exact I.
    + split; [reflexivity|]. split; [reflexivity|]. apply RT_struct.
      * apply Forall_cons; [|apply Forall_nil]. split; [reflexivity|]. split; [reflexivity|]. apply RT_struct.
        -- apply Forall_cons; [|apply Forall_cons; [|apply Forall_nil]];
             (split; [reflexivity|]; split; [reflexivity|]; apply RT_prim; cbv [fits]; try lia; exact I).
        -- vm_compute. repeat constructor; simpl; intuition discriminate.
      * vm_compute. repeat constructor; simpl; intuition discriminate.
  - vm_compute. repeat constructor; simpl; intuition discriminate.
  - match goal with |- exists cfg, normalize_value _ (s_g ?x) = _ /\ _ => exists (s_st x) end.
    split; [vm_compute; reflexivity|vm_compute; reflexivity].
  - reflexivity.
Qed.
