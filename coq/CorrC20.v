(* CorrC20.v — correspondence and property evaluation for C20 (run on harness output). *)
From Ucfg Require Export Base ParseInt Consts Field Tree PathOps CorrC02 CorrC07.

Inductive case :=
| CParseInt (s : string) (signed unsigned : option Z)
| CPath (input sep : string) (maxIdx : Z) (numKeys escape : bool) (observed : list field)
| CPathIdx (name : string) (idx : Z) (sep : string) (maxIdx : Z) (numKeys : bool) (observed : list field)
| CTag (tag : string) (maxIdx : Z) (numKeys : bool) (cfg : value) (observed : option string)
| CDyn20 (c : CorrC02.case)
| CSeven (c : CorrC07.case).
    (* histories of explicit-index writes: the C12 machinery with the growth law of C07 *)
    (* names inside references, read under EnableNumKeys / EscapePath: the C02 machinery *)
    (* Unpack of cfg into struct{F string `config:"<tag>"`} under MaxIdx / EnableNumKeys: what F
       holds afterwards (None = Unpack failed).  The tag is read under the options of THIS call *)

(* The property as a boolean on what the implementation returned (single segment):
   an index exactly when numeric keys are off and the segment is an integer literal
   in [0, maxIdx]; any other segment is the unchanged name. *)
Definition seg_ok (s : string) (maxIdx : Z) (numKeys : bool) (f : field) : bool :=
  match f with
  | FIdx i => negb numKeys && opt_eqb Z.eqb (parse_int0 s) (Some i) && (0 <=? i) && (i <=? maxIdx)
  | FName t => String.eqb t s &&
               (numKeys || match parse_int0 s with
                           | Some i => negb ((0 <=? i) && (i <=? maxIdx))
                           | None => true end)
  end.

Fixpoint segs_ok (ss : list string) (maxIdx : Z) (numKeys : bool) (fs : list field) : bool :=
  match ss, fs with
  | [], [] => true
  | s :: sr, f :: fr => seg_ok s maxIdx numKeys f && segs_ok sr maxIdx numKeys fr
  | _, _ => false
  end.

Definition prop_holds (c : case) : bool :=
  match c with
  | CParseInt _ _ _ => true
  | CPath input sep maxIdx numKeys escape obs =>
    if String.eqb sep "" || (escape && escape_match input)
    then segs_ok [input] maxIdx numKeys obs
    else let elems := split input sep in
         segs_ok elems maxIdx (match elems with _ :: _ :: _ => false | _ => numKeys end) obs
  | CPathIdx name idx sep maxIdx numKeys obs => true
  | CTag tag maxIdx numKeys cfg obs =>
    (* a numeric tag names the list entry exactly when numeric keys are off and it lies in
       [0, maxIdx]; otherwise it names the setting of that name *)
    let want :=
        match parse_int0 tag with
        | Some i =>
          if negb numKeys && (0 <=? i) && (i <=? maxIdx)
          then match cfg with
               | VSub _ a => match nth_opt (arr_of a) (Z.to_nat i) with Some (_, VStr s) => Some s | Some _ => None | None => Some "" end
               | _ => None end
          else match cfg with
               | VSub d _ => match dict_get tag d with Some (_, VStr s) => Some s | Some _ => None | None => Some "" end
               | _ => None end
        | None =>
          match cfg with
          | VSub d _ => match dict_get tag d with Some (_, VStr s) => Some s | Some _ => None | None => Some "" end
          | _ => None end
        end in
    match want with Some s => opt_eqb String.eqb obs (Some s) | None => true end
  | CDyn20 d => CorrC02.prop_holds d
  | CSeven h => CorrC07.prop_holds h
  end.

Definition model_agrees (c : case) : bool :=
  match c with
  | CParseInt s si un =>
    opt_eqb Z.eqb (parse_int0 s) si && opt_eqb Z.eqb (parse_uint0_opt s) un
  | CPath input sep maxIdx numKeys escape obs =>
    list_eqb field_eqb (parse_path input sep maxIdx numKeys escape) obs
  | CPathIdx name idx sep maxIdx numKeys obs =>
    list_eqb field_eqb (parse_path_idx name idx sep maxIdx numKeys false) obs
  | CTag tag maxIdx numKeys cfg obs =>
    match get_path "" (parse_path tag "" maxIdx numKeys false) cfg with
    | Ok (Some (_, VStr s)) => opt_eqb String.eqb obs (Some s)
    | Ok (Some (_, VNil)) | Ok None | Err EMissing _ => opt_eqb String.eqb obs (Some "")
    | _ => true
    end
  | CDyn20 d => CorrC02.skipped d || CorrC02.model_agrees d
  | CSeven h => CorrC07.skipped h || CorrC07.model_agrees h
  end.

(* known-finding signatures (0 = none) *)
Definition signature (c : case) : N := 0%N.

(* verdict code: 0 ok, 1 model mismatch only, 2 property violated (model agrees),
   3 both *)
Definition verdict (c : case) : N :=
  ((if model_agrees c then 0 else 1) + (if prop_holds c then 0 else 2))%N.

Fixpoint run_cases (i : N) (cs : list case) : list (N * N * N) :=
  match cs with
  | [] => []
  | c :: r =>
    let v := verdict c in
    if (v =? 0)%N then run_cases (i + 1)%N r
    else (i, v, signature c) :: run_cases (i + 1)%N r
  end.
