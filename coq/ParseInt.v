(* ParseInt.v — Gallina model of strconv.ParseUint(s, 0, 64) and strconv.ParseInt(s, 0, 64).
   Validated against the Go standard library by the correspondence check (C20 stream
   "parseint"); the standard library itself is not re-verified. *)
From Ucfg Require Import Base.

Definition maxU64 : N := 18446744073709551615%N.
Definition two63 : N := 9223372036854775808%N.

Definition lowerN (c : N) : N := N.lor c 32.

Definition digit_val (a : ascii) : option N :=
  let c := byte_of a in
  if ((48 <=? c) && (c <=? 57))%N then Some (c - 48)%N
  else let l := lowerN c in
       if ((97 <=? l) && (l <=? 122))%N then Some (l - 97 + 10)%N else None.

Inductive pres := PVal (n : N) | PSyntax | PRange.

Fixpoint digits (base : N) (s : string) (n : N) : pres :=
  match s with
  | EmptyString => PVal n
  | String a r =>
    if Ascii.eqb a "_"%char then digits base r n
    else match digit_val a with
         | None => PSyntax
         | Some d =>
           if (base <=? d)%N then PSyntax
           else if (maxU64 / base + 1 <=? n)%N then PRange
           else let n1 := (n * base + d)%N in
                if (maxU64 <? n1)%N then PRange else digits base r n1
         end
  end.

Definition is_dec_digit (a : ascii) : bool :=
  let c := byte_of a in ((48 <=? c) && (c <=? 57))%N.
Definition is_hex_letter (a : ascii) : bool :=
  let l := lowerN (byte_of a) in ((97 <=? l) && (l <=? 102))%N.

(* state of underscoreOK: 0 = '^', 1 = '0', 2 = '_', 3 = '!' *)
Fixpoint us_loop (hex : bool) (s : string) (i : nat) : bool :=
  match s with
  | EmptyString => negb (Nat.eqb i 2)
  | String a r =>
    if is_dec_digit a || (hex && is_hex_letter a) then us_loop hex r 1%nat
    else if Ascii.eqb a "_"%char then
           if Nat.eqb i 1 then us_loop hex r 2%nat else false
         else if Nat.eqb i 2 then false
              else us_loop hex r 3%nat
  end.

Definition is_base_letter (a : ascii) : bool :=
  let l := lowerN (byte_of a) in ((l =? 98) || (l =? 111) || (l =? 120))%N.

Definition underscore_ok (s : string) : bool :=
  let s1 := match s with
            | String a r => if Ascii.eqb a "-"%char || Ascii.eqb a "+"%char then r else s
            | _ => s end in
  match s1 with
  | String z (String b r) =>
    if Ascii.eqb z "0"%char && is_base_letter b
    then us_loop (lowerN (byte_of b) =? 120)%N r 1%nat
    else us_loop false s1 0%nat
  | _ => us_loop false s1 0%nat
  end.

Fixpoint has_underscore (s : string) : bool :=
  match s with
  | EmptyString => false
  | String a r => Ascii.eqb a "_"%char || has_underscore r
  end.

(* base prefix selection of ParseUint with base 0 *)
Definition base_split (s : string) : N * string :=
  match s with
  | String z r =>
    if Ascii.eqb z "0"%char then
      match r with
      | String b (String c r2) =>   (* len(s) >= 3 *)
        let l := lowerN (byte_of b) in
        if (l =? 98)%N then (2%N, String c r2)
        else if (l =? 111)%N then (8%N, String c r2)
        else if (l =? 120)%N then (16%N, String c r2)
        else (8%N, r)
      | _ => (8%N, r)
      end
    else (10%N, s)
  | EmptyString => (10%N, s)
  end.

Definition parse_uint0 (s : string) : pres :=
  match s with
  | EmptyString => PSyntax
  | _ =>
    let '(base, body) := base_split s in
    match digits base body 0%N with
    | PVal n => if has_underscore body && negb (underscore_ok s) then PSyntax else PVal n
    | e => e
    end
  end.

Definition parse_uint0_opt (s : string) : option Z :=
  match parse_uint0 s with PVal n => Some (Z.of_N n) | _ => None end.

Definition parse_int0 (s : string) : option Z :=
  match s with
  | EmptyString => None
  | String a r =>
    let '(neg, body) :=
      if Ascii.eqb a "+"%char then (false, r)
      else if Ascii.eqb a "-"%char then (true, r)
      else (false, s) in
    match parse_uint0 body with
    | PVal un =>
      if negb neg && (two63 <=? un)%N then None
      else if neg && (two63 <? un)%N then None
      else Some (if neg then - Z.of_N un else Z.of_N un)
    | _ => None
    end
  end.
