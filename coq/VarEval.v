(* VarEval.v — evaluation of references and expansion expressions (variables.go,
   types.go: cfgDynamic / refDynValue / spliceDynValue / parseValue, opts.go).
   The per-call mutable state of the implementation (options.activeFields) is an explicit
   chain of name sets; the per-call cache of parsed values is an optimisation and is not
   modelled.  All recursion is on explicit fuel; [OutOfModel] is returned when it runs out
   (the termination theorems of C08 say when it cannot). *)
From Ucfg Require Import Base ParseInt Consts Field Tree PathOps Merge OTree F64 ParseValue VarParse Normalize Flags.

Record eopts := {
  eo_p : popts;                                     (* options of the reading call *)
  eo_envs : list value;                             (* Env configs, in the order given *)
  eo_res : list (list (string * (string * pcfg)));  (* resolvers as tables, in the order given *)
  eo_noparse : bool;
  eo_nocomma : bool;
  eo_n : nopts;                                     (* options used to normalize parsed objects *)
  eo_ftext : list (Z * string)                      (* oracle: %v text of the floats that may occur *)
}.

(** the chain of active reference names: head = innermost set *)
Definition act := list (list string).
Definition act_has (n : string) (a : act) : bool := existsb (existsb (String.eqb n)) a.
Definition act_add (n : string) (a : act) : act :=
  match a with s :: r => (n :: s) :: r | [] => [[n]] end.
Definition act_push (a : act) : act := [] :: a.

(* bookkeeping only (not part of the implementation's state): remember that a cyclic
   reference error was absorbed by a default / alternative / resolver.  The result of such
   an evaluation can depend on the per-call cache and on the order in which fields are
   unpacked (F10); the correspondence check treats those Unpack cases as out of the model. *)
Definition cyc_marker : string := "\0cyclic-absorbed".
Fixpoint act_mark (a : act) : act :=
  match a with
  | [] => [[cyc_marker]]
  | [s] => [cyc_marker :: s]
  | s :: r => s :: act_mark r
  end.
Definition act_marked (a : act) : bool := act_has cyc_marker a.

(* an error raised after a cyclic error was absorbed carries the same bookkeeping bit, in front
   of its path (errors have no other state) *)
Definition mark_pfx : string := String (ch 0) "m:".
Definition err_marked (p : string) : bool := String.prefix mark_pfx p.
Definition mkerr {A} (a : act) (e : ereason) (p : string) : res A :=
  Err e (if act_marked a && negb (err_marked p) then mark_pfx +++ p else p).
(* the same for an error raised by a function that does not know the state *)
Definition with_mark {A} (a : act) (r : res A) : res A :=
  match r with Err e p => mkerr a e p | _ => r end.

(** a value together with the tree it lives in and its dotted path *)
Record loc := { l_root : value; l_path : string; l_val : value }.

(* outcome of resolveRef *)
Inductive rres :=
| RFound (v : loc)
| RNone                        (* (nil, nil): the name is simply absent *)
| RMissing                     (* (nil, ErrMissing) *)
| RCyclic                      (* the name is being evaluated already *)
| RCritical (e : ereason) (p : string)
| RStop (r : res unit).        (* Panic / OutOfModel *)

(* resolveEnv: resolvers are asked last to first; the first that knows the name wins *)
Fixpoint ask_resolvers (rs : list (list (string * (string * pcfg)))) (name : string)
  : option (string * pcfg) :=
  match rs with
  | [] => None
  | t :: r => match dict_get name t with Some x => Some x | None => ask_resolvers r name end
  end.
Definition resolve_env (o : eopts) (name : string) : option (string * pcfg) :=
  ask_resolvers (rev (eo_res o)) name.

(* parseValue *)
Definition parse_value (o : eopts) (root : value) (dp : string) (str : string) (pc : pcfg) : res loc :=
  if eo_noparse o then Err ENoParse dp
  else
    let pc := if eo_nocomma o
              then {| c_array := c_array pc; c_object := c_object pc; c_dq := c_dq pc; c_sq := c_sq pc; c_nocomma := true |}
              else pc in
    match parse_value_with_config pc str with
    | PErr _ => Err EOther "!raw"
    | PPanic => Panic
    | PUnknown => OutOfModel
    | POk x =>
      let mk v := Ok {| l_root := root; l_path := dp; l_val := v |} in
      match x with
      | PNil => if String.eqb (trim_space str) "" then mk (VStr str) else mk VNil
      | PBool b => mk (VBool b)
      | PInt z => mk (VInt z)
      | PUint z => mk (VUint z)
      | PFloat f => mk (VFloat f)
      | PStr s => mk (VStr s)
      | _ => v <- normalize (eo_n o) (pv_to_gval x) ;; mk v
      end
    end.

Fixpoint ftext_lookup (t : list (Z * string)) (bits : Z) : option string :=
  match t with
  | [] => None
  | (b, s) :: r => if Z.eqb b bits then Some s else ftext_lookup r bits
  end.

Definition simple_string (ft : list (Z * string)) (v : value) : res string :=
  match v with
  | VNil => Ok "null"
  | VBool true => Ok "true"
  | VBool false => Ok "false"
  | VInt z => Ok (dec z)
  | VUint z => Ok (dec z)
  | VStr s => Ok s
  | VFloat f => match ftext_lookup ft f with Some s => Ok s | None => OutOfModel end
  | _ => Err ETypeMismatch ""
  end.

Section Eval.
  Variable o : eopts.

  (* results carry the (possibly grown) chain of active names *)
  Definition R (A : Type) := res (A * act).

  (** one unfolding of the evaluator, open in the recursive call [dv] (= cfgDynamic.getValue
      at lower fuel) *)
  Section Step.
    Variable dv : value -> act -> string -> value -> R loc.
    Variable fuel0 : nat.          (* bound for the local loops (chains of dynamic results) *)

    (* toConfig, evaluating dynamic values; None = not a config.  The config is returned where it
       was found: a reference may lead into another tree (an Env config), and what is read below
       it is resolved from the root of that tree *)
    Fixpoint to_cfg_dyn (n : nat) (a : act) (v : loc) {struct n} : R (option loc) :=
      match n with
      | O => OutOfModel
      | S n' =>
        match l_val v with
        | VSub _ _ => Ok (Some v, a)
        | VNil => Ok (Some {| l_root := l_root v; l_path := l_path v; l_val := empty_cfg |}, a)
        | VRef _ _ | VSplice _ =>
          match dv (l_root v) a (l_path v) (l_val v) with
          | Ok (v', a') => to_cfg_dyn n' a' v'
          | Err _ pe => Ok (None, if err_marked pe then act_mark a else a)
          | Panic => Panic
          | OutOfModel => OutOfModel
          end
        | _ => Ok (None, a)
        end
      end.

    (* field.GetValue with dynamic elements evaluated through toConfig *)
    Definition get_field_dyn (fl : field) (a : act) (elem : loc) : R (res (option loc)) :=
      x <- to_cfg_dyn fuel0 a elem ;;
      let '(c, a0) := x in
      (* every step of a walk is evaluated in a set of its own (cfgPath.GetValue): what it
         registered is no longer active afterwards *)
      let a' := if act_marked a0 then act_mark a else a in
      match c with
      | Some cl =>
        match get_field fl (l_path cl) (l_val cl) with
        | Ok (Some (pp, v)) => Ok (Ok (Some {| l_root := l_root cl; l_path := pp; l_val := v |}), a')
        | Ok None => Ok (Ok None, a')
        | Err e p => Ok (Err e p, a')
        | Panic => Panic
        | OutOfModel => OutOfModel
        end
      | None =>
        match fl with
        | FIdx 0 => Ok (Ok (Some elem), a')
        | _ => Ok (Err EExpectedObject "", a')
        end
      end.

    (* cfgPath.GetValue *)
    Fixpoint get_path_dyn (fs : list field) (a : act) (cur : loc) {struct fs} : R (res (option loc)) :=
      match fs with
      | [] => Ok (Ok (Some cur), a)
      | [fl] =>
        x <- get_field_dyn fl a cur ;;
        match fst x with
        | Err _ _ => Ok (Err EMissing "", snd x)
        | r => Ok (r, snd x)
        end
      | fl :: rest =>
        x <- get_field_dyn fl a cur ;;
        match fst x with
        | Ok (Some nxt) => get_path_dyn rest (snd x) nxt
        | Ok None => Ok (Err EMissing "", snd x)
        | r => Ok (r, snd x)
        end
      end.

    (* reference.resolveRef: the root of the own tree, then the Env configs last to first *)
    Fixpoint try_roots (p : list field) (roots : list value) (a : act) (last : rres) {struct roots}
      : rres * act :=
      match roots with
      | [] => (last, a)
      | rt :: more =>
        match get_path_dyn p a {| l_root := rt; l_path := ""; l_val := rt |} with
        | Ok (Ok (Some v), a') => (RFound v, a')
        | Ok (Ok None, a') => try_roots p more a' RNone
        | Ok (Err EMissing _, a') => try_roots p more a' RMissing
        | Ok (Err e pth, a') => try_roots p more a' (RCritical e pth)   (* the last attempt's error counts *)
        | Ok (Panic, a') => (RStop Panic, a')
        | Ok (OutOfModel, a') => (RStop OutOfModel, a')
        | Err e pth => (RCritical e pth, a)
        | Panic => (RStop Panic, a)
        | OutOfModel => (RStop OutOfModel, a)
        end
      end.

    Definition resolve_ref (root : value) (a : act) (p : list field) (sep : string) : rres * act :=
      let name := path_str p sep in
      if act_has name a then (RCyclic, a)
      else try_roots p (root :: rev (eo_envs o)) (act_add name a) RNone.

    Fixpoint to_string_dyn (n : nat) (a : act) (v : loc) {struct n} : R string :=
      match n with
      | O => OutOfModel
      | S n' =>
        match l_val v with
        | VRef _ _ | VSplice _ =>
          x <- dv (l_root v) a (l_path v) (l_val v) ;; to_string_dyn n' (snd x) (fst x)
        | pv => s <- with_mark a (simple_string (eo_ftext o) pv) ;; Ok (s, a)
        end
      end.

    (* reference.resolve: Some value / None (nothing found) *)
    Definition ref_resolve (root : value) (a : act) (p : list field) (sep : string) : R (option loc) :=
      let '(r, a') := resolve_ref root a p sep in
      match r with
      | RFound v => Ok (Some v, a')
      | RStop Panic => Panic
      | RStop _ => OutOfModel
      | RNone | RMissing | RCyclic | RCritical _ _ =>
        (* not found in any tree - not set, cyclic, or the path runs into a value that is no
           object: the resolvers are asked (fix F59) *)
        match resolve_env o (path_str p sep) with
        | Some (s, _) =>
          let a' := match r with RCyclic => act_mark a' | _ => a' end in
          if String.eqb s "" then Ok (None, a')
          else Ok (Some {| l_root := root; l_path := path_str p sep; l_val := VStr s |}, a')
        | None => match r with
                  | RCyclic => mkerr a' ECyclic ""
                  | RCritical e pth => mkerr a' e pth
                  | _ => mkerr a' EMissing "!raw" end
        end
      end.

    (* reference.eval *)
    Definition ref_eval (root : value) (a : act) (p : list field) (sep : string) : R string :=
      x <- ref_resolve root a p sep ;;
      match fst x with
      | None => mkerr (snd x) EOther "!raw"       (* can not resolve reference *)
      | Some v => to_string_dyn fuel0 (snd x) v
      end.

    (* evaluate in a child set; the enclosing chain is restored afterwards *)
    Definition scoped {A : Type} (a : act) (r : R A) : R A :=
      x <- r ;; Ok (fst x, if act_marked (snd x) then act_mark a else a).
    Definition absorbed (e : ereason) (p : string) (a : act) : act :=
      if err_marked p then act_mark a else match e with ECyclic => act_mark a | _ => a end.

    Fixpoint eval_exp (e : vexp) (root : value) (a : act) {struct e} : R string :=
      let po := eo_p o in
      (* a sub-expression evaluated in its own child set *)
      let sub (x : vexp) (a : act) : R string := scoped a (eval_exp x root (act_push a)) in
      let sub_ref (path sep : string) (a : act) : R string :=
          scoped a (ref_eval root (act_push a)
                             (parse_path path sep (p_maxIdx po) (p_numKeys po) (p_escape po)) sep) in
      match e with
      | EConst s => Ok (s, a)
      | ERef p sep => ref_eval root a p sep
      | ESplice ps =>
        (fix pieces (l : list vexp) (acc : string) (a : act) {struct l} : R string :=
           match l with
           | [] => Ok (acc, a)
           | x :: r => y <- scoped a (eval_exp x root (act_push a)) ;; pieces r (acc +++ fst y) (snd y)
           end) ps "" a
      | ESingle x sep =>
        y <- scoped a (eval_exp x root (act_push a)) ;;
        scoped (snd y) (ref_eval root (act_push (snd y))
                           (parse_path (fst y) (p_sep po) (p_maxIdx po) (p_numKeys po) (p_escape po)) (p_sep po))
      | EDefault l r sep =>
        match scoped a (eval_exp l root (act_push a)) with
        | Ok (path, a1) =>
          if String.eqb path "" then scoped a1 (eval_exp r root (act_push a1))
          else
            match sub_ref path sep a1 with
            | Ok (v, a2) => if String.eqb v "" then scoped a2 (eval_exp r root (act_push a2)) else Ok (v, a2)
            | Err e pe => let a2 := absorbed e pe a1 in scoped a2 (eval_exp r root (act_push a2))
            | Panic => Panic
            | OutOfModel => OutOfModel
            end
        | Err e pe => let a1 := absorbed e pe a in scoped a1 (eval_exp r root (act_push a1))
        | Panic => Panic
        | OutOfModel => OutOfModel
        end
      | EAlt l r sep =>
        match scoped a (eval_exp l root (act_push a)) with
        | Ok (path, a1) =>
          if String.eqb path "" then Ok ("", a1)
          else
            match scoped a1 (ref_resolve root (act_push a1)
                                         (parse_path path sep (p_maxIdx po) (p_numKeys po) (p_escape po)) sep) with
            | Ok (Some _, a2) => scoped a2 (eval_exp r root (act_push a2))
            | Ok (None, a2) => Ok ("", a2)
            | Err e pe => Ok ("", absorbed e pe a1)
            | Panic => Panic
            | OutOfModel => OutOfModel
            end
        | Err e pe => Ok ("", absorbed e pe a)
        | Panic => Panic
        | OutOfModel => OutOfModel
        end
      | EErr l r sep =>
        let fail (a : act) : R string := y <- scoped a (eval_exp r root (act_push a)) ;; mkerr (snd y) EOther "!raw" in
        match scoped a (eval_exp l root (act_push a)) with
        | Ok (path, a1) =>
          if String.eqb path "" then fail a1
          else
            match sub_ref path sep a1 with
            | Ok (v, a2) => if String.eqb v "" then fail a2 else Ok (v, a2)
            | Err e pe => fail (absorbed e pe a1)
            | Panic => Panic
            | OutOfModel => OutOfModel
            end
        | Err e pe => fail (absorbed e pe a)
        | Panic => Panic
        | OutOfModel => OutOfModel
        end
      end.

    (* cfgDynamic.getValue *)
    Definition dyn_step (root : value) (a : act) (dp : string) (d : value) : R loc :=
      match d with
      | VRef p sep =>
        let '(r, a') := resolve_ref root a p sep in
        match r with
        | RFound v => Ok (v, a')
        | RStop Panic => Panic
        | RStop _ => OutOfModel
        | RNone | RMissing | RCyclic | RCritical _ _ =>
          match resolve_env o (path_str p sep) with
          | Some (s, pc) =>
            v <- with_mark a' (parse_value o root dp s pc) ;;
            Ok (v, match r with RCyclic => act_mark a' | _ => a' end)
          | None => match r with
                    | RCyclic => mkerr a' ECyclic ""
                    | RCritical e pth => mkerr a' e pth
                    | _ => mkerr a' EMissing "!raw" end
          end
        end
      | VSplice e =>
        x <- eval_exp e root a ;;
        v <- with_mark (snd x) (parse_value o root dp (fst x) DefaultConfig) ;; Ok (v, snd x)
      | v => Ok ({| l_root := root; l_path := dp; l_val := v |}, a)
      end.
  End Step.

  Fixpoint dyn_value (fuel : nat) (root : value) (a : act) (dp : string) (d : value) {struct fuel}
    : R loc :=
    match fuel with
    | O => OutOfModel
    | S f => dyn_step (dyn_value f) (S f) root a dp d
    end.

  (** the readers, for a call with a fresh set of active names *)
  Definition fresh : act := [[]].

  (* Config.getField under the reading options *)
  Definition get_value_dyn (fuel : nat) (root : value) (name : string) (idx : Z) (a : act) : R loc :=
    let p := opts_path_idx (eo_p o) name idx in
    x <- get_path_dyn (dyn_value fuel) fuel p a {| l_root := root; l_path := ""; l_val := root |} ;;
    match fst x with
    | Ok (Some v) => Ok (v, snd x)
    | Ok None => mkerr (snd x) EMissing (path_str p (p_sep (eo_p o)))
    | Err e pth => mkerr (snd x) e pth
    | Panic => Panic
    | OutOfModel => OutOfModel
    end.

  (* Config.String *)
  Definition read_string (fuel : nat) (root : value) (name : string) (idx : Z) : res string :=
    x <- get_value_dyn fuel root name idx fresh ;;
    y <- to_string_dyn (dyn_value fuel) fuel (snd x) (fst x) ;;
    Ok (fst y).

  (* the same, with the bookkeeping bit: a cyclic error was absorbed on the way, so the
     per-call cache of evaluated values (not modelled) may show in the result *)
  Definition read_string_marked (fuel : nat) (root : value) (name : string) (idx : Z) : bool :=
    match get_value_dyn fuel root name idx fresh with
    | Ok x => match to_string_dyn (dyn_value fuel) fuel (snd x) (fst x) with
              | Ok y => act_marked (snd y)
              | _ => act_marked (snd x)
              end
    | _ => false
    end.

  (** fully evaluated value of a located value (following dynamic results) *)
  Fixpoint force (fuel : nat) (n : nat) (a : act) (v : loc) {struct n} : R loc :=
    match n with
    | O => OutOfModel
    | S n' =>
      match l_val v with
      | VRef _ _ | VSplice _ =>
        x <- dyn_value fuel (l_root v) a (l_path v) (l_val v) ;; force fuel n' (snd x) (fst x)
      | _ => Ok (v, a)
      end
    end.
End Eval.

(** Unpack into interface{} of a tree with dynamic values (cfgSub.reify / cfgDynamic.reify):
    every field of a sub-config is evaluated in its own child set of active names. *)
(* intermediate shape: a sub-config with its stripped parts, combined as cfgSub.reify does *)
Inductive otree_like :=
| XNil | XBool (b : bool) | XInt (z : Z) | XUint (z : Z) | XFloat (f : Z) | XStr (s : string)
| XSub (d : list (string * otree_like)) (a : list otree_like) (has_arr : bool).

Fixpoint to_otree (x : otree_like) : otree :=
  match x with
  | XNil => ONil | XBool b => OBool b | XInt z => OInt z | XUint z => OUint z
  | XFloat f => OFloat f | XStr s => OStr s
  | XSub d a has =>
    let sd := (fix gd (l : list (string * otree_like)) : list (string * otree) :=
                 match l with [] => [] | (k, y) :: r => (k, to_otree y) :: gd r end) d in
    let sa := map to_otree a in
    match sd, sa with
    | [], [] => if has then OList [] else ONil
    | _ :: _, [] => OMap sd
    | [], _ :: _ => OList sa
    | _, _ => OMap (add_index_entries 0 sa sd)
    end
  end.

Section Reify.
  Variable o : eopts.

  (* the boolean result says whether a cyclic error was absorbed on the way (see act_mark) *)
  Fixpoint reify_loc (fuel : nat) (n : nat) (a : act) (v : loc) {struct n} : res (otree_like * bool) :=
    match n with
    | O => OutOfModel
    | S n' =>
      match l_val v with
      | VNil => Ok (XNil, false)
      | VBool b => Ok (XBool b, false)
      | VInt z => Ok (XInt z, false)
      | VUint z => Ok (XUint z, false)
      | VFloat f => Ok (XFloat f, false)
      | VStr s => Ok (XStr s, false)
      | VRef _ _ | VSplice _ =>
        x <- dyn_value o fuel (l_root v) a (l_path v) (l_val v) ;;
        y <- reify_loc fuel n' (snd x) (fst x) ;;
        Ok (fst y, act_marked (snd x) || snd y)
      | VSub d ar =>
        sd <- (fix gd (l : list (string * (string * value))) : res (list (string * otree_like) * bool) :=
                 match l with
                 | [] => Ok ([], false)
                 | (k, (nm, x)) :: r =>
                   y <- reify_loc fuel n' (act_push a) {| l_root := l_root v; l_path := path_join (l_path v) nm; l_val := x |} ;;
                   rest <- gd r ;; Ok ((k, fst y) :: fst rest, snd y || snd rest)
                 end) d ;;
        sa <- match ar with
              | None => Ok ([], false)
              | Some l =>
                (fix ga (l : list (string * value)) : res (list otree_like * bool) :=
                   match l with
                   | [] => Ok ([], false)
                   | (nm, x) :: r =>
                     y <- reify_loc fuel n' (act_push a) {| l_root := l_root v; l_path := path_join (l_path v) nm; l_val := x |} ;;
                     rest <- ga r ;; Ok (fst y :: fst rest, snd y || snd rest)
                   end) l
              end ;;
        Ok (XSub (fst sd) (fst sa) (match ar with Some _ => true | None => false end), snd sd || snd sa)
      end
    end.
End Reify.
