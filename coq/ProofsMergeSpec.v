(* ProofsMergeSpec.v — Merge refines the plain-tree specification (C01):
   strip (merge A B) = spec_merge (strip A) (strip B) for all trees A, B of any shape and
   depth whose nodes are dictionaries or lists. *)
From Ucfg Require Import Base ParseInt Consts Field Tree PathOps Merge OTree ProofsTree ProofsKeys.
From Coq Require Import ZifyBool.

Local Open Scope Z_scope.

(** the stripped parts of a sub-config *)
Definition sdict (d : list (string * (string * value))) : list (string * otree) :=
  map (fun e => (fst e, strip (snd (snd e)))) d.
Definition sarr (l : list (string * value)) : list otree := map (fun e => strip (snd e)) l.

Definition combine_parts (sd : list (string * otree)) (sa : list otree) (has : bool) : otree :=
  match sd, sa with
  | [], [] => if has then OList [] else ONil
  | _ :: _, [] => OMap sd
  | [], _ :: _ => OList sa
  | _, _ => OMap (add_index_entries 0 sa sd)
  end.

Lemma strip_sub d a :
  strip (VSub d a) = combine_parts (sdict d) (sarr (arr_of a)) (match a with Some _ => true | None => false end).
Proof.
  cbn [strip].
  assert (D : (fix gd (l : list (string * (string * value))) : list (string * otree) :=
                 match l with [] => [] | (k, (_, x)) :: r => (k, strip x) :: gd r end) d = sdict d).
  { induction d as [|[k [nm x]] r IH]; [reflexivity|]. cbn [sdict map fst snd]. f_equal. exact IH. }
  rewrite D.
  assert (A : match a with
              | None => []
              | Some l => (fix ga (l : list (string * value)) : list otree :=
                             match l with [] => [] | (_, x) :: r => strip x :: ga r end) l
              end = sarr (arr_of a)).
  { destruct a as [l|]; [|reflexivity]. cbn [arr_of].
    induction l as [|[nm x] r IH]; [reflexivity|]. cbn [sarr map snd]. f_equal. exact IH. }
  rewrite A. unfold combine_parts. destruct (sdict d), (sarr (arr_of a)), a; reflexivity.
Qed.

Lemma sdict_set k n v d : sdict (dict_set k (n, v) d) = dict_set k (strip v) (sdict d).
Proof.
  induction d as [|[k2 [n2 y]] r IH]; cbn; [reflexivity|].
  destruct (String.compare k k2); cbn; [reflexivity|reflexivity|]. f_equal. exact IH.
Qed.

Lemma sdict_get k d :
  dict_get k (sdict d) = match dict_get k d with Some (_, y) => Some (strip y) | None => None end.
Proof.
  induction d as [|[k2 [n2 y]] r IH]; cbn; [reflexivity|].
  destruct (String.eqb k k2); [reflexivity|exact IH].
Qed.

Lemma sarr_renumber i l : sarr (renumber i l) = sarr l.
Proof. revert i. induction l as [|[nm x] r IH]; intros i; cbn; [reflexivity|]. f_equal. apply IH. Qed.

Lemma sarr_app l1 l2 : sarr (l1 ++ l2) = sarr l1 ++ sarr l2.
Proof. unfold sarr. apply map_app. Qed.

(** well-formedness: nodes are dictionaries or lists, no references, no empty non-nil list
    part, unique keys *)
Fixpoint wf (v : value) : bool :=
  match v with
  | VRef _ _ | VSplice _ => false
  | VSub d a =>
    (fix gd (l : list (string * (string * value))) : bool :=
       match l with [] => true | (_, (_, x)) :: r => wf x && gd r end) d
    && match a with
       | None => true
       | Some l => (fix ga (l : list (string * value)) : bool :=
                      match l with [] => true | (_, x) :: r => wf x && ga r end) l
       end
    && match d, a with
       | _ :: _, Some (_ :: _) => false
       | _, Some [] => false
       | _, _ => true
       end
  | _ => true
  end.

Definition wf_dict (d : list (string * (string * value))) : bool := forallb (fun e => wf (snd (snd e))) d.
Definition wf_arr (l : list (string * value)) : bool := forallb (fun e => wf (snd e)) l.

Lemma wf_sub d a :
  wf (VSub d a) = wf_dict d && wf_arr (arr_of a) &&
                  match d, a with
                  | _ :: _, Some (_ :: _) => false
                  | _, Some [] => false
                  | _, _ => true
                  end.
Proof.
  cbn [wf].
  assert (D : (fix gd (l : list (string * (string * value))) : bool :=
                 match l with [] => true | (_, (_, x)) :: r => wf x && gd r end) d = wf_dict d).
  { induction d as [|[k [nm x]] r IH]; [reflexivity|]. cbn [wf_dict forallb snd]. f_equal. exact IH. }
  rewrite D.
  assert (A : match a with
              | None => true
              | Some l => (fix ga (l : list (string * value)) : bool :=
                             match l with [] => true | (_, x) :: r => wf x && ga r end) l
              end = wf_arr (arr_of a)).
  { destruct a as [l|]; [|reflexivity]. cbn [arr_of].
    induction l as [|[nm x] r IH]; [reflexivity|]. cbn [wf_arr forallb snd]. f_equal. exact IH. }
  rewrite A. reflexivity.
Qed.

(* the parts of the stripped view of a well-formed container *)
Lemma parts_strip_sub d a :
  wf (VSub d a) = true -> parts (strip (VSub d a)) = Some (sdict d, sarr (arr_of a)).
Proof.
  intros W. rewrite wf_sub in W. apply andb_true_iff in W as [_ W].
  rewrite strip_sub. unfold combine_parts.
  destruct d as [|e d'], a as [[|e2 l]|]; cbn in *; try discriminate W; reflexivity.
Qed.

Lemma parts_strip_nil : parts (strip VNil) = Some (sdict [], sarr []).
Proof. reflexivity. Qed.

(* recombine = combine_parts when there is no empty non-nil list part *)
Lemma recombine_combine sd sa has :
  (sd = [] -> sa = [] -> has = false) -> recombine sd sa = combine_parts sd sa has.
Proof.
  intros H. unfold recombine, combine_parts. destruct sd, sa; try reflexivity.
  rewrite (H eq_refl eq_refl). reflexivity.
Qed.

(** * unfolding of the merge of two sub-configs *)
Definition lookup (k : string) (d : dict) : option value :=
  match dict_get k d with Some (_, y) => Some y | None => None end.

Lemma merge_plain_sub o ov d a d2 a2 :
  to_cfg ov = CV d a ->
  merge_plain o (Some ov) (VSub d2 a2) =
  (dres <- match d2 with
           | [] => Ok d
           | _ => md_loop no_override merge_plain o (if (m_h o =? hReplace)%N then [] else d) d2
           end ;;
   ares <- merge_arr no_override merge_plain (m_h o) o a a2 ;;
   Ok (VSub dres ares)).
Proof. intros T. unfold merge_plain at 1. cbn [merge_val]. rewrite T. reflexivity. Qed.

Lemma md_loop_cons o acc k nm x r :
  md_loop no_override merge_plain o acc ((k, (nm, x)) :: r) =
  (m <- merge_plain o (lookup k acc) x ;; md_loop no_override merge_plain o (dict_set k (k, m) acc) r).
Proof. reflexivity. Qed.

Lemma ma_loop_cons o i nm2 y orest nm x nrest :
  ma_loop no_override merge_plain o i ((nm2, y) :: orest) ((nm, x) :: nrest) =
  (m <- merge_plain o (Some y) x ;;
   rest <- ma_loop no_override merge_plain o (i + 1) orest nrest ;;
   Ok ((dec i, m) :: rest)).
Proof. reflexivity. Qed.

(** * the refinement *)
(* the inductive statement for one source value [x] *)
Definition refines (h : N) (x : value) : Prop :=
  forall o old R, m_h o = h ->
    merge_plain o old x = Ok R ->
    match old with
    | None => R = x
    | Some A => wf A = true -> strip R = spec_merge h (strip A) (strip x)
    end.

(* the spec's dictionary fold *)
Fixpoint sgo (h : N) (acc : list (string * otree)) (l : list (string * otree)) : list (string * otree) :=
  match l with
  | [] => acc
  | (k, vb) :: r =>
    sgo h (dict_set k (match dict_get k acc with
                       | Some va => spec_merge h va vb
                       | None => vb end) acc) r
  end.

Fixpoint szip (h : N) (olds news : list otree) {struct news} : list otree :=
  match news with
  | [] => olds
  | vb :: nr =>
    match olds with
    | [] => news
    | va :: or => spec_merge h va vb :: szip h or nr
    end
  end.

Lemma sgo_fix h : forall l acc,
  (fix go (acc : list (string * otree)) (l : list (string * otree)) {struct l} :=
     match l with
     | [] => acc
     | (k, vb) :: r =>
       go (dict_set k (match dict_get k acc with
                       | Some va => spec_merge h va vb
                       | None => vb end) acc) r
     end) acc l = sgo h acc l.
Proof. induction l as [|[k vb] r IH]; intros acc; [reflexivity|]. cbn [sgo]. apply IH. Qed.

Lemma szip_fix h : forall news olds,
  (fix zip (olds : list otree) (news : list otree) {struct news} : list otree :=
     match news with
     | [] => olds
     | vb :: nr =>
       match olds with
       | [] => news
       | va :: or => spec_merge h va vb :: zip or nr
       end
     end) olds news = szip h olds news.
Proof.
  induction news as [|vb nr IH]; intros olds; [reflexivity|].
  destruct olds as [|va or]; [reflexivity|]. cbn [szip]. f_equal. apply IH.
Qed.

Lemma spec_merge_map h a mb :
  spec_merge h a (OMap mb) =
  match parts a with
  | None => OMap mb
  | Some (da, la) =>
    recombine (match mb with [] => da | _ => sgo h (if pol_replace h then [] else da) mb end) la
  end.
Proof.
  unfold spec_merge at 1; fold spec_merge.
  destruct (parts a) as [[da la]|]; [|reflexivity]. f_equal.
  rewrite sgo_fix. reflexivity.
Qed.

Lemma spec_merge_list h a lb :
  spec_merge h a (OList lb) =
  match parts a with
  | None => OList lb
  | Some (da, la) =>
    recombine da (match lb with
                  | [] => la
                  | _ => if pol_arr_replace h then lb
                         else if pol_prepend h then lb ++ la
                         else if pol_append h then la ++ lb
                         else szip h la lb
                  end)
  end.
Proof.
  unfold spec_merge at 1; fold spec_merge.
  destruct (parts a) as [[da la]|]; [|reflexivity]. f_equal.
  rewrite szip_fix. reflexivity.
Qed.

(* well-formed values found in a well-formed dictionary *)
Lemma wf_dict_get k d nm y : wf_dict d = true -> dict_get k d = Some (nm, y) -> wf y = true.
Proof.
  induction d as [|[k2 [n2 z]] r IH]; cbn; [discriminate|].
  intros W. apply andb_true_iff in W as [Wz Wr].
  destruct (String.eqb k k2); [intros H; inversion H; subst; exact Wz|apply IH; exact Wr].
Qed.

(* the dictionary loop refines the spec's fold; keys of the source are unique, so every
   lookup sees a value of the destination as it was before the merge *)
Lemma md_loop_refines h o : m_h o = h -> forall l acc0 acc R,
  Forall (fun e => refines h (snd (snd e))) l ->
  NoDup (keys l) ->
  (forall k, In k (keys l) -> dict_get k acc = dict_get k acc0) ->
  wf_dict acc0 = true ->
  md_loop no_override merge_plain o acc l = Ok R ->
  sdict R = sgo h (sdict acc) (sdict l).
Proof.
  intros Ho. induction l as [|[k [nm x]] r IH]; intros acc0 acc R F ND Same W H.
  - cbn in H. inversion H; subst. reflexivity.
  - rewrite md_loop_cons in H.
    destruct (merge_plain o (lookup k acc) x) as [m| | |] eqn:M; cbn [bind] in H; try discriminate.
    inversion F as [|? ? Fx Fr]; subst. cbn [snd] in Fx.
    inversion ND as [|? ? NI ND']; subst.
    cbn [sdict map fst snd sgo]. fold (sdict r).
    assert (Step : strip m = match dict_get k (sdict acc) with
                             | Some va => spec_merge (m_h o) va (strip x)
                             | None => strip x end).
    { rewrite sdict_get. unfold lookup in M. unfold dict, nv in *.
      destruct (dict_get k acc) as [[n2 y]|] eqn:G.
      - pose proof (Fx o (Some y) m eq_refl M) as Fy. cbn in Fy. apply Fy.
        rewrite (Same k (or_introl eq_refl)) in G. apply (wf_dict_get _ _ _ _ W G).
      - pose proof (Fx o None m eq_refl M) as Fy. cbn in Fy. subst. reflexivity. }
    rewrite <- Step, <- (sdict_set k k m acc).
    apply (IH acc0 _ R Fr ND'); [|exact W|exact H].
    intros k' Hk'. rewrite dict_get_set_other; [apply Same; right; exact Hk'|].
    intros E; subst. exact (NI Hk').
Qed.

Lemma ma_loop_refines h o : m_h o = h -> forall news i olds R,
  Forall (fun e => refines h (snd e)) news ->
  wf_arr olds = true ->
  ma_loop no_override merge_plain o i olds news = Ok R ->
  sarr R = szip h (sarr olds) (sarr news).
Proof.
  intros Ho. induction news as [|[nm x] nrest IH]; intros i olds R F W H.
  - cbn in H. inversion H; subst. destruct (sarr R); reflexivity.
  - destruct olds as [|[nm2 y] orest].
    + cbn in H. inversion H; subst. cbn [renumber sarr map snd szip]. f_equal. apply sarr_renumber.
    + rewrite ma_loop_cons in H.
      destruct (merge_plain o (Some y) x) as [m| | |] eqn:M; cbn [bind] in H; try discriminate.
      destruct (ma_loop no_override merge_plain o (i + 1) orest nrest) as [rest| | |] eqn:L; cbn [bind] in H; try discriminate.
      inversion H; subst. inversion F as [|? ? Fx Fr]; subst. cbn [snd] in Fx.
      cbn in W. apply andb_true_iff in W as [Wy Wr].
      cbn [sarr map snd szip]. f_equal.
      * apply (Fx o (Some y) m eq_refl M Wy).
      * apply (IH (i + 1) orest rest Fr Wr L).
Qed.

(** well-formed source trees: nodes are dictionaries or lists, keys are unique *)
Fixpoint nodupb (l : list string) : bool :=
  match l with
  | [] => true
  | x :: r => negb (existsb (String.eqb x) r) && nodupb r
  end.

Lemma nodupb_NoDup l : nodupb l = true -> NoDup l.
Proof.
  induction l as [|x r IH]; intros H; [constructor|].
  cbn in H. apply andb_true_iff in H as [H1 H2]. constructor; [|apply IH; exact H2].
  intros C. apply Bool.negb_true_iff in H1.
  assert (E : existsb (String.eqb x) r = true).
  { apply existsb_exists. exists x. split; [exact C|apply String.eqb_refl]. }
  congruence.
Qed.

Fixpoint wfb (v : value) : bool :=
  match v with
  | VSub d a =>
    (fix gd (l : list (string * (string * value))) : bool :=
       match l with [] => true | (_, (_, x)) :: r => wfb x && gd r end) d
    && match a with
       | None => true
       | Some l => (fix ga (l : list (string * value)) : bool :=
                      match l with [] => true | (_, x) :: r => wfb x && ga r end) l
       end
    && nodupb (keys d)
    && match d, a with
       | _ :: _, Some (_ :: _) => false
       | _, _ => true
       end
  | _ => true
  end.

Lemma wfb_sub d a :
  wfb (VSub d a) = true ->
  Forall (fun e => wfb (snd (snd e)) = true) d /\
  Forall (fun e => wfb (snd e) = true) (arr_of a) /\
  NoDup (keys d) /\
  (d = [] \/ a = None \/ a = Some []).
Proof.
  cbn [wfb]. intros H.
  apply andb_true_iff in H as [H Hp]. apply andb_true_iff in H as [H Hn]. apply andb_true_iff in H as [Hd Ha].
  split; [|split; [|split]].
  - clear -Hd. induction d as [|[k [nm x]] r IH]; [constructor|].
    apply andb_true_iff in Hd as [Hx Hr]. constructor; [exact Hx|apply IH; exact Hr].
  - destruct a as [l|]; [|constructor]. cbn [arr_of]. clear -Ha.
    induction l as [|[nm x] r IH]; [constructor|].
    apply andb_true_iff in Ha as [Hx Hr]. constructor; [exact Hx|apply IH; exact Hr].
  - apply nodupb_NoDup. exact Hn.
  - destruct d; [left; reflexivity|]. destruct a as [[|e l]|]; [right; right; reflexivity|discriminate Hp|right; left; reflexivity].
Qed.

Lemma sgo_nonempty h l : forall acc, acc <> [] -> sgo h acc l <> [].
Proof.
  induction l as [|[k vb] r IH]; intros acc NE; [exact NE|]. cbn [sgo]. apply IH.
  destruct acc as [|[k2 y] r2]; cbn; [discriminate|]. destruct (String.compare k k2); discriminate.
Qed.

Lemma sgo_cons_nonempty h acc k vb r : sgo h acc ((k, vb) :: r) <> [].
Proof.
  cbn [sgo]. apply sgo_nonempty.
  destruct acc as [|[k2 y] r2]; cbn; [discriminate|]. destruct (String.compare k k2); discriminate.
Qed.

Lemma szip_nonempty h olds vb nr : szip h olds (vb :: nr) <> [].
Proof. destruct olds; cbn; discriminate. Qed.

Lemma sdict_nil_iff d : sdict d = [] <-> d = [].
Proof. destruct d; cbn; split; congruence. Qed.
Lemma sarr_nil_iff l : sarr l = [] <-> l = [].
Proof. destruct l; cbn; split; congruence. Qed.

Lemma recombine_nonempty_dict sd sa has : sd <> [] -> recombine sd sa = combine_parts sd sa has.
Proof. intros H. apply recombine_combine. intros E. contradiction. Qed.
Lemma recombine_nonempty_list sd sa has : sa <> [] -> recombine sd sa = combine_parts sd sa has.
Proof. intros H. apply recombine_combine. intros _ E. contradiction. Qed.

(* the views of the destination *)
Lemma dest_view A d a :
  wf A = true -> to_cfg A = CV d a ->
  parts (strip A) = Some (sdict d, sarr (arr_of a)) /\ wf_dict d = true /\ wf_arr (arr_of a) = true /\
  a <> Some [] /\ strip A = strip (VSub d a).
Proof.
  intros W T. destruct A; cbn in T; try discriminate.
  - inversion T; subst. repeat split; try reflexivity. discriminate.
  - inversion T; subst. split; [apply parts_strip_sub; exact W|].
    rewrite wf_sub in W. apply andb_true_iff in W as [W1 W3]. apply andb_true_iff in W1 as [W1 W2].
    repeat split; try assumption. intros E; subst. destruct d; discriminate W3.
Qed.

Lemma strip_not_container v : to_cfg v = CVNot -> parts (strip v) = None.
Proof. destruct v; cbn; try discriminate; reflexivity. Qed.

Lemma spec_merge_over_primitive h a b : parts a = None -> spec_merge h a b = b.
Proof.
  intros P. destruct b; try reflexivity.
  - cbn [spec_merge]. rewrite P. reflexivity.
  - rewrite spec_merge_list, P. reflexivity.
  - rewrite spec_merge_map, P. reflexivity.
Qed.

Lemma spec_merge_nil h a : spec_merge h a ONil = match parts a with Some _ => a | None => ONil end.
Proof. reflexivity. Qed.

Lemma refines_simple h x :
  match x with VBool _ | VInt _ | VUint _ | VFloat _ | VStr _ => True | _ => False end -> refines h x.
Proof.
  intros S o old R Ho M. destruct old as [A|].
  - intros WA. destruct (to_cfg A) as [d a| |] eqn:T.
    + (* destination is a container: the primitive of B wins *)
      assert (E : R = x).
      { destruct x; try contradiction; unfold merge_plain in M; cbn [merge_val] in M; rewrite T in M; inversion M; reflexivity. }
      subst R. destruct x; try contradiction; reflexivity.
    + assert (E : R = x).
      { destruct x; try contradiction; unfold merge_plain in M; cbn [merge_val] in M; rewrite T in M; inversion M; reflexivity. }
      subst R. symmetry. apply spec_merge_over_primitive. apply strip_not_container. exact T.
    + destruct A; cbn in T; try discriminate T; discriminate WA.
  - destruct x; try contradiction; cbn in M; inversion M; reflexivity.
Qed.

Theorem merge_refines h : forall x, wfb x = true -> refines h x.
Proof.
  induction x using value_ind'; intros WB; try (apply refines_simple; exact I).
  - (* VNil: a nil in B keeps a container of A *)
    intros o old R Ho M. destruct old as [A|]; [|cbn in M; inversion M; reflexivity].
    intros WA. destruct (to_cfg A) as [d a| |] eqn:T.
    + unfold merge_plain in M. cbn [merge_val] in M. rewrite T in M.
      unfold no_override in M. cbn [bind] in M. inversion M; subst.
      destruct (dest_view A d a WA T) as (PA & _ & _ & _ & E).
      change (strip VNil) with ONil. rewrite spec_merge_nil, PA. symmetry. exact E.
    + unfold merge_plain in M. cbn [merge_val] in M. rewrite T in M. inversion M; subst.
      symmetry. apply spec_merge_over_primitive. apply strip_not_container. exact T.
    + destruct A; cbn in T; try discriminate T; discriminate WA.
  - (* VRef: with a container destination the reference would be evaluated (outside the model) *)
    intros o old R Ho M. destruct old as [A|]; [|cbn in M; inversion M; reflexivity].
    intros WA. destruct (to_cfg A) as [d a| |] eqn:T.
    + unfold merge_plain in M. cbn [merge_val] in M. rewrite T in M. discriminate M.
    + unfold merge_plain in M. cbn [merge_val] in M. rewrite T in M. inversion M; subst.
      symmetry. apply spec_merge_over_primitive. apply strip_not_container. exact T.
    + destruct A; cbn in T; try discriminate T; discriminate WA.
  - intros o old R Ho M. destruct old as [A|]; [|cbn in M; inversion M; reflexivity].
    intros WA. destruct (to_cfg A) as [d a| |] eqn:T.
    + unfold merge_plain in M. cbn [merge_val] in M. rewrite T in M. discriminate M.
    + unfold merge_plain in M. cbn [merge_val] in M. rewrite T in M. inversion M; subst.
      symmetry. apply spec_merge_over_primitive. apply strip_not_container. exact T.
    + destruct A; cbn in T; try discriminate T; discriminate WA.
  - (* VSub *)
    rename H into Hd. rename H0 into Ha.
    destruct (wfb_sub d a WB) as (Wd & Wa & ND & Pure).
    intros o old R Ho M.
    destruct old as [A|]; [|cbn in M; inversion M; reflexivity].
    intros WA. destruct (to_cfg A) as [d1 a1| |] eqn:T.
    2:{ unfold merge_plain in M. cbn [merge_val] in M. rewrite T in M. inversion M; subst.
        symmetry. apply spec_merge_over_primitive. apply strip_not_container. exact T. }
    2:{ destruct A; cbn in T; try discriminate T; discriminate WA. }
    destruct (dest_view A d1 a1 WA T) as (PA & Wd1 & Wa1 & NE1 & EA).
    rewrite (merge_plain_sub o A d1 a1 d a T) in M.
    (* refinement hypotheses for the entries *)
    assert (Fd : Forall (fun e => refines h (snd (snd e))) d).
    { clear -Hd Wd. induction d as [|e r IH]; [constructor|].
      inversion Hd; subst. inversion Wd; subst. constructor; [auto|apply IH; assumption]. }
    assert (Fa : Forall (fun e => refines h (snd e)) (arr_of a)).
    { clear -Ha Wa. induction (arr_of a) as [|e r IH]; [constructor|].
      inversion Ha; subst. inversion Wa; subst. constructor; [auto|apply IH; assumption]. }
    (* the dictionary part *)
    destruct (match d with
              | [] => Ok d1
              | _ :: _ => md_loop no_override merge_plain o (if (m_h o =? hReplace)%N then [] else d1) d
              end) as [dres| | |] eqn:MD; cbn [bind] in M; try discriminate M.
    destruct (merge_arr no_override merge_plain (m_h o) o a1 a) as [ares| | |] eqn:MA; cbn [bind] in M; try discriminate M.
    inversion M; subst R. clear M.
    assert (SD : sdict dres = match sdict d with
                              | [] => sdict d1
                              | _ => sgo h (if pol_replace h then [] else sdict d1) (sdict d)
                              end).
    { destruct d as [|e0 d0]; [inversion MD; subst; reflexivity|].
      cbn [sdict map]. fold (sdict d0).
      assert (I : sdict (if (m_h o =? hReplace)%N then [] else d1) = (if pol_replace h then [] else sdict d1)).
      { unfold pol_replace. rewrite Ho. unfold hReplace. destruct (h =? 2)%N; reflexivity. }
      rewrite <- I.
      apply (md_loop_refines h o Ho (e0 :: d0) (if (m_h o =? hReplace)%N then [] else d1) _ dres Fd ND).
      - intros; reflexivity.
      - destruct (m_h o =? hReplace)%N; [reflexivity|exact Wd1].
      - exact MD. }
    (* the list part *)
    assert (SA : sarr (arr_of ares) = match sarr (arr_of a) with
                                      | [] => sarr (arr_of a1)
                                      | _ => if pol_arr_replace h then sarr (arr_of a)
                                             else if pol_prepend h then sarr (arr_of a) ++ sarr (arr_of a1)
                                             else if pol_append h then sarr (arr_of a1) ++ sarr (arr_of a)
                                             else szip h (sarr (arr_of a1)) (sarr (arr_of a))
                                      end
                 /\ (ares = Some [] -> False)
                 /\ (arr_of a = [] -> ares = a1)).
    { unfold merge_arr in MA. unfold pol_arr_replace, pol_prepend, pol_append.
      rewrite Ho in MA. unfold hReplace, hArrReplace, hPrepend, hAppend in MA.
      destruct a as [[|e l]|]; cbn [arr_of] in *.
      - inversion MA; subst. repeat split; auto.
      - assert (NEl : e :: l <> []) by discriminate.
        assert (SNE : sarr (e :: l) <> []) by (cbn; discriminate).
        remember (e :: l) as l2 eqn:El2.
        assert (MA' : (if ((h =? 2) || (h =? 5))%N then Ok (Some (renumber 0 l2))
                       else if (h =? 4)%N then Ok (Some (renumber 0 (l2 ++ arr_of a1)))
                       else if (h =? 3)%N then Ok (Some (arr_of a1 ++ renumber (lenZ (arr_of a1)) l2))
                       else r <- ma_loop no_override merge_plain o 0 (arr_of a1) l2 ;; Ok (Some r)) = Ok ares).
        { rewrite El2. rewrite El2 in MA. exact MA. }
        clear MA.
        assert (RHS : forall X Y : list otree, match sarr l2 with [] => X | _ :: _ => Y end = Y).
        { intros X Y. destruct (sarr l2); [contradiction SNE; reflexivity|reflexivity]. }
        rewrite RHS.
        destruct ((h =? 2) || (h =? 5))%N.
        + inversion MA'; subst ares. cbn [arr_of]. rewrite sarr_renumber. repeat split.
          * intros E. inversion E as [E1]. destruct l2 as [|[n0 x0] r0]; [contradiction|discriminate E1].
          * intros E. contradiction.
        + destruct (h =? 4)%N.
          * inversion MA'; subst ares. cbn [arr_of]. rewrite sarr_renumber, sarr_app. repeat split.
            -- intros E. inversion E as [E1]. destruct l2 as [|[n0 x0] r0]; [contradiction|discriminate E1].
            -- intros E. contradiction.
          * destruct (h =? 3)%N.
            -- inversion MA'; subst ares. cbn [arr_of]. rewrite sarr_app, sarr_renumber. repeat split.
               ++ intros E. inversion E as [E1]. apply app_eq_nil in E1 as [_ E2].
                  destruct l2 as [|[n0 x0] r0]; [contradiction|discriminate E2].
               ++ intros E. contradiction.
            -- destruct (ma_loop no_override merge_plain o 0 (arr_of a1) l2) as [r| | |] eqn:L; cbn [bind] in MA'; try discriminate MA'.
               inversion MA'; subst ares. cbn [arr_of].
               pose proof (ma_loop_refines h o Ho l2 0 (arr_of a1) r Fa Wa1 L) as Z.
               rewrite Z. repeat split.
               ++ intros E. inversion E; subst r. cbn [sarr map] in Z.
                  destruct (sarr l2) as [|vb nr]; [contradiction SNE; reflexivity|].
                  symmetry in Z. exact (szip_nonempty _ _ _ _ Z).
               ++ intros E. contradiction.
      - inversion MA; subst. repeat split; auto. }
    destruct SA as (SA & NoEmpty & Keep).
    rewrite strip_sub.
    (* the source is a dictionary or a list *)
    destruct Pure as [Pd|[Pa|Pa]].
    + (* no named keys in the source *)
      subst d. cbn [sdict map] in SD. inversion MD; subst dres.
      rewrite strip_sub. cbn [sdict map].
      destruct (sarr (arr_of a)) as [|sa0 sar] eqn:SAa.
      * (* an empty list part, or none: nothing changes *)
        apply sarr_nil_iff in SAa. rewrite (Keep SAa).
        destruct a as [la0|]; unfold combine_parts at 2.
        -- rewrite spec_merge_list, PA. rewrite <- (recombine_combine _ _ (match a1 with Some _ => true | None => false end)); [reflexivity|].
           intros _ E. apply sarr_nil_iff in E. destruct a1 as [[|]|]; try reflexivity; try discriminate E. contradiction NE1; reflexivity.
        -- rewrite spec_merge_nil, PA. rewrite EA, strip_sub. reflexivity.
      * (* a non-empty list *)
        cbn [combine_parts]. rewrite spec_merge_list, PA. rewrite SA.
        destruct ares as [ar|]; [|exfalso; cbn in SA; destruct (pol_arr_replace h), (pol_prepend h), (pol_append h); try discriminate SA;
                                   destruct (sarr (arr_of a1)); discriminate SA].
        symmetry. apply recombine_nonempty_list.
        destruct (pol_arr_replace h); [discriminate|]. destruct (pol_prepend h); [discriminate|].
        destruct (pol_append h); [intros E; apply app_eq_nil in E as [_ E]; discriminate E|].
        apply szip_nonempty.
    + (* a dictionary without list part *)
      subst a. rewrite strip_sub. cbn [arr_of sarr map] in *. rewrite (Keep eq_refl).
      destruct (sdict d) as [|sd0 sdr] eqn:SDd.
      * apply sdict_nil_iff in SDd. subst d. inversion MD; subst dres.
        cbn [combine_parts]. rewrite spec_merge_nil, PA. rewrite EA, strip_sub. reflexivity.
      * cbn [combine_parts]. rewrite spec_merge_map, PA. rewrite SD.
        symmetry. apply recombine_nonempty_dict. destruct sd0. apply sgo_cons_nonempty.
    + (* a dictionary with an empty (non-nil) list part *)
      subst a. rewrite strip_sub. cbn [arr_of sarr map] in *. rewrite (Keep eq_refl).
      destruct (sdict d) as [|sd0 sdr] eqn:SDd.
      * apply sdict_nil_iff in SDd. subst d. inversion MD; subst dres.
        cbn [combine_parts]. rewrite spec_merge_list, PA.
        rewrite <- (recombine_combine _ _ (match a1 with Some _ => true | None => false end)); [reflexivity|].
        intros _ E. apply sarr_nil_iff in E. destruct a1 as [[|]|]; try reflexivity; try discriminate E. contradiction NE1; reflexivity.
      * cbn [combine_parts]. rewrite spec_merge_map, PA. rewrite SD.
        symmetry. apply recombine_nonempty_dict. destruct sd0. apply sgo_cons_nonempty.
Qed.

(** * what the specification says about lists (the array policies) *)
Lemma spec_append la lb : lb <> [] -> spec_merge 3 (OList la) (OList lb) = OList (la ++ lb).
Proof.
  intros NE. rewrite spec_merge_list. cbn [parts].
  destruct lb as [|b lb']; [contradiction|]. cbn [pol_arr_replace pol_prepend pol_append N.eqb orb].
  unfold recombine. destruct (la ++ b :: lb') eqn:E; [apply app_eq_nil in E as [_ E]; discriminate|reflexivity].
Qed.

Lemma spec_prepend la lb : lb <> [] -> spec_merge 4 (OList la) (OList lb) = OList (lb ++ la).
Proof.
  intros NE. rewrite spec_merge_list. cbn [parts].
  destruct lb as [|b lb']; [contradiction|]. reflexivity.
Qed.

Lemma spec_arr_replace h la lb :
  (h = 2 \/ h = 5)%N -> lb <> [] -> spec_merge h (OList la) (OList lb) = OList lb.
Proof.
  intros Hh NE. rewrite spec_merge_list. cbn [parts].
  destruct lb as [|b lb']; [contradiction|]. destruct Hh; subst; reflexivity.
Qed.

Lemma spec_empty_list_replaces_nothing h a : parts a <> None -> a <> OList [] ->
  forall da la, parts a = Some (da, la) -> spec_merge h a (OList []) = recombine da la.
Proof. intros _ _ da la P. rewrite spec_merge_list, P. reflexivity. Qed.

Lemma append_length la lb : lb <> [] ->
  match spec_merge 3 (OList la) (OList lb) with
  | OList l => List.length l = (List.length la + List.length lb)%nat
  | _ => False
  end.
Proof. intros NE. rewrite spec_append by exact NE. apply app_length. Qed.

(* index-wise merge by default: position i of the result merges position i of both lists *)
Lemma szip_length h la lb : List.length (szip h la lb) = Nat.max (List.length la) (List.length lb).
Proof.
  revert la. induction lb as [|b lb IH]; intros la; cbn [szip].
  - rewrite Nat.max_0_r. reflexivity.
  - destruct la as [|a la]; [reflexivity|]. cbn [List.length]. rewrite IH. reflexivity.
Qed.

Lemma szip_nth_both h la lb i va vb :
  nth_error la i = Some va -> nth_error lb i = Some vb ->
  nth_error (szip h la lb) i = Some (spec_merge h va vb).
Proof.
  revert la i. induction lb as [|b lb IH]; intros la i Ha Hb; [destruct i; discriminate|].
  destruct la as [|a la]; [destruct i; discriminate|].
  destruct i; cbn in *; [inversion Ha; inversion Hb; subst; reflexivity|]. apply IH; assumption.
Qed.
