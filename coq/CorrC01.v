(* CorrC01.v — correspondence and property evaluation for C01 (merge policies). *)
From Ucfg Require Export Base ParseInt Consts Field Tree PathOps Merge OTree.

Inductive case :=
| CMerge (h : N) (a b : value) (result : option value) (unpacked : option otree).

Definition root_view (t : otree) : otree :=
  match canon t with ONil => OMap [] | OMap m => OMap (drop_nils m) | x => x end.

Definition same_root_kind (a b : value) : bool :=
  match a, b with
  | VSub da aa, VSub db ab =>
    let la := match aa with Some (_ :: _) => true | _ => false end in
    let lb := match ab with Some (_ :: _) => true | _ => false end in
    let ma := match da with _ :: _ => true | _ => false end in
    let mb := match db with _ :: _ => true | _ => false end in
    negb ((la && mb) || (ma && lb))
  | _, _ => false
  end.

(* The property on what the implementation returned: unpacking the merged config
   yields the plain-tree merge of the two unpacked operands (nil = empty). *)
Definition prop_holds (c : case) : bool :=
  match c with
  | CMerge h a b _ (Some u) =>
    if pure a && pure b && same_root_kind a b
    then otree_equiv (root_view (spec_merge h (strip a) (strip b))) (root_view u)
    else true
  | CMerge _ _ _ _ None => true
  end.

Definition model_result (c : case) : res value :=
  match c with CMerge h a b _ _ => merge_root (plain_opts h) a b end.

Definition model_agrees (c : case) : bool :=
  match c with
  | CMerge h a b r u =>
    match merge_root (plain_opts h) a b, r with
    | Ok m, Some r => value_eqb m r && opt_eqb otree_eqb (Some (strip_root r)) u
    | Err _ _, None => true
    | OutOfModel, _ => true
    | _, _ => false
    end
  end.

Definition skipped (c : case) : bool :=
  match model_result c with OutOfModel => true | _ => false end.

Definition signature (c : case) : N := 0%N.

Definition verdict (c : case) : N :=
  if skipped c then 8%N
  else ((if model_agrees c then 0 else 1) + (if prop_holds c then 0 else 2))%N.

Fixpoint run_cases (i : N) (cs : list case) : list (N * N * N) :=
  match cs with
  | [] => []
  | c :: r =>
    let v := verdict c in
    if (v =? 0)%N then run_cases (i + 1)%N r
    else (i, v, signature c) :: run_cases (i + 1)%N r
  end.
