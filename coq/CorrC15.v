(* CorrC15.v — Path, Parent, FlattenedKeys and diff describe the actual structure. *)
From Ucfg Require Export Base ParseInt Consts Field Tree PathOps Merge OTree Ops Keys.

(* one reachable sub-config: its position (keys and indices from the root), Path("."),
   and whether Parent() is the node that actually contains it *)
Record nodeobs := { no_pos : list field; no_path : string; no_parent_ok : bool }.

Inductive case :=
| CKeys (tree : value) (flattened : list string) (nodes : list nodeobs) (reattached : bool)
| CDiff (old new : value) (oldkeys newkeys keep add remove : list string).

Definition pos_str (p : list field) : string := join "." (map field_str p).

(* Path() computed from the stored names along the position *)
Fixpoint stored_path (p : list field) (pp : string) (v : value) : option string :=
  match p with
  | [] => Some pp
  | f :: r =>
    match get_field f pp v with
    | Ok (Some (pp', x)) => stored_path r pp' x
    | _ => None
    end
  end.

Definition strs_eqb := list_eqb String.eqb.

Definition model_agrees (c : case) : bool :=
  match c with
  | CKeys t fl nodes _ =>          (* also for a config attached a second time: it is attached as a copy (fix F12b) *)
    match flattened_keys "." t with
    | Ok m => strs_eqb m fl
    | OutOfModel => true
    | _ => false
    end &&
    forallb (fun n => opt_eqb String.eqb (stored_path (no_pos n) "" t) (Some (no_path n))) nodes
  | CDiff old new ok nk keep add remove =>
    match flattened_keys "." old, flattened_keys "." new with
    | Ok mo, Ok mn =>
      strs_eqb mo ok && strs_eqb mn nk &&
      strs_eqb (diff_keep mo mn) keep && strs_eqb (diff_add mo mn) add && strs_eqb (diff_remove mo mn) remove
    | _, _ => true
    end
  end.

Definition prop_holds (c : case) : bool :=
  match c with
  | CKeys t fl nodes _ =>
    if static t then
      strs_eqb fl (sort_strings (leaf_paths "." "" t)) &&
      forallb (fun n => String.eqb (no_path n) (pos_str (no_pos n)) && no_parent_ok n) nodes
    else true
  | CDiff old new ok nk keep add remove =>
    if static old && static new then
      let so := sort_strings (leaf_paths "." "" old) in
      let sn := sort_strings (leaf_paths "." "" new) in
      strs_eqb keep (diff_keep so sn) && strs_eqb add (diff_add so sn) && strs_eqb remove (diff_remove so sn)
    else true
  end.

Definition signature (c : case) : N := 0%N.

Definition verdict (c : case) : N :=
  ((if model_agrees c then 0 else 1) + (if prop_holds c then 0 else 2))%N.

Fixpoint run_cases (i : N) (cs : list case) : list (N * N * N) :=
  match cs with
  | [] => []
  | c :: r =>
    let v := verdict c in
    if (v =? 0)%N then run_cases (i + 1)%N r
    else (i, v, signature c) :: run_cases (i + 1)%N r
  end.
