(* OTree.v — observable trees (what Unpack into interface{} returns) and the plain-tree
   specification of merging (C01, C16). *)
From Ucfg Require Import Base ParseInt Consts Field Tree.

Inductive otree :=
| ONil
| OBool (b : bool)
| OInt (z : Z)
| OUint (z : Z)
| OFloat (bits : Z)
| OStr (s : string)
| OList (l : list otree)
| OMap (m : list (string * otree))
| ODyn.                               (* an unevaluated reference: never equal to an observation *)

Fixpoint otree_eqb (x y : otree) {struct x} : bool :=
  match x, y with
  | ONil, ONil => true
  | OBool a, OBool b => Bool.eqb a b
  | OInt a, OInt b => Z.eqb a b
  | OUint a, OUint b => Z.eqb a b
  | OFloat a, OFloat b => Z.eqb a b
  | OStr a, OStr b => String.eqb a b
  | OList l1, OList l2 =>
    (fix go (l1 l2 : list otree) : bool :=
       match l1, l2 with
       | [], [] => true
       | a :: r1, b :: r2 => otree_eqb a b && go r1 r2
       | _, _ => false
       end) l1 l2
  | OMap m1, OMap m2 =>
    (fix go (l1 l2 : list (string * otree)) : bool :=
       match l1, l2 with
       | [], [] => true
       | (k, a) :: r1, (k2, b) :: r2 => String.eqb k k2 && otree_eqb a b && go r1 r2
       | _, _ => false
       end) m1 m2
  | _, _ => false
  end.

(** nil, the empty list and the empty map are the same observation *)
Fixpoint canon (t : otree) : otree :=
  match t with
  | OList [] => ONil
  | OMap [] => ONil
  | OList l => OList (map canon l)
  | OMap m => OMap ((fix go (l : list (string * otree)) : list (string * otree) :=
                       match l with [] => [] | (k, x) :: r => (k, canon x) :: go r end) m)
  | _ => t
  end.

Definition otree_equiv (x y : otree) : bool := otree_eqb (canon x) (canon y).

(** index entries of a list part written into a map ("0", "1", ...) overriding same keys *)
Fixpoint add_index_entries (i : Z) (l : list otree) (m : list (string * otree)) : list (string * otree) :=
  match l with
  | [] => m
  | x :: r => add_index_entries (i + 1) r (dict_set (dec i) x m)
  end.

(** cfgSub.reify *)
Fixpoint strip (v : value) : otree :=
  match v with
  | VNil => ONil
  | VBool b => OBool b
  | VInt z => OInt z
  | VUint z => OUint z
  | VFloat f => OFloat f
  | VStr s => OStr s
  | VRef _ _ | VSplice _ => ODyn
  | VSub d a =>
    let sd := (fix gd (l : list (string * (string * value))) : list (string * otree) :=
                 match l with [] => [] | (k, (_, x)) :: r => (k, strip x) :: gd r end) d in
    let sa := match a with
              | None => []
              | Some l => (fix ga (l : list (string * value)) : list otree :=
                             match l with [] => [] | (_, x) :: r => strip x :: ga r end) l
              end in
    match sd, sa with
    | [], [] => match a with Some _ => OList [] | None => ONil end
    | _ :: _, [] => OMap sd
    | [], _ :: _ => OList sa
    | _, _ => OMap (add_index_entries 0 sa sd)
    end
  end.

(** Unpack of a root config: into a map when it has named keys (the array part is then
    ignored by reifyMap), into a list when it has only an array part. *)
Definition drop_nils (m : list (string * otree)) : list (string * otree) :=
  filter (fun kv => match snd kv with ONil => false | _ => true end) m.

Definition strip_root (v : value) : otree :=
  match v with
  | VSub d a =>
    match strip (VSub d None), a with
    | OMap m, _ => OMap (drop_nils m)      (* reifyMap does not store nil settings *)
    | _, Some _ => match strip (VSub [] a) with OList l => OList l | _ => OList [] end
    | _, None => OMap []
    end
  | _ => strip v
  end.

(** * The plain-tree specification of Merge under a global policy.
    A container is seen as (named part, list part): a map is (m, []), a list ([], l),
    nil ([], []). *)
Definition parts (t : otree) : option (list (string * otree) * list otree) :=
  match t with
  | ONil => Some ([], [])
  | OMap m => Some (m, [])
  | OList l => Some ([], l)
  | _ => None
  end.

Definition recombine (d : list (string * otree)) (l : list otree) : otree :=
  match d, l with
  | [], [] => ONil
  | _ :: _, [] => OMap d
  | [], _ :: _ => OList l
  | _, _ => OMap (add_index_entries 0 l d)
  end.

Definition pol_replace (p : N) : bool := (p =? 2)%N.
Definition pol_arr_replace (p : N) : bool := ((p =? 2) || (p =? 5))%N.
Definition pol_append (p : N) : bool := (p =? 3)%N.
Definition pol_prepend (p : N) : bool := (p =? 4)%N.

Fixpoint spec_merge (pol : N) (a b : otree) {struct b} : otree :=
  match b with
  | OMap mb =>
    match parts a with
    | None => b
    | Some (da, la) =>
      let d' :=
          match mb with
          | [] => da
          | _ =>
            (* under ReplaceValues B's dictionary alone (the fold starts from the empty one) *)
            (fix go (acc : list (string * otree)) (l : list (string * otree)) {struct l} :=
               match l with
               | [] => acc
               | (k, vb) :: r =>
                 go (dict_set k (match dict_get k acc with
                                 | Some va => spec_merge pol va vb
                                 | None => vb end) acc) r
               end) (if pol_replace pol then [] else da) mb
          end in
      recombine d' la
    end
  | OList lb =>
    match parts a with
    | None => b
    | Some (da, la) =>
      let l' :=
          match lb with
          | [] => la
          | _ =>
            if pol_arr_replace pol then lb
            else if pol_prepend pol then lb ++ la
            else if pol_append pol then la ++ lb
            else (fix zip (olds : list otree) (news : list otree) {struct news} : list otree :=
                    match news with
                    | [] => olds
                    | vb :: nr =>
                      match olds with
                      | [] => news
                      | va :: or => spec_merge pol va vb :: zip or nr
                      end
                    end) la lb
          end in
      recombine da l'
    end
  | ONil =>
    match parts a with
    | Some _ => a                            (* a nil in B leaves a container of A in place *)
    | None => ONil
    end
  | _ => b
  end.

(** a tree whose every node is a dictionary or a list (not both), without references *)
Fixpoint pure (v : value) : bool :=
  match v with
  | VRef _ _ | VSplice _ => false
  | VSub d a =>
    (fix gd (l : list (string * (string * value))) : bool :=
       match l with [] => true | (_, (_, x)) :: r => pure x && gd r end) d
    && match a with
       | None => true
       | Some l => (fix ga (l : list (string * value)) : bool :=
                      match l with [] => true | (_, x) :: r => pure x && ga r end) l
       end
    && match d, a with
       | _ :: _, Some (_ :: _) => false
       | _, _ => true
       end
  | _ => true
  end.

(** * Merge with a position-dependent policy (C16): [polf pos] is the policy in force for
    merging the two containers found at position [pos]. *)
Fixpoint spec_merge_at (polf : list field -> N) (pos : list field) (a b : otree) {struct b} : otree :=
  let pol := polf pos in
  match b with
  | OMap mb =>
    match parts a with
    | None => b
    | Some (da, la) =>
      let d' :=
          match mb with
          | [] => da
          | _ =>
            (fix go (acc : list (string * otree)) (l : list (string * otree)) {struct l} :=
               match l with
               | [] => acc
               | (k, vb) :: r =>
                 (* a container that is replaced wholesale drops what it held - except a subtree
                    that has a policy of its own: that one is merged under its policy *)
                 let old := match dict_get k acc with
                            | Some va => Some va
                            | None => if pol_replace pol && negb (pol_replace (polf (pos ++ [FName k])))
                                      then dict_get k da else None
                            end in
                 go (dict_set k (match old with
                                 | Some va => spec_merge_at polf (pos ++ [FName k]) va vb
                                 | None => vb end) acc) r
               end) (if pol_replace pol then [] else da) mb
          end in
      recombine d' la
    end
  | OList lb =>
    match parts a with
    | None => b
    | Some (da, la) =>
      let l' :=
          match lb with
          | [] => la
          | _ =>
            if pol_arr_replace pol then lb
            else if pol_prepend pol then lb ++ la
            else if pol_append pol then la ++ lb
            else (fix zip (i : Z) (olds : list otree) (news : list otree) {struct news} : list otree :=
                    match news with
                    | [] => olds
                    | vb :: nr =>
                      match olds with
                      | [] => news
                      | va :: or => spec_merge_at polf (pos ++ [FIdx i]) va vb :: zip (i + 1) or nr
                      end
                    end) 0 la lb
          end in
      recombine da l'
    end
  | ONil =>
    match parts a with
    | Some _ => a
    | None => ONil
    end
  | _ => b
  end.
