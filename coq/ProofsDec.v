(* ProofsDec.v — the decimal text of an integer reads back as that integer: the model of
   strconv.ParseUint/ParseInt (base 0, 64 bits) on the text Go's %d / strconv.Itoa produce.
   Used by C17 (integers in JSON documents) and C20 (an index printed into a path). *)
From Ucfg Require Import Base ParseInt.
From Coq Require Import Lia DecimalString DecimalPos DecimalN DecimalFacts.
Local Open Scope N_scope.

(** the value of a digit list, accumulated left to right *)
Fixpoint uval (d : Decimal.uint) (acc : N) : N :=
  match d with
  | Decimal.Nil => acc
  | Decimal.D0 l => uval l (acc * 10)
  | Decimal.D1 l => uval l (acc * 10 + 1)
  | Decimal.D2 l => uval l (acc * 10 + 2)
  | Decimal.D3 l => uval l (acc * 10 + 3)
  | Decimal.D4 l => uval l (acc * 10 + 4)
  | Decimal.D5 l => uval l (acc * 10 + 5)
  | Decimal.D6 l => uval l (acc * 10 + 6)
  | Decimal.D7 l => uval l (acc * 10 + 7)
  | Decimal.D8 l => uval l (acc * 10 + 8)
  | Decimal.D9 l => uval l (acc * 10 + 9)
  end.

Lemma uval_ge d : forall acc, acc <= uval d acc.
Proof. induction d; intro acc; cbn [uval]; try apply N.le_refl; (etransitivity; [|apply IHd]); lia. Qed.

Lemma of_uint_acc_uval d : forall acc, Npos (Pos.of_uint_acc d acc) = uval d (Npos acc).
Proof.
  induction d; intro acc; cbn [Pos.of_uint_acc uval]; try reflexivity; rewrite IHd; f_equal; lia.
Qed.

Lemma of_uint_uval d : Pos.of_uint d = uval d 0.
Proof.
  induction d; cbn [Pos.of_uint uval]; try reflexivity; try (rewrite of_uint_acc_uval; reflexivity).
  exact IHd.
Qed.

(** the parser's digit loop on a digit string *)
Lemma digits_step c k r n :
  Ascii.eqb c "_"%char = false -> digit_val c = Some k -> k < 10 -> n * 10 + k <= maxU64 ->
  ParseInt.digits 10 (String c r) n = ParseInt.digits 10 r (n * 10 + k).
Proof.
  intros Hc Hd Hk Hn. cbn [ParseInt.digits]. rewrite Hc, Hd.
  destruct (10 <=? k) eqn:E1; [apply N.leb_le in E1; lia|].
  assert (maxU64 / 10 = 1844674407370955161) as Q by reflexivity. rewrite Q.
  destruct (1844674407370955161 + 1 <=? n) eqn:E2; [apply N.leb_le in E2; unfold maxU64 in Hn; lia|].
  destruct (maxU64 <? n * 10 + k) eqn:E3; [apply N.ltb_lt in E3; lia|]. reflexivity.
Qed.

Lemma digits_uval d : forall n, uval d n <= maxU64 ->
  ParseInt.digits 10 (NilEmpty.string_of_uint d) n = PVal (uval d n).
Proof.
  induction d; intros n H; cbn [NilEmpty.string_of_uint uval] in *; [reflexivity| | | | | | | | | |].
  - pose proof (uval_ge d (n * 10)) as G.
    rewrite (digits_step "0"%char 0 _ n eq_refl eq_refl); [rewrite N.add_0_r; apply IHd; exact H|lia|lia].
  - pose proof (uval_ge d (n * 10 + 1)) as G. rewrite (digits_step "1"%char 1 _ n eq_refl eq_refl); [apply IHd; exact H|lia|lia].
  - pose proof (uval_ge d (n * 10 + 2)) as G. rewrite (digits_step "2"%char 2 _ n eq_refl eq_refl); [apply IHd; exact H|lia|lia].
  - pose proof (uval_ge d (n * 10 + 3)) as G. rewrite (digits_step "3"%char 3 _ n eq_refl eq_refl); [apply IHd; exact H|lia|lia].
  - pose proof (uval_ge d (n * 10 + 4)) as G. rewrite (digits_step "4"%char 4 _ n eq_refl eq_refl); [apply IHd; exact H|lia|lia].
  - pose proof (uval_ge d (n * 10 + 5)) as G. rewrite (digits_step "5"%char 5 _ n eq_refl eq_refl); [apply IHd; exact H|lia|lia].
  - pose proof (uval_ge d (n * 10 + 6)) as G. rewrite (digits_step "6"%char 6 _ n eq_refl eq_refl); [apply IHd; exact H|lia|lia].
  - pose proof (uval_ge d (n * 10 + 7)) as G. rewrite (digits_step "7"%char 7 _ n eq_refl eq_refl); [apply IHd; exact H|lia|lia].
  - pose proof (uval_ge d (n * 10 + 8)) as G. rewrite (digits_step "8"%char 8 _ n eq_refl eq_refl); [apply IHd; exact H|lia|lia].
  - pose proof (uval_ge d (n * 10 + 9)) as G. rewrite (digits_step "9"%char 9 _ n eq_refl eq_refl); [apply IHd; exact H|lia|lia].
Qed.

Fixpoint all_digits (s : string) : bool :=
  match s with EmptyString => true | String a r => is_dec_digit a && all_digits r end.

Lemma string_of_uint_digits d : all_digits (NilEmpty.string_of_uint d) = true.
Proof. induction d; cbn [NilEmpty.string_of_uint all_digits]; try reflexivity; exact IHd. Qed.

Lemma digits_no_underscore s : all_digits s = true -> has_underscore s = false.
Proof.
  induction s as [|a r IH]; [reflexivity|]. cbn [all_digits has_underscore]. intro H.
  apply andb_prop in H. destruct H as [Ha Hr]. rewrite (IH Hr), Bool.orb_false_r.
  destruct (Ascii.eqb a "_"%char) eqn:E; [|reflexivity]. apply Ascii.eqb_eq in E. subst a. discriminate Ha.
Qed.

(** the digits of a positive number do not start with a zero *)
Lemma nzhead_no_zero d : forall d', Decimal.nzhead d <> Decimal.D0 d'.
Proof. induction d; intro d'; cbn [Decimal.nzhead]; try discriminate. apply IHd. Qed.

Lemma to_uint_head p : exists a r, NilEmpty.string_of_uint (Pos.to_uint p) = String a r /\ Ascii.eqb a "0"%char = false.
Proof.
  pose proof (DecimalPos.Unsigned.to_of (Pos.to_uint p)) as N1.
  rewrite DecimalPos.Unsigned.of_to in N1. cbn [N.to_uint] in N1.
  pose proof (DecimalPos.Unsigned.to_uint_nonzero p) as NZ.
  remember (Pos.to_uint p) as d eqn:Ed. clear Ed.
  unfold Decimal.unorm in N1.
  destruct d; cbn [Decimal.nzhead] in N1;
    try (cbn [NilEmpty.string_of_uint]; eexists _, _; split; [reflexivity|reflexivity]).
  - discriminate N1.
  - exfalso. destruct (Decimal.nzhead d) eqn:E; try discriminate N1.
    + injection N1 as N1. subst d. apply NZ. reflexivity.
    + apply (nzhead_no_zero d u). exact E.
Qed.

(** strconv.ParseUint reads back the decimal text of every uint64 *)
Theorem parse_uint_dec n : n <= maxU64 -> parse_uint0 (decN n) = PVal n.
Proof.
  intro H. unfold decN, dec. destruct n as [|p].
  - reflexivity.
  - cbn [Z.of_N Z.to_int NilZero.string_of_int].
    assert (NilZero.string_of_uint (Pos.to_uint p) = NilEmpty.string_of_uint (Pos.to_uint p)) as E.
    { pose proof (DecimalPos.Unsigned.to_uint_nonnil p) as NN. destruct (Pos.to_uint p); try reflexivity. contradiction. }
    rewrite E. destruct (to_uint_head p) as [a [r [Es Ha]]].
    unfold parse_uint0. rewrite Es.
    assert (base_split (String a r) = (10, String a r)) as B.
    { cbn [base_split]. rewrite Ha. reflexivity. }
    rewrite B. rewrite <- Es.
    pose proof (DecimalPos.Unsigned.of_to p) as V. rewrite of_uint_uval in V.
    rewrite (digits_uval (Pos.to_uint p) 0); [|rewrite V; exact H].
    rewrite (digits_no_underscore _ (string_of_uint_digits _)). cbn [andb]. rewrite V. reflexivity.
Qed.

Lemma decN_pos p : decN (Npos p) = NilEmpty.string_of_uint (Pos.to_uint p).
Proof.
  unfold decN, dec. cbn [Z.of_N Z.to_int NilZero.string_of_int].
  pose proof (DecimalPos.Unsigned.to_uint_nonnil p) as NN. destruct (Pos.to_uint p); try reflexivity. contradiction.
Qed.

Lemma digit_not_sign a : is_dec_digit a = true -> Ascii.eqb a "+"%char = false /\ Ascii.eqb a "-"%char = false.
Proof.
  intro H. split.
  - destruct (Ascii.eqb a "+"%char) eqn:E; [apply Ascii.eqb_eq in E; subst a; discriminate H|reflexivity].
  - destruct (Ascii.eqb a "-"%char) eqn:E; [apply Ascii.eqb_eq in E; subst a; discriminate H|reflexivity].
Qed.

(** strconv.ParseInt reads back the decimal text of every int64 *)
Theorem parse_int_dec z : (- 9223372036854775808 <= z < 9223372036854775808)%Z -> parse_int0 (dec z) = Some z.
Proof.
  intro H. destruct z as [|p|p].
  - reflexivity.
  - change (dec (Zpos p)) with (decN (Npos p)).
    pose proof (parse_uint_dec (Npos p) ltac:(unfold maxU64; lia)) as U.
    rewrite decN_pos in *. destruct (to_uint_head p) as [a [r [Es Ha]]].
    pose proof (string_of_uint_digits (Pos.to_uint p)) as D. rewrite Es in U, D |- *.
    cbn [all_digits] in D. apply andb_prop in D. destruct D as [Da _].
    destruct (digit_not_sign a Da) as [Np Nm].
    cbn [parse_int0]. rewrite Np, Nm, U. cbn [negb andb].
    destruct (two63 <=? N.pos p) eqn:E; [apply N.leb_le in E; unfold two63 in E; lia|]. reflexivity.
  - assert (dec (Zneg p) = String "-"%char (decN (Npos p))) as E.
    { unfold decN, dec. cbn [Z.of_N Z.to_int NilZero.string_of_int]. reflexivity. }
    rewrite E. cbn [parse_int0]. change (Ascii.eqb "-"%char "+"%char) with false. change (Ascii.eqb "-"%char "-"%char) with true.
    cbv iota. rewrite (parse_uint_dec (Npos p) ltac:(unfold maxU64; lia)).
    cbn [negb andb]. destruct (two63 <? N.pos p) eqn:E2; [apply N.ltb_lt in E2; unfold two63 in E2; lia|]. reflexivity.
Qed.

Example dec_examples :
  parse_uint0 (decN 18446744073709551615) = PVal 18446744073709551615 /\
  parse_int0 (dec (-9223372036854775808)) = Some (-9223372036854775808)%Z /\
  dec 1024 = "1024"%string.
Proof. vm_compute. repeat split. Qed.

(** C20: the text of an index is that index again (and nothing else is): a list entry i is
    addressed by the path segment that prints i, for every i the options allow *)
From Ucfg Require Import Consts Field.
Local Open Scope Z_scope.

Theorem index_text_is_index i maxIdx :
  0 <= i <= maxIdx -> maxIdx < 9223372036854775808 ->
  parse_field (dec i) maxIdx false = FIdx i /\ field_str (FIdx i) = dec i.
Proof.
  intros Hi Hm. split; [|reflexivity]. unfold parse_field.
  rewrite (parse_int_dec i ltac:(lia)).
  destruct (0 <=? i) eqn:E1; [|apply Z.leb_gt in E1; lia].
  destruct (i <=? maxIdx) eqn:E2; [reflexivity|apply Z.leb_gt in E2; lia].
Qed.

(* with numeric keys enabled the same text is a name *)
Theorem index_text_is_name_with_numkeys i maxIdx : parse_field (dec i) maxIdx true = FName (dec i).
Proof. reflexivity. Qed.

(** C17: an integer literal is no keyword *)
From Ucfg Require Import ParseValue.
Definition num_start (a : ascii) : bool := is_dec_digit a || Ascii.eqb a "-"%char.

Lemma dec_head z : exists a r, dec z = String a r /\ num_start a = true /\ all_digits r = true.
Proof.
  destruct z as [|p|p].
  - exists "0"%char, ""%string. repeat split.
  - change (dec (Zpos p)) with (decN (Npos p)). rewrite decN_pos.
    pose proof (string_of_uint_digits (Pos.to_uint p)) as D.
    destruct (to_uint_head p) as [a [r [Es _]]]. rewrite Es in *. cbn [all_digits] in D.
    apply andb_prop in D. destruct D as [Da Dr]. exists a, r. unfold num_start. rewrite Da. repeat split. exact Dr.
  - exists "-"%char, (decN (Npos p)). split; [reflexivity|]. split; [reflexivity|].
    rewrite decN_pos. apply string_of_uint_digits.
Qed.

Lemma num_word_no_keyword a r : num_start a = true ->
  String.eqb (String a r) "null" = false /\ bool_word (String a r) = None.
Proof.
  intro H.
  assert (forall k, num_start k = false -> Ascii.eqb a k = false) as NE.
  { intros k Hk. destruct (Ascii.eqb a k) eqn:E; [apply Ascii.eqb_eq in E; subst k; congruence|reflexivity]. }
  split.
  - cbn [String.eqb]. rewrite (NE "n"%char eq_refl). reflexivity.
  - unfold bool_word, bool_true_words, bool_false_words. cbn [existsb String.eqb].
    rewrite (NE "t"%char eq_refl), (NE "T"%char eq_refl), (NE "o"%char eq_refl), (NE "O"%char eq_refl),
            (NE "f"%char eq_refl), (NE "F"%char eq_refl). reflexivity.
Qed.

Theorem primitive_of_dec z :
  (- 9223372036854775808 <= z <= 18446744073709551615) ->
  primitive_of (dec z) = POk (if 0 <=? z then PUint z else PInt z).
Proof.
  intro H. destruct (dec_head z) as [a [r [E [Hs _]]]].
  unfold primitive_of. rewrite E. destruct (num_word_no_keyword a r Hs) as [N1 N2]. rewrite N1, N2. rewrite <- E.
  destruct (0 <=? z) eqn:Z0.
  - apply Z.leb_le in Z0. unfold parse_uint0_opt.
    replace (dec z) with (decN (Z.to_N z)) by (unfold decN; rewrite Z2N.id by lia; reflexivity).
    rewrite (parse_uint_dec (Z.to_N z)) by (unfold maxU64; lia). rewrite Z2N.id by lia. reflexivity.
  - apply Z.leb_gt in Z0. unfold parse_uint0_opt.
    assert (parse_uint0 (dec z) = PSyntax) as U.
    { destruct z as [|p|p]; try lia. unfold dec. cbn [Z.to_int NilZero.string_of_int]. reflexivity. }
    rewrite U. rewrite (parse_int_dec z) by lia. reflexivity.
Qed.
