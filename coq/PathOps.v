(* PathOps.v — path-addressed reads, writes and removals (path.go, getset.go, ucfg.go). *)
From Ucfg Require Import Base ParseInt Consts Field Tree.

Record popts := { p_sep : string; p_maxIdx : Z; p_numKeys : bool; p_escape : bool }.
Definition default_popts : popts :=
  {| p_sep := ""; p_maxIdx := defaultMaxIdx; p_numKeys := false; p_escape := false |}.

Definition opts_path (o : popts) (name : string) : list field :=
  parse_path name (p_sep o) (p_maxIdx o) (p_numKeys o) (p_escape o).
Definition opts_path_idx (o : popts) (name : string) (idx : Z) : list field :=
  parse_path_idx name idx (p_sep o) (p_maxIdx o) (p_numKeys o) (p_escape o).

(** field.GetValue.  [pp] is the dotted path of [elem] (from stored names); the result
    carries the child's path. *)
Definition get_field (f : field) (pp : string) (elem : value) : res (option (string * value)) :=
  match f with
  | FName n =>
    match to_cfg elem with
    | CV d _ => Ok (match dict_get n d with
                    | Some (nm, v) => Some (path_join pp nm, v)
                    | None => None end)
    | CVNot => Err EExpectedObject ""
    | CVDyn => OutOfModel
    end
  | FIdx i =>
    match to_cfg elem with
    | CV _ a =>
      let l := arr_of a in
      if (i <? 0) || (lenZ l <=? i) then Err EMissing (path_of pp (dec i))
      else match nth_opt l (Z.to_nat i) with
           | Some (nm, v) => Ok (Some (path_join pp nm, v))
           | None => Err EMissing (path_of pp (dec i))
           end
    | CVNot => if i =? 0 then Ok (Some (pp, elem)) else Err EExpectedObject ""
    | CVDyn => OutOfModel
    end
  end.

(** cfgPath.GetValue from the config [root] whose own path is [rp]. *)
Fixpoint get_path_go (rp : string) (fs : list field) (pp : string) (cur : value)
  : res (option (string * value)) :=
  match fs with
  | [] => Ok (Some (pp, cur))
  | [f] =>
    match get_field f pp cur with
    | Err _ _ => Err EMissing (path_of pp (field_str f))    (* the full path (fix F69) *)
    | r => r
    end
  | f :: rest =>
    match get_field f pp cur with
    | Ok None => Err EMissing (path_of pp (field_str f))    (* the path walked so far *)
    | Ok (Some (pp', v)) => get_path_go rp rest pp' v
    | Err r p => Err r p
    | Panic => Panic
    | OutOfModel => OutOfModel
    end
  end.

Definition get_path (rp : string) (fs : list field) (root : value) : res (option (string * value)) :=
  get_path_go rp fs rp root.

(** Config.getField: a missing value is an error naming the whole path. *)
Definition get_value (o : popts) (rp : string) (name : string) (idx : Z) (root : value)
  : res (string * value) :=
  let p := opts_path_idx o name idx in
  match get_path rp p root with
  | Ok (Some x) => Ok x
  | Ok None => Err EMissing (path_of rp (path_str p (p_sep o)))
  | Err r s => Err r s
  | Panic => Panic
  | OutOfModel => OutOfModel
  end.

(** cfgPath.Has *)
Fixpoint has_go (fs : list field) (pp : string) (cur : value) : res bool :=
  match fs with
  | [] => Ok true
  | f :: rest =>
    match get_field f pp cur with
    | Err EMissing _ => Ok false
    | Err r p => Err r p
    | Ok None => Ok false
    | Ok (Some (pp', v)) => has_go rest pp' v
    | Panic => Panic
    | OutOfModel => OutOfModel
    end
  end.

Definition has_path (o : popts) (rp : string) (name : string) (idx : Z) (root : value) : res bool :=
  has_go (opts_path_idx o name idx) rp root.

(** field.SetValue: [ov] is the stored name the inserted value keeps when it already has
    a context (an attached *Config given to SetChild); [None] for fresh values. *)
(* [mx]: the maximum index (options.maxIdx): a list grows up to it only; writing below the
   current length is possible whatever the length *)
Definition set_field (mx : Z) (f : field) (pp : string) (elem : value) (ov : option string) (v : value)
  : res value :=
  match elem with
  | VSub d a =>
    match f with
    | FName n => Ok (VSub (dict_set n (match ov with Some s => s | None => n end, v) d) a)
    | FIdx i =>
      if i <? 0 then Err EIndexOutOfRange pp
      else if (lenZ (arr_of a) <=? i) && (mx <? i) then Err EIndexOutOfRange pp
      else Ok (VSub d (arr_set_at a i (match ov with Some s => s | None => dec i end, v)))
    end
  | _ => Err EExpectedObject ""
  end.

(** intermediate nodes built bottom-up from fresh configs *)
Fixpoint build (mx : Z) (fs : list field) (ov : option string) (val : value) : res (option string * value) :=
  match fs with
  | [] => Ok (ov, val)
  | f :: r =>
    x <- build mx r ov val ;;
    n <- set_field mx f "" empty_cfg (fst x) (snd x) ;;
    Ok (None, n)
  end.

(** put a (mutated in place) child back; the stored name is unchanged *)
Definition replace_child (f : field) (node : value) (v' : value) : value :=
  match node with
  | VSub d a =>
    match f with
    | FName n =>
      match dict_get n d with
      | Some (nm, _) => VSub (dict_set n (nm, v') d) a
      | None => node
      end
    | FIdx i =>
      match a with
      | Some l =>
        match nth_opt l (Z.to_nat i) with
        | Some (nm, _) => VSub d (Some (set_nth l (Z.to_nat i) (nm, v')))
        | None => node
        end
      | None => node
      end
    end
  | _ => node
  end.

Fixpoint set_path (mx : Z) (fs : list field) (pp : string) (node : value) (ov : option string) (val : value)
  : res value :=
  match fs with
  | [] => Ok node
  | [f] => set_field mx f pp node ov val
  | f :: rest =>
    let fresh :=
        x <- build mx rest ov val ;; set_field mx f pp node (fst x) (snd x) in
    match get_field f pp node with
    | Err EMissing _ => fresh
    | Err r p => Err r p
    | Ok None => fresh
    | Ok (Some (_, VNil)) => fresh
    | Ok (Some (pp', v)) =>
      v' <- set_path mx rest pp' v ov val ;; Ok (replace_child f node v')
    | Panic => Panic
    | OutOfModel => OutOfModel
    end
  end.

Definition set_value (o : popts) (rp : string) (name : string) (idx : Z) (ov : option string)
           (val : value) (root : value) : res value :=
  set_path (p_maxIdx o) (opts_path_idx o name idx) rp root ov val.

(** cfgPath.Remove *)
Definition remove_field (f : field) (cur : value) : res (bool * value) :=
  match to_cfg cur with
  | CVNot => Err EExpectedObject ""                     (* raiseExpectedObject (fix F29) *)
  | CVDyn => OutOfModel
  | CV d a =>
    match cur with
    | VSub _ _ =>
      match f with
      | FName n => if dict_has n d then Ok (true, VSub (dict_del n d) a) else Ok (false, cur)
      | FIdx i =>
        let l := arr_of a in
        if (i <? 0) || (lenZ l <=? i) then Ok (false, cur)
        else
          (* fields.delAt: later entries move down and take the name of their new index *)
          let l' := del_nth l (Z.to_nat i) in
          Ok (true, VSub d (Some (firstn (Z.to_nat i) l' ++ renumber i (skipn (Z.to_nat i) l'))))
      end
    | _ => Ok (false, cur)      (* a nil: removal from a fresh empty config *)
    end
  end.

Fixpoint remove_go (fs : list field) (pp : string) (cur : value) : res (bool * value) :=
  match fs with
  | [] => Ok (false, cur)
  | [f] => remove_field f cur
  | f :: rest =>
    match get_field f pp cur with
    | Err EMissing _ => Ok (false, cur)
    | Err r p => Err r p
    | Ok None => Ok (false, cur)
    | Ok (Some (pp', v)) =>
      x <- remove_go rest pp' v ;; Ok (fst x, replace_child f cur (snd x))
    | Panic => Panic
    | OutOfModel => OutOfModel
    end
  end.

Definition remove_value (o : popts) (rp : string) (name : string) (idx : Z) (root : value)
  : res (bool * value) :=
  remove_go (opts_path_idx o name idx) rp root.

(** value.Len *)
Definition value_len (v : value) : res Z :=
  match v with
  | VNil => Ok 0
  | VSub _ (Some l) => Ok (lenZ l)
  | VSub _ None => Ok 1
  | VRef _ _ | VSplice _ => OutOfModel
  | _ => Ok 1
  end.

(** Config.CountField: the name is looked up directly, without path parsing *)
Definition count_field (rp : string) (name : string) (root : value) : res Z :=
  match root with
  | VSub d a =>
    if String.eqb name "" then Ok (lenZ (arr_of a) + lenZ d)
    else match dict_get name d with
         | Some (_, v) => value_len v
         | None => Err EMissing (path_of rp name)
         end
  | _ => OutOfModel
  end.

Definition is_dict (root : value) : bool :=
  match root with VSub (_ :: _) _ => true | _ => false end.
Definition is_array (root : value) : bool :=
  match root with VSub _ (Some _) => true | _ => false end.
Definition get_fields (root : value) : list string :=
  match root with VSub d _ => map fst d | _ => [] end.
