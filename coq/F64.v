(* F64.v — IEEE-754 binary64 by pure Z arithmetic (no real numbers, hence no axioms):
   decoding of a 64-bit pattern, exact comparison with integers, truncation, correctly
   rounded conversion from rationals and integers, and the decimal syntax of
   strconv.ParseFloat. *)
From Ucfg Require Import Base ParseInt.

Definition two52 : Z := 4503599627370496.
Definition two53 : Z := 9007199254740992.
Definition two63z : Z := 9223372036854775808.
Definition two64z : Z := 18446744073709551616.
Definition pos_inf_bits : Z := 9218868437227405312.      (* 0x7FF0000000000000 *)
Definition neg_inf_bits : Z := 18442240474082181120.     (* 0xFFF0000000000000 *)
Definition nan_bits : Z := 9221120237041090561.          (* 0x7FF8000000000001, math.NaN() *)
Definition sign_bit : Z := 9223372036854775808.

(** A decoded float: finite [±m·2^e] (m >= 0), infinite, or NaN. *)
Inductive fval := FFin (neg : bool) (m : Z) (e : Z) | FInf (neg : bool) | FNaN.

Definition decode (bits : Z) : fval :=
  let neg := sign_bit <=? bits in
  let b := if neg then bits - sign_bit else bits in
  let ex := b / two52 in
  let frac := b mod two52 in
  if ex =? 2047 then (if frac =? 0 then FInf neg else FNaN)
  else if ex =? 0 then FFin neg frac (-1074)
  else FFin neg (frac + two52) (ex - 1075).

(** exact comparison of a finite float with an integer: sign of (±m·2^e - z) *)
Definition fin_compare_Z (neg : bool) (m e : Z) (z : Z) : comparison :=
  let sm := if neg then - m else m in
  if 0 <=? e then Z.compare (sm * 2 ^ e) z
  else Z.compare sm (z * 2 ^ (- e)).

(** truncation toward zero of a finite float *)
Definition fin_trunc (neg : bool) (m e : Z) : Z :=
  let q := if 0 <=? e then m * 2 ^ e else m / 2 ^ (- e) in
  if neg then - q else q.

Definition is_zero_f (f : fval) : bool :=
  match f with FFin _ m _ => m =? 0 | _ => false end.

(** correctly rounded (nearest, ties to even) binary64 of the positive rational n/d;
    [None] = overflow (>= 2^1024 - 2^970). n > 0, d > 0. *)
Definition round_pos_q (n d : Z) : option Z :=
  let k0 := Z.log2 n - Z.log2 d in
  let ge := if 0 <=? k0 then d * 2 ^ k0 <=? n else d <=? n * 2 ^ (- k0) in
  let k := if ge then k0 else k0 - 1 in            (* floor(log2(n/d)) *)
  let e := Z.max (k - 52) (-1074) in
  let num := if 0 <=? e then n else n * 2 ^ (- e) in
  let den := if 0 <=? e then d * 2 ^ e else d in
  let q := num / den in
  let r := num mod den in
  let up := match Z.compare (2 * r) den with
            | Gt => true
            | Eq => Z.odd q
            | Lt => false
            end in
  let m := if up then q + 1 else q in
  let '(m, e) := if m =? two53 then (two52, e + 1) else (m, e) in
  if 971 <? e then None
  else if m <? two52 then Some m                      (* subnormal (e = -1074) or zero *)
  else Some ((e + 1075) * two52 + (m - two52)).

Definition round_q (neg : bool) (n d : Z) : option Z :=
  if n =? 0 then Some (if neg then sign_bit else 0)
  else match round_pos_q n d with
       | Some b => Some (if neg then b + sign_bit else b)
       | None => None
       end.

(** float64(int64/uint64 value) *)
Definition f64_of_Z (z : Z) : Z :=
  match round_q (z <? 0) (Z.abs z) 1 with Some b => b | None => pos_inf_bits end.

(** * strconv.ParseFloat(s, 64) on its decimal syntax.
    Result: [PFOk bits], [PFSyntax] (not a float: the setting stays a string),
    [PFRange] (out of range: an error too), [PFUnknown] (hex floats: outside the model). *)
Inductive pfres := PFOk (bits : Z) | PFSyntax | PFRange | PFUnknown.

Definition lower_ascii (a : ascii) : ascii :=
  let c := byte_of a in if ((65 <=? c) && (c <=? 90))%N then ch (c + 32) else a.
Fixpoint lower_str (s : string) : string :=
  match s with EmptyString => EmptyString | String a r => String (lower_ascii a) (lower_str r) end.

(* digits with underscores skipped: (value, count of digits, rest) *)
Fixpoint dec_digits (s : string) (acc : Z) (cnt : Z) : Z * Z * string :=
  match s with
  | String a r =>
    if is_dec_digit a then dec_digits r (acc * 10 + Z.of_N (byte_of a - 48)) (cnt + 1)
    else if Ascii.eqb a "_"%char then dec_digits r acc cnt
    else (acc, cnt, s)
  | EmptyString => (acc, cnt, s)
  end.

Definition parse_float_dec (s : string) : pfres :=
  let '(neg, body) :=
      match s with
      | String a r => if Ascii.eqb a "+"%char then (false, r)
                      else if Ascii.eqb a "-"%char then (true, r) else (false, s)
      | EmptyString => (false, s)
      end in
  let lb := lower_str body in
  if String.eqb lb "inf" || String.eqb lb "infinity"
  then PFOk (if neg then neg_inf_bits else pos_inf_bits)
  else if String.eqb (lower_str s) "nan" then PFOk nan_bits
  else
    (* hexadecimal mantissa: outside the model when it has a binary exponent *)
    let is_hex := match lb with
                  | String z (String x _) => Ascii.eqb z "0"%char && Ascii.eqb x "x"%char
                  | _ => false end in
    if is_hex then (if mem_ascii "p"%char lb then PFUnknown else PFSyntax)
    else
      let '(ip, icnt, r1) := dec_digits body 0 0 in
      let '(m, fcnt, sawdot, r2) :=
          match r1 with
          | String a r => if Ascii.eqb a "."%char
                          then let '(m, c, r') := dec_digits r ip 0 in (m, c, true, r')
                          else (ip, 0, false, r1)
          | EmptyString => (ip, 0, false, r1)
          end in
      if (icnt + fcnt =? 0) then PFSyntax
      else
        let expres :=
            match r2 with
            | EmptyString => Some 0
            | String a r =>
              if Ascii.eqb (lower_ascii a) "e"%char then
                let '(eneg, r') :=
                    match r with
                    | String b r'' => if Ascii.eqb b "+"%char then (false, r'')
                                      else if Ascii.eqb b "-"%char then (true, r'') else (false, r)
                    | EmptyString => (false, r)
                    end in
                let '(ev, ecnt, rest) := dec_digits r' 0 0 in
                if (ecnt =? 0) || negb (String.eqb rest "") then None
                else Some (if eneg then - ev else ev)
              else None
            end in
        match expres with
        | None => PFSyntax
        | Some ex =>
          if has_underscore s && negb (underscore_ok s) then PFSyntax
          else
            let e10 := ex - fcnt in
            if m =? 0 then PFOk (if neg then sign_bit else 0)
            else
              let digits := Z.log2 m / 3 + 1 in       (* upper bound on decimal digits *)
              if 400 <? e10 then PFRange
              else if e10 + digits <? -400 then PFOk (if neg then sign_bit else 0)
              else
                let r := if 0 <=? e10 then round_q neg (m * 10 ^ e10) 1
                         else round_q neg m (10 ^ (- e10)) in
                match r with Some b => PFOk b | None => PFRange end
        end.
