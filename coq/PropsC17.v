(* PropsC17.v — C17: parse.Value accepts every JSON value and reads it back faithfully.
   Statements only; proofs are in ProofsParse.v.

   PARTIAL.  Proved: the round trip for EVERY document of a fragment, at any nesting depth and
   width - null, true, false, every integer from -2^63 to 2^64-1 in decimal (read back as the
   same integer: unsigned when it is not negative, as strconv.ParseUint is tried first), strings
   over ALL printable ASCII characters, the quote and the backslash written with their escapes
   (c17_json_escaped_roundtrip_partial; and the plain spelling of texts that need none), arrays,
   objects with such keys, printed compactly - under every configuration with arrays, objects and double
   quotes enabled (the data read back is what parse.Value returns: an empty array or object
   reads as nil, objects are sorted, a repeated key keeps its last value); the decimal text of
   every int64 / uint64 reads back through the ParseInt / ParseUint models
   (c17_decimal_text_reads_back); each disabled syntax is taken literally; the rejected flag
   combination; single-quoted strings of ANY content.  NOT proved: floats, the other escape
   sequences (\n, \u.... and the like), non-ASCII text and free white-space layout; they are decided by the correspondence run,
   where the model parser and the implementation are compared on every short text over the
   syntax alphabet and on random JSON documents, and the model's result is compared with the
   data the document was printed from. *)
From Ucfg Require Import Base ParseInt Consts Field Tree F64 ParseValue ProofsParse ProofsDec ProofsJson ProofsJsonEsc.

(* parse.Value(print v) = data v, for every document v of the fragment whose texts and keys are
   printable ASCII - quotes and backslashes included, spelled with their escapes ([esc]) *)
Theorem c17_json_escaped_roundtrip_partial : forall cfg v,
  c_array cfg = true -> c_dq cfg = true -> c_object cfg = true ->
  wf pstr v = true ->
  parse_value_with_config cfg (print esc v) = POk (data v).
Proof. exact json_escaped_roundtrip. Qed.
Print Assumptions c17_json_escaped_roundtrip_partial.

(* the string scanner alone: every printable-ASCII text is read back from its escaped spelling,
   whatever follows the closing quote *)
Theorem c17_escaped_string_reads_back : forall body rest,
  pstr body = true ->
  parse_dquote (String """"%char (esc body +++ String """"%char rest)) = POk (body, rest).
Proof. exact parse_dquote_escaped. Qed.
Print Assumptions c17_escaped_string_reads_back.

Theorem c17_json_escaped_example :
  let v := JObj [("k""ey\", JArr [JStr "say ""hi"" \o/"; JStr "\\"; JInt (-7)]); ("a", JStr """")] in
  wf pstr v = true /\
  print esc v = "{""k\""ey\\"":[""say \""hi\"" \\o/"",""\\\\"",-7],""a"":""\""""}" /\
  parse_value_with_config DefaultConfig (print esc v) = POk (data v).
Proof. exact json_escaped_example. Qed.
Print Assumptions c17_json_escaped_example.

(* the same for the plain spelling of texts that need no escapes *)
Theorem c17_json_fragment_roundtrip_partial : forall cfg v,
  c_array cfg = true -> c_dq cfg = true -> c_object cfg = true ->
  wf safe_str v = true ->
  parse_value_with_config cfg (print (fun s => s) v) = POk (data v).
Proof. exact json_fragment_roundtrip_plain. Qed.
Print Assumptions c17_json_fragment_roundtrip_partial.

(* ... and as a member of any larger text: followed by nothing or by a stop character (for any
   spelling [sp] of the texts that the string scanner reads back) *)
Theorem c17_json_fragment_value_anywhere_partial : forall sp okstr,
  (forall body rest, okstr body = true ->
     parse_dquote (String """"%char (sp body +++ String """"%char rest)) = POk (body, rest)) ->
  forall cfg, c_array cfg = true -> c_object cfg = true -> c_dq cfg = true ->
  forall v, wf okstr v = true -> forall f, (jsize v < f)%nat ->
  forall stop rest, stop_ok stop -> ok_rest stop rest ->
  parse_value cfg f (print sp v +++ rest) stop = POk (data v, rest).
Proof. exact parse_print. Qed.
Print Assumptions c17_json_fragment_value_anywhere_partial.

Theorem c17_decimal_text_reads_back : forall z,
  (- 9223372036854775808 <= z <= 18446744073709551615)%Z ->
  primitive_of (dec z) = POk (if (0 <=? z)%Z then PUint z else PInt z).
Proof. exact primitive_of_dec. Qed.
Print Assumptions c17_decimal_text_reads_back.

Theorem c17_json_fragment_example :
  let v := JObj [("b", JArr [JNull; JBool true; JArr []; JObj [("x y", JStr "a{b}[c],:'d")]; JInt 18446744073709551615; JInt (-9223372036854775808)]);
                 ("a", JStr ""); ("n", JInt 0)] in
  wf safe_str v = true /\
  print (fun s => s) v = "{""b"":[null,true,[],{""x y"":""a{b}[c],:'d""},18446744073709551615,-9223372036854775808],""a"":"""",""n"":0}" /\
  parse_value_with_config DefaultConfig (print (fun s => s) v) = POk (data v) /\
  data v = PObj [("a", PStr ""); ("b", PArr [PNil; PBool true; PNil; PObj [("x y", PStr "a{b}[c],:'d")]; PUint 18446744073709551615; PInt (-9223372036854775808)]); ("n", PUint 0)].
Proof. exact json_fragment_example. Qed.
Print Assumptions c17_json_fragment_example.

Theorem c17_array_disabled_is_literal_partial : forall cfg f r stop,
  c_array cfg = false ->
  parse_value cfg (S f) (String "["%char r) stop = parse_primitive (String "["%char r) stop.
Proof. exact array_disabled_is_literal. Qed.
Print Assumptions c17_array_disabled_is_literal_partial.

Theorem c17_object_disabled_is_literal_partial : forall cfg f r stop,
  c_object cfg = false ->
  parse_value cfg (S f) (String "{"%char r) stop = parse_primitive (String "{"%char r) stop.
Proof. exact object_disabled_is_literal. Qed.
Print Assumptions c17_object_disabled_is_literal_partial.

Theorem c17_dquote_disabled_is_literal_partial : forall cfg f r stop,
  c_dq cfg = false ->
  parse_value cfg (S f) (String """"%char r) stop = parse_primitive (String """"%char r) stop.
Proof. exact dquote_disabled_is_literal. Qed.
Print Assumptions c17_dquote_disabled_is_literal_partial.

Theorem c17_squote_disabled_is_literal_partial : forall cfg f r stop,
  c_sq cfg = false ->
  parse_value cfg (S f) (String "'"%char r) stop = parse_primitive (String "'"%char r) stop.
Proof. exact squote_disabled_is_literal. Qed.
Print Assumptions c17_squote_disabled_is_literal_partial.

Theorem c17_invalid_config_rejected_partial : forall cfg content,
  c_array cfg = false -> c_object cfg = true -> parse_value_with_config cfg content = PErr PECfg.
Proof. exact invalid_config_rejected. Qed.
Print Assumptions c17_invalid_config_rejected_partial.

(* every string without a single quote, written between single quotes, is read back verbatim
   (no escape processing), followed by whatever text comes next *)
Theorem c17_single_quoted_string_roundtrip_partial : forall cfg f body rest stop,
  c_sq cfg = true -> mem_ascii "'"%char body = false ->
  parse_value cfg (S f) (String "'"%char (body +++ String "'"%char rest)) stop = POk (PStr body, rest).
Proof. exact squote_value_roundtrip. Qed.
Print Assumptions c17_single_quoted_string_roundtrip_partial.

(* non-vacuity / the documented behaviours on concrete documents *)
Theorem c17_examples :
  parse_value_with_config DefaultConfig "{""a"": [1, -2, 3.5, ""x\ty"", null, true], 'b': {}}"
  = POk (PObj [("a", PArr [PUint 1; PInt (-2); PFloat 4615063718147915776; PStr ("x" +++ String (ch 9) "y"); PNil; PBool true]); ("b", PNil)])
  /\ parse_value_with_config DefaultConfig "a,b" = POk (PArr [PStr "a"; PStr "b"])
  /\ parse_value_with_config {| c_array := true; c_object := true; c_dq := true; c_sq := true; c_nocomma := true |} "a,b"
     = POk (PStr "a,b")
  /\ parse_value_with_config NoopConfig "[1, 2]" = POk (PStr "[1, 2]").
Proof. exact parse_examples. Qed.
Print Assumptions c17_examples.
