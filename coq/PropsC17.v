(* PropsC17.v — C17: parse.Value accepts every JSON value and reads it back faithfully. *)
From Ucfg Require Import Base ParseInt Consts Field Tree F64 ParseValue.
