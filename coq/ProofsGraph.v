(* ProofsGraph.v — C10: a deep copy consists of new objects only, and the merged destination
   is made of its own old objects and new ones: it shares nothing with the source. *)
From Ucfg Require Import Base ParseInt Consts Field Tree PathOps Merge AGraph ProofsKeys.
From Coq Require Import Lia.
Local Open Scope N_scope.

Lemma label_sub n p d a :
  label n p (VSub d a) =
  let '(n1, ds) := label_dict n (n + 2) d in
  let '(n2, ar) := match a with None => (n1, []) | Some l => label_arr n n1 l end in
  (n2, INode n (n + 1) p ds ar).
Proof. reflexivity. Qed.

(* every object of a copy made at counter n is numbered in [n, n'), n' the counter afterwards *)
Definition in_range (n n' : N) (l : list N) : Prop := forall x, In x l -> n <= x < n'.

Lemma label_range : forall v n p,
  n < fst (label n p v) /\ in_range n (fst (label n p v)) (addrs (snd (label n p v))).
Proof.
  induction v as [|b|z|z|z|s|pth sp|e|d a Hd Ha] using value_ind'; intros n p;
    try (simpl; split; [lia|intros x [E|[]]; subst; lia]).
  rewrite label_sub.
  (* the dictionary entries *)
  assert (forall l m, Forall (fun e : string * (string * value) => forall n p,
                         n < fst (label n p (snd (snd e))) /\
                         in_range n (fst (label n p (snd (snd e)))) (addrs (snd (label n p (snd (snd e)))))) l ->
                      m <= fst (label_dict n m l) /\ in_range m (fst (label_dict n m l)) (addrs_d (snd (label_dict n m l)))) as GD.
  { induction l as [|[k [nm x]] r IH]; intros m F.
    - simpl. split; [lia|intros y []].
    - inversion F as [|? ? Hx Fr]; subst. simpl in Hx. cbn [label_dict].
      destruct (Hx m n) as [L1 R1]. destruct (label m n x) as [m1 t] eqn:E1. simpl in L1, R1.
      destruct (IH m1 Fr) as [L2 R2]. destruct (label_dict n m1 r) as [m2 ts] eqn:E2. simpl in L2, R2. simpl.
      split; [lia|]. intros y Hy. apply in_app_or in Hy. destruct Hy as [Hy|Hy].
      + specialize (R1 y Hy). lia.
      + specialize (R2 y Hy). lia. }
  assert (forall l m, Forall (fun e : string * value => forall n p,
                         n < fst (label n p (snd e)) /\
                         in_range n (fst (label n p (snd e))) (addrs (snd (label n p (snd e))))) l ->
                      m <= fst (label_arr n m l) /\ in_range m (fst (label_arr n m l)) (addrs_a (snd (label_arr n m l)))) as GA.
  { induction l as [|[nm x] r IH]; intros m F.
    - simpl. split; [lia|intros y []].
    - inversion F as [|? ? Hx Fr]; subst. simpl in Hx. cbn [label_arr].
      destruct (Hx m n) as [L1 R1]. destruct (label m n x) as [m1 t] eqn:E1. simpl in L1, R1.
      destruct (IH m1 Fr) as [L2 R2]. destruct (label_arr n m1 r) as [m2 ts] eqn:E2. simpl in L2, R2. simpl.
      split; [lia|]. intros y Hy. apply in_app_or in Hy. destruct Hy as [Hy|Hy].
      + specialize (R1 y Hy). lia.
      + specialize (R2 y Hy). lia. }
  destruct (GD d (n + 2) Hd) as [L1 R1]. destruct (label_dict n (n + 2) d) as [n1 ds] eqn:E1. simpl in L1, R1.
  destruct a as [l|].
  - simpl in Ha. destruct (GA l n1 Ha) as [L2 R2]. destruct (label_arr n n1 l) as [n2 ar] eqn:E2. simpl in L2, R2.
    simpl. split; [lia|]. intros y [Hy|[Hy|Hy]]; try lia.
    fold (addrs_d ds) in Hy. fold (addrs_a ar) in Hy. apply in_app_or in Hy. destruct Hy as [Hy|Hy].
    + specialize (R1 y Hy). lia.
    + specialize (R2 y Hy). lia.
  - simpl. split; [lia|]. intros y [Hy|[Hy|Hy]]; try lia.
    fold (addrs_d ds) in Hy. rewrite app_nil_r in Hy. specialize (R1 y Hy). lia.
Qed.

(* a copy shares no object with anything that existed before *)
Theorem copy_is_fresh v n p old :
  (forall x, In x old -> x < n) -> forall x, In x (addrs (snd (label n p v))) -> ~ In x old.
Proof.
  intros Hold x Hx Hin. destruct (label_range v n p) as [_ R]. specialize (R x Hx). specialize (Hold x Hin). lia.
Qed.

(** * the merged destination: old objects of the destination, or new ones *)
Definition old_or_new (n : N) (old : list N) (l : list N) : Prop := forall x, In x l -> In x old \/ n <= x.

Lemma lookup_ids_addrs k d t : lookup_ids k d = Some t -> forall x, In x (addrs t) -> In x (addrs_d d).
Proof.
  induction d as [|[k2 y] r IH]; simpl; [discriminate|].
  destruct (String.eqb k k2).
  - intros E x Hx. inversion E; subst. apply in_or_app. left. exact Hx.
  - intros E x Hx. apply in_or_app. right. eapply IH; eauto.
Qed.

Lemma merge_dict_ids_addrs id skeys replace old : forall dm n,
  n <= fst (merge_dict_ids n id skeys replace old dm) /\
  old_or_new n (addrs_d old) (addrs_d (snd (merge_dict_ids n id skeys replace old dm))).
Proof.
  induction dm as [|[k [nm x]] r IH]; intros n.
  - simpl. split; [lia|intros y []].
  - cbn [merge_dict_ids].
    destruct (if replace then None else if existsb (String.eqb k) skeys then None else lookup_ids k old) as [t|] eqn:K.
    + destruct (IH n) as [L R]. destruct (merge_dict_ids n id skeys replace old r) as [n' ts] eqn:E. simpl in *.
      split; [lia|]. intros y Hy. apply in_app_or in Hy. destruct Hy as [Hy|Hy].
      * left. destruct replace; [discriminate|]. destruct (existsb (String.eqb k) skeys); [discriminate|].
        eapply lookup_ids_addrs; eauto.
      * apply R; exact Hy.
    + destruct (label_range x n id) as [L1 R1]. destruct (label n id x) as [n1 t] eqn:E1. simpl in L1, R1.
      destruct (IH n1) as [L2 R2]. destruct (merge_dict_ids n1 id skeys replace old r) as [n2 ts] eqn:E2. simpl in *.
      split; [lia|]. intros y Hy. apply in_app_or in Hy. destruct Hy as [Hy|Hy].
      * right. specialize (R1 y Hy). lia.
      * destruct (R2 y Hy) as [H|H]; [left; exact H|right; lia].
Qed.

Lemma nth_error_addrs (old : list ids) i t : nth_error old i = Some t -> forall x, In x (addrs t) -> In x (addrs_a old).
Proof.
  revert i. induction old as [|y r IH]; intros [|i]; simpl; try discriminate.
  - intros E x Hx. inversion E; subst. apply in_or_app. left. exact Hx.
  - intros E x Hx. apply in_or_app. right. eapply IH; eauto.
Qed.

Lemma merge_arr_ids_addrs id keep old : forall am n i,
  n <= fst (merge_arr_ids n id keep i old am) /\
  old_or_new n (addrs_a old) (addrs_a (snd (merge_arr_ids n id keep i old am))).
Proof.
  induction am as [|[nm x] r IH]; intros n i.
  - simpl. split; [lia|intros y []].
  - cbn [merge_arr_ids].
    destruct (if keep i then nth_error old i else None) as [t|] eqn:K.
    + destruct (IH n (S i)) as [L R]. destruct (merge_arr_ids n id keep (S i) old r) as [n' ts] eqn:E. simpl in *.
      split; [lia|]. intros y Hy. apply in_app_or in Hy. destruct Hy as [Hy|Hy].
      * left. destruct (keep i); [|discriminate]. eapply nth_error_addrs; eauto.
      * apply R; exact Hy.
    + destruct (label_range x n id) as [L1 R1]. destruct (label n id x) as [n1 t] eqn:E1. simpl in L1, R1.
      destruct (IH n1 (S i)) as [L2 R2]. destruct (merge_arr_ids n1 id keep (S i) old r) as [n2 ts] eqn:E2. simpl in *.
      split; [lia|]. intros y Hy. apply in_app_or in Hy. destruct Hy as [Hy|Hy].
      * right. specialize (R1 y Hy). lia.
      * destruct (R2 y Hy) as [H|H]; [left; exact H|right; lia].
Qed.

Theorem merge_ids_old_or_new n h dst merged skeys nsrc :
  old_or_new n (addrs dst) (addrs (snd (merge_ids n h dst merged skeys nsrc))).
Proof.
  unfold merge_ids. destruct dst as [i p|id fid p d a]; [intros x Hx; left; exact Hx|].
  destruct merged as [| | | | | | | |dm am]; try (intros x Hx; left; exact Hx).
  set (replace := (h =? hReplace) && negb (Nat.eqb (List.length skeys) 0)).
  destruct (merge_dict_ids_addrs id skeys replace d dm n) as [L1 R1].
  destruct (merge_dict_ids n id skeys replace d dm) as [n1 d'] eqn:E1. simpl in L1, R1.
  destruct (merge_arr_ids_addrs id (arr_keep h (List.length a) nsrc) a (arr_of am) n1 O) as [L2 R2].
  destruct (merge_arr_ids n1 id (arr_keep h (List.length a) nsrc) O a (arr_of am)) as [n2 a'] eqn:E2. simpl in L2, R2.
  simpl. intros x [Hx|[Hx|Hx]]; [left; left; exact Hx|left; right; left; exact Hx|].
  fold (addrs_d d') in Hx. fold (addrs_a a') in Hx. apply in_app_or in Hx. destruct Hx as [Hx|Hx].
  - destruct (R1 x Hx) as [H|H]; [|right; exact H]. left. right. right.
    fold (addrs_d d). fold (addrs_a a). apply in_or_app. left. exact H.
  - destruct (R2 x Hx) as [H|H]; [|right; lia]. left. right. right.
    fold (addrs_d d). fold (addrs_a a). apply in_or_app. right. exact H.
Qed.

(* the destination after the merge shares no object with the source *)
Theorem merge_shares_nothing n h dst merged skeys nsrc (src : list N) :
  (forall x, In x src -> x < n) ->
  (forall x, In x (addrs dst) -> ~ In x src) ->
  forall x, In x (addrs (snd (merge_ids n h dst merged skeys nsrc))) -> ~ In x src.
Proof.
  intros Hn Hd x Hx Hs. destruct (merge_ids_old_or_new n h dst merged skeys nsrc x Hx) as [H|H].
  - exact (Hd x H Hs).
  - specialize (Hn x Hs). lia.
Qed.

(* the destination's own root objects survive the merge *)
Theorem merge_keeps_root n h id fid p d a merged skeys nsrc :
  id_of (snd (merge_ids n h (INode id fid p d a) merged skeys nsrc)) = id.
Proof.
  unfold merge_ids. destruct merged; try reflexivity.
  destruct (merge_dict_ids _ _ _ _ _ _) as [n1 d']. destruct (merge_arr_ids _ _ _ _ _ _) as [n2 a']. reflexivity.
Qed.

(* non-vacuity: an entry the source does not mention keeps its objects, a mentioned one is new *)
Example merge_ids_example :
  snd (merge_ids 100 hDefault
         (INode 1 2 0 [("a", ILeaf 3 1); ("b", INode 4 5 1 [("c", ILeaf 6 4)] [])] [])
         (VSub [("a", ("a", VInt 1)); ("b", ("b", VSub [("c", ("c", VInt 2)); ("d", ("d", VInt 3))] None))] None)
         ["b"] None)
  = INode 1 2 0 [("a", ILeaf 3 1); ("b", INode 100 101 1 [("c", ILeaf 102 100); ("d", ILeaf 103 100)] [])] [].
Proof. vm_compute. reflexivity. Qed.
