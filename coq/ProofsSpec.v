(* ProofsSpec.v — C08: what the specification evaluator (SpecEval.v) says by construction, stated
   as theorems: a name that is on the stack is cyclic at that point (unless a resolver knows it),
   a variable used twice in one string is evaluated twice under the same stack (no cycle), the
   steps of a path walk and the operands of an operator see the stack they were given, and the
   fuel is not part of the answer. *)
From Ucfg Require Import Base ParseInt Consts Field Tree PathOps Merge OTree F64 ParseValue VarParse Normalize Flags VarEval SpecEval ProofsVarEval ProofsFuel.
From Coq Require Import Lia.
Local Open Scope nat_scope.

Section Generic.
  Variable o : eopts.
  Variable dv : value -> stack -> string -> value -> SR loc.

  (** a reference that is being evaluated is cyclic where it is met again *)
  Lemma spec_reentry_is_cyclic root st p sep :
    on_stack (path_str p sep) st = true -> resolve_env o (path_str p sep) = None ->
    ref_eval_s o dv root st p sep = Err ECyclic "" /\
    dyn_step_s o dv root st "" (VRef p sep) = Err ECyclic "".
  Proof.
    intros H R. unfold ref_eval_s, dyn_step_s, resolve_ref_s. rewrite H, R. split; reflexivity.
  Qed.

  (* ... unless a resolver knows the name: its value is taken, and the result is flagged *)
  Lemma spec_reentry_resolver root st p sep s pc :
    on_stack (path_str p sep) st = true -> resolve_env o (path_str p sep) = Some (s, pc) -> s <> ""%string ->
    ref_eval_s o dv root st p sep = Ok (s, true).
  Proof.
    intros H R N. unfold ref_eval_s, resolve_ref_s. rewrite H, R.
    destruct (String.eqb s "") eqn:E; [apply String.eqb_eq in E; contradiction|reflexivity].
  Qed.

  (** a variable used twice in one string: both uses are evaluated under the stack of the string *)
  Lemma spec_repeated_use x root st :
    exp_s o dv (ESplice [x; x]) root st
    = match exp_s o dv x root st with
      | Ok (s, m) => Ok ((s +++ s)%string, m || m)
      | Err e p => Err e p
      | Panic => Panic
      | OutOfModel => OutOfModel
      end.
  Proof.
    cbn [exp_s]. destruct (exp_s o dv x root st) as [[s m]|e p| |]; cbn [bind fst snd taint orb andb]; reflexivity.
  Qed.

  (* the operands of the default operator see the stack of the operator *)
  Lemma spec_default_taken l r sep root st path m1 e pe :
    exp_s o dv l root st = Ok (path, m1) -> path <> ""%string ->
    ref_eval_s o dv root st (parse_path path sep (p_maxIdx (eo_p o)) (p_numKeys (eo_p o)) (p_escape (eo_p o))) sep = Err e pe ->
    exp_s o dv (EDefault l r sep) root st
    = taint (m1 || cyc_err e pe) (exp_s o dv r root st).
  Proof.
    intros Hl Hn Hr. cbn [exp_s]. rewrite Hl.
    destruct (String.eqb path "") eqn:E; [apply String.eqb_eq in E; contradiction|].
    rewrite Hr. reflexivity.
  Qed.
  (* an error that was made out of an absorbed cyclic error (the error operator, a path walk)
     carries the mark: a default that absorbs it yields a flagged value *)
  Lemma spec_default_absorbs_marked l r sep root st path m1 e pe v m :
    exp_s o dv l root st = Ok (path, m1) -> path <> ""%string ->
    ref_eval_s o dv root st (parse_path path sep (p_maxIdx (eo_p o)) (p_numKeys (eo_p o)) (p_escape (eo_p o))) sep = Err e pe ->
    cyc_err e pe = true ->
    exp_s o dv r root st = Ok (v, m) ->
    exp_s o dv (EDefault l r sep) root st = Ok (v, true).
  Proof.
    intros Hl Hn Hr Hc Hd. rewrite (spec_default_taken l r sep root st path m1 e pe Hl Hn Hr).
    rewrite Hc, Hd. cbn [taint]. rewrite Bool.orb_true_r. reflexivity.
  Qed.

  (* the error operator over a re-entered reference: the failure it reports carries the mark *)
  Lemma spec_error_operator_keeps_mark l r sep root st path m1 msg m3 :
    exp_s o dv l root st = Ok (path, m1) -> path <> ""%string ->
    ref_eval_s o dv root st (parse_path path sep (p_maxIdx (eo_p o)) (p_numKeys (eo_p o)) (p_escape (eo_p o))) sep = Err ECyclic "" ->
    exp_s o dv r root st = Ok (msg, m3) ->
    exists pe, exp_s o dv (EErr l r sep) root st = Err EOther pe /\ err_marked pe = true.
  Proof.
    intros Hl Hn Hr Hm. cbn [exp_s]. rewrite Hl.
    destruct (String.eqb path "") eqn:E; [apply String.eqb_eq in E; contradiction|].
    rewrite Hr, Hm. cbn [cyc_err is_cyc orb taint bind snd].
    rewrite Bool.orb_true_r. cbn [orb taint]. eexists. split; [reflexivity|]. vm_compute. reflexivity.
  Qed.
End Generic.

(** * the fuel of the specification evaluator is not part of its answer *)
Section Mono.
  Variable o : eopts.
  Variables dv dv' : value -> stack -> string -> value -> SR loc.
  Hypothesis Hdv : forall root st dp d, ext (dv root st dp d) (dv' root st dp d).

  Lemma ext_taint {A} (m : bool) (a b : SR A) : ext a b -> ext (taint m a) (taint m b).
  Proof.
    intros H. destruct a as [[x m']|e p| |].
    - rewrite (H ltac:(discriminate)). apply ext_refl.
    - rewrite (H ltac:(discriminate)). apply ext_refl.
    - rewrite (H ltac:(discriminate)). apply ext_refl.
    - apply ext_oom.
  Qed.

  Lemma force1_ext st v : ext (force1 dv st v) (force1 dv' st v).
  Proof. unfold force1. destruct (l_val v); try apply ext_refl; apply Hdv. Qed.

  Lemma to_cfg_s_ext st v : ext (to_cfg_s dv st v) (to_cfg_s dv' st v).
  Proof.
    unfold to_cfg_s. pose proof (force1_ext st v) as F.
    destruct (force1 dv st v) as [[w m]|e pe| |];
      [rewrite (F ltac:(discriminate)); apply ext_refl|rewrite (F ltac:(discriminate)); apply ext_refl
      |rewrite (F ltac:(discriminate)); apply ext_refl|apply ext_oom].
  Qed.

  Lemma get_field_s_ext fl st elem : ext (get_field_s dv fl st elem) (get_field_s dv' fl st elem).
  Proof. unfold get_field_s. apply ext_bind; [apply to_cfg_s_ext|]. intro x. apply ext_refl. Qed.

  Lemma get_path_s_ext : forall fs st cur, ext (get_path_s dv fs st cur) (get_path_s dv' fs st cur).
  Proof.
    induction fs as [|fl rest IH]; intros st cur; [apply ext_refl|].
    destruct rest as [|f2 rest'].
    - cbn [get_path_s]. apply ext_bind; [apply get_field_s_ext|]. intro x. apply ext_refl.
    - change (get_path_s dv (fl :: f2 :: rest') st cur)
        with (x <- get_field_s dv fl st cur ;;
              match fst x with
              | Ok (Some nxt) => y <- get_path_s dv (f2 :: rest') st nxt ;; Ok (fst y, snd x || snd y)
              | Ok None => Ok (Err EMissing "", snd x)
              | r => Ok (r, snd x)
              end).
      change (get_path_s dv' (fl :: f2 :: rest') st cur)
        with (x <- get_field_s dv' fl st cur ;;
              match fst x with
              | Ok (Some nxt) => y <- get_path_s dv' (f2 :: rest') st nxt ;; Ok (fst y, snd x || snd y)
              | Ok None => Ok (Err EMissing "", snd x)
              | r => Ok (r, snd x)
              end).
      apply ext_bind; [apply get_field_s_ext|]. intro x.
      destruct (fst x) as [[nxt|]|e pe| |]; try apply ext_refl.
      apply ext_bind; [apply IH|]. intro y. apply ext_refl.
  Qed.

  Definition extq (x x' : rres * bool) : Prop := fst x <> RStop OutOfModel -> x' = x.

  Lemma try_roots_s_ext p : forall roots st last m,
    extq (try_roots_s dv p roots st last m) (try_roots_s dv' p roots st last m).
  Proof.
    induction roots as [|rt more IH]; intros st last m; [intro; reflexivity|].
    cbn [try_roots_s].
    pose proof (get_path_s_ext p st {| l_root := rt; l_path := ""; l_val := rt |}) as G.
    destruct (get_path_s dv p st {| l_root := rt; l_path := ""; l_val := rt |}) as [[r m1]|e pe| |].
    - rewrite (G ltac:(discriminate)).
      destruct r as [[v|]|e pe| |]; try (intro; reflexivity); try apply IH.
      destruct e; apply IH.
    - rewrite (G ltac:(discriminate)). intro; reflexivity.
    - rewrite (G ltac:(discriminate)). intro; reflexivity.
    - intro H. exfalso. apply H. reflexivity.
  Qed.

  Lemma resolve_ref_s_ext root st p sep :
    extq (resolve_ref_s o dv root st p sep) (resolve_ref_s o dv' root st p sep).
  Proof.
    unfold resolve_ref_s. destruct (on_stack (path_str p sep) st); [intro; reflexivity|apply try_roots_s_ext].
  Qed.

  Lemma to_string_s_ext st v : ext (to_string_s o dv st v) (to_string_s o dv' st v).
  Proof. unfold to_string_s. apply ext_bind; [apply force1_ext|]. intro w. apply ext_refl. Qed.

  Lemma ref_eval_s_ext root st p sep : ext (ref_eval_s o dv root st p sep) (ref_eval_s o dv' root st p sep).
  Proof.
    unfold ref_eval_s. pose proof (resolve_ref_s_ext root st p sep) as X.
    destruct (resolve_ref_s o dv root st p sep) as [r m].
    destruct r as [v| | | |e pe|r0]; try (rewrite (X ltac:(discriminate)); apply ext_refl).
    - rewrite (X ltac:(discriminate)). apply ext_taint. apply to_string_s_ext.
    - destruct r0; try (rewrite (X ltac:(discriminate)); apply ext_refl). apply ext_oom.
  Qed.

  Lemma ref_set_s_ext root st p sep : ext (ref_set_s o dv root st p sep) (ref_set_s o dv' root st p sep).
  Proof.
    unfold ref_set_s. pose proof (resolve_ref_s_ext root st p sep) as X.
    destruct (resolve_ref_s o dv root st p sep) as [r m].
    destruct r as [v| | | |e pe|r0]; try (rewrite (X ltac:(discriminate)); apply ext_refl).
    destruct r0; try (rewrite (X ltac:(discriminate)); apply ext_refl). apply ext_oom.
  Qed.

  (* a match on an evaluation result whose branches are extended pointwise *)
  Lemma ext_handle {A B} (r r' : res A) (k k' : A -> res B) (h h' : ereason -> string -> res B) :
    ext r r' -> (forall x, ext (k x) (k' x)) -> (forall e p, ext (h e p) (h' e p)) ->
    ext (match r with Ok x => k x | Err e p => h e p | Panic => Panic | OutOfModel => OutOfModel end)
        (match r' with Ok x => k' x | Err e p => h' e p | Panic => Panic | OutOfModel => OutOfModel end).
  Proof.
    intros H K Hh. destruct r as [x|e p| |].
    - rewrite (H ltac:(discriminate)). apply K.
    - rewrite (H ltac:(discriminate)). apply Hh.
    - rewrite (H ltac:(discriminate)). apply ext_refl.
    - apply ext_oom.
  Qed.

  Definition exp_s_ext_at (e : vexp) : Prop :=
    forall root st, ext (exp_s o dv e root st) (exp_s o dv' e root st).

  Lemma exp_s_ext : forall e, exp_s_ext_at e.
  Proof.
    apply vexp_induction; unfold exp_s_ext_at.
    - intros s root st. apply ext_refl.
    - intros p sep root st. cbn [exp_s]. apply ref_eval_s_ext.
    - intros ps F root st. cbn [exp_s]. generalize false as m. generalize ""%string as acc.
      induction F as [|x r Hx Hr IH]; intros acc m; [apply ext_refl|].
      apply ext_bind; [apply ext_taint; apply Hx|]. intro y. apply IH.
    - intros e sep IH root st. cbn [exp_s]. apply ext_bind; [apply IH|]. intro y.
      apply ext_taint. apply ref_eval_s_ext.
    - intros l r sep IHl IHr root st. cbn [exp_s].
      assert (forall m, ext (taint m (exp_s o dv r root st)) (taint m (exp_s o dv' r root st))) as D
          by (intro m; apply ext_taint; apply IHr).
      apply ext_handle; [apply IHl| |intros e p; apply D].
      intros [path m1]. destruct (String.eqb path ""); [apply D|].
      apply ext_handle; [apply ref_eval_s_ext| |intros e p; apply D].
      intros [v m2]. destruct (String.eqb v ""); [apply D|apply ext_refl].
    - intros l r sep IHl IHr root st. cbn [exp_s].
      apply ext_handle; [apply IHl| |intros e p; apply ext_refl].
      intros [path m1]. destruct (String.eqb path ""); [apply ext_refl|].
      apply ext_handle; [apply ref_set_s_ext| |intros e p; apply ext_refl].
      intros [[|] m2]; [|apply ext_refl].
      apply ext_taint. apply IHr.
    - intros l r sep IHl IHr root st. cbn [exp_s].
      assert (forall m, ext (y <- taint m (exp_s o dv r root st) ;; taint (snd y) (@Err (string * bool) EOther "!raw"))
                  (y <- taint m (exp_s o dv' r root st) ;; taint (snd y) (@Err (string * bool) EOther "!raw"))) as Fl
          by (intro m; apply ext_bind; [apply ext_taint; apply IHr|intro; apply ext_refl]).
      apply ext_handle; [apply IHl| |intros e p; apply Fl].
      intros [path m1]. destruct (String.eqb path ""); [apply Fl|].
      apply ext_handle; [apply ref_eval_s_ext| |intros e p; apply Fl].
      intros [v m2]. destruct (String.eqb v ""); [apply Fl|apply ext_refl].
  Qed.

  Lemma dyn_step_s_ext root st dp d : ext (dyn_step_s o dv root st dp d) (dyn_step_s o dv' root st dp d).
  Proof.
    destruct d; try apply ext_refl.
    - unfold dyn_step_s. pose proof (resolve_ref_s_ext root st p sep) as X.
      destruct (resolve_ref_s o dv root st p sep) as [r m].
      destruct r as [v| | | |e pe|r0]; try (rewrite (X ltac:(discriminate)); apply ext_refl).
      + rewrite (X ltac:(discriminate)). apply ext_taint. apply force1_ext.
      + destruct r0; try (rewrite (X ltac:(discriminate)); apply ext_refl). apply ext_oom.
    - unfold dyn_step_s. apply ext_bind; [apply exp_s_ext|]. intro x. apply ext_refl.
  Qed.
End Mono.

Theorem dyn_s_fuel o : forall f f', f <= f' ->
  forall root st dp d, ext (dyn_s o f root st dp d) (dyn_s o f' root st dp d).
Proof.
  induction f as [|f IH]; intros f' L root st dp d; [apply ext_oom|].
  destruct f' as [|f']; [lia|]. cbn [dyn_s].
  apply dyn_step_s_ext. intros. apply IH. lia.
Qed.

(* a String read by the specification: an answer at some fuel is the answer at every larger fuel *)
Theorem spec_string_fuel o f f' root name idx r : f <= f' ->
  spec_string o f root name idx = r -> r <> OutOfModel -> spec_string o f' root name idx = r.
Proof.
  intros L E D. subst r. revert D.
  change (ext (spec_string o f root name idx) (spec_string o f' root name idx)).
  unfold spec_string. apply ext_bind.
  - apply get_path_s_ext. intros. apply dyn_s_fuel. exact L.
  - intro x. destruct (fst x) as [[v|]|e pe| |]; try apply ext_refl.
    apply ext_taint. apply to_string_s_ext. intros. apply dyn_s_fuel. exact L.
Qed.

(* the diamond and the repeated use of the demo tree of ProofsVarEval, by the specification *)
(* a cycle that an outer default absorbs, with a member that turns the cyclic error into another
   one: every setting evaluates, flagged (the per-call cache of the implementation may show) *)
Definition masked_root : value :=
  match normalize (eo_n demo_opts)
          (GMap true [(KStr "a", GStr "${z}"); (KStr "z", GStr "${b:d}"); (KStr "b", GStr "${z:?boom}")]) with
  | Ok v => v
  | _ => VNil
  end.

Example spec_masked_cycle :
  spec_string demo_opts 60 masked_root "a" (-1) = Ok ("d"%string, true)
  /\ spec_string demo_opts 60 masked_root "b" (-1) = Ok ("d"%string, true)
  /\ spec_string demo_opts 60 masked_root "z" (-1) = Ok ("d"%string, true).
Proof. vm_compute. repeat split. Qed.

Example spec_examples :
  spec_string demo_opts 60 demo_root "twice" (-1) = Ok ("x-x"%string, false)
  /\ spec_string demo_opts 60 demo_root "diamond" (-1) = Ok ("x1x2"%string, false)
  /\ spec_string demo_opts 60 demo_root "self" (-1) = Err ECyclic ""
  /\ spec_string demo_opts 60 demo_root "saved" (-1) = Ok ("dflt"%string, true).
Proof. vm_compute. repeat split. Qed.

(** * C20/C02: the name on the left of an operator is read like the name of a plain reference *)
Section OperatorNames.
  Variable o : eopts.
  Variable dv : value -> stack -> string -> value -> SR loc.

  (* the path an operator looks up is the path the parser builds for ${name} under the options
     of the call: segment rules (indices, EnableNumKeys, EscapePath, MaxIdx) are the same *)
  Lemma default_operator_reads_reference n r sep root st : n <> ""%string ->
    exp_s o dv (EDefault (EConst n) r sep) root st
    = match exp_s o dv (ERef (parse_path n sep (p_maxIdx (eo_p o)) (p_numKeys (eo_p o)) (p_escape (eo_p o))) sep) root st with
      | Ok (v, m) => if String.eqb v "" then taint m (exp_s o dv r root st) else Ok (v, m)
      | Err e p => taint (cyc_err e p) (exp_s o dv r root st)
      | Panic => Panic
      | OutOfModel => OutOfModel
      end.
  Proof.
    intro Hn. cbn [exp_s]. destruct (String.eqb n "") eqn:E; [apply String.eqb_eq in E; contradiction|].
    destruct (ref_eval_s o dv root st (parse_path n sep (p_maxIdx (eo_p o)) (p_numKeys (eo_p o)) (p_escape (eo_p o))) sep)
      as [[v m]|e p| |]; cbn [orb]; reflexivity.
  Qed.

  Lemma error_operator_reads_reference n r sep root st : n <> ""%string ->
    exp_s o dv (EErr (EConst n) r sep) root st
    = match exp_s o dv (ERef (parse_path n sep (p_maxIdx (eo_p o)) (p_numKeys (eo_p o)) (p_escape (eo_p o))) sep) root st with
      | Ok (v, m) => if String.eqb v ""
                     then (y <- taint m (exp_s o dv r root st) ;; taint (snd y) (Err EOther "!raw"))
                     else Ok (v, m)
      | Err e p => (y <- taint (cyc_err e p) (exp_s o dv r root st) ;; taint (snd y) (Err EOther "!raw"))
      | Panic => Panic
      | OutOfModel => OutOfModel
      end.
  Proof.
    intro Hn. cbn [exp_s]. destruct (String.eqb n "") eqn:E; [apply String.eqb_eq in E; contradiction|].
    destruct (ref_eval_s o dv root st (parse_path n sep (p_maxIdx (eo_p o)) (p_numKeys (eo_p o)) (p_escape (eo_p o))) sep)
      as [[v m]|e p| |]; cbn [orb]; reflexivity.
  Qed.
End OperatorNames.
