(* CorrC14.v — every failure is a typed error that names the offending setting. *)
From Ucfg Require Export CorrC04.

Fixpoint has_sub (fuel : nat) (pat s : string) : bool :=
  match fuel with
  | O => false
  | S f => String.prefix pat s || match s with String _ r => has_sub f pat r | EmptyString => false end
  end.

(* the error names the full dotted path of exactly the faulty setting and, since the config
   was loaded with source metadata, the source *)
Definition prop_c14 (c : case) : bool :=
  match c with
  | CFault _ _ _ path source (UErr r p) msg =>
    String.eqb p path &&
    has_sub (S (String.length msg)) ("'" +++ path +++ "'") msg &&
    has_sub (S (String.length msg)) source msg
  | CFault _ _ _ _ _ _ _ => false
  | CApiErr _ path source typed msg =>
    typed &&
    has_sub (S (String.length msg)) ("'" +++ path +++ "'") msg &&
    has_sub (S (String.length msg)) source msg
  | CUnpack _ _ _ _ UPanic _ => false
  | _ => true
  end.

Definition verdict14 (c : case) : N :=
  (* the property is about the implementation's answer: it is evaluated where the model is silent too *)
  if skipped c then (if prop_c14 c then 8%N else 2%N)
  else ((if model_agrees c then 0 else 1) + (if prop_c14 c then 0 else 2))%N.

Fixpoint run_cases (i : N) (cs : list case) : list (N * N * N) :=
  match cs with
  | [] => []
  | c :: r =>
    let v := verdict14 c in
    if (v =? 0)%N then run_cases (i + 1)%N r
    else (i, v, 0%N) :: run_cases (i + 1)%N r
  end.
