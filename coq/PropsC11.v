(* PropsC11.v — C11: reads are pure, so concurrent readers are safe.
   Statements only; proofs are in ProofsVarEval.v and ProofsGraph.v.

   PARTIAL, and mostly outside what a theorem about a functional model can say.  In the model a
   config is an immutable value and every reader is a function of (options, config): that a
   read leaves the config unchanged, and that it returns what it would return alone, hold by
   construction and are no theorems.  What can be stated, and is proved: the state a read
   does carry - the chain of active reference names of one call - never leaks from one
   sub-evaluation into the next (so no reader depends on what was evaluated before it); and
   using a config as a merge source leaves none of its objects in the destination, so a later
   write to the destination cannot reach into it.  The runtime behaviour the model cannot
   exhibit - a read that writes into the object graph (caches, lazily created objects,
   re-parenting), and data races between goroutines - is decided on the implementation: the
   object graph (contents, identities, parent links, path) is observed before and after every
   read, every read is repeated, 4-8 goroutines perform 12 random reads each on one config
   and must obtain the results obtained alone, and the harness of this stream is built with
   the Go race detector, whose reports are violations. *)
From Ucfg Require Import Base ParseInt Consts Field Tree PathOps Merge OTree F64 ParseValue VarParse
     Normalize Flags Ops VarEval ProofsVarEval AGraph ProofsGraph.
Local Open Scope N_scope.

Theorem c11_subevaluations_leave_no_state_partial : forall A a (r : R A) x a',
  scoped a r = Ok (x, a') -> forall n, n <> cyc_marker -> act_has n a' = act_has n a.
Proof. exact @scoped_restores. Qed.
Print Assumptions c11_subevaluations_leave_no_state_partial.

Theorem c11_path_walk_leaves_no_state_partial : forall dv fuel0 fs a cur r a',
  get_path_dyn dv fuel0 fs a cur = Ok (r, a') -> forall n, n <> cyc_marker -> act_has n a' = act_has n a.
Proof. exact path_walk_restores. Qed.
Print Assumptions c11_path_walk_leaves_no_state_partial.

Theorem c11_merge_source_objects_stay_private_partial : forall n h dst merged skeys nsrc (src : list N),
  (forall x, In x src -> x < n) ->
  (forall x, In x (addrs dst) -> ~ In x src) ->
  forall x, In x (addrs (snd (merge_ids n h dst merged skeys nsrc))) -> ~ In x src.
Proof. exact merge_shares_nothing. Qed.
Print Assumptions c11_merge_source_objects_stay_private_partial.
