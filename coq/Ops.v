(* Ops.v — the low-level public operations as a state machine over the tree model
   (getset.go): Set*, SetChild, Remove, Merge, and the readers Has / String / Child /
   CountField / IsDict / IsArray. *)
From Ucfg Require Import Base ParseInt Consts Field Tree PathOps Merge.

(** observations: a value, an error (reason, Path()), or a panic *)
Inductive obs := OV (v : value) | OE (r : ereason) (p : string) | OPanic | OSkip.

Definition obs_of {A} (f : A -> value) (r : res A) : obs :=
  match r with
  | Ok a => OV (f a)
  | Err e p => OE e p
  | Panic => OPanic
  | OutOfModel => OSkip
  end.

Definition obs_eqb (a b : obs) : bool :=
  match a, b with
  | OV x, OV y => value_eqb x y
  | OE r p, OE s q => ereason_eqb r s && String.eqb p q
  | OPanic, OPanic => true
  | OSkip, _ | _, OSkip => true
  | _, _ => false
  end.

(** toString / toConfig of the found value; [vp] is the value's own path (ctx.path) *)
Definition to_string_lite (vp : string) (v : value) : res string :=
  match v with
  | VNil => Ok "null"
  | VBool true => Ok "true"
  | VBool false => Ok "false"
  | VInt z => Ok (dec z)
  | VUint z => Ok (dec z)
  | VStr s => Ok s
  | VFloat _ => OutOfModel           (* %v of a float: oracle, see Conv.v *)
  | VSub _ _ => Err ETypeMismatch vp
  | VRef _ _ | VSplice _ => OutOfModel
  end.

Definition to_config (vp : string) (v : value) : res value :=
  match to_cfg v with
  | CV d a => Ok (VSub d a)
  | CVNot => Err ETypeMismatch vp
  | CVDyn => OutOfModel
  end.

Definition rd_has (o : popts) (rp : string) (root : value) (name : string) (idx : Z) : obs :=
  obs_of VBool (has_path o rp name idx root).

Definition rd_string (o : popts) (rp : string) (root : value) (name : string) (idx : Z) : obs :=
  obs_of VStr (x <- get_value o rp name idx root ;; to_string_lite (fst x) (snd x)).

Definition rd_child (o : popts) (rp : string) (root : value) (name : string) (idx : Z) : obs :=
  obs_of (fun v => v) (x <- get_value o rp name idx root ;; to_config (fst x) (snd x)).

Definition rd_count (rp : string) (root : value) (name : string) : obs :=
  obs_of VInt (count_field rp name root).

(** operations *)
Inductive op :=
| OpSet (name : string) (idx : Z) (v : value)                         (* SetBool/Int/Uint/Float/String *)
| OpSetChild (name : string) (idx : Z) (v : value) (ov : option string) (* SetChild *)
| OpSetChildNil (name : string) (idx : Z)                             (* SetChild with a nil *Config: refused *)
| OpRemove (name : string) (idx : Z)
| OpMerge (h : N) (b : value).                                         (* Merge of a normalized source *)

(** result of an operation: unit (nil error) as VNil, Remove's boolean, or an error *)
Definition apply_op (o : popts) (rp : string) (root : value) (p : op) : obs * value :=
  match p with
  | OpSet name idx v =>
    match set_value o rp name idx None v root with
    | Ok r => (OV VNil, r)
    | Err e s => (OE e s, root)
    | Panic => (OPanic, root)
    | OutOfModel => (OSkip, root)
    end
  | OpSetChild name idx v ov =>
    match set_value o rp name idx ov v root with
    | Ok r => (OV VNil, r)
    | Err e s => (OE e s, root)
    | Panic => (OPanic, root)
    | OutOfModel => (OSkip, root)
    end
  | OpSetChildNil _ _ => (OE ENilConfig "", root)
  | OpRemove name idx =>
    match remove_value o rp name idx root with
    | Ok (b, r) => (OV (VBool b), r)
    | Err e s => (OE e s, root)
    | Panic => (OPanic, root)
    | OutOfModel => (OSkip, root)
    end
  | OpMerge h b =>
    match merge_root (plain_opts h) root b with
    | Ok r => (OV VNil, r)
    | Err e s => (OE e s, root)
    | Panic => (OPanic, root)
    | OutOfModel => (OSkip, root)
    end
  end.

(** an operation applied through a child handle obtained with Child(hname, hidx) just
    before: the child is a live view, except that the handle of a nil is a fresh config *)
Definition apply_on_child (o : popts) (root : value) (hname : string) (hidx : Z) (p : op)
  : obs * value :=
  match get_value o "" hname hidx root with
  | Ok (hp, VSub d a) =>
    let '(r, sub') := apply_op o hp (VSub d a) p in
    (* write the mutated child back at the same address *)
    let fs := opts_path_idx o hname hidx in
    let fix put (fs : list field) (pp : string) (node : value) : value :=
        match fs with
        | [] => sub'
        | f :: rest =>
          match get_field f pp node with
          | Ok (Some (pp', v)) =>
            match to_cfg node with
            | CVNot => put rest pp' v     (* index 0 of a primitive is the primitive itself *)
            | _ => replace_child f node (put rest pp' v)
            end
          | _ => node
          end
        end in
    (r, put fs "" root)
  | Ok (hp, VNil) => (fst (apply_op o hp empty_cfg p), root)
  | Ok (hp, _) => (OE ETypeMismatch hp, root)
  | Err e s => (OE e s, root)
  | Panic => (OPanic, root)
  | OutOfModel => (OSkip, root)
  end.
