(* PropsC08.v — C08: reference resolution terminates; cycles are errors, everything else resolves. *)
From Ucfg Require Import Base ParseInt Consts Field Tree PathOps Merge VarParse Normalize VarEval.
