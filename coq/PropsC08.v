(* PropsC08.v — C08: reference resolution terminates: cycles are errors, everything else
   resolves.  Statements only; proofs are in ProofsVarEval.v.

   PARTIAL: proved (for every recursive evaluator dv, hence at every fuel) are that a reference
   re-entered while it is being evaluated is reported as cyclic AT THAT POINT without any
   further evaluation, that a resolver knowing the name absorbs the error, and that the names
   registered while one piece of an expression is evaluated are not visible to the next piece
   (repeated uses and diamonds are no cycles). NOT proved: that the fuel the model runs with
   always suffices (termination of the model itself); the correspondence run counts the
   evaluations the model leaves undecided (verdict 8) and the harness reports a read of the
   implementation that does not return (XHang / crash replay) as a violation. *)
From Ucfg Require Import Base ParseInt Consts Field Tree PathOps Merge OTree F64 ParseValue VarParse
     Normalize Flags Ops VarEval ProofsVarEval.

Theorem c08_reentered_reference_is_cyclic_partial : forall o dv fuel0 root a p sep,
  act_has (path_str p sep) a = true -> resolve_ref o dv fuel0 root a p sep = (RCyclic, a).
Proof. exact resolve_ref_reentered_is_cyclic. Qed.
Print Assumptions c08_reentered_reference_is_cyclic_partial.

Theorem c08_cycle_is_an_error_partial : forall o dv fuel0 root a p sep,
  act_has (path_str p sep) a = true -> resolve_env o (path_str p sep) = None ->
  ref_eval o dv fuel0 root a p sep = mkerr a ECyclic "".
Proof. exact reentered_reference_fails. Qed.
Print Assumptions c08_cycle_is_an_error_partial.

Theorem c08_resolver_absorbs_cycle_partial : forall o dv fuel0 root a p sep s pc,
  act_has (path_str p sep) a = true -> resolve_env o (path_str p sep) = Some (s, pc) -> s <> "" ->
  ref_resolve o dv fuel0 root a p sep
  = Ok (Some {| l_root := root; l_path := path_str p sep; l_val := VStr s |}, act_mark a).
Proof. exact reentered_reference_resolver_absorbs. Qed.
Print Assumptions c08_resolver_absorbs_cycle_partial.

Theorem c08_pieces_do_not_see_each_other_partial : forall A a (r : R A) x a',
  scoped a r = Ok (x, a') -> forall n, n <> cyc_marker -> act_has n a' = act_has n a.
Proof. exact @scoped_restores. Qed.
Print Assumptions c08_pieces_do_not_see_each_other_partial.

Theorem c08_examples :
  read_string demo_opts 60 demo_root "twice" (-1) = Ok "x-x"
  /\ read_string demo_opts 60 demo_root "diamond" (-1) = Ok "x1x2"
  /\ read_string demo_opts 60 demo_root "self" (-1) = Err ECyclic ""
  /\ read_string demo_opts 60 demo_root "p" (-1) = Err ECyclic ""
  /\ read_string demo_opts 60 demo_root "saved" (-1) = Ok "dflt".
Proof. exact demo_reads. Qed.
Print Assumptions c08_examples.
