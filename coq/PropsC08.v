(* PropsC08.v — C08: reference resolution terminates: cycles are errors, everything else
   resolves.  Statements only; proofs are in ProofsVarEval.v.

   PARTIAL.  Proved:
   - termination on the reference fragment: for EVERY tree and EVERY list of Env configs whose
     dynamic values are plain references (any shape and depth; references may be cyclic,
     dangling, point into lists, at containers or at other references, lead from one tree into
     another), read without resolvers, every read is decided - a value or an error - as soon as
     the fuel exceeds the number of references of all the trees together
     (c08_plain_references_terminate), by a measure argument: every nested evaluation adds a new
     reference name to the active set, a name that is active is reported as cyclic at once;
   - fuel irrelevance for EVERY tree, expression, Env and resolver: an outcome obtained with some
     fuel is the outcome with every larger fuel (c08_fuel_is_irrelevant, also for Unpack into
     interface{}), so the model's answers are those of the unbounded evaluator;
   - the specification evaluator SpecEval.v (what the property states: a reference is cyclic when
     it is re-entered while it is still being evaluated - a stack of names passed down and never
     handed back) has these properties by construction, stated as theorems: a name on the stack
     is cyclic where it is met again, a variable used twice in one string is evaluated twice
     under the same stack, its fuel is irrelevant, and it terminates on the reference fragment;
     it judges the implementation's results in the correspondence run (CorrC02.spec_read_ok,
     spec_typed, spec_unpack_root);
   - for every recursive evaluator dv, hence at every fuel: a reference re-entered while it is
     being evaluated is reported as cyclic AT THAT POINT without any further evaluation, a
     resolver knowing the name absorbs the error, and the names registered while one piece of an
     expression is evaluated are not visible to the next piece (repeated uses and diamonds are no
     cycles).
   NOT proved: termination with splices and resolvers (names are computed there);
   the correspondence run counts the evaluations the model leaves undecided (verdict 8) and the
   harness reports a read of the implementation that does not return (XHang / crash replay) as
   a violation. *)
From Ucfg Require Import Base ParseInt Consts Field Tree PathOps Merge OTree F64 ParseValue VarParse
     Normalize Flags Ops VarEval SpecEval ProofsVarEval ProofsFuel ProofsTerm ProofsSpec ProofsSpecTerm.

Theorem c08_plain_references_terminate : forall o own names fuel name idx,
  eo_res o = [] -> forallb (refs_only (eo_ftext o) names) (own :: eo_envs o) = true ->
  (List.length names < fuel)%nat -> read_string o fuel own name idx <> OutOfModel.
Proof. exact plain_references_terminate. Qed.
Print Assumptions c08_plain_references_terminate.

Theorem c08_fuel_is_irrelevant : forall o f f' root name idx r, (f <= f')%nat ->
  read_string o f root name idx = r -> r <> OutOfModel -> read_string o f' root name idx = r.
Proof. exact read_string_fuel. Qed.
Print Assumptions c08_fuel_is_irrelevant.

Theorem c08_fuel_is_irrelevant_unpack : forall o n n' f f', (n <= n')%nat -> (f <= f')%nat ->
  forall a v, reify_loc o f n a v <> OutOfModel -> reify_loc o f' n' a v = reify_loc o f n a v.
Proof. exact reify_loc_fuel. Qed.
Print Assumptions c08_fuel_is_irrelevant_unpack.

Theorem c08_termination_example :
  let po := {| p_sep := "."; p_maxIdx := 1024; p_numKeys := false; p_escape := false |} in
  let e1 := VSub [("s", ("s", VRef [FName "u"] ".")); ("v", ("v", VStr "env1"))] None in
  let e2 := VSub [("u", ("u", VSub [("inner", ("inner", VRef [FName "v"] "."))] None)); ("v", ("v", VStr "env2"))] None in
  let o := {| eo_p := po; eo_envs := [e1; e2]; eo_res := []; eo_noparse := false; eo_nocomma := false;
              eo_n := {| n_p := po; n_varexp := true; n_m := {| m_h := 0%N; m_ft := None |} |};
              eo_ftext := [] |} in
  let root := VSub [("a", ("a", VRef [FName "b"] "."));
                    ("b", ("b", VRef [FName "a"] "."));
                    ("c", ("c", VRef [FName "nowhere"] "."));
                    ("d", ("d", VRef [FName "l"; FIdx 1] "."));
                    ("e", ("e", VRef [FName "d"] "."));
                    ("l", ("l", VSub [] (Some [("0", VInt 1); ("1", VStr "one")])));
                    ("x", ("x", VRef [FName "s"; FName "inner"] "."))] None in
  let names := ["b"; "a"; "nowhere"; "l.1"; "d"; "s.inner"; "u"; "v"] in
  forallb (refs_only (eo_ftext o) names) (root :: eo_envs o) = true /\
  (forall fuel name idx, (8 < fuel)%nat -> read_string o fuel root name idx <> OutOfModel) /\
  read_string o 9 root "a" (-1) = Err ECyclic "" /\
  read_string o 9 root "c" (-1) = Err EMissing "!raw" /\
  read_string o 9 root "e" (-1) = Ok "one" /\
  read_string o 9 root "x" (-1) = Ok "env2".
Proof. exact termination_example. Qed.
Print Assumptions c08_termination_example.

(** the specification evaluator (SpecEval.v: a stack of the names being evaluated) *)
Theorem c08_spec_reentry_is_cyclic : forall o dv root st p sep,
  on_stack (path_str p sep) st = true -> resolve_env o (path_str p sep) = None ->
  ref_eval_s o dv root st p sep = Err ECyclic "" /\
  dyn_step_s o dv root st "" (VRef p sep) = Err ECyclic "".
Proof. exact spec_reentry_is_cyclic. Qed.
Print Assumptions c08_spec_reentry_is_cyclic.

Theorem c08_spec_repeated_use_is_no_cycle : forall o dv x root st,
  exp_s o dv (ESplice [x; x]) root st
  = match exp_s o dv x root st with
    | Ok (s, m) => Ok ((s +++ s)%string, m || m)
    | Err e p => Err e p
    | Panic => Panic
    | OutOfModel => OutOfModel
    end.
Proof. exact spec_repeated_use. Qed.
Print Assumptions c08_spec_repeated_use_is_no_cycle.

Theorem c08_spec_fuel_is_irrelevant : forall o f f' root name idx r, (f <= f')%nat ->
  spec_string o f root name idx = r -> r <> OutOfModel -> spec_string o f' root name idx = r.
Proof. exact spec_string_fuel. Qed.
Print Assumptions c08_spec_fuel_is_irrelevant.

Theorem c08_spec_plain_references_terminate : forall o own names fuel name idx,
  eo_res o = [] -> forallb (refs_only (eo_ftext o) names) (own :: eo_envs o) = true ->
  (List.length names < fuel)%nat -> spec_string o fuel own name idx <> OutOfModel.
Proof. exact spec_plain_references_terminate. Qed.
Print Assumptions c08_spec_plain_references_terminate.

(* an error made out of an absorbed cyclic error keeps the mark, and a default that absorbs such an
   error gives a flagged value: the flag "the per-call cache may show" survives the error operator *)
Theorem c08_spec_error_operator_keeps_mark : forall o dv l r sep root st path m1 msg m3,
  exp_s o dv l root st = Ok (path, m1) -> path <> ""%string ->
  ref_eval_s o dv root st (parse_path path sep (p_maxIdx (eo_p o)) (p_numKeys (eo_p o)) (p_escape (eo_p o))) sep = Err ECyclic "" ->
  exp_s o dv r root st = Ok (msg, m3) ->
  exists pe, exp_s o dv (EErr l r sep) root st = Err EOther pe /\ err_marked pe = true.
Proof. exact spec_error_operator_keeps_mark. Qed.
Print Assumptions c08_spec_error_operator_keeps_mark.

Theorem c08_spec_default_absorbs_marked : forall o dv l r sep root st path m1 e pe v m,
  exp_s o dv l root st = Ok (path, m1) -> path <> ""%string ->
  ref_eval_s o dv root st (parse_path path sep (p_maxIdx (eo_p o)) (p_numKeys (eo_p o)) (p_escape (eo_p o))) sep = Err e pe ->
  cyc_err e pe = true ->
  exp_s o dv r root st = Ok (v, m) ->
  exp_s o dv (EDefault l r sep) root st = Ok (v, true).
Proof. exact spec_default_absorbs_marked. Qed.
Print Assumptions c08_spec_default_absorbs_marked.

Theorem c08_spec_masked_cycle_example :
  spec_string demo_opts 60 masked_root "a" (-1) = Ok ("d", true)
  /\ spec_string demo_opts 60 masked_root "b" (-1) = Ok ("d", true)
  /\ spec_string demo_opts 60 masked_root "z" (-1) = Ok ("d", true).
Proof. exact spec_masked_cycle. Qed.
Print Assumptions c08_spec_masked_cycle_example.

Theorem c08_spec_examples :
  spec_string demo_opts 60 demo_root "twice" (-1) = Ok ("x-x", false)
  /\ spec_string demo_opts 60 demo_root "diamond" (-1) = Ok ("x1x2", false)
  /\ spec_string demo_opts 60 demo_root "self" (-1) = Err ECyclic ""
  /\ spec_string demo_opts 60 demo_root "saved" (-1) = Ok ("dflt", true).
Proof. exact spec_examples. Qed.
Print Assumptions c08_spec_examples.

Theorem c08_reentered_reference_is_cyclic_partial : forall o dv fuel0 root a p sep,
  act_has (path_str p sep) a = true -> resolve_ref o dv fuel0 root a p sep = (RCyclic, a).
Proof. exact resolve_ref_reentered_is_cyclic. Qed.
Print Assumptions c08_reentered_reference_is_cyclic_partial.

Theorem c08_cycle_is_an_error_partial : forall o dv fuel0 root a p sep,
  act_has (path_str p sep) a = true -> resolve_env o (path_str p sep) = None ->
  ref_eval o dv fuel0 root a p sep = mkerr a ECyclic "".
Proof. exact reentered_reference_fails. Qed.
Print Assumptions c08_cycle_is_an_error_partial.

Theorem c08_resolver_absorbs_cycle_partial : forall o dv fuel0 root a p sep s pc,
  act_has (path_str p sep) a = true -> resolve_env o (path_str p sep) = Some (s, pc) -> s <> "" ->
  ref_resolve o dv fuel0 root a p sep
  = Ok (Some {| l_root := root; l_path := path_str p sep; l_val := VStr s |}, act_mark a).
Proof. exact reentered_reference_resolver_absorbs. Qed.
Print Assumptions c08_resolver_absorbs_cycle_partial.

Theorem c08_path_walk_leaves_no_name_active : forall dv fuel0 fs a cur r a',
  get_path_dyn dv fuel0 fs a cur = Ok (r, a') -> forall n, n <> cyc_marker -> act_has n a' = act_has n a.
Proof. exact path_walk_restores. Qed.
Print Assumptions c08_path_walk_leaves_no_name_active.

Theorem c08_pieces_do_not_see_each_other_partial : forall A a (r : R A) x a',
  scoped a r = Ok (x, a') -> forall n, n <> cyc_marker -> act_has n a' = act_has n a.
Proof. exact @scoped_restores. Qed.
Print Assumptions c08_pieces_do_not_see_each_other_partial.

Theorem c08_examples :
  read_string demo_opts 60 demo_root "twice" (-1) = Ok "x-x"
  /\ read_string demo_opts 60 demo_root "diamond" (-1) = Ok "x1x2"
  /\ read_string demo_opts 60 demo_root "self" (-1) = Err ECyclic ""
  /\ read_string demo_opts 60 demo_root "p" (-1) = Err ECyclic ""
  /\ read_string demo_opts 60 demo_root "saved" (-1) = Ok "dflt".
Proof. exact demo_reads. Qed.
Print Assumptions c08_examples.

(* REFINEMENT on the reference fragment: the model of the implementation's bookkeeping (VarEval.v:
   sets of active names that grow within a scope, scopes per step of a path walk) computes what
   the specification (SpecEval.v: a stack of the names being evaluated) says.  For the tree that
   is read and Env configs made of plain references - any shape: cyclic, dangling, into lists,
   at containers or at other references, leading from one tree into another - read without
   resolvers, a String read by the two evaluators gives the same value, or an error of the same
   reason, once the fuel exceeds the number of references ([names] lists the names of all the
   references; the marker of the bookkeeping is none of them). *)
From Ucfg Require Import ProofsRefine.
Theorem c08_model_refines_specification_on_references : forall o own names fuel name idx,
  eo_res o = [] -> forallb (refs_only (eo_ftext o) names) (own :: eo_envs o) = true ->
  existsb (String.eqb cyc_marker) names = false ->
  (List.length names < fuel)%nat ->
  agree (read_string o fuel own name idx) (spec_string o fuel own name idx).
Proof. exact model_refines_specification_on_references. Qed.
Print Assumptions c08_model_refines_specification_on_references.

(* the premises are satisfiable: the tree of the termination example (a cycle, a dangling
   reference, a reference into a list, a chain, a reference that leads through one Env config into
   another) - every read of it agrees *)
Example c08_refinement_example :
  let po := {| p_sep := "."; p_maxIdx := 1024; p_numKeys := false; p_escape := false |} in
  let e1 := VSub [("s", ("s", VRef [FName "u"] ".")); ("v", ("v", VStr "env1"))] None in
  let e2 := VSub [("u", ("u", VSub [("inner", ("inner", VRef [FName "v"] "."))] None)); ("v", ("v", VStr "env2"))] None in
  let o := {| eo_p := po; eo_envs := [e1; e2]; eo_res := []; eo_noparse := false; eo_nocomma := false;
              eo_n := {| n_p := po; n_varexp := true; n_m := {| m_h := 0%N; m_ft := None |} |};
              eo_ftext := [] |} in
  let root := VSub [("a", ("a", VRef [FName "b"] "."));
                    ("b", ("b", VRef [FName "a"] "."));
                    ("c", ("c", VRef [FName "nowhere"] "."));
                    ("d", ("d", VRef [FName "l"; FIdx 1] "."));
                    ("e", ("e", VRef [FName "d"] "."));
                    ("l", ("l", VSub [] (Some [("0", VInt 1); ("1", VStr "one")])));
                    ("x", ("x", VRef [FName "s"; FName "inner"] "."))] None in
  forall fuel name idx, (8 < fuel)%nat ->
    agree (read_string o fuel root name idx) (spec_string o fuel root name idx).
Proof. exact refinement_example. Qed.
Print Assumptions c08_refinement_example.
