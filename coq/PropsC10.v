(* PropsC10.v — C10: Merge copies: source and destination stay independent, the source is
   untouched.  Statements only; proofs are in ProofsGraph.v.

   The model (AGraph.v) numbers the objects of a config graph - *Config headers, *fields
   stores, primitives - and gives the identity discipline of value.cpy and mergeConfig.
   Proved for all graphs, contents, policies and counters: a deep copy consists of new objects
   only; the merged destination consists of its own old objects and of new ones, so it shares
   no object with the source, which is what makes later writes on one side invisible through
   the other; the destination keeps its root.  PARTIAL: in this functional model the source
   is an argument that cannot be written; THAT the implementation does not write into it (its
   contents, path, parent, what its references read) and the effect of later Set*/Remove/
   Merge operations on either side are observed on the implementation (snapshots of both
   object graphs before and after every step), and the predicted identities are compared
   with the observed ones (which objects survive, which are new). *)
From Ucfg Require Import Base ParseInt Consts Field Tree PathOps Merge AGraph ProofsGraph.
Local Open Scope N_scope.

Theorem c10_copy_is_fresh : forall v n p old,
  (forall x, In x old -> x < n) -> forall x, In x (addrs (snd (label n p v))) -> ~ In x old.
Proof. exact copy_is_fresh. Qed.
Print Assumptions c10_copy_is_fresh.

Theorem c10_merged_destination_shares_nothing_with_source : forall n h dst merged skeys nsrc (src : list N),
  (forall x, In x src -> x < n) ->
  (forall x, In x (addrs dst) -> ~ In x src) ->
  forall x, In x (addrs (snd (merge_ids n h dst merged skeys nsrc))) -> ~ In x src.
Proof. exact merge_shares_nothing. Qed.
Print Assumptions c10_merged_destination_shares_nothing_with_source.

Theorem c10_destination_made_of_old_and_new_objects : forall n h dst merged skeys nsrc,
  forall x, In x (addrs (snd (merge_ids n h dst merged skeys nsrc))) -> In x (addrs dst) \/ n <= x.
Proof. exact merge_ids_old_or_new. Qed.
Print Assumptions c10_destination_made_of_old_and_new_objects.

Theorem c10_destination_keeps_its_root : forall n h id fid p d a merged skeys nsrc,
  id_of (snd (merge_ids n h (INode id fid p d a) merged skeys nsrc)) = id.
Proof. exact merge_keeps_root. Qed.
Print Assumptions c10_destination_keeps_its_root.

Theorem c10_example :
  snd (merge_ids 100 hDefault
         (INode 1 2 0 [("a", ILeaf 3 1); ("b", INode 4 5 1 [("c", ILeaf 6 4)] [])] [])
         (VSub [("a", ("a", VInt 1)); ("b", ("b", VSub [("c", ("c", VInt 2)); ("d", ("d", VInt 3))] None))] None)
         ["b"] None)
  = INode 1 2 0 [("a", ILeaf 3 1); ("b", INode 100 101 1 [("c", ILeaf 102 100); ("d", ILeaf 103 100)] [])] [].
Proof. exact merge_ids_example. Qed.
Print Assumptions c10_example.
