(* Reify.v — Unpack (reify.go, util.go, validator.go) over a reflection-free universe of Go
   types and values.  Reference-free configurations (a dynamic value is OutOfModel here; the
   evaluation of references is VarEval.v).  Not modelled: Unpacker / InitDefaults / Validate
   hooks, interface-typed targets that already hold a value. *)
From Ucfg Require Import Base ParseInt Consts Field Tree PathOps Merge OTree F64 Conv.

(** * types and values *)
Inductive ty :=
| TPrim (k : tkind)
| TIface
| TPtr (t : ty)
| TSlice (t : ty)
| TArray (n : nat) (t : ty)
| TMap (t : ty)
| TStruct (fs : list (string * string * string * ty))   (* Go name, config tag, validate tag, type *)
| TCfgPtr.

Inductive gv :=
| GP (c : cval)
| GIfaceNil | GIfaceData (t : otree)
| GPtrNil | GPtr (v : gv)
| GSliceNil | GSlice (l : list gv)
| GArr (l : list gv)
| GMapNil | GMapV (m : list (string * gv))
| GStructV (fs : list gv)
| GCfgNil | GCfgV (v : value).

Definition zero_prim (k : tkind) : cval :=
  match k with
  | KBool => CB false | KInt _ => CI 0 | KUint _ => CU 0 | KFloat32 | KFloat64 => CF 0
  | KString => CS "" | KDuration => CD 0
  end.

Fixpoint zero (t : ty) : gv :=
  match t with
  | TPrim k => GP (zero_prim k)
  | TIface => GIfaceNil
  | TPtr _ => GPtrNil
  | TSlice _ => GSliceNil
  | TArray n e => GArr (repeat (zero e) n)
  | TMap _ => GMapNil
  | TStruct fs => GStructV ((fix go (l : list (string * string * string * ty)) : list gv :=
                               match l with [] => [] | (_, _, _, ft) :: r => zero ft :: go r end) fs)
  | TCfgPtr => GCfgNil
  end.

Fixpoint base_ty (t : ty) : ty := match t with TPtr e => base_ty e | _ => t end.

(* pointerize: wrap a value of the base type into the pointer levels of t *)
Fixpoint pointerize (t : ty) (v : gv) : gv := match t with TPtr e => GPtr (pointerize e v) | _ => v end.

(* chaseValuePointers *)
Fixpoint chase_ptr (fuel : nat) (v : gv) : gv :=
  match fuel, v with
  | S f, GPtr x => chase_ptr f x
  | _, _ => v
  end.

(** * validators *)
Inductive vtag := VNonzero | VPositive | VMin (p : string) | VMax (p : string) | VRequired.

Definition parse_vtag (s : string) : option vtag :=
  let '(name, param) := match split_eq s "" with
                        | (n, Some p) => (trim_space n, trim_space p)
                        | (n, None) => (trim_space n, "")
                        end in
  if String.eqb name "nonzero" then Some VNonzero
  else if String.eqb name "positive" then Some VPositive
  else if String.eqb name "min" then Some (VMin param)
  else if String.eqb name "max" then Some (VMax param)
  else if String.eqb name "required" then Some VRequired
  else None.

(* parseValidatorTags: None = unknown validator (a critical error at access time) *)
Definition parse_vtags (tag : string) : option (list vtag) :=
  if String.eqb tag "" then Some []
  else (fix go (l : list string) : option (list vtag) :=
          match l with
          | [] => Some []
          | x :: r => match parse_vtag x, go r with
                      | Some t, Some ts => Some (t :: ts)
                      | _, _ => None
                      end
          end) (split tag ",").

(* oracles for validator parameters: time.ParseDuration (ns) on strings *)
Record voracle := { vo_dur : string -> option (option Z) }.

(* what a validator sees: the interface value of the field *)
Inductive vview :=
| WNil                              (* nil interface (invalid reflect value) *)
| WPrim (c : cval)
| WPtrNil | WPtr (v : vview)
| WSlice (isnil : bool) (len : nat) | WArr (len : nat) | WMap (isnil : bool) (len : nat)
| WOther.                           (* structs, configs, non-nil interfaces holding data *)

Fixpoint view (v : gv) : vview :=
  match v with
  | GP c => WPrim c
  | GIfaceNil => WNil
  | GIfaceData x =>
    (* what an interface{} field holds after Unpack: generic data *)
    match x with
    | ONil => WNil
    | OBool b => WPrim (CB b)
    | OInt z => WPrim (CI z)
    | OUint z => WPrim (CU z)
    | OFloat f => WPrim (CF f)
    | OStr s => WPrim (CS s)
    | OList l => WSlice false (List.length l)
    | OMap m => WMap false (List.length m)
    | _ => WOther
    end
  | GPtrNil => WPtrNil
  | GPtr x => WPtr (view x)
  | GSliceNil => WSlice true 0
  | GSlice l => WSlice false (List.length l)
  | GArr l => WArr (List.length l)
  | GMapNil => WMap true 0
  | GMapV m => WMap false (List.length m)
  | GStructV _ => WOther
  | GCfgNil => WPtrNil
  | GCfgV _ => WPtr WOther
  end.

Fixpoint chase_view (w : vview) : vview := match w with WPtr x => chase_view x | _ => w end.

(* the float value of a float64 pattern compared with zero *)
Definition f_is_zero (bits : Z) : bool := match decode bits with FFin _ m _ => m =? 0 | _ => false end.
Definition f_is_neg (bits : Z) : bool :=
  match decode bits with FFin neg m _ => neg && negb (m =? 0) | FInf n => n | FNaN => false end.

(* the emptiness checks look through a non-nil pointer to the value, like the numeric validators
   (a pointer whose chain ends in nil is left to the callers) *)
Definition nonempty_view (w0 : vview) (allowNil : bool) : res unit :=
  let w := match w0 with
           | WPtr _ => match chase_view w0 with WPtrNil | WNil => w0 | c => c end
           | _ => w0
           end in
  match w with
  | WPrim (CS s) => if String.eqb s "" then Err EStringEmpty "" else Ok tt
  | WSlice isnil n | WMap isnil n =>
    if isnil then (if allowNil then Ok tt else Err ERequired "")
    else if Nat.eqb n 0 then Err (match w with WMap _ _ => EMapEmpty | _ => EArrayEmpty end) "" else Ok tt
  | WArr n => if Nat.eqb n 0 then Err EArrayEmpty "" else Ok tt
  | _ => Ok tt
  end.

Definition validate_nonzero (w : vview) : res unit :=
  match w with
  | WNil => Ok tt
  | WPrim (CD d) => if d =? 0 then Err EZeroValue "" else Ok tt
  | _ =>
    match chase_view w with
    | WPrim (CI i) | WPrim (CU i) => if i =? 0 then Err EZeroValue "" else Ok tt
    | WPrim (CF f) => if f_is_zero f then Err EZeroValue "" else Ok tt
    | WPrim (CD d) => if d =? 0 then Err EZeroValue "" else Ok tt      (* a Duration behind a pointer: an int64 *)
    | _ => nonempty_view w true
    end
  end.

(* positive, min and max look through pointers (and interfaces), like nonzero (fix F56) *)
Definition validate_positive (w : vview) : res unit :=
  match chase_view w with
  | WPrim (CD d) | WPrim (CI d) => if d <? 0 then Err ENegative "" else Ok tt
  | WPrim (CF f) => if f_is_neg f || match decode f with FNaN => true | _ => false end then Err ENegative "" else Ok tt
  | _ => Ok tt
  end.

(* numeric comparison of a float pattern with a bound given as text (ParseFloat), exact *)
Definition fcmp (a b : Z) : option comparison :=
  match decode a, decode b with
  | FFin na ma ea, FFin nb mb eb =>
    let e := Z.min ea eb in
    let va := (if na then -1 else 1) * ma * 2 ^ (ea - e) in
    let vb := (if nb then -1 else 1) * mb * 2 ^ (eb - e) in
    Some (Z.compare va vb)
  | FNaN, _ | _, FNaN => None
  | FInf na, FInf nb => Some (if Bool.eqb na nb then Eq else if na then Lt else Gt)
  | FInf na, _ => Some (if na then Lt else Gt)
  | _, FInf nb => Some (if nb then Gt else Lt)
  end.

(* param2Duration: a duration text, else float seconds *)
Definition param_duration (vo : voracle) (p : string) : res Z :=
  match vo_dur vo p with
  | Some (Some ns) => Ok ns
  | Some None =>
    match parse_float_dec p with
    | PFOk b =>
      match decode b with
      | FFin neg m e =>
        if m =? 0 then Ok 0
        else match round_q neg (if 0 <=? e then m * 2 ^ e * second_ns else m * second_ns)
                           (if 0 <=? e then 1 else 2 ^ (- e)) with
             | Some pb => match float_to_int pb with Ok ns => Ok ns | _ => OutOfModel end
             | None => OutOfModel
             end
      | _ => OutOfModel
      end
    | PFUnknown => OutOfModel
    | _ => Err EOther ""
    end
  | None => OutOfModel
  end.

Definition validate_minmax (vo : voracle) (ismin : bool) (p : string) (w : vview) : res unit :=
  let ok (c : comparison) := if ismin then match c with Lt => false | _ => true end
                             else match c with Gt => false | _ => true end in
  match chase_view w with
  | WNil => Ok tt
  | WPrim (CD d) =>
    b <- param_duration vo p ;;
    if ok (Z.compare d b) then Ok tt else Err EOther ""
  | WPrim (CI i) =>
    match parse_int0 p with
    | Some b => if ok (Z.compare i b) then Ok tt else Err EOther ""
    | None => Err EOther ""
    end
  | WPrim (CU u) =>
    match parse_uint0_opt p with
    | Some b => if ok (Z.compare u b) then Ok tt else Err EOther ""
    | None => Err EOther ""
    end
  | WPrim (CF f) =>
    match parse_float_dec p with
    | PFOk b => match fcmp f b with
                | Some c => if ok c then Ok tt else Err EOther ""
                | None => Err EOther ""          (* NaN compares false *)
                end
    | PFUnknown => OutOfModel
    | _ => Err EOther ""
    end
  | _ => Ok tt
  end.

Definition validate_required (w : vview) : res unit :=
  match w with
  | WNil | WPtrNil => Err ERequired ""
  | WPrim (CI _) | WPrim (CU _) | WPrim (CF _) | WPrim (CD _) =>
    match validate_nonzero w with Ok _ => Ok tt | Err _ _ => Err ERequired "" | r => r end
  | _ => nonempty_view w false
  end.

Definition run_vtag (vo : voracle) (t : vtag) (w : vview) : res unit :=
  match t with
  | VNonzero => validate_nonzero w
  | VPositive => validate_positive w
  | VMin p => validate_minmax vo true p w
  | VMax p => validate_minmax vo false p w
  | VRequired => validate_required w
  end.

Fixpoint run_validators (vo : voracle) (ts : list vtag) (w : vview) : res unit :=
  match ts with
  | [] => Ok tt
  | t :: r => _ <- run_vtag vo t w ;; run_validators vo r w
  end.

(* Duration values reached through reflect kinds: named Duration is the exact type match;
   the view of a time.Duration field is WPrim (CD _) *)

(** * options *)
Record ropts := { r_p : popts; r_h : N; r_vo : voracle; r_ft : list (Z * string) }.

(* struct tags *)
Definition tag_name (tag : string) : string := match split tag "," with n :: _ => n | [] => "" end.
Definition tag_opts (tag : string) : list string := match split tag "," with _ :: r => r | [] => [] end.
Definition tag_squash (tag : string) : bool := existsb (fun w => String.eqb w "squash" || String.eqb w "inline") (tag_opts tag).
Definition tag_ignore (tag : string) : bool := existsb (String.eqb "ignore") (tag_opts tag).
(* the last of merge / replace / append / prepend wins *)
Definition tag_handling (tag : string) : N :=
  fold_left (fun h w => if String.eqb w "merge" then 1%N else if String.eqb w "replace" then 2%N
                        else if String.eqb w "append" then 3%N else if String.eqb w "prepend" then 4%N else h)
            (tag_opts tag) 0%N.

Definition is_upper_first (s : string) : bool :=
  match s with String a _ => let c := byte_of a in ((65 <=? c) && (c <=? 90))%N | EmptyString => false end.
Fixpoint lower_ascii_str (s : string) : string :=
  match s with
  | EmptyString => EmptyString
  | String a r => let c := byte_of a in
                  String (if ((65 <=? c) && (c <=? 90))%N then ch (c + 32) else a) (lower_ascii_str r)
  end.

(** tryRecursiveValidate: run the field validators on an untouched value, then descend *)
Section RecVal.
  Variable vo : voracle.

  Fixpoint rec_validate (t : ty) (v : gv) (ts : list vtag) {struct t} : res unit :=
    _ <- run_validators vo ts (view v) ;;
    match t, v with
    | TPtr e, GPtr x => rec_validate e x []       (* chaseValue, then the pointee's own kind *)
    | TPtr _, _ => Ok tt
    | TStruct fs, GStructV vs =>
      (fix go (fl : list (string * string * string * ty)) (vl : list gv) {struct fl} : res unit :=
         match fl, vl with
         | (goname, ctag, vtagtext, ft) :: fr, x :: vr =>
           if negb (is_upper_first goname) || tag_ignore ctag then go fr vr
           else match parse_vtags vtagtext with
                | None => Err EOther ""
                | Some fts => _ <- rec_validate ft x fts ;; go fr vr
                end
         | _, _ => Ok tt
         end) fs vs
    | TMap e, GMapV m =>
      (fix go (l : list (string * gv)) : res unit :=
         match l with [] => Ok tt | (_, x) :: r => _ <- rec_validate e x [] ;; go r end) m
    | TSlice e, GSlice l | TArray _ e, GArr l =>
      (fix go (l : list gv) : res unit :=
         match l with [] => Ok tt | x :: r => _ <- rec_validate e x [] ;; go r end) l
    | _, _ => Ok tt
    end.
End RecVal.

(** castArr *)
Definition cast_arr (v : value) : res (list nv) :=
  match v with
  | VSub _ a => Ok (arr_of a)
  | VNil => Ok []
  | VRef _ _ | VSplice _ => OutOfModel
  | _ => Ok [("", v)]
  end.

(* an error that comes out of a nested value gets the name of the setting it came through in
   front of its path: innermost sites raise with the empty path, every enclosing list entry,
   map entry and struct field adds its (stored) name *)
Definition in_seg {A} (seg : string) (r : res A) : res A :=
  match r with
  | Err e p => Err e (if String.eqb seg "" then p else if String.eqb p "" then seg else seg +++ "." +++ p)
  | _ => r
  end.

Definition fieldopts := (ropts * N * list vtag)%type.    (* options, tag handling, validators *)

Definition config_handling (fo : fieldopts) : N :=
  let '(o, th, _) := fo in if (th =? 0)%N then r_h o else th.

(* the path of a value for validation errors is not modelled here: errors carry "" *)

Section Reify.
  (* fuel bounds the nesting of types (pointer chains, structs in structs) *)
  Fixpoint reify_value (fuel : nat) (fo : fieldopts) (t : ty) (val : value) {struct fuel} : res gv :=
    match fuel with
    | O => OutOfModel
    | S f =>
      let '(o, th, vts) := fo in
      match t with
      | TIface =>
        match val with
        | VRef _ _ | VSplice _ => OutOfModel
        | _ =>
          (* the validate tags of an interface{} field apply to what it is given (fix F77) *)
          let g := match strip val with ONil => GIfaceNil | x => GIfaceData x end in
          _ <- run_validators (r_vo o) vts (view g) ;; Ok g
        end
      | _ =>
        match base_ty t with
        | TIface => OutOfModel            (* a pointer to an interface: outside the model *)
        | TCfgPtr =>
          match to_cfg val with
          | CV d a => Ok (pointerize t (GCfgV (VSub d a)))
          | CVNot => Err EExpectedObject ""
          | CVDyn => OutOfModel
          end
        | TStruct fs =>
          match to_cfg val with
          | CV d a =>
            s <- reify_struct f o (TStruct fs) (zero (TStruct fs)) (VSub d a) ;;
            Ok (pointerize t s)
          | CVNot => reify_primitive f fo val t
          | CVDyn => OutOfModel
          end
        | TMap e =>
          match to_cfg val with
          | CV d a => m <- reify_map f o e GMapNil (VSub d a) vts ;; Ok (pointerize t m)    (* the field's validators apply to the fresh map *)
          | CVNot => Err EExpectedObject ""
          | CVDyn => OutOfModel
          end
        | TSlice e =>
          s <- reify_slice_merge f fo None e val ;; Ok (pointerize t s)
        | TArray n e =>
          arr <- cast_arr val ;;
          if negb (Nat.eqb (List.length arr) n) then Err EArraySizeMismatch ""
          else a <- reify_do_array f fo e (repeat (zero e) n) O arr true ;; Ok (pointerize t a)
        | _ => reify_primitive f fo val t
        end
      end
    end

  with reify_primitive (fuel : nat) (fo : fieldopts) (val : value) (t : ty) {struct fuel} : res gv :=
    match fuel with
    | O => OutOfModel
    | S f =>
      let '(o, th, vts) := fo in
      match is_nil (Some val) with
      | true =>
        (* the zero value a null entry stands for is validated like a converted value (fix F58) *)
        match base_ty t with
        | TPrim k => _ <- run_validators (r_vo o) vts (WPrim (zero_prim k)) ;; Ok (pointerize t (zero (base_ty t)))
        | _ => Ok (pointerize t (zero (base_ty t)))
        end
      | false =>
        match base_ty t with
        | TPrim k =>
          c <- conv (r_ft o) (vo_dur (r_vo o)) k val ;;
          _ <- run_validators (r_vo o) vts (WPrim c) ;;
          Ok (pointerize t (GP c))
        | _ =>
          (* arrays as map values, interfaces with methods, ...: not convertible *)
          match val with
          | VRef _ _ | VSplice _ => OutOfModel
          | _ => Err ETypeMismatch ""
          end
        end
      end
    end

  with reify_merge_value (fuel : nat) (fo : fieldopts) (t : ty) (old : gv) (val : value) {struct fuel} : res gv :=
    match fuel with
    | O => OutOfModel
    | S f =>
      let '(o, th, vts) := fo in
      match t, old with
      | TIface, GIfaceNil => reify_value f fo t val
      | TIface, _ => OutOfModel                         (* an interface that already holds a value *)
      | TPtr _, GPtrNil | TCfgPtr, GCfgNil => reify_value f fo t val
      | _, _ =>
        (* chase non-nil pointers *)
        match t, old with
        | TPtr e, GPtr x =>
          match base_ty e with
          | TIface => OutOfModel        (* a pointer to an interface: outside the model *)
          | _ =>
            match reify_merge_value f fo e x val with
            | Ok x' => Ok (GPtr x')
            | r => r
            end
          end
        | TCfgPtr, GCfgV c =>
          match to_cfg val with
          | CV d a =>
            m <- merge_plain {| m_h := r_h o; m_ft := None |} (Some c) (VSub d a) ;; Ok (GCfgV m)
          | CVNot => Err EExpectedObject ""
          | CVDyn => OutOfModel
          end
        | TMap e, _ =>
          match to_cfg val with
          | CV d a => reify_map f o e old (VSub d a) vts
          | CVNot => Err EExpectedObject ""
          | CVDyn => OutOfModel
          end
        | TStruct fs, _ =>
          match to_cfg val with
          | CV d a => reify_struct f o t old (VSub d a)
          | CVNot => Err EExpectedObject ""
          | CVDyn => OutOfModel
          end
        | TArray n e, GArr l =>
          arr <- cast_arr val ;;
          if negb (Nat.eqb (List.length arr) n) then Err EArraySizeMismatch ""
          else reify_do_array f fo e l O arr true
        | TSlice e, _ => reify_slice_merge f fo (Some old) e val
        | _, _ => reify_primitive f fo val t
        end
      end
    end

  with reify_slice_merge (fuel : nat) (fo : fieldopts) (old : option gv) (e : ty) (val : value) {struct fuel} : res gv :=
    match fuel with
    | O => OutOfModel
    | S f =>
      arr <- cast_arr val ;;
      let h := config_handling fo in
      let olds := match old with Some (GSlice l) => Some l | _ => None end in
      let l := List.length arr in
      let '(total, start, cpystart) :=
          match olds with
          | None => (l, O, O)
          | Some ol =>
            let n := List.length ol in
            if (h =? 2)%N then (l, O, O)
            else if (h =? 3)%N then ((l + n)%nat, n, O)
            else if (h =? 4)%N then ((l + n)%nat, O, l)
            else (Nat.max l n, O, O)
          end in
      (* tmp: zero values with the old elements copied from cpystart on *)
      let base := repeat (zero e) total in
      let tmp := match olds with
                 | None => base
                 | Some ol => firstn total (firstn cpystart base ++ ol ++ skipn (cpystart + List.length ol) base)
                 end in
      r <- reify_do_array f fo e tmp start arr false ;;
      match r with GArr x => Ok (GSlice x) | x => Ok x end
    end

  (* reifyDoArray over the elements [to]; [start] is the offset of the config's window *)
  with reify_do_array (fuel : nat) (fo : fieldopts) (e : ty) (to : list gv) (start : nat) (arr : list nv) (isarray : bool)
         {struct fuel} : res gv :=
    match fuel with
    | O => OutOfModel
    | S f =>
      let '(o, th, vts) := fo in
      els <- (fix go (idx : nat) (l : list gv) {struct l} : res (list gv) :=
                match l with
                | [] => Ok []
                | x :: r =>
                  y <- (if (start <=? idx)%nat && (idx <? start + List.length arr)%nat
                        then match nth_opt arr (idx - start) with
                             | Some (nm, v) => in_seg nm (reify_merge_value f fo e x v)
                             | None => Ok x
                             end
                        else (_ <- rec_validate (r_vo o) e x [] ;; Ok x)) ;;
                  rest <- go (S idx) r ;;
                  Ok (y :: rest)
                end) O to ;;
      _ <- run_validators (r_vo o) vts (if isarray then WArr (List.length els) else WSlice false (List.length els)) ;;
      Ok (GArr els)
    end

  with reify_map (fuel : nat) (o : ropts) (e : ty) (old : gv) (cfg : value) (vts : list vtag) {struct fuel} : res gv :=
    match fuel with
    | O => OutOfModel
    | S f =>
      let m0 := match old with GMapV m => m | _ => [] end in
      match cfg with
      | VSub [] _ =>
        (* no named settings: the (possibly pre-filled) map is validated as it is *)
        _ <- rec_validate (r_vo o) (TMap e) (GMapV m0) vts ;; Ok (GMapV m0)
      | VSub d _ =>
        m <- (fix go (m : list (string * gv)) (l : list (string * (string * value))) {struct l} : res (list (string * gv)) :=
                match l with
                | [] => Ok m
                | (k, (nm, v)) :: r =>
                  x <- in_seg nm
                         match dict_get k m with
                         | None => reify_value f (o, 0%N, []) e v
                         | Some oldv => reify_merge_value f (o, 0%N, []) e oldv v
                         end ;;
                  (* a nil interface value is not stored *)
                  go (match x with GIfaceNil => m | _ => dict_set k x m end) r
                end) m0 d ;;
        (* entries the configuration does not mention are validated as they stand *)
        _ <- (fix untouched (l : list (string * gv)) : res unit :=
                match l with
                | [] => Ok tt
                | (k, x) :: r =>
                  if dict_has k d then untouched r
                  else _ <- rec_validate (r_vo o) e x [] ;; untouched r
                end) m ;;
        _ <- run_validators (r_vo o) vts (WMap false (List.length m)) ;;
        Ok (GMapV m)
      | _ => OutOfModel
      end
    end

  with reify_struct (fuel : nat) (o : ropts) (t : ty) (old : gv) (cfg : value) {struct fuel} : res gv :=
    match fuel with
    | O => OutOfModel
    | S f =>
      match t, old with
      | TStruct fs, GStructV vs =>
        r <- (fix go (fl : list (string * string * string * ty)) (vl : list gv) {struct fl} : res (list gv) :=
                match fl, vl with
                | (goname, ctag, vtagtext, ft) :: fr, x :: vr =>
                  if negb (is_upper_first goname) || tag_ignore ctag then
                    rest <- go fr vr ;; Ok (x :: rest)
                  else
                    let th := tag_handling ctag in
                    (* accessField: the tag's handling replaces the one in force whenever they differ *)
                    let o' := {| r_p := r_p o; r_h := th; r_vo := r_vo o; r_ft := r_ft o |} in
                    match parse_vtags vtagtext with
                    | None => Err EOther ""
                    | Some vts =>
                      y <- (if tag_squash ctag then
                              match base_ty ft with
                              | TStruct _ | TMap _ =>
                                (* reifyInto with the whole config: the field's own validators
                                   are not handed on *)
                                (* (a nil pointer is allocated: fix F67) *)
                                y <- reify_merge_value f (o', th, []) ft x cfg ;;
                                (* the field's validate tag applies to what was unpacked into it (fix F37) *)
                                _ <- run_validators (r_vo o) vts (view y) ;; Ok y
                              | TSlice _ | TArray _ _ => reify_merge_value f (o', th, vts) ft x cfg
                              | _ => Err ETypeMismatch ""
                              end
                            else
                              let name := if String.eqb (tag_name ctag) "" then lower_ascii_str goname else tag_name ctag in
                              let p := opts_path (r_p o') name in
                              v <- match get_path "" p cfg with
                                   | Ok (Some (_, v)) => Ok (Some v)
                                   | Ok None => Ok None
                                   | Err EMissing _ => Ok None
                                   | Err r s => Err r s
                                   | Panic => Panic
                                   | OutOfModel => OutOfModel
                                   end ;;
                              if is_nil v then
                                match ft with
                                | TStruct _ =>
                                  reify_merge_value f (o', th, vts) ft x (match v with Some n => n | None => VNil end)
                                | _ => _ <- rec_validate (r_vo o) ft x vts ;; Ok x
                                end
                              else in_seg (match get_path "" p cfg with Ok (Some (pth, _)) => pth | _ => "" end)
                                          (reify_merge_value f (o', th, vts) ft x (match v with Some n => n | None => VNil end))) ;;
                      rest <- go fr vr ;;
                      Ok (y :: rest)
                    end
                | _, _ => Ok []
                end) fs vs ;;
        Ok (GStructV r)
      | _, _ => OutOfModel
      end
    end.
End Reify.

(** Config.Unpack into a pointer to a struct / a map *)
Definition unpack (o : ropts) (t : ty) (old : gv) (cfg : value) : res gv :=
  let fuel := 40%nat in
  match t, old with
  | TPtr (TStruct fs), GPtr x =>
    s <- reify_struct fuel o (TStruct fs) x cfg ;; Ok (GPtr s)
  | TStruct fs, _ => Err EPointerRequired ""
  | TMap e, _ => reify_map fuel o e old cfg []
  | TPtr (TMap e), GPtr x => m <- reify_map fuel o e x cfg [] ;; Ok (GPtr m)
  | _, _ => OutOfModel
  end.
