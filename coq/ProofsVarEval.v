(* ProofsVarEval.v — facts about the variable-expansion model (C02, C08): lookup order,
   cycle detection at re-entry, scoping of active names, unresolved references are errors.
   The Step-level lemmas hold for EVERY recursive evaluator [dv], hence at every fuel. *)
From Ucfg Require Import Base ParseInt Consts Field Tree PathOps Merge OTree F64 ParseValue VarParse
     Normalize Flags Ops VarEval.

(* with no absorbed cyclic error behind it an error is the plain error *)
Lemma mkerr_unmarked {A} a e p : act_marked a = false -> @mkerr A a e p = Err e p.
Proof. intro H. unfold mkerr. rewrite H. reflexivity. Qed.

(** * Resolvers: the most recently added one that knows the name wins *)
Lemma ask_resolvers_app rs1 rs2 n :
  ask_resolvers (rs1 ++ rs2) n =
  match ask_resolvers rs1 n with Some x => Some x | None => ask_resolvers rs2 n end.
Proof.
  induction rs1 as [|t r IH]; simpl; [reflexivity|].
  destruct (dict_get n t); [reflexivity|exact IH].
Qed.

Lemma resolve_env_latest_wins o rs t n x :
  eo_res o = rs ++ [t] -> dict_get n t = Some x -> resolve_env o n = Some x.
Proof.
  intros E H. unfold resolve_env. rewrite E, rev_app_distr. simpl. rewrite H. reflexivity.
Qed.

Lemma resolve_env_falls_back o rs t n :
  eo_res o = rs ++ [t] -> dict_get n t = None -> resolve_env o n = ask_resolvers (rev rs) n.
Proof.
  intros E H. unfold resolve_env. rewrite E, rev_app_distr. simpl. rewrite H. reflexivity.
Qed.

Lemma resolve_env_none o n :
  Forall (fun t => dict_get n t = None) (eo_res o) -> resolve_env o n = None.
Proof.
  intro F. unfold resolve_env. apply Forall_rev in F. induction F as [|t r Ht Fr IH]; simpl; [reflexivity|].
  rewrite Ht. exact IH.
Qed.

Section Generic.
  Variable o : eopts.
  Variable dv : value -> act -> string -> value -> R loc.
  Variable fuel0 : nat.

  (** * Lookup order: the tree the setting lives in, from its root, comes first *)
  Lemma resolve_ref_own_tree_first root a p sep v a' :
    act_has (path_str p sep) a = false ->
    get_path_dyn dv fuel0 p (act_add (path_str p sep) a) {| l_root := root; l_path := ""; l_val := root |}
      = Ok (Ok (Some v), a') ->
    resolve_ref o dv fuel0 root a p sep = (RFound v, a').
  Proof.
    intros Hn H. unfold resolve_ref. rewrite Hn. simpl. rewrite H. reflexivity.
  Qed.

  (* not set in the own tree: the Env configs are tried, the most recently added first *)
  Lemma resolve_ref_then_envs root a p sep a' envs e v a'' :
    act_has (path_str p sep) a = false ->
    get_path_dyn dv fuel0 p (act_add (path_str p sep) a) {| l_root := root; l_path := ""; l_val := root |}
      = Ok (Err EMissing "", a') ->
    eo_envs o = envs ++ [e] ->
    get_path_dyn dv fuel0 p a' {| l_root := e; l_path := ""; l_val := e |} = Ok (Ok (Some v), a'') ->
    resolve_ref o dv fuel0 root a p sep = (RFound v, a'').
  Proof.
    intros Hn H E He. unfold resolve_ref. rewrite Hn. simpl. rewrite H.
    rewrite E, rev_app_distr. simpl. rewrite He. reflexivity.
  Qed.

  (** * Cycles: a reference re-entered while it is being evaluated is reported at that point *)
  Lemma resolve_ref_reentered_is_cyclic root a p sep :
    act_has (path_str p sep) a = true -> resolve_ref o dv fuel0 root a p sep = (RCyclic, a).
  Proof. intro H. unfold resolve_ref. rewrite H. reflexivity. Qed.

  (* no resolver knows the name: the read fails with the cyclic-reference error *)
  Lemma reentered_reference_fails root a p sep :
    act_has (path_str p sep) a = true -> resolve_env o (path_str p sep) = None ->
    ref_eval o dv fuel0 root a p sep = mkerr a ECyclic "".
  Proof.
    intros H Hr. unfold ref_eval, ref_resolve. rewrite (resolve_ref_reentered_is_cyclic root a p sep H).
    rewrite Hr. unfold mkerr. reflexivity.
  Qed.

  (* ... which a resolver that knows the name absorbs *)
  Lemma reentered_reference_resolver_absorbs root a p sep s pc :
    act_has (path_str p sep) a = true -> resolve_env o (path_str p sep) = Some (s, pc) -> s <> "" ->
    ref_resolve o dv fuel0 root a p sep
    = Ok (Some {| l_root := root; l_path := path_str p sep; l_val := VStr s |}, act_mark a).
  Proof.
    intros H Hr Hs. unfold ref_resolve. rewrite (resolve_ref_reentered_is_cyclic root a p sep H).
    rewrite Hr. destruct (String.eqb s "") eqn:E; [apply String.eqb_eq in E; contradiction|reflexivity].
  Qed.

  (** * An unresolvable reference is an error, never a silently empty value *)
  Lemma unresolved_reference_is_error root a p sep a' :
    resolve_ref o dv fuel0 root a p sep = (RMissing, a') \/ resolve_ref o dv fuel0 root a p sep = (RNone, a') ->
    resolve_env o (path_str p sep) = None ->
    ref_eval o dv fuel0 root a p sep = mkerr a' EMissing "!raw".
  Proof.
    intros [H|H] Hr; unfold ref_eval, ref_resolve; rewrite H, Hr; unfold mkerr; reflexivity.
  Qed.

  (* a resolver answering with the empty string resolves nothing: still an error *)
  Lemma empty_resolver_value_is_error root a p sep a' pc :
    resolve_ref o dv fuel0 root a p sep = (RMissing, a') ->
    resolve_env o (path_str p sep) = Some ("", pc) ->
    ref_eval o dv fuel0 root a p sep = mkerr a' EOther "!raw".
  Proof.
    intros H Hr. unfold ref_eval, ref_resolve. rewrite H, Hr. reflexivity.
  Qed.

  (** * Scoping: names registered while one piece is evaluated are gone for the next piece *)
  Lemma act_has_mark n a : n <> cyc_marker -> act_has n (act_mark a) = act_has n a.
  Proof.
    intro Hn. unfold act_has. induction a as [|s r IH]; simpl.
    - destruct (String.eqb n cyc_marker) eqn:E; [apply String.eqb_eq in E; contradiction|reflexivity].
    - destruct r as [|s2 r2].
      + simpl. destruct (String.eqb n cyc_marker) eqn:E; [apply String.eqb_eq in E; contradiction|reflexivity].
      + simpl in *. rewrite IH. reflexivity.
  Qed.

  Lemma scoped_restores {A} a (r : R A) x a' :
    scoped a r = Ok (x, a') -> forall n, n <> cyc_marker -> act_has n a' = act_has n a.
  Proof.
    unfold scoped. destruct r as [[y b]| | |]; simpl; try discriminate.
    intros H n Hn. inversion H; subst. destruct (act_marked b); [apply act_has_mark; exact Hn|reflexivity].
  Qed.

  (* a step of a path walk evaluates the references it meets in a set of its own: afterwards no
     name it registered is active, so a getter's walk leaves nothing behind for what it finds *)
  Lemma path_step_restores fl a elem r a' :
    get_field_dyn dv fuel0 fl a elem = Ok (r, a') -> forall n, n <> cyc_marker -> act_has n a' = act_has n a.
  Proof.
    unfold get_field_dyn. destruct (to_cfg_dyn dv fuel0 a elem) as [[c a0]| | |]; cbn [bind]; try discriminate.
    intros H n Hn.
    assert (a' = if act_marked a0 then act_mark a else a) as E.
    { destruct c as [cl|].
      - destruct (get_field fl (l_path cl) (l_val cl)) as [[[pp v]|]|e p| |]; inversion H; reflexivity.
      - destruct fl as [nm|i]; [|destruct i]; inversion H; reflexivity. }
    subst a'. destruct (act_marked a0); [apply act_has_mark; exact Hn|reflexivity].
  Qed.

  Lemma path_walk_restores : forall fs a cur r a',
    get_path_dyn dv fuel0 fs a cur = Ok (r, a') -> forall n, n <> cyc_marker -> act_has n a' = act_has n a.
  Proof.
    induction fs as [|fl rest IH]; intros a cur r a' H n Hn.
    - inversion H. reflexivity.
    - destruct rest as [|f2 rest'].
      + cbn [get_path_dyn] in H.
        destruct (get_field_dyn dv fuel0 fl a cur) as [[r1 a1]| | |] eqn:E; cbn [bind fst snd] in H; try discriminate.
        assert (a' = a1) as Ea by (destruct r1 as [x|e p| |]; inversion H; reflexivity). subst a'.
        exact (path_step_restores fl a cur r1 a1 E n Hn).
      + change (get_path_dyn dv fuel0 (fl :: f2 :: rest') a cur)
          with (x <- get_field_dyn dv fuel0 fl a cur ;;
                match fst x with
                | Ok (Some nxt) => get_path_dyn dv fuel0 (f2 :: rest') (snd x) nxt
                | Ok None => Ok (Err EMissing "", snd x)
                | r => Ok (r, snd x)
                end) in H.
        destruct (get_field_dyn dv fuel0 fl a cur) as [[r1 a1]| | |] eqn:E; cbn [bind fst snd] in H; try discriminate.
        pose proof (path_step_restores fl a cur r1 a1 E n Hn) as S1.
        destruct r1 as [[nxt|]|e p| |]; try (inversion H; subst; exact S1).
        rewrite (IH a1 nxt r a' H n Hn). exact S1.
  Qed.

  (* literal text and escapes evaluate to themselves *)
  Lemma eval_const root a s : eval_exp o dv fuel0 (EConst s) root a = Ok (s, a).
  Proof. reflexivity. Qed.

  (** * Operators *)
  (* ${x:d}: when the reference fails (unset, cyclic, ...) the default is evaluated *)
  Lemma default_on_failure root a l r sep path a1 e pth :
    scoped a (eval_exp o dv fuel0 l root (act_push a)) = Ok (path, a1) -> path <> "" ->
    scoped a1 (ref_eval o dv fuel0 root (act_push a1)
                 (parse_path path sep (p_maxIdx (eo_p o)) (p_numKeys (eo_p o)) (p_escape (eo_p o))) sep)
      = Err e pth ->
    eval_exp o dv fuel0 (EDefault l r sep) root a
    = scoped (absorbed e pth a1) (eval_exp o dv fuel0 r root (act_push (absorbed e pth a1))).
  Proof.
    intros H Hp He. cbn [eval_exp]. rewrite H.
    destruct (String.eqb path "") eqn:E; [apply String.eqb_eq in E; contradiction|].
    rewrite He. reflexivity.
  Qed.

  (* ${x:d}: a set, non-empty x wins over the default *)
  Lemma default_not_used root a l r sep path a1 v a2 :
    scoped a (eval_exp o dv fuel0 l root (act_push a)) = Ok (path, a1) -> path <> "" ->
    scoped a1 (ref_eval o dv fuel0 root (act_push a1)
                 (parse_path path sep (p_maxIdx (eo_p o)) (p_numKeys (eo_p o)) (p_escape (eo_p o))) sep)
      = Ok (v, a2) -> v <> "" ->
    eval_exp o dv fuel0 (EDefault l r sep) root a = Ok (v, a2).
  Proof.
    intros H Hp He Hv. cbn [eval_exp]. rewrite H.
    destruct (String.eqb path "") eqn:E; [apply String.eqb_eq in E; contradiction|].
    rewrite He. destruct (String.eqb v "") eqn:E2; [apply String.eqb_eq in E2; contradiction|reflexivity].
  Qed.

  (* ${x:?m}: fails when x is unset *)
  Lemma error_operator_fails root a l r sep path a1 e pth m a3 :
    scoped a (eval_exp o dv fuel0 l root (act_push a)) = Ok (path, a1) -> path <> "" ->
    scoped a1 (ref_eval o dv fuel0 root (act_push a1)
                 (parse_path path sep (p_maxIdx (eo_p o)) (p_numKeys (eo_p o)) (p_escape (eo_p o))) sep)
      = Err e pth ->
    scoped (absorbed e pth a1) (eval_exp o dv fuel0 r root (act_push (absorbed e pth a1))) = Ok (m, a3) ->
    eval_exp o dv fuel0 (EErr l r sep) root a = mkerr a3 EOther "!raw".
  Proof.
    intros H Hp He Hm. cbn [eval_exp]. rewrite H.
    destruct (String.eqb path "") eqn:E; [apply String.eqb_eq in E; contradiction|].
    rewrite He. rewrite Hm. reflexivity.
  Qed.

  (* ${x:+a}: empty when x is unset *)
  Lemma alternative_unset_is_empty root a l r sep path a1 e pth :
    scoped a (eval_exp o dv fuel0 l root (act_push a)) = Ok (path, a1) -> path <> "" ->
    scoped a1 (ref_resolve o dv fuel0 root (act_push a1)
                 (parse_path path sep (p_maxIdx (eo_p o)) (p_numKeys (eo_p o)) (p_escape (eo_p o))) sep)
      = Err e pth ->
    eval_exp o dv fuel0 (EAlt l r sep) root a = Ok ("", absorbed e pth a1).
  Proof.
    intros H Hp He. cbn [eval_exp]. rewrite H.
    destruct (String.eqb path "") eqn:E; [apply String.eqb_eq in E; contradiction|].
    rewrite He. reflexivity.
  Qed.
End Generic.

(* a concrete diamond / repeated use / cycle, evaluated by the model *)
Definition demo_opts : eopts :=
  {| eo_p := {| p_sep := "."; p_maxIdx := 1024; p_numKeys := false; p_escape := false |};
     eo_envs := []; eo_res := []; eo_noparse := false; eo_nocomma := false;
     eo_n := {| n_p := {| p_sep := "."; p_maxIdx := 1024; p_numKeys := false; p_escape := false |};
                n_varexp := true; n_m := {| m_h := 0%N; m_ft := None |} |};
     eo_ftext := [] |}.

Definition demo_root : value :=
  match normalize (eo_n demo_opts)
          (GMap true [(KStr "a", GStr "x");
                      (KStr "twice", GStr "${a}-${a}");
                      (KStr "d1", GStr "${a}1"); (KStr "d2", GStr "${a}2");
                      (KStr "diamond", GStr "${d1}${d2}");
                      (KStr "self", GStr "${self}");
                      (KStr "p", GStr "${q}"); (KStr "q", GStr "${p}");
                      (KStr "saved", GStr "${p:dflt}")]) with
  | Ok v => v
  | _ => VNil
  end.

Lemma demo_reads :
  read_string demo_opts 60 demo_root "twice" (-1) = Ok "x-x"
  /\ read_string demo_opts 60 demo_root "diamond" (-1) = Ok "x1x2"
  /\ read_string demo_opts 60 demo_root "self" (-1) = Err ECyclic ""
  /\ read_string demo_opts 60 demo_root "p" (-1) = Err ECyclic ""
  /\ read_string demo_opts 60 demo_root "saved" (-1) = Ok "dflt".
Proof. vm_compute. repeat split; reflexivity. Qed.

(** * literal text and escapes (the lexer/parser of variables.go) *)
Lemma index_any_dollar_none s : mem_ascii "$"%char s = false -> index_any s "$" = None.
Proof.
  induction s as [|a r IH]; cbn [mem_ascii index_any]; intro H; [reflexivity|].
  apply Bool.orb_false_elim in H. destruct H as [Ha Hr].
  assert (Ascii.eqb a "$"%char = false) as E by (rewrite Ascii.eqb_sym; exact Ha).
  rewrite E. cbn [orb]. rewrite (IH Hr). reflexivity.
Qed.

(* a string without a dollar sign is literal text, whatever else it contains *)
Theorem text_without_dollar_is_literal sep maxIdx nk esc s :
  s <> "" -> mem_ascii "$"%char s = false -> parse_splice sep maxIdx nk esc s = inl (EConst s).
Proof.
  intros Hne Hd. unfold parse_splice, lexer. cbn [lex_go].
  destruct s as [|a r]; [contradiction|].
  change (sdrop 0 (String a r)) with (String a r). cbn [Nat.eqb].
  rewrite (index_any_dollar_none (String a r) Hd).
  unfold str_tok. cbn [String.eqb rev app]. reflexivity.
Qed.

Lemma escape_examples :
  parse_splice "." 1024 false false "$$" = inl (EConst "$")
  /\ parse_splice "." 1024 false false "$}" = inl (EConst "}")
  /\ parse_splice "." 1024 false false "a$$b$}c" = inl (EConst "a$b}c")
  /\ parse_splice "." 1024 false false "$${x}" = inl (EConst "${x}")
  /\ parse_splice "." 1024 false false "${x}" = inl (ERef [FName "x"] ".")
  /\ parse_splice "." 1024 false false "${x:d}" = inl (EDefault (EConst "x") (EConst "d") ".").
Proof. vm_compute. repeat split; reflexivity. Qed.
