(* CorrC11.v — reads are pure: the object graph of a config (contents, identities, parent
   links, path) is the same before and after every read, a read gives the same result when
   repeated, and reads performed by several goroutines at once give the results they give
   alone.  (Data races are reported by the race detector the harness is built with.) *)
From Ucfg Require Export CorrC10.

Inductive case :=
| CRead11 (what : string) (before after : snap) (r1 r2 : string)
| CConc11 (goroutines : N) (before after : snap) (alone together : list (string * string)).

Definition model_agrees (c : case) : bool := true.
Definition skipped (c : case) : bool := false.

Definition no_panic_text (s : string) : bool := negb (String.prefix "PANIC" s).

Definition prop_holds (c : case) : bool :=
  match c with
  | CRead11 _ b a r1 r2 => snap_eqb b a && String.eqb r1 r2 && no_panic_text r1
  | CConc11 _ b a alone together =>
    snap_eqb b a && reads_eqb alone together && forallb (fun x => no_panic_text (snd x)) together
  end.

Definition signature (c : case) : N := 0%N.

Definition verdict (c : case) : N :=
  ((if model_agrees c then 0 else 1) + (if prop_holds c then 0 else 2))%N.

Fixpoint run_cases (i : N) (cs : list case) : list (N * N * N) :=
  match cs with
  | [] => []
  | c :: r =>
    let v := verdict c in
    if (v =? 0)%N then run_cases (i + 1)%N r
    else (i, v, signature c) :: run_cases (i + 1)%N r
  end.
