(* ProofsFrameNested.v — C13 through nesting: for every struct type built from primitive fields
   and struct fields to any depth, every pre-filled value of that shape and every configuration,
   the result of a successful Unpack satisfies [frame_ok] - the recursive frame condition the
   correspondence check evaluates on what the implementation returned: at every depth a field
   the configuration has no setting for (absent, or null), an ignored field and an unexported
   field keep the value they had. *)
From Ucfg Require Import Base ParseInt Consts Field Tree PathOps Merge OTree F64 Conv Reify ProofsReify ProofsValid
     ProofsValidNested CorrC04 CorrC13.
Local Open Scope nat_scope.

(** values of such types *)
Fixpoint plain_gv (v : gv) : bool :=
  match v with
  | GP _ => true
  | GStructV l => (fix go (l : list gv) : bool := match l with [] => true | x :: r => plain_gv x && go r end) l
  | _ => false
  end.

Lemma cval_eqb_refl c : cval_eqb c c = true.
Proof.
  destruct c; cbn [cval_eqb]; try apply Z.eqb_refl; [destruct b; reflexivity|apply String.eqb_refl].
Qed.

Lemma gv_eqb_refl_plain : forall v, plain_gv v = true -> gv_eqb v v = true.
Proof.
  fix IH 1. intros v H. destruct v as [c| | | | | | | | | |fs| |]; try discriminate H.
  - cbn [gv_eqb]. apply cval_eqb_refl.
  - cbn [gv_eqb]. cbn [plain_gv] in H. induction fs as [|x r IHr]; [reflexivity|].
    apply Bool.andb_true_iff in H. destruct H as [H1 H2]. rewrite (IH x H1). cbn [andb]. exact (IHr H2).
Qed.

(** the field walk of frame_ok, named *)
Fixpoint frame_fields (o : ropts) (cfg : value) (fl : list (string * string * string * ty)) (ol nl : list gv) : bool :=
  match fl, ol, nl with
  | (goname, ctag, _, ft) :: fr, x :: orr, y :: nr =>
    (if negb (is_upper_first goname) || tag_ignore ctag then gv_eqb x y
     else if tag_squash ctag then true
     else
       let name := if String.eqb (tag_name ctag) "" then lower_ascii_str goname else tag_name ctag in
       match get_path "" (opts_path (r_p o) name) cfg with
       | Ok (Some (_, VNil)) | Ok None | Err EMissing _ =>
         match ft with
         | TStruct _ => frame_ok o ft VNil x y
         | _ => gv_eqb x y
         end
       | Ok (Some (_, v)) =>
         match ft with
         | TStruct _ => frame_ok o ft v x y
         | _ => true
         end
       | _ => true
       end)
    && frame_fields o cfg fr orr nr
  | _, _, _ => true
  end.

Lemma frame_ok_struct o fs cfg os ns :
  frame_ok o (TStruct fs) cfg (GStructV os) (GStructV ns) = frame_fields o cfg fs os ns.
Proof.
  cbn [frame_ok]. revert os ns. induction fs as [|[[[goname ctag] vt] ft] fr IH]; intros os ns; [reflexivity|].
  destruct os as [|x orr]; [reflexivity|]. destruct ns as [|y nr]; [reflexivity|].
  cbn [frame_fields]. rewrite <- IH. reflexivity.
Qed.

(** configurations that answer every non-empty path alike *)
Definition cfg_equiv (c c' : value) : Prop := forall p, p <> [] -> get_path "" p c = get_path "" p c'.

Lemma cfg_equiv_refl c : cfg_equiv c c.
Proof. intros p _. reflexivity. Qed.

Lemma cfg_equiv_nil : cfg_equiv (VSub [] None) VNil.
Proof.
  intros p Hp. destruct p as [|f rest]; [contradiction|]. unfold get_path.
  destruct rest as [|f2 rest']; destruct f; reflexivity.
Qed.

Lemma split_go_nonempty fuel sep cur s : split_go fuel sep cur s <> [].
Proof.
  destruct fuel as [|f]; [discriminate|]. cbn [split_go]. destruct s as [|a r]; [discriminate|].
  destruct (String.prefix sep (String a r)); [discriminate|].
  revert cur a r. induction f as [|f IH]; intros cur a r; [discriminate|].
  cbn [split_go]. destruct r as [|b r']; [discriminate|]. destruct (String.prefix sep (String b r')); [discriminate|]. apply IH.
Qed.

Lemma opts_path_nonempty po name : opts_path po name <> [].
Proof.
  unfold opts_path, parse_path. destruct (String.eqb (p_sep po) "" || (p_escape po && escape_match name)); [discriminate|].
  cbv zeta. pose proof (split_go_nonempty (S (String.length name)) (p_sep po) EmptyString name) as N.
  unfold split. destruct (split_go (S (String.length name)) (p_sep po) EmptyString name); [contradiction|discriminate].
Qed.

Definition struct_frame (f : nat) : Prop :=
  forall o fs vs cfg g, Forall plain_field fs -> plain_gv (GStructV vs) = true ->
    reify_struct f o (TStruct fs) (GStructV vs) cfg = Ok g ->
    exists r, g = GStructV r /\
      forall o2 cfg', r_p o2 = r_p o -> cfg_equiv cfg cfg' -> frame_fields o2 cfg' fs vs r = true.

Lemma loop_frame f (IH : forall f', f' < f -> struct_frame f') o cfg : forall fs vs r,
  Forall plain_field fs -> plain_gv (GStructV vs) = true ->
  struct_loop f o cfg fs vs = Ok r ->
  forall o2 cfg', r_p o2 = r_p o -> cfg_equiv cfg cfg' -> frame_fields o2 cfg' fs vs r = true.
Proof.
  induction fs as [|[[[goname ctag] vtagtext] ft] fr IHf]; intros vs r F PG H o2 cfg' Ho Hc; [reflexivity|].
  destruct vs as [|x vr]; [reflexivity|].
  inversion F as [|? ? Hp Fr]; subst. inversion Hp as [? ? ? ? Hs Hty Hv]; subst.
  cbn [plain_gv] in PG. apply Bool.andb_true_iff in PG. destruct PG as [Px Pr].
  cbn [struct_loop] in H. fold (struct_loop f o cfg) in H.
  destruct (negb (is_upper_first goname) || tag_ignore ctag) eqn:U.
  - destruct (struct_loop f o cfg fr vr) as [rest| | |] eqn:Er; simpl in H; try discriminate.
    inversion H; subst. cbn [frame_fields]. rewrite U. rewrite (gv_eqb_refl_plain x Px). cbn [andb].
    exact (IHf vr rest Fr Pr Er o2 cfg' Ho Hc).
  - destruct (parse_vtags vtagtext) as [vts|] eqn:Pv; [|discriminate].
    rewrite Hs in H. cbv zeta in H.
    match type of H with (bind ?Y _) = _ => destruct Y as [y| | |] eqn:Ey end; simpl in H; try discriminate.
    destruct (struct_loop f o cfg fr vr) as [rest| | |] eqn:Er; simpl in H; try discriminate.
    inversion H; subst. cbn [frame_fields]. rewrite U, Hs. cbv zeta.
    rewrite (IHf vr rest Fr Pr Er o2 cfg' Ho Hc). rewrite Bool.andb_true_r.
    cbn [r_p] in Ey. rewrite Ho.
    set (name := if String.eqb (tag_name ctag) "" then lower_ascii_str goname else tag_name ctag) in *.
    rewrite <- (Hc (opts_path (r_p o) name) (opts_path_nonempty _ _)).
    destruct (get_path "" (opts_path (r_p o) name) cfg) as [[[pth v0]|]|e pe| |] eqn:G; cbn [bind] in Ey; try discriminate.
    + (* a setting is there *)
      destruct (is_nil (Some v0)) eqn:Nv.
      * (* null *)
        destruct v0; try discriminate Nv.
        inversion Hty as [k|fs' Ffs']; subst.
        -- destruct (rec_validate (r_vo o) (TPrim k) x vts) as [[]| | |]; cbn [bind] in Ey; try discriminate.
           inversion Ey; subst. apply gv_eqb_refl_plain. exact Px.
        -- destruct f as [|f1]; [discriminate Ey|]. rewrite reify_merge_struct in Ey. cbn [to_cfg] in Ey.
           destruct f1 as [|f0]; [discriminate Ey|].
           destruct x; try (cbn [reify_struct] in Ey; discriminate Ey).
           match type of Ey with reify_struct _ ?o' _ (GStructV ?vs') _ = _ =>
             destruct (IH (S f0) ltac:(auto) o' fs' vs' (VSub [] None) y Ffs' Px Ey) as [r' [Ey' Fr']] end. subst y.
           rewrite frame_ok_struct. apply Fr'; [exact Ho|apply cfg_equiv_nil].
      * (* a value *)
        inversion Hty as [k|fs' Ffs']; subst.
        -- destruct v0; try discriminate Nv; reflexivity.
        -- apply in_seg_ok in Ey.
           destruct f as [|f1]; [discriminate Ey|]. rewrite reify_merge_struct in Ey.
           destruct v0 as [ | | | | | | | |d a]; try discriminate Ey; try discriminate Nv.
           cbn [to_cfg] in Ey. destruct f1 as [|f0]; [discriminate Ey|].
           destruct x; try (cbn [reify_struct] in Ey; discriminate Ey).
           match type of Ey with reify_struct _ ?o' _ (GStructV ?vs') _ = _ =>
             destruct (IH (S f0) ltac:(auto) o' fs' vs' (VSub d a) y Ffs' Px Ey) as [r' [Ey' Fr']] end. subst y.
           rewrite frame_ok_struct. apply Fr'; [exact Ho|apply cfg_equiv_refl].
    + (* no setting *)
      cbn [is_nil] in Ey. inversion Hty as [k|fs' Ffs']; subst.
      * destruct (rec_validate (r_vo o) (TPrim k) x vts) as [[]| | |]; cbn [bind] in Ey; try discriminate.
        inversion Ey; subst. apply gv_eqb_refl_plain. exact Px.
      * destruct f as [|f1]; [discriminate Ey|]. rewrite reify_merge_struct in Ey. cbn [to_cfg] in Ey.
        destruct f1 as [|f0]; [discriminate Ey|].
        destruct x; try (cbn [reify_struct] in Ey; discriminate Ey).
        match type of Ey with reify_struct _ ?o' _ (GStructV ?vs') _ = _ =>
          destruct (IH (S f0) ltac:(auto) o' fs' vs' (VSub [] None) y Ffs' Px Ey) as [r' [Ey' Fr']] end. subst y.
        rewrite frame_ok_struct. apply Fr'; [exact Ho|apply cfg_equiv_nil].
    + (* the path ends early: a missing setting; any other error fails the Unpack *)
      destruct e; cbn [bind] in Ey; try discriminate Ey.
      cbn [is_nil] in Ey. inversion Hty as [k|fs' Ffs']; subst.
      * destruct (rec_validate (r_vo o) (TPrim k) x vts) as [[]| | |]; cbn [bind] in Ey; try discriminate.
        inversion Ey; subst. apply gv_eqb_refl_plain. exact Px.
      * destruct f as [|f1]; [discriminate Ey|]. rewrite reify_merge_struct in Ey. cbn [to_cfg] in Ey.
        destruct f1 as [|f0]; [discriminate Ey|].
        destruct x; try (cbn [reify_struct] in Ey; discriminate Ey).
        match type of Ey with reify_struct _ ?o' _ (GStructV ?vs') _ = _ =>
          destruct (IH (S f0) ltac:(auto) o' fs' vs' (VSub [] None) y Ffs' Px Ey) as [r' [Ey' Fr']] end. subst y.
        rewrite frame_ok_struct. apply Fr'; [exact Ho|apply cfg_equiv_nil].
Qed.

Lemma struct_frame_below : forall n f, f < n -> struct_frame f.
Proof.
  induction n as [|n IH]; intros f L; [inversion L|].
  intros o fs vs cfg g F PG H. destruct f as [|f1]; [discriminate H|].
  rewrite reify_struct_unfold in H.
  destruct (struct_loop f1 o cfg fs vs) as [r| | |] eqn:E; cbn [bind] in H; try discriminate.
  inversion H; subst. exists r. split; [reflexivity|].
  apply (loop_frame f1) with (cfg := cfg); [|exact F|exact PG|exact E].
  intros f' L'. apply IH. apply PeanoNat.Nat.lt_le_trans with f1; [exact L'|]. apply le_S_n. apply le_S_n. apply le_S. exact L.
Qed.

(* Unpack into a struct of primitives and structs, to any depth: what the configuration does not
   mention is as it was *)
Theorem nested_struct_frame f o fs vs cfg g :
  Forall plain_field fs -> plain_gv (GStructV vs) = true ->
  reify_struct f o (TStruct fs) (GStructV vs) cfg = Ok g ->
  frame_ok o (TStruct fs) cfg (GStructV vs) g = true.
Proof.
  intros F PG H.
  destruct (struct_frame_below (S f) f (PeanoNat.Nat.lt_succ_diag_r f) o fs vs cfg g F PG H) as [r [Eg Fr]].
  subst g. rewrite frame_ok_struct. apply Fr; [reflexivity|apply cfg_equiv_refl].
Qed.

(* non-vacuity, and the check function is not constantly true: only the mentioned nested field
   changes; a result that also changed an unmentioned one is rejected by frame_ok *)
Example nested_frame_example :
  let o := {| r_p := {| p_sep := "."; p_maxIdx := 1024; p_numKeys := false; p_escape := false |}; r_h := 0%N;
              r_vo := {| vo_dur := fun _ => None |}; r_ft := [] |} in
  let inner := TStruct [("Port", "port", "", TPrim (KInt 64)); ("Name", "", "", TPrim KString)] in
  let t := [("Srv", "srv", "", inner); ("Retries", "", "", TPrim (KInt 64)); ("skip", "", "", TPrim (KInt 64))] in
  let old := [GStructV [GP (CI 1); GP (CS "n")]; GP (CI 3); GP (CI 7)] in
  let cfg := VSub [("srv", ("srv", VSub [("port", ("port", VUint 8080))] None))] None in
  reify_struct 8 o (TStruct t) (GStructV old) cfg
  = Ok (GStructV [GStructV [GP (CI 8080); GP (CS "n")]; GP (CI 3); GP (CI 7)])
  /\ frame_ok o (TStruct t) cfg (GStructV old) (GStructV [GStructV [GP (CI 8080); GP (CS "n")]; GP (CI 3); GP (CI 7)]) = true
  /\ frame_ok o (TStruct t) cfg (GStructV old) (GStructV [GStructV [GP (CI 8080); GP (CS "changed")]; GP (CI 3); GP (CI 7)]) = false
  /\ frame_ok o (TStruct t) cfg (GStructV old) (GStructV [GStructV [GP (CI 8080); GP (CS "n")]; GP (CI 4); GP (CI 7)]) = false.
Proof. vm_compute. repeat split. Qed.
