(* ProofsNormData.v — C05, data in = data out: a plain data tree given as generic maps and
   lists normalizes to a config whose generic view (cfgSub.reify) is the same data. *)
From Coq Require Import Permutation Sorting.Sorted OrderedTypeEx.
From Ucfg Require Import Base ParseInt Consts Field Tree PathOps Merge OTree VarParse Normalize
     ProofsTree ProofsNormalize.

(** the generic Go representation of a data tree: map[string]interface{} / []interface{} *)
Fixpoint gval_of (t : otree) : gval :=
  match t with
  | ONil | ODyn => GNil
  | OBool b => GBool b
  | OInt z => GInt z
  | OUint z => GUint z
  | OFloat f => GFloat f
  | OStr s => GStr s
  | OList l => GList (map gval_of l)
  | OMap m => GMap true ((fix go (l : list (string * otree)) : list (gkey * gval) :=
                            match l with [] => [] | (k, x) :: r => (KStr k, gval_of x) :: go r end) m)
  end.

(** what Unpack into interface{} returns for it: positive integers come back unsigned, an
    empty object comes back as nil; everything else is unchanged *)
Fixpoint back (t : otree) : otree :=
  match t with
  | OInt z => if 0 <? z then OUint z else OInt z
  | OList l => OList (map back l)
  | OMap [] => ONil
  | OMap m => OMap ((fix go (l : list (string * otree)) : list (string * otree) :=
                       match l with [] => [] | (k, x) :: r => (k, back x) :: go r end) m)
  | _ => t
  end.

Definition map_back (m : list (string * otree)) : list (string * otree) :=
  (fix go (l : list (string * otree)) : list (string * otree) :=
     match l with [] => [] | (k, x) :: r => (k, back x) :: go r end) m.

Definition map_gval (m : list (string * otree)) : list (gkey * gval) :=
  (fix go (l : list (string * otree)) : list (gkey * gval) :=
     match l with [] => [] | (k, x) :: r => (KStr k, gval_of x) :: go r end) m.

(** plain data: no unevaluated reference; the keys of every map are names (not list indices)
    in strictly ascending order (any other enumeration order gives the same config: C09) *)
Section Plain.
  Variable o : nopts.
  Definition name_like (k : string) : Prop :=
    parse_field k (p_maxIdx (n_p o)) (p_numKeys (n_p o)) = FName k.
  Definition key_lt (a b : string * otree) : Prop := String.compare (fst a) (fst b) = Lt.

  Inductive plain : otree -> Prop :=
  | pl_nil : plain ONil
  | pl_bool b : plain (OBool b)
  | pl_int z : plain (OInt z)
  | pl_uint z : plain (OUint z)
  | pl_float f : plain (OFloat f)
  | pl_str s : plain (OStr s)
  | pl_list l : Forall plain l -> plain (OList l)
  | pl_map m : Forall (fun kv => name_like (fst kv) /\ plain (snd kv)) m ->
               StronglySorted key_lt m -> plain (OMap m).
End Plain.

(** * Dictionary facts *)
Lemma compare_gt_lt a b : String.compare a b = Lt -> String.compare b a = Gt.
Proof. intro H. rewrite String.compare_antisym, H. reflexivity. Qed.

Lemma dict_set_append {A} k (x : A) d :
  Forall (fun e => String.compare (fst e) k = Lt) d -> dict_set k x d = d ++ [(k, x)].
Proof.
  induction d as [|[k2 y] r IH]; simpl; intro F; [reflexivity|].
  inversion F as [|? ? H Fr]; subst. simpl in H. rewrite (compare_gt_lt _ _ H).
  rewrite IH; auto.
Qed.

Lemma dict_get_absent {A} k (d : list (string * A)) :
  Forall (fun e => String.compare (fst e) k = Lt) d -> dict_get k d = None.
Proof.
  induction d as [|[k2 y] r IH]; simpl; intro F; [reflexivity|].
  inversion F as [|? ? H Fr]; subst. simpl in H.
  destruct (String.eqb k k2) eqn:E.
  - apply String.eqb_eq in E. subst. rewrite string_compare_refl in H. discriminate.
  - apply IH; auto.
Qed.

Lemma compare_lt_trans a b c : String.compare a b = Lt -> String.compare b c = Lt -> String.compare a c = Lt.
Proof.
  intros H1 H2. apply String_as_OT.cmp_lt. apply String_as_OT.cmp_lt in H1. apply String_as_OT.cmp_lt in H2.
  eapply String_as_OT.lt_trans; eauto.
Qed.

(** * One insertion: a fresh name, greater than every name present, is appended *)
Section Step.
  Variable o : nopts.
  Hypothesis no_sep : p_sep (n_p o) = "".

  Lemma opts_path_name k : name_like o k -> opts_path (n_p o) k = [FName k].
  Proof.
    intro H. unfold opts_path, parse_path. rewrite no_sep. simpl. unfold name_like in H. rewrite H. reflexivity.
  Qed.

  Lemma set_field_norm_fresh d k v :
    name_like o k -> Forall (fun e => String.compare (fst e) k = Lt) d ->
    set_field_norm o (VSub d None) k None v = Ok (VSub (d ++ [(k, (k, v))]) None).
  Proof.
    intros Hn F. unfold set_field_norm. rewrite (opts_path_name k Hn).
    unfold get_path. simpl. unfold nv in *.
    destruct (dict_get k d) as [[nm v0]|] eqn:G.
    { rewrite (dict_get_absent k d F) in G. discriminate. }
    simpl. rewrite (dict_set_append k (k, v) d F). reflexivity.
  Qed.
End Step.

(** * The sorted visit of an ascending list is the list itself *)
Lemma kv_sort_sorted_id (l : list (string * nres)) :
  StronglySorted (fun a b => String.compare (fst a) (fst b) = Lt) l -> kv_sort l = l.
Proof.
  induction l as [|[k x] r IH]; simpl; intro S; [reflexivity|].
  inversion S as [|? ? Sr Ha]; subst. rewrite (IH Sr).
  destruct r as [|[k2 y] r2]; simpl; [reflexivity|].
  inversion Ha as [|? ? H _]; subst. simpl in H. unfold String.leb. rewrite H. reflexivity.
Qed.

(** * Induction principle for nested data trees *)
Section OInd.
  Variable P : otree -> Prop.
  Hypothesis Hnil : P ONil.
  Hypothesis Hbool : forall b, P (OBool b).
  Hypothesis Hint : forall z, P (OInt z).
  Hypothesis Huint : forall z, P (OUint z).
  Hypothesis Hfloat : forall f, P (OFloat f).
  Hypothesis Hstr : forall s, P (OStr s).
  Hypothesis Hdyn : P ODyn.
  Hypothesis Hlist : forall l, Forall P l -> P (OList l).
  Hypothesis Hmap : forall m, Forall (fun kv => P (snd kv)) m -> P (OMap m).
  Fixpoint otree_ind' (t : otree) : P t :=
    match t with
    | ONil => Hnil | OBool b => Hbool b | OInt z => Hint z | OUint z => Huint z
    | OFloat f => Hfloat f | OStr s => Hstr s | ODyn => Hdyn
    | OList l => Hlist l ((fix go (l : list otree) : Forall P l :=
                             match l with [] => Forall_nil P | x :: r => Forall_cons x (otree_ind' x) (go r) end) l)
    | OMap m => Hmap m ((fix go (l : list (string * otree)) : Forall (fun kv => P (snd kv)) l :=
                           match l with
                           | [] => Forall_nil _
                           | (k, x) :: r => Forall_cons (k, x) (otree_ind' x) (go r)
                           end) m)
    end.
End OInd.

(** * The theorem *)
Section Roundtrip.
  Variable o : nopts.
  Hypothesis no_sep : p_sep (n_p o) = "".
  Hypothesis no_varexp : n_varexp o = false.

  (* the list loop of normalize_value *)
  Definition list_loop :=
    fix go (i : Z) (l : list gval) : res (list nv) :=
      match l with
      | [] => Ok []
      | x :: r =>
        y <- normalize_value o x ;;
        rest <- go (i + 1) r ;;
        Ok ((match snd y with Some n => n | None => dec i end, fst y) :: rest)
      end.

  Definition strip_arr (l : list (string * value)) : list otree :=
    (fix ga (l : list (string * value)) : list otree :=
       match l with [] => [] | (_, x) :: r => strip x :: ga r end) l.
  Definition strip_dict (d : list (string * (string * value))) : list (string * otree) :=
    (fix gd (l : list (string * (string * value))) : list (string * otree) :=
       match l with [] => [] | (k, (_, x)) :: r => (k, strip x) :: gd r end) d.

  Lemma strip_dict_app d1 d2 : strip_dict (d1 ++ d2) = strip_dict d1 ++ strip_dict d2.
  Proof. induction d1 as [|[k [n x]] r IH]; simpl; [reflexivity|]. f_equal. exact IH. Qed.

  Lemma list_loop_ok l : forall i,
    Forall (fun t => plain o t ->
                     exists v, normalize_value o (gval_of t) = Ok (v, None) /\ strip v = back t) l ->
    Forall (plain o) l ->
    exists els, list_loop i (map gval_of l) = Ok els /\ strip_arr els = map back l.
  Proof.
    induction l as [|t r IH]; intros i F PL; simpl.
    - exists []. split; reflexivity.
    - inversion F as [|? ? Ht Fr]; subst. inversion PL as [|? ? Pt Pr]; subst.
      destruct (Ht Pt) as [v [Ev Sv]]. rewrite Ev. simpl.
      destruct (IH (i + 1) Fr Pr) as [els [Ee Se]]. fold list_loop. rewrite Ee. simpl.
      eexists. split; [reflexivity|]. simpl. rewrite Sv. f_equal. exact Se.
  Qed.

  (* the visit of a map whose names ascend: every entry is appended *)
  Lemma set_fields_ok m : forall d,
    Forall (fun kv => name_like o (fst kv) /\
                      (plain o (snd kv) ->
                       exists v, normalize_value o (gval_of (snd kv)) = Ok (v, None) /\ strip v = back (snd kv))) m ->
    Forall (fun kv => plain o (snd kv)) m ->
    StronglySorted (key_lt) m ->
    Forall (fun e => Forall (fun kv => String.compare (fst e) (fst kv) = Lt) m) d ->
    exists d', set_fields_norm o (VSub d None)
                 (map (fun kv => (fst kv, normalize_value o (gval_of (snd kv)))) m) = Ok (VSub (d ++ d') None)
               /\ strip_dict d' = map_back m.
  Proof.
    induction m as [|[k t] r IH]; intros d F PL S Fd; simpl.
    - exists []. rewrite app_nil_r. split; reflexivity.
    - inversion F as [|? ? [Hn Ht] Fr]; subst. inversion PL as [|? ? Pt Pr]; subst.
      inversion S as [|? ? Sr Hk]; subst. simpl in *.
      destruct (Ht Pt) as [v [Ev Sv]]. rewrite Ev. simpl.
      rewrite (set_field_norm_fresh o no_sep d k v Hn).
      2:{ rewrite Forall_forall in *. intros e He. specialize (Fd e He). inversion Fd; auto. }
      simpl.
      destruct (IH (d ++ [(k, (k, v))]) Fr Pr Sr) as [d' [Ed Sd]].
      { apply Forall_app. split.
        - rewrite Forall_forall in *. intros e He. specialize (Fd e He). inversion Fd; auto.
        - constructor; [|constructor]. simpl. exact Hk. }
      rewrite Ed. exists ((k, (k, v)) :: d'). rewrite <- app_assoc. simpl. split; [reflexivity|].
      rewrite Sv. f_equal. exact Sd.
  Qed.

  Lemma norm_entries_map_gval (m : list (string * otree)) :
    norm_entries o (map_gval m)
    = map (fun kv => (KStr (fst kv), normalize_value o (gval_of (snd kv)))) m.
  Proof.
    induction m as [|[k t] r IH]; [reflexivity|].
    change (map_gval ((k, t) :: r)) with ((KStr k, gval_of t) :: map_gval r).
    unfold norm_entries in *. simpl. f_equal. exact IH.
  Qed.

  Lemma kv_names_all_str (m : list (string * otree)) :
    kv_names (norm_entries o (map_gval m))
    = Some (map (fun kv => (fst kv, normalize_value o (gval_of (snd kv)))) m).
  Proof.
    rewrite norm_entries_map_gval.
    induction m as [|[k t] r IH]; simpl; [reflexivity|]. rewrite IH. reflexivity.
  Qed.

  Theorem normalize_value_back : forall t, plain o t ->
    exists v, normalize_value o (gval_of t) = Ok (v, None) /\ strip v = back t.
  Proof.
    induction t using otree_ind'; intro PL.
    - exists VNil. split; reflexivity.
    - eexists. split; reflexivity.
    - simpl. destruct (0 <? z); eexists; split; reflexivity.
    - eexists. split; reflexivity.
    - eexists. split; reflexivity.
    - simpl. unfold normalize_string. rewrite no_varexp. simpl. eexists. split; reflexivity.
    - inversion PL.
    - inversion PL as [| | | | | |l' PLl|]; subst.
      change (gval_of (OList l)) with (GList (map gval_of l)).
      rewrite normalize_value_list.
      destruct (list_loop_ok l 0 H PLl) as [els [Ee Se]]. unfold list_loop in Ee. rewrite Ee. simpl.
      eexists. split; [reflexivity|].
      change (strip (VSub [] (Some els))) with
          (match strip_arr els with
           | [] => OList []
           | _ :: _ => OList (strip_arr els)
           end).
      rewrite Se. simpl. destruct (map back l) eqn:E; [|reflexivity].
      destruct l; [reflexivity|discriminate].
    - inversion PL as [| | | | | | |m' PLm Sm]; subst.
      change (gval_of (OMap m)) with (GMap true (map_gval m)).
      rewrite normalize_value_map. simpl. unfold map_into. rewrite kv_names_all_str.
      rewrite kv_sort_sorted_id.
      2:{ clear -Sm. induction Sm as [|a r Sr IH Ha]; simpl; constructor; auto.
          rewrite Forall_forall in *. intros x Hx. apply in_map_iff in Hx.
          destruct Hx as [y [Ey Hy]]. subst x. simpl. apply (Ha y Hy). }
      destruct (set_fields_ok m [] ) as [d' [Ed Sd]]; auto.
      + rewrite Forall_forall in *. intros kv Hkv. split; [apply (PLm kv Hkv)|]. apply (H kv Hkv).
      + rewrite Forall_forall in *. intros kv Hkv. apply (PLm kv Hkv).
      + unfold empty_cfg. rewrite Ed. simpl. eexists. split; [reflexivity|].
        change (strip (VSub d' None)) with
            (match strip_dict d' with
             | [] => ONil
             | _ :: _ => OMap (strip_dict d')
             end).
        rewrite Sd. destruct m as [|[k x] r]; reflexivity.
  Qed.
End Roundtrip.

(** numbers are compared by value, nil and empty containers are one observation *)
Fixpoint numc (t : otree) : otree :=
  match t with
  | OUint z => OInt z
  | OList l => OList (map numc l)
  | OMap m => OMap ((fix go (l : list (string * otree)) :=
                       match l with [] => [] | (k, x) :: r => (k, numc x) :: go r end) m)
  | _ => t
  end.

Lemma back_same_data : forall t, canon (numc (back t)) = canon (numc t).
Proof.
  induction t using otree_ind'; try reflexivity.
  - simpl. destruct (0 <? z); reflexivity.
  - simpl. destruct l as [|a r]; [reflexivity|].
    inversion H as [|? ? Ha Hr]; subst. simpl. rewrite Ha. f_equal. f_equal.
    clear -Hr. induction Hr as [|b r' Hb Hr' IH]; simpl; [reflexivity|]. rewrite Hb, IH. reflexivity.
  - destruct m as [|[k x] r]; [reflexivity|].
    inversion H as [|? ? Ha Hr]; subst. simpl in *. rewrite Ha. f_equal. f_equal.
    clear -Hr. induction Hr as [|[k2 b] r' Hb Hr' IH]; simpl; [reflexivity|]. simpl in Hb. rewrite Hb, IH. reflexivity.
Qed.

(** * Feeding the result back in *)
Lemma map_back_cons k x r : map_back ((k, x) :: r) = (k, back x) :: map_back r.
Proof. reflexivity. Qed.

Lemma back_idem : forall t, back (back t) = back t.
Proof.
  induction t using otree_ind'; try reflexivity.
  - simpl. destruct (0 <? z) eqn:E; simpl; [reflexivity|rewrite E; reflexivity].
  - simpl. f_equal. rewrite map_map. induction H as [|a r Ha Hr IH]; simpl; [reflexivity|]. rewrite Ha, IH. reflexivity.
  - destruct m as [|[k x] r]; [reflexivity|].
    change (back (OMap ((k, x) :: r))) with (OMap ((k, back x) :: map_back r)).
    change (back (OMap ((k, back x) :: map_back r))) with (OMap ((k, back (back x)) :: map_back (map_back r))).
    inversion H as [|? ? Ha Hr]; subst. simpl in Ha. rewrite Ha. f_equal. f_equal.
    clear -Hr. induction Hr as [|[k2 b] r' Hb Hr' IH]; [reflexivity|].
    rewrite !map_back_cons. simpl in Hb. rewrite Hb, IH. reflexivity.
Qed.

Lemma plain_back o : forall t, plain o t -> plain o (back t).
Proof.
  induction t using otree_ind'; intro PL; try exact PL.
  - simpl. destruct (0 <? z); constructor.
  - inversion PL as [| | | | | |l' PLl|]; subst. simpl. constructor.
    rewrite Forall_forall in *. intros x Hx. apply in_map_iff in Hx. destruct Hx as [y [Ey Hy]]. subst x.
    apply H; auto.
  - inversion PL as [| | | | | | |m' PLm Sm]; subst.
    destruct m as [|[k x] r]; [constructor|].
    change (back (OMap ((k, x) :: r))) with (OMap (map_back ((k, x) :: r))).
    constructor.
    + clear Sm. rewrite Forall_forall in *. intros kv Hkv.
      assert (exists kv0, In kv0 ((k, x) :: r) /\ kv = (fst kv0, back (snd kv0))) as [kv0 [Hin E]].
      { clear -Hkv. revert Hkv. generalize ((k, x) :: r) as mm. induction mm as [|[k2 b] r' IH]; [intros []|].
        rewrite map_back_cons. intros [E|Hin].
        - exists (k2, b). split; [left; reflexivity|]. symmetry. exact E.
        - destruct (IH Hin) as [kv0 [H1 H2]]. exists kv0. split; [right; exact H1|exact H2]. }
      subst kv. simpl. destruct (PLm kv0 Hin) as [Hn Hp]. split; [exact Hn|]. apply (H kv0 Hin Hp).
    + clear H PLm PL. generalize dependent ((k, x) :: r). intros mm Sm. induction Sm as [|[k2 b] r' Sr IH Ha]; [constructor|].
      rewrite map_back_cons. constructor; [exact IH|].
      clear -Ha. induction Ha as [|[k3 c] r'' Hc Hr IH2]; [constructor|].
      rewrite map_back_cons. constructor; [exact Hc|exact IH2].
Qed.

Theorem normalize_back_again o :
  p_sep (n_p o) = "" -> n_varexp o = false ->
  forall t, plain o t ->
  exists v v2, normalize_value o (gval_of t) = Ok (v, None) /\
               normalize_value o (gval_of (strip v)) = Ok (v2, None) /\
               strip v2 = strip v.
Proof.
  intros Hs Hv t PL.
  destruct (normalize_value_back o Hs Hv t PL) as [v [Ev Sv]].
  destruct (normalize_value_back o Hs Hv (back t) (plain_back o t PL)) as [v2 [Ev2 Sv2]].
  exists v, v2. rewrite Sv. split; [exact Ev|]. split; [exact Ev2|]. rewrite Sv2. apply back_idem.
Qed.

(* the hypotheses are satisfiable by a tree with nesting, an empty object, a positive integer *)
Example plain_example :
  let o := {| n_p := {| p_sep := ""; p_maxIdx := 1024; p_numKeys := false; p_escape := false |};
              n_varexp := false; n_m := {| m_h := 0%N; m_ft := None |} |} in
  let t := OMap [("a", OList [OInt 3; OStr "x${y}"; OMap []]); ("b", OMap [("c", ONil); ("d.e", OBool true)])] in
  plain o t /\
  (x <- normalize_value o (gval_of t) ;; Ok (strip (fst x)))
  = Ok (OMap [("a", OList [OUint 3; OStr "x${y}"; ONil]); ("b", OMap [("c", ONil); ("d.e", OBool true)])]).
Proof.
  split; [|vm_compute; reflexivity].
  repeat (first [ constructor | split | reflexivity ]).
Qed.

Theorem data_in_data_out : forall o, p_sep (n_p o) = "" -> n_varexp o = false ->
  forall t, plain o t ->
  exists v, normalize_value o (gval_of t) = Ok (v, None) /\
            canon (numc (strip v)) = canon (numc t).
Proof.
  intros o Hs Hv t PL. destruct (normalize_value_back o Hs Hv t PL) as [v [E S]].
  exists v. split; [exact E|]. rewrite S. apply back_same_data.
Qed.
