(* Normalize.v — normalize / normalizeMap / normalizeStruct / normalizeArray /
   normalizeValue / normalizeSetField / normalizeString (merge.go), over a reflection-free
   universe of Go input values. *)
From Ucfg Require Import Base ParseInt Consts Field Tree PathOps Merge VarParse.

(** Go input values.  Pointers and interfaces are already chased (a non-nil pointer to x
    is x); [GNil] is a nil interface / pointer / chan / func.  Maps list their entries in
    the order in which the runtime enumerated them. *)
Inductive gkey := KStr (s : string) | KOther.
Inductive gval :=
| GNil
| GBool (b : bool)
| GInt (z : Z)                (* any signed kind *)
| GUint (z : Z)               (* any unsigned kind *)
| GFloat (bits : Z)           (* float32 values are given as the float64 they convert to *)
| GStr (s : string)
| GDur (text : string)        (* time.Duration: its String() (oracle supplied by the harness) *)
| GRegexp (src : string)
| GList (l : list gval)
| GMap (keys_ok : bool) (kvs : list (gkey * gval))   (* keys_ok: key kind is string or interface *)
| GStruct (fs : list (string * string * gval))       (* Go field name, config tag, value *)
| GCfg (v : value) (ov : option string)              (* a Config given by pointer or by value: its tree; ov = stored name if attached *)
| GUnsupported (panics : bool).                      (* chan/func (error) or complex/uintptr (see F24) *)

Record nopts := { n_p : popts; n_varexp : bool; n_m : mopts }.

Definition tag_name (tag : string) : string :=
  match split tag "," with n :: _ => n | [] => "" end.
Definition tag_has (tag : string) (w : string) : bool :=
  match split tag "," with _ :: r => existsb (String.eqb w) r | [] => false end.
Definition tag_squash (tag : string) : bool := tag_has tag "squash" || tag_has tag "inline".
Definition tag_ignore (tag : string) : bool := tag_has tag "ignore".

Definition is_upper_ascii (s : string) : bool :=
  match s with
  | String a _ => let c := byte_of a in ((65 <=? c) && (c <=? 90))%N
  | EmptyString => false
  end.

Fixpoint to_lower (s : string) : string :=
  match s with
  | EmptyString => EmptyString
  | String a r =>
    let c := byte_of a in
    String (if ((65 <=? c) && (c <=? 90))%N then ch (c + 32) else a) (to_lower r)
  end.

Definition field_name (tagn goname : string) : string :=
  if String.eqb tagn "" then to_lower goname else tagn.

Definition normalize_string (o : nopts) (s : string) : res value :=
  if negb (n_varexp o) then Ok (VStr s)
  else match parse_splice (p_sep (n_p o)) (p_maxIdx (n_p o)) (p_numKeys (n_p o)) (p_escape (n_p o)) s with
       | inl (EConst c) => Ok (VStr c)
       | inl (ERef p sp) => Ok (VRef p sp)
       | inl e => Ok (VSplice e)
       | inr _ => Err EOther ""            (* raiseParseSplice: reason is the parser's plain error *)
       end.

(* duplicateSetting: the first setting (dictionary in sorted order, then the list by index) that
   two spellings of one namespace both define with a value other than a namespace or nil *)
Fixpoint dup_setting (sep : string) (prefix : string) (a b : value) {struct b} : option string :=
  match a, b with
  | VSub da aa, VSub db ab =>
    match
      (fix gd (l : list (string * (string * value))) : option string :=
         match l with
         | [] => None
         | (k, (_, vb)) :: r =>
           match dict_get k da with
           | Some (_, va) =>
             let name := prefix +++ sep +++ k in
             let here :=
                 if is_nil (Some va) || is_nil (Some vb) then None
                 else match va, vb with
                      | VSub _ _, VSub _ _ => dup_setting sep name va vb
                      | _, _ => Some name
                      end in
             match here with Some d => Some d | None => gd r end
           | None => gd r
           end
         end) db
    with
    | Some d => Some d
    | None =>
      match ab with
      | None => None
      | Some lb =>
        (fix ga (i : Z) (la : list (string * value)) (l : list (string * value)) {struct l} : option string :=
           match la, l with
           | (_, va) :: ra, (_, vb) :: r =>
             let name := prefix +++ sep +++ dec i in
             let here :=
                 if is_nil (Some va) || is_nil (Some vb) then None
                 else match va, vb with
                      | VSub _ _, VSub _ _ => dup_setting sep name va vb
                      | _, _ => Some name
                      end in
             match here with Some d => Some d | None => ga (i + 1) ra r end
           | _, _ => None
           end) 0 (arr_of aa) lb
      end
    end
  | _, _ => None
  end.

(* normalizeSetField on an already normalized value *)
Definition set_field_norm (o : nopts) (cfg : value) (name : string) (ov : option string) (val : value)
  : res value :=
  let p := opts_path (n_p o) name in
  old <- match get_path "" p cfg with
         | Ok x => Ok (match x with Some (_, v) => Some v | None => None end)
         | Err EMissing _ => Ok None
         | Err r s => Err r s
         | Panic => Panic
         | OutOfModel => OutOfModel
         end ;;
  if negb (is_nil old) && is_nil (Some val) then Ok cfg
  else if is_nil old then set_path (p_maxIdx (n_p o)) p "" cfg ov val
  else match old, val with
       | Some (VSub d a), VSub d2 a2 =>
         (* both are sub-configs: two spellings of one namespace are folded together (with the
            options of the call) unless they define one setting twice *)
         _ <- match dup_setting (if String.eqb (p_sep (n_p o)) "" then "." else p_sep (n_p o)) name (VSub d a) (VSub d2 a2) with
              | Some dn => Err EDuplicateKey (path_of "" dn)
              | None => Ok tt
              end ;;
         (* folding is part of reading one input: default policy, whatever the call's policy is (fix F55) *)
         m <- merge_full {| m_h := 0%N; m_ft := None |} (Some (VSub d a)) (VSub d2 a2) ;;
         (fix put (fs : list field) (pp : string) (node : value) : res value :=
            match fs with
            | [] => Ok m
            | f :: rest =>
              match get_field f pp node with
              | Ok (Some (pp', v)) => r <- put rest pp' v ;; Ok (replace_child f node r)
              | _ => Ok node
              end
            end) p "" cfg
       | _, _ => Err EDuplicateKey (path_of "" name)
       end.

(* normalizeMapInto visits the keys of a map in sorted order, whatever the order in which the
   runtime enumerates them: entries are listed in enumeration order, [kv_sort] orders them by
   name (bytewise), and a key that is no string fails the whole map before anything is set *)
Definition nres := res (value * option string).
Fixpoint kv_insert (k : string) (x : nres) (l : list (string * nres)) : list (string * nres) :=
  match l with
  | [] => [(k, x)]
  | (k2, y) :: r => if String.leb k k2 then (k, x) :: l else (k2, y) :: kv_insert k x r
  end.
Fixpoint kv_sort (l : list (string * nres)) : list (string * nres) :=
  match l with
  | [] => []
  | (k, x) :: r => kv_insert k x (kv_sort r)
  end.
Fixpoint kv_names (l : list (gkey * nres)) : option (list (string * nres)) :=
  match l with
  | [] => Some []
  | (KStr n, x) :: r => match kv_names r with Some t => Some ((n, x) :: t) | None => None end
  | (KOther, _) :: _ => None
  end.
Fixpoint set_fields_norm (o : nopts) (cfg : value) (l : list (string * nres)) : res value :=
  match l with
  | [] => Ok cfg
  | (name, x) :: r =>
    y <- x ;;
    cfg' <- set_field_norm o cfg name (snd y) (fst y) ;;
    set_fields_norm o cfg' r
  end.
Definition map_into (o : nopts) (cfg : value) (ys : list (gkey * nres)) : res value :=
  match kv_names ys with
  | None => Err EKeyTypeNotString ""
  | Some l => set_fields_norm o cfg (kv_sort l)
  end.

Section Norm.
  Variable o : nopts.

  Fixpoint normalize_value (v : gval) {struct v} : res (value * option string) :=
    match v with
    | GNil => Ok (VNil, None)
    | GBool b => Ok (VBool b, None)
    | GInt z => Ok (if 0 <? z then VUint z else VInt z, None)
    | GUint z => Ok (VUint z, None)
    | GFloat f => Ok (VFloat f, None)
    | GStr s => x <- normalize_string o s ;; Ok (x, None)
    | GDur t => Ok (VStr t, None)
    | GRegexp s => Ok (VStr s, None)
    | GList l =>
      els <- (fix go (i : Z) (l : list gval) : res (list nv) :=
                match l with
                | [] => Ok []
                | x :: r =>
                  y <- normalize_value x ;;
                  rest <- go (i + 1) r ;;
                  (* an embedded attached config keeps its stored name *)
                  Ok ((match snd y with Some n => n | None => dec i end, fst y) :: rest)
                end) 0 l ;;
      Ok (VSub [] (Some els), None)
    | GMap ok kvs =>
      if negb ok then Err EKeyTypeNotString ""
      else
        c <- map_into o empty_cfg
               ((fix go (l : list (gkey * gval)) : list (gkey * nres) :=
                   match l with
                   | [] => []
                   | (k, x) :: r => (k, normalize_value x) :: go r
                   end) kvs) ;;
        Ok (c, None)
    | GStruct fs =>
      c <- (fix into (cfg : value) (l : list (string * string * gval)) {struct l} : res value :=
              match l with
              | [] => Ok cfg
              | (goname, tag, x) :: r =>
                if negb (is_upper_ascii goname) then into cfg r
                else if tag_ignore tag then into cfg r
                else if tag_squash tag then
                  (* the fields of the inner struct / map are set on the outer config *)
                  match x with
                  | GStruct fs2 =>
                    cfg' <- (fix into2 (cfg : value) (l : list (string * string * gval)) {struct l} : res value :=
                               match l with
                               | [] => Ok cfg
                               | (g2, t2, x2) :: r2 =>
                                 if negb (is_upper_ascii g2) || tag_ignore t2 then into2 cfg r2
                                 else if tag_squash t2 then OutOfModel      (* nested inline: not modelled *)
                                 else
                                   y <- normalize_value x2 ;;
                                   cfg' <- set_field_norm o cfg (field_name (tag_name t2) g2) (snd y) (fst y) ;;
                                   into2 cfg' r2
                               end) cfg fs2 ;;
                    into cfg' r
                  | GMap ok kvs =>
                    if negb ok then Err EKeyTypeNotString ""
                    else
                      cfg' <- map_into o cfg
                                ((fix go (l : list (gkey * gval)) : list (gkey * nres) :=
                                    match l with
                                    | [] => []
                                    | (k, x2) :: r2 => (k, normalize_value x2) :: go r2
                                    end) kvs) ;;
                      into cfg' r
                  | _ => Err ETypeMismatch ""            (* raiseSquashNeedsObject *)
                  end
                else
                  y <- normalize_value x ;;
                  cfg' <- set_field_norm o cfg (field_name (tag_name tag) goname) (snd y) (fst y) ;;
                  into cfg' r
              end) empty_cfg fs ;;
      Ok (c, None)
    | GCfg t ov => Ok (t, None)     (* the embedded config gets a header of its own (fix F11): its stored name is its new place *)
    | GUnsupported _ => Err ETypeMismatch ""        (* raiseUnsupportedInputType *)
    end.

  (* normalize: the top level accepts a config, a map, a struct, a slice or an array *)
  Definition normalize (v : gval) : res value :=
    match v with
    | GCfg t _ => Ok t
    | GMap _ _ | GStruct _ | GList _ => x <- normalize_value v ;; Ok (fst x)
    | _ => Err ETypeMismatch ""                 (* raiseInvalidTopLevelType *)
    end.
End Norm.
