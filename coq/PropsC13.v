(* PropsC13.v — C13: Unpack changes only what the config mentions and nothing when it fails.
   Statements only; proofs are in ProofsReify.v.

   PARTIAL: proved is the frame law of one struct level, for every struct type and every
   configuration: an unexported or ignored field, and a (non-struct, non-inline) field whose
   setting is absent or nil, holds after a successful Unpack exactly the value it held
   before; and the number of fields is unchanged.  By construction of the model a failing
   Unpack returns no value at all (the caller keeps the old one): that the implementation
   does not write into the target before failing is checked on the implementation by the
   correspondence run (CFault cases compare the struct before and after).  NOT proved: the
   recursive statement through nested structs, pointers and collections. *)
From Ucfg Require Import Base ParseInt Consts Field Tree PathOps Merge OTree F64 Conv Reify ProofsReify.

Theorem c13_frame_one_level_partial : forall f o fs vs cfg g,
  reify_struct (S f) o (TStruct fs) (GStructV vs) cfg = Ok g ->
  List.length vs = List.length fs ->
  exists r, g = GStructV r /\ List.length r = List.length fs /\
  forall i fld x, nth_error fs i = Some fld -> nth_error vs i = Some x ->
    (untouched fld = true \/ unmentioned o cfg fld) -> nth_error r i = Some x.
Proof. exact reify_struct_frame. Qed.
Print Assumptions c13_frame_one_level_partial.
