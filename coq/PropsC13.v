(* PropsC13.v — C13: Unpack changes only what the config mentions and nothing when it fails.
   Statements only; proofs are in ProofsReify.v.

   PARTIAL.  Proved:
   - the recursive frame law for EVERY struct type built from primitive fields and struct fields
     to any depth, every pre-filled value of that shape and every configuration: the result of a
     successful Unpack satisfies frame_ok - the recursive condition the correspondence check
     evaluates on what the implementation returned: at every depth an unexported or ignored
     field and a field whose setting is absent or null keep the value they had
     (c13_nested_frame);
   - the frame law of one struct level for every struct type whatsoever (pointers, collections,
     inline fields included) and every configuration (c13_frame_one_level_partial), and that the
     number of fields is unchanged.
   By construction of the model a failing Unpack returns no value at all (the caller keeps the
   old one): that the implementation does not write into the target - nor through the storage
   of its slices - before failing is checked on the implementation by the correspondence run
   (the struct is compared before and after).  NOT proved: the recursive statement through
   pointers and collections. *)
From Ucfg Require Import Base ParseInt Consts Field Tree PathOps Merge OTree F64 Conv Reify ProofsReify
     ProofsValidNested CorrC04 CorrC13 ProofsFrameNested.

Theorem c13_nested_frame : forall f o fs vs cfg g,
  Forall plain_field fs -> plain_gv (GStructV vs) = true ->
  reify_struct f o (TStruct fs) (GStructV vs) cfg = Ok g ->
  frame_ok o (TStruct fs) cfg (GStructV vs) g = true.
Proof. exact nested_struct_frame. Qed.
Print Assumptions c13_nested_frame.

Theorem c13_nested_frame_example :
  let o := {| r_p := {| p_sep := "."; p_maxIdx := 1024; p_numKeys := false; p_escape := false |}; r_h := 0%N;
              r_vo := {| vo_dur := fun _ => None |}; r_ft := [] |} in
  let inner := TStruct [("Port", "port", "", TPrim (KInt 64)); ("Name", "", "", TPrim KString)] in
  let t := [("Srv", "srv", "", inner); ("Retries", "", "", TPrim (KInt 64)); ("skip", "", "", TPrim (KInt 64))] in
  let old := [GStructV [GP (CI 1); GP (CS "n")]; GP (CI 3); GP (CI 7)] in
  let cfg := VSub [("srv", ("srv", VSub [("port", ("port", VUint 8080))] None))] None in
  reify_struct 8 o (TStruct t) (GStructV old) cfg
  = Ok (GStructV [GStructV [GP (CI 8080); GP (CS "n")]; GP (CI 3); GP (CI 7)])
  /\ frame_ok o (TStruct t) cfg (GStructV old) (GStructV [GStructV [GP (CI 8080); GP (CS "n")]; GP (CI 3); GP (CI 7)]) = true
  /\ frame_ok o (TStruct t) cfg (GStructV old) (GStructV [GStructV [GP (CI 8080); GP (CS "changed")]; GP (CI 3); GP (CI 7)]) = false
  /\ frame_ok o (TStruct t) cfg (GStructV old) (GStructV [GStructV [GP (CI 8080); GP (CS "n")]; GP (CI 4); GP (CI 7)]) = false.
Proof. exact nested_frame_example. Qed.
Print Assumptions c13_nested_frame_example.

Theorem c13_frame_one_level_partial : forall f o fs vs cfg g,
  reify_struct (S f) o (TStruct fs) (GStructV vs) cfg = Ok g ->
  List.length vs = List.length fs ->
  exists r, g = GStructV r /\ List.length r = List.length fs /\
  forall i fld x, nth_error fs i = Some fld -> nth_error vs i = Some x ->
    (untouched fld = true \/ unmentioned o cfg fld) -> nth_error r i = Some x.
Proof. exact reify_struct_frame. Qed.
Print Assumptions c13_frame_one_level_partial.
