(* CorrC04.v — Unpack into typed targets: model vs implementation; shared by C04 (validators),
   C06 (round trip), C13 (frame, atomicity) and C14 (error paths), each with its own property. *)
From Ucfg Require Export Base ParseInt Consts Field Tree PathOps Merge OTree F64 Conv Reify.

Inductive uobs := UOk (v : gv) | UErr (r : ereason) (path : string) | UPanic.

Inductive case :=
| CUnpack (o : ropts) (t : ty) (old : gv) (cfg : value) (observed : uobs) (after : gv)
    (* Unpack of cfg into &old; [after] is the target afterwards (also when Unpack failed) *)
| CRound (o : ropts) (t : ty) (v : gv) (cfg : option value) (observed : uobs)
    (* v merged into an empty config (cfg), unpacked into a zero value of the same type *)
| CFault (o : ropts) (t : ty) (cfg : value) (fault_path : string) (source : string) (observed : uobs) (message : string)
    (* a valid (config, type) pair with one fault injected at fault_path; loaded with MetaData source *)
| CHooked (what : string) (t : ty) (old : gv) (observed : uobs) (after : gv)
| CApiErr (entry path source : string) (typed : bool) (message : string).
    (* an error returned by some entry point for a fault at [path] of a config loaded with
       MetaData source (C14; outside the model: the message is judged) *)
    (* a hand-written target type with Validate / InitDefaults hooks (outside the model):
       only the implementation's before/after observations *)

Fixpoint gv_eqb (a b : gv) {struct a} : bool :=
  match a, b with
  | GP x, GP y => cval_eqb x y
  | GIfaceNil, GIfaceNil | GPtrNil, GPtrNil | GSliceNil, GSliceNil | GMapNil, GMapNil | GCfgNil, GCfgNil => true
  | GIfaceData x, GIfaceData y => otree_eqb x y
  | GPtr x, GPtr y => gv_eqb x y
  | GSlice l1, GSlice l2 | GArr l1, GArr l2 | GStructV l1, GStructV l2 =>
    (fix go (l1 l2 : list gv) : bool :=
       match l1, l2 with
       | [], [] => true
       | x :: r1, y :: r2 => gv_eqb x y && go r1 r2
       | _, _ => false
       end) l1 l2
  | GMapV m1, GMapV m2 =>
    (fix go (l1 l2 : list (string * gv)) : bool :=
       match l1, l2 with
       | [], [] => true
       | (k, x) :: r1, (k2, y) :: r2 => String.eqb k k2 && gv_eqb x y && go r1 r2
       | _, _ => false
       end) m1 m2
  | GCfgV x, GCfgV y => value_eqb x y
  | _, _ => false
  end.

Definition model_unpack (c : case) : res gv :=
  match c with
  | CUnpack o t old cfg _ _ => unpack o (TPtr t) (GPtr old) cfg
  | CRound o t _ (Some cfg) _ => unpack o (TPtr t) (GPtr (zero t)) cfg
  | CRound _ _ _ None _ => OutOfModel
  | CFault o t cfg _ _ _ _ => unpack o (TPtr t) (GPtr (zero t)) cfg
  | CHooked _ _ _ _ _ => OutOfModel
  | CApiErr _ _ _ _ _ => OutOfModel
  end.

Definition observed_of (c : case) : uobs :=
  match c with
  | CUnpack _ _ _ _ ob _ | CRound _ _ _ _ ob | CFault _ _ _ _ _ ob _ | CHooked _ _ _ ob _ => ob
  | CApiErr _ _ _ _ _ => UPanic
  end.

Definition model_agrees (c : case) : bool :=
  match model_unpack c, observed_of c with
  | Ok (GPtr m), UOk v => gv_eqb m v
  | Err r mp, UErr s p =>
    (* struct fields are visited in declaration order, map entries in sorted order: the first
       failure is the same one; where exactly one fault was injected the path is compared too *)
    ereason_eqb r s &&
    match c with CFault _ _ _ _ _ _ _ => String.eqb mp p | _ => true end
  | Panic, UPanic => true
  | OutOfModel, _ => true
  | _, _ => false
  end.

Definition skipped (c : case) : bool :=
  match c with
  | CHooked _ _ _ _ _ => false
  | _ => match model_unpack c with OutOfModel => true | _ => false end
  end.

(** C04: every reachable struct field satisfies its validators (post-hoc, on the result) *)
Definition valid_deep (o : ropts) (t : ty) (v : gv) : bool :=
  match rec_validate (r_vo o) t v [] with Ok _ => true | OutOfModel => true | _ => false end.

Definition prop_c04 (c : case) : bool :=
  match c with
  | CUnpack o t _ _ (UOk v) _ => valid_deep o t v
  | CUnpack _ _ _ _ UPanic _ => false
  (* every reachable value implementing Validate() accepts (the hooks of the hand-written
     targets: vRange requires Min <= Max, vOuter rejects the label "forbidden") *)
  | CHooked what _ _ (UOk v) _ =>
    let range_ok (x : gv) := match x with
                             | GStructV [GP (CI mn); GP (CI mx); _] => mn <=? mx
                             | _ => true end in
    match v with
    | GStructV [GP (CS label); r; p; _] =>
      negb (String.eqb label "forbidden") && range_ok r &&
      match p with GPtr x => range_ok x | _ => true end
    (* vInit: tags min=1 on A and B, Validate of C rejects negatives - whether the value came
       from a setting or from InitDefaults *)
    (* vHook: U (an IntUnpacker) under min=5, S (a StringUnpacker) under required, and no zero
       among the entries of L and M (their type's Validate rejects it) - null entries included *)
    | GStructV [GP (CI u); GP (CS s0); GSlice l; GMapV m] =>
      if String.eqb what "vHook"
      then (5 <=? u) && negb (String.eqb s0 "") &&
           forallb (fun e => match e with GP (CI z) => negb (z =? 0) | _ => true end) l &&
           forallb (fun kv => match snd kv with GP (CI z) => negb (z =? 0) | _ => true end) m
      else true
    (* vAllValid: the harness reports w = 1 iff every value with a validator or a Validate hook
       that is reachable in the result is valid (pre-filled map entries the configuration does not
       mention, named primitives with a pointer-receiver Validate) *)
    | GStructV [GP (CI w)] => if String.eqb what "vAllValid" then 1 <=? w else true
    | GStructV [GP (CI a); GP (CI b); GP (CI c0)] =>
      if String.eqb what "vInit" then (1 <=? a) && (1 <=? b) && (0 <=? c0) else range_ok v
    | _ => range_ok v
    end
  | CHooked _ _ _ UPanic _ => false
  | _ => true
  end.

Definition prop_holds := prop_c04.

(* signature 37 (F37, repaired in /repo, so no longer suppressed): an inline (squash) struct
   or map field that carries a validate tag *)
Fixpoint has_inline_validated (t : ty) : bool :=
  match t with
  | TStruct fs =>
    (fix go (l : list (string * string * string * ty)) : bool :=
       match l with
       | [] => false
       | (_, ctag, vt, ft) :: r =>
         (tag_squash ctag && negb (String.eqb vt "") && match base_ty ft with TStruct _ | TMap _ => true | _ => false end)
         || has_inline_validated ft || go r
       end) fs
  | TPtr e | TSlice e | TArray _ e | TMap e => has_inline_validated e
  | _ => false
  end.

Definition signature (c : case) : N :=
  match c with
  | CUnpack _ t _ _ (UOk _) _ => if has_inline_validated t then 37%N else 0%N
  | _ => 0%N
  end.

Definition verdict (c : case) : N :=
  if skipped c then 8%N
  else ((if model_agrees c then 0 else 1) + (if prop_holds c then 0 else 2))%N.

Fixpoint run_cases (i : N) (cs : list case) : list (N * N * N) :=
  match cs with
  | [] => []
  | c :: r =>
    let v := verdict c in
    if (v =? 0)%N then run_cases (i + 1)%N r
    else (i, v, signature c) :: run_cases (i + 1)%N r
  end.
