(* Merge.v — mergeConfig / mergeValues / field handling tree (merge.go, opts.go). *)
From Ucfg Require Import Base ParseInt Consts Field Tree PathOps.

(* configHandling values, in the declaration order of util.go (checked against the
   generated constants below): *)
Definition hDefault : N := 0.  Definition hMerge : N := 1.  Definition hReplace : N := 2.
Definition hAppend : N := 3.   Definition hPrepend : N := 4. Definition hArrReplace : N := 5.

Example handling_order_is_as_modelled :
  handling_order = ["cfgDefaultHandling"; "cfgMergeValues"; "cfgReplaceValue"; "cfgArrAppend";
                    "cfgArrPrepend"; "cfgArrReplaceValue"]%string.
Proof. reflexivity. Qed.

Record mopts := { m_h : N; m_ft : option value }.

(** the two loops of mergeConfig, open in the recursive call [rec] (= mergeValues) *)
Section Loops.
  Variable override : mopts -> string -> Z -> res mopts.
  Variable rec : mopts -> option value -> value -> res value.

  (* mergeConfigDict: for every key of the source dictionary *)
  Fixpoint md_loop (o : mopts) (acc : dict) (l : list (string * (string * value))) {struct l} : res dict :=
    match l with
    | [] => Ok acc
    | (k, (_, x)) :: r =>
      o' <- override o k (-1) ;;
      m <- rec o' (match dict_get k acc with Some (_, y) => Some y | None => None end) x ;;
      md_loop o (dict_set k (k, m) acc) r
    end.

  (* mergeConfigMergeArr: index-wise on the common prefix, the rest of the longer list *)
  Fixpoint ma_loop (o1 : mopts) (i : Z) (olds : list nv) (news : list (string * value)) {struct news}
    : res (list nv) :=
    match news with
    | [] => Ok olds
    | (_, x) :: nrest =>
      match olds with
      | [] => Ok (renumber i news)
      | (_, y) :: orest =>
        oi <- override o1 "" i ;;
        m <- rec oi (Some y) x ;;
        rest <- ma_loop o1 (i + 1) orest nrest ;;
        Ok ((dec i, m) :: rest)
      end
    end.

  (* mergeConfigArr: dispatch on the handling in force before the "*" probe *)
  Definition merge_arr (h : N) (o1 : mopts) (a : option arr) (a2 : option (list (string * value)))
    : res (option arr) :=
    let a1 := arr_of a in
    match a2 with
    | None => Ok a
    | Some [] => Ok a
    | Some l2 =>
      if ((h =? hReplace) || (h =? hArrReplace))%N then Ok (Some (renumber 0 l2))
      else if (h =? hPrepend)%N then Ok (Some (renumber 0 (l2 ++ a1)))
      else if (h =? hAppend)%N then Ok (Some (a1 ++ renumber (lenZ a1) l2))
      else r <- ma_loop o1 0 a1 l2 ;; Ok (Some r)
    end.
End Loops.

Section MergeWith.
  (* fieldOptsOverride, supplied below (it needs a tree-less merge itself) *)
  Variable override : mopts -> string -> Z -> res mopts.

  Fixpoint merge_val (o : mopts) (old : option value) (v : value) {struct v} : res value :=
    match old with
    | None => Ok v
    | Some ov =>
      match to_cfg ov with
      | CVNot => Ok v
      | CVDyn => OutOfModel              (* a dynamic destination value is evaluated at merge time *)
      | CV d a =>
        match v with
        | VSub d2 a2 =>
          (* mergeConfigDict: nothing to do for an empty source dictionary; under
             ReplaceValues the destination dictionary is cleared first *)
          dres <- match d2 with
                  | [] => Ok d
                  | _ => md_loop override merge_val o (if (m_h o =? hReplace)%N then [] else d) d2
                  end ;;
          (* mergeConfigArr *)
          o1 <- override o "*" (-1) ;;
          ares <- merge_arr override merge_val (m_h o) o1 a a2 ;;
          Ok (VSub dres ares)
        | VNil =>
          (* merging an empty config: only the "*" probe can fail *)
          _ <- override o "*" (-1) ;; Ok (VSub d a)
        | VRef _ _ | VSplice _ => OutOfModel   (* a dynamic source value is evaluated when the destination is a container *)
        | _ => Ok v
        end
      end
    end.
End MergeWith.

Definition no_override (o : mopts) (_ : string) (_ : Z) : res mopts := Ok o.
Definition plain_opts (h : N) : mopts := {| m_h := h; m_ft := None |}.

(** * Field handling tree (opts.go: fieldHandlingTree) *)

(* Config.Child(name, idx) with default options *)
Definition ft_child (t : value) (name : string) (idx : Z) : res value :=
  x <- get_value default_popts "" name idx t ;;
  match to_cfg (snd x) with
  | CV d a => Ok (VSub d a)
  | CVNot => Err ETypeMismatch (fst x)
  | CVDyn => OutOfModel
  end.

(* Config.Uint("*", -1) then the uint8 conversion configHandling(u) *)
Definition ft_handling (t : value) : res N :=
  x <- get_value default_popts "" "*" (-1) t ;;
  match snd x with
  | VUint u => Ok (Z.to_N u mod 256)%N
  | VInt i => if i <? 0 then Err ENegative (fst x) else Ok (Z.to_N i mod 256)%N
  | VFloat _ | VStr _ | VRef _ _ | VSplice _ => OutOfModel
  | _ => Err ETypeMismatch (fst x)
  end.

(* res with errors folded into None, OutOfModel/Panic kept *)
Definition soft {A} (x : res A) : res (option A) :=
  match x with
  | Ok a => Ok (Some a)
  | Err _ _ => Ok None
  | Panic => Panic
  | OutOfModel => OutOfModel
  end.

Fixpoint field_handling (fuel : nat) (t : value) (name : string) (idx : Z)
  : res (N * option value * bool) :=
  match fuel with
  | O => OutOfModel
  | S f =>
    child <- soft (ft_child t name idx) ;;
    direct <- match child with
              | Some c => h <- soft (ft_handling c) ;;
                          Ok (match h with Some h => Some (h, c) | None => None end)
              | None => Ok None
              end ;;
    match direct with
    | Some (h, c) => Ok (h, Some c, true)
    | None =>
      w <- soft (ft_child t "**" (-1)) ;;
      match w with
      | None => Ok (hDefault, child, false)
      | Some wt =>
        r <- field_handling f wt name idx ;;
        match r with
        | (h, c, true) => Ok (h, c, true)
        | (_, _, false) => Ok (hDefault, child, false)
        end
      end
    end
  end.

Definition merge_plain := merge_val no_override.

(* includeWildcard(child, parent); the boolean says "the parent itself was returned" *)
Definition include_wildcard (child : option value) (parent : value) : res (option value * bool) :=
  w <- soft (ft_child parent "**" (-1)) ;;
  match w with
  | None => Ok (child, false)
  | Some wt =>
    match child, parent with
    | None, VSub [_] _ => Ok (Some parent, true)
    | _, _ =>
      sub <- match child with
             | Some c => merge_plain (plain_opts hDefault) (Some empty_cfg) c
             | None => Ok empty_cfg
             end ;;
      match sub with
      | VSub d a => Ok (Some (VSub (dict_set "**" ("**", wt) d) a), false)
      | _ => Ok (Some sub, false)
      end
    end
  end.

(* fieldOptsOverride *)
Definition field_opts_override (o : mopts) (name : string) (idx : Z) : res mopts :=
  match m_ft o with
  | None => Ok o
  | Some t =>
    r <- field_handling (vsize t) t name idx ;;
    let '(h, child, ok) := r in
    cw <- include_wildcard child t ;;
    let '(child', isparent) := cw in
    if ok then Ok {| m_h := h; m_ft := child' |}
    else match child' with
         | Some c => if isparent then Ok o else Ok {| m_h := m_h o; m_ft := Some c |}
         | None =>
           (* a named field the tree does not mention drops the tree; list levels (the "*"
              probe, unmentioned indices) keep it *)
           if (idx <? 0) && negb (String.eqb name "*")
           then Ok {| m_h := m_h o; m_ft := None |} else Ok o
         end
  end.

Definition merge_full := merge_val field_opts_override.

(** Config.Merge of an already normalized source into a root config *)
Definition merge_root (o : mopts) (to from : value) : res value :=
  merge_full o (Some to) from.
