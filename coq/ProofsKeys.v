(* ProofsKeys.v — stored names, FlattenedKeys and diff (C15). *)
From Ucfg Require Import Base ParseInt Consts Field Tree PathOps OTree Keys ProofsTree.
From Coq Require Import ZifyBool.

Local Open Scope Z_scope.

(** an induction principle for the nested type [value] *)
Section ValueInd.
  Variable P : value -> Prop.
  Hypothesis Hnil : P VNil.
  Hypothesis Hbool : forall b, P (VBool b).
  Hypothesis Hint : forall z, P (VInt z).
  Hypothesis Huint : forall z, P (VUint z).
  Hypothesis Hfloat : forall z, P (VFloat z).
  Hypothesis Hstr : forall s, P (VStr s).
  Hypothesis Href : forall p s, P (VRef p s).
  Hypothesis Hsplice : forall e, P (VSplice e).
  Hypothesis Hsub : forall d a,
      Forall (fun e => P (snd (snd e))) d ->
      Forall (fun e => P (snd e)) (arr_of a) ->
      P (VSub d a).

  Fixpoint value_ind' (v : value) : P v :=
    match v with
    | VNil => Hnil
    | VBool b => Hbool b
    | VInt z => Hint z
    | VUint z => Huint z
    | VFloat z => Hfloat z
    | VStr s => Hstr s
    | VRef p s => Href p s
    | VSplice e => Hsplice e
    | VSub d a =>
      Hsub d a
           ((fix gd (l : list (string * (string * value))) : Forall (fun e => P (snd (snd e))) l :=
               match l with
               | [] => Forall_nil _
               | (k, (n, x)) :: r => Forall_cons (k, (n, x)) (value_ind' x) (gd r)
               end) d)
           (match a as a0 return Forall (fun e => P (snd e)) (arr_of a0) with
            | None => Forall_nil _
            | Some l0 =>
              (fix ga (l : list (string * value)) : Forall (fun e => P (snd e)) l :=
                 match l with
                 | [] => Forall_nil _
                 | (n, x) :: r => Forall_cons (n, x) (value_ind' x) (ga r)
                 end) l0
            end)
    end.
End ValueInd.

(** * FlattenedKeys = the positional leaf paths, when the stored names are right *)
Lemma flat_keys_leaf_paths sep v : forall pp,
  names_ok v = true -> static v = true -> flat_keys sep pp v = Ok (leaf_paths sep pp v).
Proof.
  induction v using value_ind'; intros pp HN HP; try reflexivity.
  rename H into Hd. rename H0 into Ha.
  cbn [names_ok static] in HN, HP.
  apply andb_true_iff in HN as [HNd HNa].
  apply andb_true_iff in HP as [HPd HPa].
  (* the dictionary walk *)
  assert (Dict : forall l,
             Forall (fun e => forall pp, names_ok (snd (snd e)) = true -> static (snd (snd e)) = true ->
                                         flat_keys sep pp (snd (snd e)) = Ok (leaf_paths sep pp (snd (snd e)))) l ->
             (fix god (l : list (string * (string * value))) : bool :=
                match l with [] => true | (k, (nm, x)) :: r => String.eqb k nm && names_ok x && god r end) l = true ->
             (fix gd (l : list (string * (string * value))) : bool :=
                match l with [] => true | (_, (_, x)) :: r => static x && gd r end) l = true ->
             (fix god (l : list (string * (string * value))) : res (list string) :=
                match l with
                | [] => Ok []
                | (_, (nm, x)) :: r =>
                  here <- match x with
                          | VSub _ _ => flat_keys sep (cpath sep pp nm) x
                          | VNil => Ok []
                          | VRef _ _ | VSplice _ => OutOfModel
                          | _ => Ok [cpath sep pp nm]
                          end ;;
                  rest <- god r ;; Ok (here ++ rest)
                end) l
             = Ok ((fix god (l : list (string * (string * value))) : list string :=
                      match l with
                      | [] => []
                      | (k, (_, x)) :: r =>
                        match x with
                        | VSub _ _ => leaf_paths sep (cpath sep pp k) x
                        | VNil => []
                        | _ => [cpath sep pp k]
                        end ++ god r
                      end) l)).
  { induction l as [|[k [nm x]] r IHl]; intros F N Pu; [reflexivity|].
    inversion F as [|? ? Fx Fr]; subst. cbn [snd] in Fx.
    apply andb_true_iff in N as [N Nr]. apply andb_true_iff in N as [Nk Nx].
    apply andb_true_iff in Pu as [Px Pr].
    apply String.eqb_eq in Nk. subst nm.
    rewrite (IHl Fr Nr Pr).
    destruct x; cbn [bind]; try reflexivity; try discriminate Px.
    rewrite (Fx (cpath sep pp k) Nx Px). reflexivity. }
  (* the list walk *)
  assert (Arr : forall l i,
             Forall (fun e => forall pp, names_ok (snd e) = true -> static (snd e) = true ->
                                         flat_keys sep pp (snd e) = Ok (leaf_paths sep pp (snd e))) l ->
             (fix goa (i : Z) (l : list (string * value)) : bool :=
                match l with [] => true | (nm, x) :: r => String.eqb nm (dec i) && names_ok x && goa (i + 1) r end) i l = true ->
             (fix ga (l : list (string * value)) : bool :=
                match l with [] => true | (_, x) :: r => static x && ga r end) l = true ->
             (fix go (l : list (string * value)) : res (list string) :=
                match l with
                | [] => Ok []
                | (nm, x) :: r =>
                  here <- match x with
                          | VSub _ _ => flat_keys sep (cpath sep pp nm) x
                          | VNil => Ok []
                          | VRef _ _ | VSplice _ => OutOfModel
                          | _ => Ok [cpath sep pp nm]
                          end ;;
                  rest <- go r ;; Ok (here ++ rest)
                end) l
             = Ok ((fix goa (i : Z) (l : list (string * value)) : list string :=
                      match l with
                      | [] => []
                      | (_, x) :: r =>
                        match x with
                        | VSub _ _ => leaf_paths sep (cpath sep pp (dec i)) x
                        | VNil => []
                        | _ => [cpath sep pp (dec i)]
                        end ++ goa (i + 1) r
                      end) i l)).
  { induction l as [|[nm x] r IHl]; intros i F N Pu; [reflexivity|].
    inversion F as [|? ? Fx Fr]; subst. cbn [snd] in Fx.
    apply andb_true_iff in N as [N Nr]. apply andb_true_iff in N as [Nk Nx].
    apply andb_true_iff in Pu as [Px Pr].
    apply String.eqb_eq in Nk. subst nm.
    rewrite (IHl (i + 1) Fr Nr Pr).
    destruct x; cbn [bind]; try reflexivity; try discriminate Px.
    rewrite (Fx (cpath sep pp (dec i)) Nx Px). reflexivity. }
  cbn [flat_keys leaf_paths].
  rewrite (Dict d Hd HNd HPd). cbn [bind].
  destruct a as [l|].
  - cbn [arr_of] in Ha. rewrite (Arr l 0 Ha HNa HPa). reflexivity.
  - cbn [bind]. reflexivity.
Qed.

(** * sorting and de-duplication keep membership *)
Lemma insert_sorted_in s x l : In s (insert_sorted x l) <-> s = x \/ In s l.
Proof.
  induction l as [|y r IH]; cbn.
  - split; [intros [H|[]]; left; congruence|intros [H|[]]; left; congruence].
  - destruct (String.leb x y); cbn.
    + split; [intros [H|H]; [left; congruence|right; exact H]|intros [H|H]; [left; congruence|right; exact H]].
    + rewrite IH. split.
      * intros [H|[H|H]]; [right; left; exact H|left; exact H|right; right; exact H].
      * intros [H|[H|H]]; [right; left; exact H|left; exact H|right; right; exact H].
Qed.

Lemma sort_strings_in s l : In s (sort_strings l) <-> In s l.
Proof.
  induction l as [|x r IH]; cbn; [tauto|]. rewrite insert_sorted_in, IH. split; intros [H|H]; auto.
Qed.

Lemma mem_str_in s l : mem_str s l = true <-> In s l.
Proof.
  unfold mem_str. rewrite existsb_exists. split.
  - intros (x & Hx & E). apply String.eqb_eq in E. subst. exact Hx.
  - intros H. exists s. split; [exact H|apply String.eqb_refl].
Qed.

Lemma dedup_in s l : In s (dedup l) <-> In s l.
Proof.
  induction l as [|x r IH]; cbn; [tauto|].
  destruct (mem_str x r) eqn:M.
  - rewrite IH. apply mem_str_in in M. split; [auto|]. intros [H|H]; [subst; exact M|exact H].
  - cbn. rewrite IH. tauto.
Qed.

(** * CompareConfigs partitions the keys *)
Lemma diff_keep_in k o n : In k (diff_keep o n) <-> In k o /\ In k n.
Proof.
  unfold diff_keep. rewrite sort_strings_in, dedup_in, filter_In, mem_str_in. tauto.
Qed.

Lemma diff_add_in k o n : In k (diff_add o n) <-> In k n /\ ~ In k o.
Proof.
  unfold diff_add. rewrite sort_strings_in, dedup_in, filter_In, Bool.negb_true_iff.
  split.
  - intros [A B]. split; [exact A|]. intros C. apply mem_str_in in C. congruence.
  - intros [A B]. split; [exact A|]. destruct (mem_str k o) eqn:M; [|reflexivity].
    apply mem_str_in in M. contradiction.
Qed.

Lemma diff_remove_in k o n : In k (diff_remove o n) <-> In k o /\ ~ In k n.
Proof.
  unfold diff_remove. rewrite sort_strings_in, dedup_in, filter_In, Bool.negb_true_iff.
  split.
  - intros [A B]. split; [exact A|]. intros C. apply mem_str_in in C. congruence.
  - intros [A B]. split; [exact A|]. destruct (mem_str k n) eqn:M; [|reflexivity].
    apply mem_str_in in M. contradiction.
Qed.

Lemma diff_refl_add o : diff_add o o = [].
Proof.
  destruct (diff_add o o) as [|k r] eqn:E; [reflexivity|].
  assert (H : In k (diff_add o o)) by (rewrite E; left; reflexivity).
  apply diff_add_in in H. tauto.
Qed.

Lemma diff_refl_remove o : diff_remove o o = [].
Proof.
  destruct (diff_remove o o) as [|k r] eqn:E; [reflexivity|].
  assert (H : In k (diff_remove o o)) by (rewrite E; left; reflexivity).
  apply diff_remove_in in H. tauto.
Qed.

(** * the stored names stay right under single-node writes and removals *)
Lemma renumber_names_ok i l :
  (fix ga (l : list (string * value)) : bool :=
     match l with [] => true | (_, x) :: r => names_ok x && ga r end) l = true ->
  (fix goa (i : Z) (l : list (string * value)) : bool :=
     match l with [] => true | (nm, x) :: r => String.eqb nm (dec i) && names_ok x && goa (i + 1) r end) i (renumber i l) = true.
Proof.
  revert i. induction l as [|[nm x] r IH]; intros i H; [reflexivity|].
  apply andb_true_iff in H as [Hx Hr]. cbn [renumber].
  rewrite String.eqb_refl, Hx. cbn [andb]. apply IH. exact Hr.
Qed.

(** names_ok in terms of forallb *)
Definition entry_ok (e : string * (string * value)) : bool :=
  String.eqb (fst e) (fst (snd e)) && names_ok (snd (snd e)).

Fixpoint arr_ok (i : Z) (l : list (string * value)) : bool :=
  match l with
  | [] => true
  | (nm, x) :: r => String.eqb nm (dec i) && names_ok x && arr_ok (i + 1) r
  end.

Lemma names_ok_sub d a :
  names_ok (VSub d a) = forallb entry_ok d && match a with None => true | Some l => arr_ok 0 l end.
Proof.
  cbn [names_ok].
  assert (D : (fix god (l : list (string * (string * value))) : bool :=
                 match l with [] => true | (k, (nm, x)) :: r => String.eqb k nm && names_ok x && god r end) d
              = forallb entry_ok d).
  { induction d as [|[k [nm x]] r IH]; [reflexivity|]. cbn [forallb entry_ok fst snd]. rewrite <- IH. reflexivity. }
  rewrite D. destruct a as [l|]; reflexivity.
Qed.

Lemma forallb_dict_set (f : string * (string * value) -> bool) k x d :
  forallb f d = true -> f (k, x) = true -> forallb f (dict_set k x d) = true.
Proof.
  intros Hd Hx. induction d as [|[k2 y] r IH]; cbn.
  - rewrite Hx. reflexivity.
  - cbn in Hd. apply andb_true_iff in Hd as [Hy Hr].
    destruct (String.compare k k2); cbn; rewrite ?Hx, ?Hy, ?Hr; try reflexivity.
    cbn. apply IH. exact Hr.
Qed.

Lemma forallb_dict_del (f : string * (string * value) -> bool) k d :
  forallb f d = true -> forallb f (dict_del k d) = true.
Proof.
  intros Hd. induction d as [|[k2 y] r IH]; cbn; [reflexivity|].
  cbn in Hd. apply andb_true_iff in Hd as [Hy Hr].
  destruct (String.eqb k k2); [exact Hr|]. cbn. rewrite Hy. apply IH. exact Hr.
Qed.

(* a named write of a fresh value keeps the stored names right *)
Lemma set_field_name_names_ok mx n pp d a v node' :
  names_ok (VSub d a) = true -> names_ok v = true ->
  set_field mx (FName n) pp (VSub d a) None v = Ok node' -> names_ok node' = true.
Proof.
  intros HN Hv H. cbn in H. inversion H; subst.
  rewrite names_ok_sub in HN. rewrite names_ok_sub. apply andb_true_iff in HN as [Hd Ha].
  apply andb_true_iff; split; [|exact Ha]. apply forallb_dict_set; [exact Hd|].
  unfold entry_ok. cbn. rewrite String.eqb_refl, Hv. reflexivity.
Qed.

(* removing a named key keeps the stored names right *)
Lemma remove_name_names_ok n d a b node' :
  names_ok (VSub d a) = true ->
  remove_field (FName n) (VSub d a) = Ok (b, node') -> names_ok node' = true.
Proof.
  intros HN H. cbn [remove_field to_cfg] in H.
  match type of H with context [if ?c then _ else _] => destruct c eqn:E end.
  - inversion H; subst. rewrite names_ok_sub in HN. rewrite names_ok_sub. apply andb_true_iff in HN as [Hd Ha].
    apply andb_true_iff; split; [|exact Ha]. apply forallb_dict_del. exact Hd.
  - inversion H; subst. exact HN.
Qed.

Lemma arr_ok_values i l : arr_ok i l = true ->
  forallb (fun e => names_ok (snd e)) l = true.
Proof.
  revert i. induction l as [|[nm x] r IH]; intros i H; [reflexivity|].
  cbn [arr_ok] in H. apply andb_true_iff in H as [H Hr]. apply andb_true_iff in H as [_ Hx].
  cbn. rewrite Hx. apply (IH (i + 1)). exact Hr.
Qed.

Lemma arr_ok_renumber i l :
  forallb (fun e => names_ok (snd e)) l = true -> arr_ok i (renumber i l) = true.
Proof.
  revert i. induction l as [|[nm x] r IH]; intros i H; [reflexivity|].
  cbn in H. apply andb_true_iff in H as [Hx Hr].
  cbn [renumber arr_ok]. rewrite String.eqb_refl, Hx. cbn. apply IH. exact Hr.
Qed.

Lemma arr_ok_app i l1 l2 :
  arr_ok i l1 = true -> arr_ok (i + lenZ l1) l2 = true -> arr_ok i (l1 ++ l2) = true.
Proof.
  revert i. induction l1 as [|[nm x] r IH]; intros i H1 H2.
  - unfold lenZ in H2. cbn in H2. replace (i + 0) with i in H2 by lia. exact H2.
  - cbn [arr_ok app] in *. apply andb_true_iff in H1 as [H1 Hr]. rewrite H1. cbn.
    apply IH; [exact Hr|]. unfold lenZ in *. cbn [List.length] in H2.
    replace (i + 1 + Z.of_nat (List.length r)) with (i + Z.of_nat (S (List.length r))) by lia. exact H2.
Qed.

Lemma forallb_skipn {A} (f : A -> bool) n l : forallb f l = true -> forallb f (skipn n l) = true.
Proof.
  revert n. induction l as [|x r IH]; intros n H; destruct n; cbn in *; try reflexivity; try exact H.
  apply andb_true_iff in H as [Hx Hr]. apply IH. exact Hr.
Qed.

Lemma forallb_del_nth {A} (f : A -> bool) n l : forallb f l = true -> forallb f (del_nth l n) = true.
Proof.
  revert n. induction l as [|x r IH]; intros n H; destruct n; cbn in *; try reflexivity.
  - apply andb_true_iff in H as [_ Hr]. exact Hr.
  - apply andb_true_iff in H as [Hx Hr]. rewrite Hx. apply IH. exact Hr.
Qed.

Lemma arr_ok_firstn i n l : arr_ok i l = true -> arr_ok i (firstn n l) = true.
Proof.
  revert i n. induction l as [|[nm x] r IH]; intros i n H; destruct n; cbn [firstn arr_ok] in *; try reflexivity.
  apply andb_true_iff in H as [H Hr]. rewrite H. cbn. apply IH. exact Hr.
Qed.

Lemma firstn_del_nth {A} n (l : list A) : firstn n (del_nth l n) = firstn n l.
Proof.
  revert n. induction l as [|x r IH]; intros n; destruct n; cbn; try reflexivity. rewrite IH. reflexivity.
Qed.

(* removing a list entry (the later entries are renumbered) keeps the stored names right:
   this is the statement that was false before the fix of F12a *)
Lemma remove_index_names_ok i d a b node' :
  names_ok (VSub d a) = true ->
  remove_field (FIdx i) (VSub d a) = Ok (b, node') -> names_ok node' = true.
Proof.
  intros HN H. cbn [remove_field to_cfg] in H.
  match type of H with context [if ?c then _ else _] => destruct c eqn:B end.
  - inversion H; subst. exact HN.
  - inversion H; subst. rewrite names_ok_sub in HN. rewrite names_ok_sub. apply andb_true_iff in HN as [Hd Ha].
    apply andb_true_iff; split; [exact Hd|].
    destruct a as [l|]; cbn [arr_of] in *.
    + assert (Hi : 0 <= i) by lia. unfold nv, arr, dict in *.
      apply arr_ok_app.
      * rewrite firstn_del_nth. apply arr_ok_firstn. exact Ha.
      * assert (L : lenZ (firstn (Z.to_nat i) (del_nth l (Z.to_nat i))) = i).
        { unfold lenZ in *. rewrite firstn_del_nth, firstn_length.
          apply orb_false_iff in B as [B1 B2]. apply Z.ltb_ge in B1. apply Z.leb_gt in B2.
          clear H. unfold nv, arr, dict in *.
          rewrite Nat.min_l; lia. }
        rewrite L. replace (0 + i) with i by lia.
        apply arr_ok_renumber. apply forallb_skipn. apply forallb_del_nth.
        apply (arr_ok_values 0). exact Ha.
    + unfold lenZ in B. cbn in B. lia.
Qed.

(* appended / prepended lists are renumbered from the right index *)
Lemma append_names_ok a1 l2 :
  arr_ok 0 a1 = true -> forallb (fun e => names_ok (snd e)) l2 = true ->
  arr_ok 0 (a1 ++ renumber (lenZ a1) l2) = true.
Proof.
  intros H1 H2. apply arr_ok_app; [exact H1|]. replace (0 + lenZ a1) with (lenZ a1) by lia.
  apply arr_ok_renumber. exact H2.
Qed.

Lemma prepend_names_ok a1 l2 :
  forallb (fun e => names_ok (snd e)) a1 = true -> forallb (fun e => names_ok (snd e)) l2 = true ->
  arr_ok 0 (renumber 0 (l2 ++ a1)) = true.
Proof.
  intros H1 H2. apply arr_ok_renumber. rewrite forallb_app, H1, H2. reflexivity.
Qed.
