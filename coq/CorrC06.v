(* CorrC06.v — struct -> Config -> struct is the identity (nil and empty collections equal). *)
From Ucfg Require Export CorrC04.

(* a chain of pointers ending in nil holds no value: it is nil *)
Fixpoint chain_nil (v : gv) : bool :=
  match v with GPtrNil => true | GPtr x => chain_nil x | _ => false end.

Fixpoint gv_equiv (a b : gv) {struct a} : bool :=
  match a, b with
  | GP x, GP y => cval_eqb x y
  | GIfaceNil, GIfaceNil | GPtrNil, GPtrNil | GCfgNil, GCfgNil => true
  | GIfaceData x, GIfaceData y => otree_eqb x y
  | GPtr x, GPtrNil => chain_nil x
  | GPtrNil, GPtr y => chain_nil y
  | GPtr x, GPtr y => (chain_nil x && chain_nil y) || gv_equiv x y
  | (GSliceNil | GSlice []), (GSliceNil | GSlice []) => true
  | (GMapNil | GMapV []), (GMapNil | GMapV []) => true
  | GSlice l1, GSlice l2 | GArr l1, GArr l2 | GStructV l1, GStructV l2 =>
    (fix go (l1 l2 : list gv) : bool :=
       match l1, l2 with
       | [], [] => true
       | x :: r1, y :: r2 => gv_equiv x y && go r1 r2
       | _, _ => false
       end) l1 l2
  | GMapV m1, GMapV m2 =>
    (fix go (l1 l2 : list (string * gv)) : bool :=
       match l1, l2 with
       | [], [] => true
       | (k, x) :: r1, (k2, y) :: r2 => String.eqb k k2 && gv_equiv x y && go r1 r2
       | _, _ => false
       end) m1 m2
  | GCfgV x, GCfgV y => value_eqb x y
  | _, _ => false
  end.

(* type-directed: fields tagged ignore (and unexported ones) are not part of the config *)
Fixpoint gv_equiv_t (t : ty) (a b : gv) {struct t} : bool :=
  match t, a, b with
  | TStruct fs, GStructV l1, GStructV l2 =>
    (fix go (fl : list (string * string * string * ty)) (l1 l2 : list gv) {struct fl} : bool :=
       match fl, l1, l2 with
       | (goname, ctag, _, ft) :: fr, x :: r1, y :: r2 =>
         (if negb (is_upper_first goname) || tag_ignore ctag then true
          else match ft, x with
               (* an inline pointer that is nil holds no settings; Unpack allocates inline pointers
                  (the fields behind them share the namespace): a pointer to the zero value *)
               | TPtr e, GPtrNil => if tag_squash ctag then gv_equiv_t ft (GPtr (zero e)) y || gv_equiv_t ft x y
                                    else gv_equiv_t ft x y
               | _, _ => gv_equiv_t ft x y
               end) && go fr r1 r2
       | [], [], [] => true
       | _, _, _ => false
       end) fs l1 l2
  | TPtr _, GPtr GPtrNil, GPtrNil | TPtr _, GPtrNil, GPtr GPtrNil => true
  | TPtr e, GPtr x, GPtr y => gv_equiv_t e x y
  | TSlice e, GSlice l1, GSlice l2 | TArray _ e, GArr l1, GArr l2 =>
    (fix go (l1 l2 : list gv) : bool :=
       match l1, l2 with
       | [], [] => true
       | x :: r1, y :: r2 => gv_equiv_t e x y && go r1 r2
       | _, _ => false
       end) l1 l2
  | TMap e, GMapV m1, GMapV m2 =>
    (fix go (l1 l2 : list (string * gv)) : bool :=
       match l1, l2 with
       | [], [] => true
       | (k, x) :: r1, (k2, y) :: r2 => String.eqb k k2 && gv_equiv_t e x y && go r1 r2
       | _, _ => false
       end) m1 m2
  | _, _, _ => gv_equiv a b
  end.

(* not claimed by the property: nil pointers stored as elements of lists or maps *)
Fixpoint nil_ptr_elem (in_elem : bool) (v : gv) : bool :=
  match v with
  | GPtrNil => in_elem
  | GPtr x => nil_ptr_elem in_elem x      (* a chain of pointers inside an element ending in nil *)
  | GSlice l | GArr l => existsb (nil_ptr_elem true) l
  | GStructV l => existsb (nil_ptr_elem false) l
  | GMapV m => existsb (fun kv => nil_ptr_elem true (snd kv)) m
  | _ => false
  end.

Definition prop_c06 (c : case) : bool :=
  match c with
  | CRound _ t v _ (UOk v') => nil_ptr_elem false v || gv_equiv_t t v v'
  | CRound _ _ v _ _ => nil_ptr_elem false v
  | _ => true
  end.

(* known finding 15: an inline map receives every setting of its namespace, which it shares with
   the named fields beside it - also through inline structs nested in each other *)
Fixpoint ns_count (t : ty) : nat :=           (* settings-bearing fields in the namespace of a struct *)
  match t with
  | TStruct fs =>
    (fix go (l : list (string * string * string * ty)) : nat :=
       match l with
       | [] => O
       | (_, ctag, _, ft) :: r =>
         Nat.add (if tag_squash ctag
                  then match ft with
                       | TStruct _ => ns_count ft
                       | TPtr e => match e with TStruct _ => ns_count e | _ => 1%nat end   (* an inline pointer to a struct *)
                       | _ => 1%nat
                       end
                  else 1%nat) (go r)
       end) fs
  | _ => 1%nat
  end.
Fixpoint ns_has_inline_map (t : ty) : bool :=
  match t with
  | TStruct fs =>
    (fix go (l : list (string * string * string * ty)) : bool :=
       match l with
       | [] => false
       | (_, ctag, _, ft) :: r =>
         (tag_squash ctag && match ft with
                             | TStruct _ => ns_has_inline_map ft
                             | TPtr e => match e with
                                         | TStruct _ => ns_has_inline_map e
                                         | _ => match base_ty ft with TMap _ => true | _ => false end
                                         end
                             | _ => match base_ty ft with TMap _ => true | _ => false end
                             end) || go r
       end) fs
  | _ => false
  end.
Fixpoint inline_map_beside_fields (t : ty) : bool :=
  match t with
  | TStruct fs =>
    (ns_has_inline_map t && (1 <? ns_count t)%nat)
    || (fix go (l : list (string * string * string * ty)) : bool :=
          match l with [] => false | (_, _, _, ft) :: r => inline_map_beside_fields ft || go r end) fs
  | TPtr e | TSlice e | TArray _ e | TMap e => inline_map_beside_fields e
  | _ => false
  end.

Definition signature6 (c : case) : N :=
  match c with
  | CRound _ t _ _ _ => if inline_map_beside_fields t then 15%N else 0%N
  | _ => 0%N
  end.

Definition verdict6 (c : case) : N :=
  (* the property is about the implementation's answer: it is evaluated where the model is silent too *)
  if skipped c then (if prop_c06 c then 8%N else 2%N)
  else ((if model_agrees c then 0 else 1) + (if prop_c06 c then 0 else 2))%N.

Fixpoint run_cases (i : N) (cs : list case) : list (N * N * N) :=
  match cs with
  | [] => []
  | c :: r =>
    let v := verdict6 c in
    if (v =? 0)%N then run_cases (i + 1)%N r
    else (i, v, signature6 c) :: run_cases (i + 1)%N r
  end.
