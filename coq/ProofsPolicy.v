(* ProofsPolicy.v — per-field merge policies (C16): where no field tree is in force the merge
   is the global-policy merge; which options are in force below a named field. *)
From Ucfg Require Import Base ParseInt Consts Field Tree PathOps Merge ProofsKeys.

(** * Without a field tree the per-field machinery is the plain merge *)
Lemma override_no_tree o name idx : m_ft o = None -> field_opts_override o name idx = Ok o.
Proof. intro H. unfold field_opts_override. rewrite H. reflexivity. Qed.

Lemma md_loop_ext ov1 ov2 rec1 rec2 o l :
  (forall k i, ov1 o k i = Ok o) -> (forall k i, ov2 o k i = Ok o) ->
  Forall (fun e => forall old, rec1 o old (snd (snd e)) = rec2 o old (snd (snd e))) l ->
  forall acc, md_loop ov1 rec1 o acc l = md_loop ov2 rec2 o acc l.
Proof.
  intros H1 H2 F. induction F as [|[k [nm x]] r Hx Fr IH]; intro acc; simpl; [reflexivity|].
  rewrite H1, H2. simpl. simpl in Hx. rewrite Hx.
  destruct (rec2 o _ x); simpl; auto.
Qed.

Lemma ma_loop_ext ov1 ov2 rec1 rec2 o news :
  (forall k i, ov1 o k i = Ok o) -> (forall k i, ov2 o k i = Ok o) ->
  Forall (fun e => forall old, rec1 o old (snd e) = rec2 o old (snd e)) news ->
  forall i olds, ma_loop ov1 rec1 o i olds news = ma_loop ov2 rec2 o i olds news.
Proof.
  intros H1 H2 F. induction F as [|[nm x] r Hx Fr IH]; intros i olds; simpl; [reflexivity|].
  destruct olds as [|[nm2 y] orest]; [reflexivity|].
  rewrite H1, H2. simpl. simpl in Hx. rewrite Hx.
  destruct (rec2 o (Some y) x); simpl; auto. rewrite IH. reflexivity.
Qed.

Theorem merge_full_no_tree : forall v o old,
  m_ft o = None -> merge_full o old v = merge_plain o old v.
Proof.
  induction v as [| | | | | | | |d a H H0] using value_ind'; intros o old Hft; try reflexivity.
  { unfold merge_full, merge_plain. destruct old as [ov|]; [|reflexivity]. cbn [merge_val].
    destruct (to_cfg ov); try reflexivity. rewrite override_no_tree by exact Hft. reflexivity. }
  unfold merge_full, merge_plain. destruct old as [ov|]; [|reflexivity].
  cbn [merge_val]. destruct (to_cfg ov) as [d0 a0| |]; try reflexivity.
  assert (forall k i, field_opts_override o k i = Ok o) as O1 by (intros; apply override_no_tree; exact Hft).
  assert (forall k i, no_override o k i = Ok o) as O2 by reflexivity.
  assert (match d with
          | [] => Ok d0
          | _ :: _ => md_loop field_opts_override (merge_val field_opts_override) o
                        (if (m_h o =? hReplace)%N then [] else d0) d
          end =
          match d with
          | [] => Ok d0
          | _ :: _ => md_loop no_override (merge_val no_override) o
                        (if (m_h o =? hReplace)%N then [] else d0) d
          end) as ED.
  { destruct d as [|e r]; [reflexivity|]. apply md_loop_ext; auto.
    rewrite Forall_forall in *. intros e0 He0 old0. apply (H e0 He0 o old0 Hft). }
  rewrite ED. clear ED.
  match goal with |- bind ?X _ = _ => destruct X as [dres| | |] end; simpl; try reflexivity.
  rewrite O1. simpl.
  assert (merge_arr field_opts_override (merge_val field_opts_override) (m_h o) o a0 a
          = merge_arr no_override (merge_val no_override) (m_h o) o a0 a) as EA.
  { unfold merge_arr. destruct a as [l2|]; [|reflexivity]. destruct l2 as [|e2 r2]; [reflexivity|].
    destruct ((m_h o =? hReplace)%N || (m_h o =? hArrReplace)%N); [reflexivity|].
    destruct (m_h o =? hPrepend)%N; [reflexivity|]. destruct (m_h o =? hAppend)%N; [reflexivity|].
    rewrite (ma_loop_ext field_opts_override no_override (merge_val field_opts_override) (merge_val no_override) o (e2 :: r2)); auto.
    simpl in H0. rewrite Forall_forall in *. intros e0 He0 old0. apply (H0 e0 He0 o old0 Hft). }
  rewrite EA. reflexivity.
Qed.

(** * A one-name field policy: the tree the implementation builds for  Field<P>Values(name) *)
Definition policy_leaf (h : N) : value := VSub [("*", ("*", VUint (Z.of_N h)))] None.
Definition policy_tree (name : string) (h : N) : value := VSub [(name, (name, policy_leaf h))] None.

(* concrete instances, evaluated by the model: at the named field the named policy is in force
   and nothing of the tree remains below it; at any other name the global policy is kept and
   the tree is dropped, so by [merge_full_no_tree] the rest is the plain merge *)
Lemma policy_examples :
  field_opts_override {| m_h := hDefault; m_ft := Some (policy_tree "paths" hAppend) |} "paths" (-1)
  = Ok {| m_h := hAppend; m_ft := Some (policy_leaf hAppend) |}
  /\ field_opts_override {| m_h := hDefault; m_ft := Some (policy_tree "paths" hAppend) |} "other" (-1)
     = Ok {| m_h := hDefault; m_ft := None |}
  /\ field_opts_override {| m_h := hAppend; m_ft := Some (policy_leaf hAppend) |} "child" (-1)
     = Ok {| m_h := hAppend; m_ft := None |}
  /\ field_opts_override {| m_h := hAppend; m_ft := Some (policy_leaf hAppend) |} "*" (-1)
     = Ok {| m_h := hAppend; m_ft := Some (policy_leaf hAppend) |}.
Proof. vm_compute. repeat split; reflexivity. Qed.

(* the same name at another depth is not affected: merging {a: {paths: [1]}} with
   {a: {paths: [2]}} under FieldAppendValues("paths") replaces index-wise (default policy),
   while the top-level paths lists are appended *)
Lemma policy_depth_example :
  let o := {| m_h := hDefault; m_ft := Some (policy_tree "paths" hAppend) |} in
  let l x := VSub [] (Some [("0", VUint x)]) in
  merge_full o
    (Some (VSub [("a", ("a", VSub [("paths", ("paths", l 1))] None)); ("paths", ("paths", l 1))] None))
    (VSub [("a", ("a", VSub [("paths", ("paths", l 2))] None)); ("paths", ("paths", l 2))] None)
  = Ok (VSub [("a", ("a", VSub [("paths", ("paths", l 2))] None));
              ("paths", ("paths", VSub [] (Some [("0", VUint 1); ("1", VUint 2)])))] None).
Proof. vm_compute. reflexivity. Qed.
