(* ProofsPolicy.v — per-field merge policies (C16): where no field tree is in force the merge
   is the global-policy merge; which options are in force below a named field. *)
From Ucfg Require Import Base ParseInt Consts Field Tree PathOps Merge ProofsKeys.

(** * Without a field tree the per-field machinery is the plain merge *)
Lemma override_no_tree o name idx : m_ft o = None -> field_opts_override o name idx = Ok o.
Proof. intro H. unfold field_opts_override. rewrite H. reflexivity. Qed.

Lemma md_loop_ext ov1 ov2 rec1 rec2 o l :
  (forall k i, ov1 o k i = Ok o) -> (forall k i, ov2 o k i = Ok o) ->
  Forall (fun e => forall old, rec1 o old (snd (snd e)) = rec2 o old (snd (snd e))) l ->
  forall acc, md_loop ov1 rec1 o acc l = md_loop ov2 rec2 o acc l.
Proof.
  intros H1 H2 F. induction F as [|[k [nm x]] r Hx Fr IH]; intro acc; simpl; [reflexivity|].
  rewrite H1, H2. simpl. simpl in Hx. rewrite Hx.
  destruct (rec2 o _ x); simpl; auto.
Qed.

Lemma ma_loop_ext ov1 ov2 rec1 rec2 o news :
  (forall k i, ov1 o k i = Ok o) -> (forall k i, ov2 o k i = Ok o) ->
  Forall (fun e => forall old, rec1 o old (snd e) = rec2 o old (snd e)) news ->
  forall i olds, ma_loop ov1 rec1 o i olds news = ma_loop ov2 rec2 o i olds news.
Proof.
  intros H1 H2 F. induction F as [|[nm x] r Hx Fr IH]; intros i olds; simpl; [reflexivity|].
  destruct olds as [|[nm2 y] orest]; [reflexivity|].
  rewrite H1, H2. simpl. simpl in Hx. rewrite Hx.
  destruct (rec2 o (Some y) x); simpl; auto. rewrite IH. reflexivity.
Qed.

Theorem merge_full_no_tree : forall v o old,
  m_ft o = None -> merge_full o old v = merge_plain o old v.
Proof.
  induction v as [| | | | | | | |d a H H0] using value_ind'; intros o old Hft; try reflexivity.
  { unfold merge_full, merge_plain. destruct old as [ov|]; [|reflexivity]. cbn [merge_val].
    destruct (to_cfg ov); try reflexivity. rewrite override_no_tree by exact Hft. reflexivity. }
  unfold merge_full, merge_plain. destruct old as [ov|]; [|reflexivity].
  cbn [merge_val]. destruct (to_cfg ov) as [d0 a0| |]; try reflexivity.
  assert (forall k i, field_opts_override o k i = Ok o) as O1 by (intros; apply override_no_tree; exact Hft).
  assert (forall k i, no_override o k i = Ok o) as O2 by reflexivity.
  assert (match d with
          | [] => Ok d0
          | _ :: _ => md_loop field_opts_override (merge_val field_opts_override) o
                        (if (m_h o =? hReplace)%N then [] else d0) d
          end =
          match d with
          | [] => Ok d0
          | _ :: _ => md_loop no_override (merge_val no_override) o
                        (if (m_h o =? hReplace)%N then [] else d0) d
          end) as ED.
  { destruct d as [|e r]; [reflexivity|]. apply md_loop_ext; auto.
    rewrite Forall_forall in *. intros e0 He0 old0. apply (H e0 He0 o old0 Hft). }
  rewrite ED. clear ED.
  match goal with |- bind ?X _ = _ => destruct X as [dres| | |] end; simpl; try reflexivity.
  rewrite O1. simpl.
  assert (merge_arr field_opts_override (merge_val field_opts_override) (m_h o) o a0 a
          = merge_arr no_override (merge_val no_override) (m_h o) o a0 a) as EA.
  { unfold merge_arr. destruct a as [l2|]; [|reflexivity]. destruct l2 as [|e2 r2]; [reflexivity|].
    destruct ((m_h o =? hReplace)%N || (m_h o =? hArrReplace)%N); [reflexivity|].
    destruct (m_h o =? hPrepend)%N; [reflexivity|]. destruct (m_h o =? hAppend)%N; [reflexivity|].
    rewrite (ma_loop_ext field_opts_override no_override (merge_val field_opts_override) (merge_val no_override) o (e2 :: r2)); auto.
    simpl in H0. rewrite Forall_forall in *. intros e0 He0 old0. apply (H0 e0 He0 o old0 Hft). }
  rewrite EA. reflexivity.
Qed.

(** * A one-name field policy: the tree the implementation builds for  Field<P>Values(name) *)
Definition policy_leaf (h : N) : value := VSub [("*", ("*", VUint (Z.of_N h)))] None.
Definition policy_tree (name : string) (h : N) : value := VSub [(name, (name, policy_leaf h))] None.

(* concrete instances, evaluated by the model: at the named field the named policy is in force
   and nothing of the tree remains below it; at any other name the global policy is kept and
   the tree is dropped, so by [merge_full_no_tree] the rest is the plain merge *)
Lemma policy_examples :
  field_opts_override {| m_h := hDefault; m_ft := Some (policy_tree "paths" hAppend) |} "paths" (-1)
  = Ok {| m_h := hAppend; m_ft := Some (policy_leaf hAppend) |}
  /\ field_opts_override {| m_h := hDefault; m_ft := Some (policy_tree "paths" hAppend) |} "other" (-1)
     = Ok {| m_h := hDefault; m_ft := None |}
  /\ field_opts_override {| m_h := hAppend; m_ft := Some (policy_leaf hAppend) |} "child" (-1)
     = Ok {| m_h := hAppend; m_ft := None |}
  /\ field_opts_override {| m_h := hAppend; m_ft := Some (policy_leaf hAppend) |} "*" (-1)
     = Ok {| m_h := hAppend; m_ft := Some (policy_leaf hAppend) |}.
Proof. vm_compute. repeat split; reflexivity. Qed.

(* the same name at another depth is not affected: merging {a: {paths: [1]}} with
   {a: {paths: [2]}} under FieldAppendValues("paths") replaces index-wise (default policy),
   while the top-level paths lists are appended *)
Lemma policy_depth_example :
  let o := {| m_h := hDefault; m_ft := Some (policy_tree "paths" hAppend) |} in
  let l x := VSub [] (Some [("0", VUint x)]) in
  merge_full o
    (Some (VSub [("a", ("a", VSub [("paths", ("paths", l 1))] None)); ("paths", ("paths", l 1))] None))
    (VSub [("a", ("a", VSub [("paths", ("paths", l 2))] None)); ("paths", ("paths", l 2))] None)
  = Ok (VSub [("a", ("a", VSub [("paths", ("paths", l 2))] None));
              ("paths", ("paths", VSub [] (Some [("0", VUint 1); ("1", VUint 2)])))] None).
Proof. vm_compute. reflexivity. Qed.

(** * A relational extensionality principle for the merge: two override functions that keep
    the handling in step give the same merge *)
Section Rel.
  Variable R : mopts -> mopts -> Prop.
  Variables ov1 ov2 : mopts -> string -> Z -> res mopts.
  Hypothesis R_h : forall o1 o2, R o1 o2 -> m_h o1 = m_h o2.
  Hypothesis R_step : forall o1 o2 k i, R o1 o2 ->
    exists o1' o2', ov1 o1 k i = Ok o1' /\ ov2 o2 k i = Ok o2' /\ R o1' o2'.

  Lemma md_loop_rel rec1 rec2 o1 o2 l :
    R o1 o2 ->
    Forall (fun e => forall p1 p2 old, R p1 p2 -> rec1 p1 old (snd (snd e)) = rec2 p2 old (snd (snd e))) l ->
    forall acc, md_loop ov1 rec1 o1 acc l = md_loop ov2 rec2 o2 acc l.
  Proof.
    intros HR F. induction F as [|[k [nm x]] r Hx Fr IH]; intro acc; simpl; [reflexivity|].
    destruct (R_step o1 o2 k (-1) HR) as [p1 [p2 [E1 [E2 HR']]]]. rewrite E1, E2. simpl.
    simpl in Hx. rewrite (Hx p1 p2 _ HR'). destruct (rec2 p2 _ x); simpl; auto.
  Qed.

  Lemma ma_loop_rel rec1 rec2 o1 o2 news :
    R o1 o2 ->
    Forall (fun e => forall p1 p2 old, R p1 p2 -> rec1 p1 old (snd e) = rec2 p2 old (snd e)) news ->
    forall i olds, ma_loop ov1 rec1 o1 i olds news = ma_loop ov2 rec2 o2 i olds news.
  Proof.
    intros HR F. induction F as [|[nm x] r Hx Fr IH]; intros i olds; simpl; [reflexivity|].
    destruct olds as [|[nm2 y] orest]; [reflexivity|].
    destruct (R_step o1 o2 "" i HR) as [p1 [p2 [E1 [E2 HR']]]]. rewrite E1, E2. simpl.
    simpl in Hx. rewrite (Hx p1 p2 _ HR'). destruct (rec2 p2 (Some y) x); simpl; auto. rewrite IH. reflexivity.
  Qed.

  Theorem merge_val_rel : forall v o1 o2 old,
    R o1 o2 -> merge_val ov1 o1 old v = merge_val ov2 o2 old v.
  Proof.
    induction v as [| | | | | | | |d a H H0] using value_ind'; intros o1 o2 old HR; try reflexivity.
    { destruct old as [ov|]; [|reflexivity]. cbn [merge_val].
      destruct (to_cfg ov); try reflexivity.
      destruct (R_step o1 o2 "*" (-1) HR) as [p1 [p2 [E1 [E2 _]]]]. rewrite E1, E2. reflexivity. }
    destruct old as [ov|]; [|reflexivity].
    cbn [merge_val]. destruct (to_cfg ov) as [d0 a0| |]; try reflexivity.
    rewrite (R_h o1 o2 HR).
    assert (match d with
            | [] => Ok d0
            | _ :: _ => md_loop ov1 (merge_val ov1) o1 (if (m_h o2 =? hReplace)%N then [] else d0) d
            end =
            match d with
            | [] => Ok d0
            | _ :: _ => md_loop ov2 (merge_val ov2) o2 (if (m_h o2 =? hReplace)%N then [] else d0) d
            end) as ED.
    { destruct d as [|e r]; [reflexivity|]. apply md_loop_rel; [exact HR|exact H]. }
    rewrite ED. clear ED.
    match goal with |- bind ?X _ = _ => destruct X as [dres| | |] end; simpl; try reflexivity.
    destruct (R_step o1 o2 "*" (-1) HR) as [p1 [p2 [E1 [E2 HR']]]]. rewrite E1, E2. simpl.
    assert (merge_arr ov1 (merge_val ov1) (m_h o2) p1 a0 a = merge_arr ov2 (merge_val ov2) (m_h o2) p2 a0 a) as EA.
    { unfold merge_arr. destruct a as [l2|]; [|reflexivity]. destruct l2 as [|e2 r2]; [reflexivity|].
      destruct ((m_h o2 =? hReplace)%N || (m_h o2 =? hArrReplace)%N); [reflexivity|].
      destruct (m_h o2 =? hPrepend)%N; [reflexivity|]. destruct (m_h o2 =? hAppend)%N; [reflexivity|].
      rewrite (ma_loop_rel (merge_val ov1) (merge_val ov2) p1 p2 (e2 :: r2)); [reflexivity|exact HR'|exact H0]. }
    rewrite EA. reflexivity.
  Qed.
End Rel.

(** * the tree of a one-name policy: below the named field nothing of it selects anything *)
Lemma get_field_on_uint f pp u :
  get_field f pp (VUint u) = Err EExpectedObject "" \/ get_field f pp (VUint u) = Ok (Some (pp, VUint u)).
Proof.
  destruct f as [n|i]; cbn; [left; reflexivity|]. destruct (i =? 0); [right|left]; reflexivity.
Qed.

Lemma ft_child_leaf_fails h k idx : exists r p, ft_child (policy_leaf h) k idx = Err r p.
Proof.
  unfold ft_child, get_value, get_path, opts_path_idx, parse_path_idx, default_popts. cbn [p_sep p_maxIdx p_numKeys p_escape].
  unfold parse_path. cbn [String.eqb orb].
  destruct (String.eqb k "") eqn:Ek.
  - (* the name is empty: the index alone *)
    cbn [get_path_go get_field policy_leaf to_cfg arr_of lenZ List.length].
    match goal with |- context [if ?c then _ else _] => destruct c eqn:B end; [cbn; eauto|].
    exfalso. unfold lenZ in B. simpl in B. lia.
  - set (f := parse_field k defaultMaxIdx false).
    assert (forall pp, get_field f pp (policy_leaf h) = Ok None \/
                       (exists r p, get_field f pp (policy_leaf h) = Err r p) \/
                       get_field f pp (policy_leaf h) = Ok (Some (path_join pp "*", VUint (Z.of_N h)))) as G.
    { intro pp. destruct f as [n|i]; cbn.
      - destruct (String.eqb n "*"); [right; right; reflexivity|left; reflexivity].
      - right. left. match goal with |- context [if ?c then _ else _] => destruct c eqn:B end; [eauto|].
        exfalso. unfold lenZ in B. simpl in B. lia. }
    destruct (0 <=? idx) eqn:Ei.
    + cbn [app]. rewrite ProofsTree.get_path_go_unfold.
      destruct (G "") as [E|[[r [p E]]|E]]; rewrite E; cbn; eauto.
      destruct (idx =? 0); cbn; eauto.
    + cbn [get_path_go]. destruct (G "") as [E|[[r [p E]]|E]]; rewrite E; cbn; eauto.
Qed.

Lemma soft_err {A} (x : res A) : (exists r p, x = Err r p) -> soft x = Ok None.
Proof. intros [r [p E]]. subst. reflexivity. Qed.

Lemma field_handling_leaf h k idx fuel :
  field_handling (S fuel) (policy_leaf h) k idx = Ok (hDefault, None, false).
Proof.
  cbn [field_handling]. rewrite (soft_err _ (ft_child_leaf_fails h k idx)). cbn [bind].
  rewrite (soft_err _ (ft_child_leaf_fails h "**" (-1))). reflexivity.
Qed.

Lemma override_below_named_field h' k idx :
  field_opts_override {| m_h := h'; m_ft := Some (policy_leaf (h')) |} k idx
  = if (idx <? 0) && negb (String.eqb k "*")
    then Ok {| m_h := h'; m_ft := None |}
    else Ok {| m_h := h'; m_ft := Some (policy_leaf h') |}.
Proof.
  unfold field_opts_override. cbn [m_ft m_h].
  destruct (vsize (policy_leaf h')) as [|fu] eqn:V; [cbn in V; discriminate|]. rewrite field_handling_leaf. cbn [bind].
  unfold include_wildcard. rewrite (soft_err _ (ft_child_leaf_fails h' "**" (-1))). cbn [bind].
  destruct ((idx <? 0) && negb (String.eqb k "*")); reflexivity.
Qed.

(* everything at and below the named field is merged as if the named policy were the global one *)
Theorem named_policy_is_global_below h' : forall v old,
  merge_full {| m_h := h'; m_ft := Some (policy_leaf h') |} old v = merge_plain (plain_opts h') old v.
Proof.
  intros v old. unfold merge_full, merge_plain.
  apply (merge_val_rel
           (fun o1 o2 => o2 = plain_opts h' /\ m_h o1 = h' /\ (m_ft o1 = None \/ m_ft o1 = Some (policy_leaf h')))).
  - intros o1 o2 [E2 [E1 _]]. subst o2. rewrite E1. reflexivity.
  - intros o1 o2 k i [E2 [E1 Eft]]. subst o2. destruct o1 as [h1 ft1]. simpl in E1, Eft. subst h1.
    destruct Eft as [Eft|Eft]; subst ft1.
    + exists {| m_h := h'; m_ft := None |}, (plain_opts h'). repeat split; auto.
    + rewrite override_below_named_field.
      destruct ((i <? 0) && negb (String.eqb k "*")); eexists _, (plain_opts h'); repeat split; auto.
  - repeat split; auto.
Qed.

(** * at the top level of a one-name policy *)
Definition name_ok (k : string) : Prop :=
  parse_field k defaultMaxIdx false = FName k /\ k <> "" /\ k <> "*" /\ k <> "**".

Lemma neq_eqb a b : a <> b -> String.eqb a b = false.
Proof. intro H. destruct (String.eqb a b) eqn:E; [apply String.eqb_eq in E; contradiction|reflexivity]. Qed.

Lemma ft_child_named name h : name_ok name ->
  ft_child (policy_tree name h) name (-1) = Ok (policy_leaf h).
Proof.
  intros [Hp [Hne _]].
  unfold ft_child, get_value, get_path, opts_path_idx, parse_path_idx, default_popts. cbn [p_sep p_maxIdx p_numKeys p_escape].
  rewrite (neq_eqb _ _ Hne). unfold parse_path. cbn [String.eqb orb]. rewrite Hp. cbn [Z.leb Z.compare].
  cbn [get_path_go get_field policy_tree to_cfg dict_get]. rewrite String.eqb_refl. reflexivity.
Qed.

Lemma ft_child_other name h k : name_ok k -> k <> name ->
  exists r p, ft_child (policy_tree name h) k (-1) = Err r p.
Proof.
  intros [Hp [Hne _]] Hk.
  unfold ft_child, get_value, get_path, opts_path_idx, parse_path_idx, default_popts. cbn [p_sep p_maxIdx p_numKeys p_escape].
  rewrite (neq_eqb _ _ Hne). unfold parse_path. cbn [String.eqb orb]. rewrite Hp. cbn [Z.leb Z.compare].
  cbn [get_path_go get_field policy_tree to_cfg dict_get]. rewrite (neq_eqb _ _ Hk). cbn. eauto.
Qed.

Lemma ft_child_wild name h : name <> "**" ->
  exists r p, ft_child (policy_tree name h) "**" (-1) = Err r p.
Proof.
  intro Hk.
  unfold ft_child, get_value, get_path, opts_path_idx, parse_path_idx, default_popts. cbn [p_sep p_maxIdx p_numKeys p_escape].
  unfold parse_path. cbn [String.eqb Ascii.eqb Bool.eqb orb andb].
  change (parse_field "**" defaultMaxIdx false) with (FName "**"). cbn [Z.leb Z.compare].
  cbn [get_path_go get_field policy_tree to_cfg dict_get].
  assert (String.eqb "**" name = false) as E by (apply neq_eqb; intro X; apply Hk; symmetry; exact X).
  rewrite E. cbn. eauto.
Qed.

Lemma ft_handling_leaf h : (h < 256)%N -> ft_handling (policy_leaf h) = Ok h.
Proof.
  intro Hh. unfold ft_handling, get_value, get_path, opts_path_idx, parse_path_idx, default_popts.
  cbn [p_sep p_maxIdx p_numKeys p_escape]. unfold parse_path. cbn [String.eqb Ascii.eqb Bool.eqb orb andb].
  change (parse_field "*" defaultMaxIdx false) with (FName "*"). cbn [Z.leb Z.compare].
  cbn [get_path_go get_field policy_leaf to_cfg dict_get String.eqb Ascii.eqb Bool.eqb andb bind snd].
  rewrite N2Z.id. rewrite N.mod_small by exact Hh. reflexivity.
Qed.

Theorem override_at_named_field h name h' : name_ok name -> (h' < 256)%N ->
  field_opts_override {| m_h := h; m_ft := Some (policy_tree name h') |} name (-1)
  = Ok {| m_h := h'; m_ft := Some (policy_leaf h') |}.
Proof.
  intros Hn Hh. unfold field_opts_override. cbn [m_ft m_h].
  destruct (vsize (policy_tree name h')) as [|fu] eqn:V; [cbn in V; discriminate|].
  cbn [field_handling]. rewrite (ft_child_named name h' Hn). cbn [soft bind].
  rewrite (ft_handling_leaf h' Hh). cbn [soft bind].
  unfold include_wildcard. destruct Hn as [_ [_ [_ Hw]]].
  rewrite (soft_err _ (ft_child_wild name h' Hw)). reflexivity.
Qed.

Theorem override_at_other_field h name h' k : name_ok k -> k <> name -> name <> "**" ->
  field_opts_override {| m_h := h; m_ft := Some (policy_tree name h') |} k (-1)
  = Ok {| m_h := h; m_ft := None |}.
Proof.
  intros Hk Hne Hw. unfold field_opts_override. cbn [m_ft m_h].
  destruct (vsize (policy_tree name h')) as [|fu] eqn:V; [cbn in V; discriminate|].
  cbn [field_handling]. rewrite (soft_err _ (ft_child_other name h' k Hk Hne)). cbn [bind].
  rewrite (soft_err _ (ft_child_wild name h' Hw)). cbn [bind].
  unfold include_wildcard. rewrite (soft_err _ (ft_child_wild name h' Hw)). cbn [bind].
  destruct Hk as [_ [_ [Hs _]]]. rewrite (neq_eqb _ _ Hs). reflexivity.
Qed.

(* C16 for a policy on one top-level name, all trees: the named entry is merged as if the named
   policy were the global one, every other named entry as under the global policy *)
Theorem single_name_policy h name h' : name_ok name -> (h' < 256)%N ->
  (forall old v, o' <- field_opts_override {| m_h := h; m_ft := Some (policy_tree name h') |} name (-1) ;;
                 merge_full o' old v
                 = merge_plain (plain_opts h') old v) /\
  (forall k old v, name_ok k -> k <> name ->
                   o' <- field_opts_override {| m_h := h; m_ft := Some (policy_tree name h') |} k (-1) ;;
                   merge_full o' old v
                   = merge_plain {| m_h := h; m_ft := None |} old v).
Proof.
  intros Hn Hh. split.
  - intros old v. rewrite (override_at_named_field h name h' Hn Hh). cbn [bind].
    apply named_policy_is_global_below.
  - intros k old v Hk Hne. destruct Hn as [_ [_ [_ Hw]]].
    rewrite (override_at_other_field h name h' k Hk Hne Hw). cbn [bind].
    apply merge_full_no_tree. reflexivity.
Qed.

Example name_ok_examples : name_ok "paths" /\ name_ok "a-b_c" /\ ~ name_ok "3" /\ ~ name_ok "*".
Proof.
  repeat split; try discriminate; try reflexivity.
  - intros [H _]. vm_compute in H. discriminate.
  - intros [_ [_ [H _]]]. apply H. reflexivity.
Qed.

(** * a policy on a dotted path of names: FieldXValues("n1.n2...nk") *)
Fixpoint policy_path (path : list string) (h : N) : value :=
  match path with
  | [] => policy_leaf h
  | n :: r => VSub [(n, (n, policy_path r h))] None
  end.

Lemma policy_path_single n h : policy_path [n] h = policy_tree n h.
Proof. reflexivity. Qed.

Lemma ft_child_path n r h : name_ok n ->
  ft_child (policy_path (n :: r) h) n (-1) = Ok (policy_path r h).
Proof.
  intros [Hp [Hne _]].
  unfold ft_child, get_value, get_path, opts_path_idx, parse_path_idx, default_popts. cbn [p_sep p_maxIdx p_numKeys p_escape].
  rewrite (neq_eqb _ _ Hne). unfold parse_path. cbn [String.eqb orb]. rewrite Hp. cbn [Z.leb Z.compare].
  cbn [get_path_go get_field policy_path to_cfg dict_get]. rewrite String.eqb_refl. cbn [path_join bind snd].
  destruct r as [|n2 r2]; reflexivity.
Qed.

Lemma ft_child_path_other n r h k : name_ok k -> k <> n ->
  exists e p, ft_child (policy_path (n :: r) h) k (-1) = Err e p.
Proof.
  intros [Hp [Hne _]] Hk.
  unfold ft_child, get_value, get_path, opts_path_idx, parse_path_idx, default_popts. cbn [p_sep p_maxIdx p_numKeys p_escape].
  rewrite (neq_eqb _ _ Hne). unfold parse_path. cbn [String.eqb orb]. rewrite Hp. cbn [Z.leb Z.compare].
  cbn [get_path_go get_field policy_path to_cfg dict_get]. rewrite (neq_eqb _ _ Hk). cbn. eauto.
Qed.

Lemma ft_child_path_wild n r h : n <> "**" ->
  exists e p, ft_child (policy_path (n :: r) h) "**" (-1) = Err e p.
Proof.
  intro Hk.
  unfold ft_child, get_value, get_path, opts_path_idx, parse_path_idx, default_popts. cbn [p_sep p_maxIdx p_numKeys p_escape].
  unfold parse_path. cbn [String.eqb Ascii.eqb Bool.eqb orb andb].
  change (parse_field "**" defaultMaxIdx false) with (FName "**"). cbn [Z.leb Z.compare].
  cbn [get_path_go get_field policy_path to_cfg dict_get].
  assert (String.eqb "**" n = false) as E by (apply neq_eqb; intro X; apply Hk; symmetry; exact X).
  rewrite E. cbn. eauto.
Qed.

(* an inner node of the path carries no handling of its own *)
Lemma ft_handling_inner n r h : n <> "*" ->
  exists e p, ft_handling (policy_path (n :: r) h) = Err e p.
Proof.
  intro Hn. unfold ft_handling, get_value, get_path, opts_path_idx, parse_path_idx, default_popts.
  cbn [p_sep p_maxIdx p_numKeys p_escape]. unfold parse_path. cbn [String.eqb Ascii.eqb Bool.eqb orb andb].
  change (parse_field "*" defaultMaxIdx false) with (FName "*"). cbn [Z.leb Z.compare].
  cbn [get_path_go get_field policy_path to_cfg dict_get].
  assert (String.eqb "*" n = false) as E by (apply neq_eqb; intro X; apply Hn; symmetry; exact X).
  rewrite E. cbn. eauto.
Qed.

Lemma vsize_pos v : exists fu, vsize v = S fu.
Proof. destruct v; simpl; eauto. Qed.

(* descending along the path keeps the global handling and the rest of the path *)
Theorem override_along_path h n n2 r h' : name_ok n -> name_ok n2 ->
  field_opts_override {| m_h := h; m_ft := Some (policy_path (n :: n2 :: r) h') |} n (-1)
  = Ok {| m_h := h; m_ft := Some (policy_path (n2 :: r) h') |}.
Proof.
  intros Hn Hn2. unfold field_opts_override. cbn [m_ft m_h].
  destruct (vsize_pos (policy_path (n :: n2 :: r) h')) as [fu V]. rewrite V.
  cbn [field_handling]. rewrite (ft_child_path n (n2 :: r) h' Hn). cbn [soft bind].
  destruct Hn2 as [_ [_ [Hs2 _]]]. rewrite (soft_err _ (ft_handling_inner n2 r h' Hs2)). cbn [bind].
  destruct Hn as [_ [_ [_ Hw]]].
  rewrite (soft_err _ (ft_child_path_wild n (n2 :: r) h' Hw)). cbn [bind].
  unfold include_wildcard. rewrite (soft_err _ (ft_child_path_wild n (n2 :: r) h' Hw)). reflexivity.
Qed.

(* leaving the path drops the tree: the global policy alone remains *)
Theorem override_off_path h n r h' k : name_ok k -> k <> n -> n <> "**" ->
  field_opts_override {| m_h := h; m_ft := Some (policy_path (n :: r) h') |} k (-1)
  = Ok {| m_h := h; m_ft := None |}.
Proof.
  intros Hk Hne Hw. unfold field_opts_override. cbn [m_ft m_h].
  destruct (vsize_pos (policy_path (n :: r) h')) as [fu V]. rewrite V.
  cbn [field_handling]. rewrite (soft_err _ (ft_child_path_other n r h' k Hk Hne)). cbn [bind].
  rewrite (soft_err _ (ft_child_path_wild n r h' Hw)). cbn [bind].
  unfold include_wildcard. rewrite (soft_err _ (ft_child_path_wild n r h' Hw)). cbn [bind].
  destruct Hk as [_ [_ [Hs _]]]. rewrite (neq_eqb _ _ Hs). reflexivity.
Qed.

(* C16 for a policy on a dotted path of names, all trees: walking down the path keeps the
   global policy until the last name, where the named policy takes over for everything below;
   stepping off the path at any depth leaves the global-policy merge *)
Theorem path_policy h h' : (h' < 256)%N -> forall path, Forall name_ok path -> path <> [] ->
  match path with
  | [] => True
  | n :: r =>
    (forall old v,
        o' <- field_opts_override {| m_h := h; m_ft := Some (policy_path path h') |} n (-1) ;;
        merge_full o' old v
        = match r with
          | [] => merge_plain (plain_opts h') old v
          | _ => merge_full {| m_h := h; m_ft := Some (policy_path r h') |} old v
          end) /\
    (forall k old v, name_ok k -> k <> n ->
        o' <- field_opts_override {| m_h := h; m_ft := Some (policy_path path h') |} k (-1) ;;
        merge_full o' old v
        = merge_plain {| m_h := h; m_ft := None |} old v)
  end.
Proof.
  intros Hh path F Hne. destruct path as [|n r]; [exact I|].
  inversion F as [|? ? Hn Fr]; subst. split.
  - intros old v. destruct r as [|n2 r2].
    + rewrite policy_path_single. rewrite (override_at_named_field h n h' Hn Hh). cbn [bind].
      apply named_policy_is_global_below.
    + inversion Fr as [|? ? Hn2 _]; subst. rewrite (override_along_path h n n2 r2 h' Hn Hn2). reflexivity.
  - intros k old v Hk Hkn. destruct Hn as [_ [_ [_ Hw]]].
    rewrite (override_off_path h n r h' k Hk Hkn Hw). cbn [bind]. apply merge_full_no_tree. reflexivity.
Qed.
