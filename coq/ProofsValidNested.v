(* ProofsValidNested.v — C04 through nesting: for every struct type built from primitive fields
   and struct fields to any depth (any names, ignore tags and unexported fields anywhere, any
   validate tags on the primitive fields), every pre-filled value and every configuration, the
   result of a successful Unpack passes the deep re-validation [rec_validate] - the very function
   the correspondence check applies to what the implementation returned.  Every primitive field
   at every depth satisfies every validator of its tag, whether its value was converted from a
   setting or was there before. *)
From Ucfg Require Import Base ParseInt Consts Field Tree PathOps Merge OTree F64 Conv Reify ProofsReify ProofsValid.
Local Open Scope nat_scope.

(** struct types made of primitives and such structs; struct-typed fields carry no validate tag *)
Inductive plain_ty : ty -> Prop :=
| plain_prim k : plain_ty (TPrim k)
| plain_struct fs : Forall plain_field fs -> plain_ty (TStruct fs)
with plain_field : (string * string * string * ty) -> Prop :=
| plain_fld goname ctag vtagtext ft :
    tag_squash ctag = false -> plain_ty ft ->
    (forall fs, ft = TStruct fs -> parse_vtags vtagtext = Some []) ->
    plain_field (goname, ctag, vtagtext, ft).

Lemma reify_merge_struct f o th vts fs x val :
  reify_merge_value (S f) (o, th, vts) (TStruct fs) x val
  = match to_cfg val with
    | CV d a => reify_struct f o (TStruct fs) x (VSub d a)
    | CVNot => Err EExpectedObject ""
    | CVDyn => OutOfModel
    end.
Proof. destruct x; reflexivity. Qed.

Lemma rec_validate_struct vo fs vs :
  rec_validate vo (TStruct fs) (GStructV vs) []
  = (fix go (fl : list (string * string * string * ty)) (vl : list gv) {struct fl} : res unit :=
       match fl, vl with
       | (goname, ctag, vtagtext, ft) :: fr, x :: vr =>
         if negb (is_upper_first goname) || tag_ignore ctag then go fr vr
         else match parse_vtags vtagtext with
              | None => Err EOther ""
              | Some fts => _ <- rec_validate vo ft x fts ;; go fr vr
              end
       | _, _ => Ok tt
       end) fs vs.
Proof. reflexivity. Qed.

(* the field walk of rec_validate, named *)
Fixpoint rv_fields (vo : voracle) (fl : list (string * string * string * ty)) (vl : list gv) : res unit :=
  match fl, vl with
  | (goname, ctag, vtagtext, ft) :: fr, x :: vr =>
    if negb (is_upper_first goname) || tag_ignore ctag then rv_fields vo fr vr
    else match parse_vtags vtagtext with
         | None => Err EOther ""
         | Some fts => _ <- rec_validate vo ft x fts ;; rv_fields vo fr vr
         end
  | _, _ => Ok tt
  end.

Lemma rec_validate_struct_fields vo fs vs : rec_validate vo (TStruct fs) (GStructV vs) [] = rv_fields vo fs vs.
Proof.
  rewrite rec_validate_struct. revert vs. induction fs as [|[[[goname ctag] vtagtext] ft] fr IH]; intro vs; [reflexivity|].
  destruct vs as [|x vr]; [reflexivity|]. cbn [rv_fields].
  destruct (negb (is_upper_first goname) || tag_ignore ctag); [apply IH|].
  destruct (parse_vtags vtagtext); [|reflexivity]. rewrite IH. reflexivity.
Qed.

Definition struct_valid (f : nat) : Prop :=
  forall o fs vs cfg g, Forall plain_field fs ->
    reify_struct f o (TStruct fs) (GStructV vs) cfg = Ok g ->
    exists r, g = GStructV r /\ rv_fields (r_vo o) fs r = Ok tt.

Lemma reify_merge_prim_low fo k x n : reify_merge_value 1 fo (TPrim k) x n = OutOfModel.
Proof. destruct fo as [[o th] vts]. destruct x; reflexivity. Qed.

Lemma loop_valid f (IH : forall f', f' < f -> struct_valid f') o cfg : forall fs vs r,
  Forall plain_field fs ->
  struct_loop f o cfg fs vs = Ok r ->
  rv_fields (r_vo o) fs r = Ok tt.
Proof.
  induction fs as [|[[[goname ctag] vtagtext] ft] fr IHf]; intros vs r F H.
  - destruct vs; cbn [struct_loop] in H; inversion H; subst; reflexivity.
  - destruct vs as [|x vr]; [cbn [struct_loop] in H; inversion H; subst; reflexivity|].
    inversion F as [|? ? Hp Fr]; subst. inversion Hp as [? ? ? ? Hs Hty Hv]; subst.
    cbn [struct_loop] in H. fold (struct_loop f o cfg) in H.
    destruct (negb (is_upper_first goname) || tag_ignore ctag) eqn:U.
    + destruct (struct_loop f o cfg fr vr) as [rest| | |] eqn:Er; simpl in H; try discriminate.
      inversion H; subst. cbn [rv_fields]. rewrite U. exact (IHf vr rest Fr Er).
    + destruct (parse_vtags vtagtext) as [vts|] eqn:Pv; [|discriminate].
      rewrite Hs in H. cbv zeta in H.
      match type of H with (bind ?Y _) = _ => destruct Y as [y| | |] eqn:Ey end; simpl in H; try discriminate.
      destruct (struct_loop f o cfg fr vr) as [rest| | |] eqn:Er; simpl in H; try discriminate.
      inversion H; subst. cbn [rv_fields]. rewrite U, Pv.
      assert (rec_validate (r_vo o) ft y vts = Ok tt) as V.
      { match type of Ey with (bind ?Z _) = _ => destruct Z as [v| | |] eqn:Ev end; cbn [bind] in Ey; try discriminate.
        inversion Hty as [k|fs' Ffs']; subst.
        - (* a primitive field *)
          destruct (is_nil v) eqn:Nv.
          + destruct (rec_validate (r_vo o) (TPrim k) x vts) as [[]| | |] eqn:Rv; cbn [bind] in Ey; try discriminate.
            inversion Ey; subst. exact Rv.
          + destruct v as [n|]; [|discriminate].
            apply in_seg_ok in Ey.
            destruct f as [|[|f2]]; [discriminate Ey|rewrite reify_merge_prim_low in Ey; discriminate Ey|].
            destruct (reify_merge_prim f2 _ _ vts k x n y Ey Nv) as [c [Eg Rv]]. subst y.
            cbn [rec_validate view]. cbn [r_vo] in Rv. rewrite Rv. reflexivity.
        - (* a struct field: unpacked by the same procedure one level down *)
          pose proof (Hv fs' eq_refl) as Pv0. injection Pv0 as Pv0. subst vts.
          assert (exists val, reify_merge_value f
                    ({| r_p := r_p o; r_h := tag_handling ctag; r_vo := r_vo o; r_ft := r_ft o |}, tag_handling ctag, [])
                    (TStruct fs') x val = Ok y) as [val M].
          { destruct (is_nil v); [eexists; exact Ey|]. apply in_seg_ok in Ey. eexists; exact Ey. }
          destruct f as [|f1]; [discriminate M|].
          rewrite reify_merge_struct in M.
          destruct (to_cfg val) as [d a| |]; try discriminate.
          destruct f1 as [|f0]; [discriminate M|].
          destruct x; try (cbn [reify_struct] in M; discriminate M).
          match type of M with reify_struct _ _ _ (GStructV ?vs') _ = _ =>
            destruct (IH (S f0) ltac:(auto) _ fs' vs' (VSub d a) y Ffs' M) as [r' [Ey' Rv]] end. subst y.
          cbn [r_vo] in Rv. rewrite rec_validate_struct_fields. exact Rv. }
      rewrite V. cbn [bind]. exact (IHf vr rest Fr Er).
Qed.

Lemma struct_valid_below : forall n f, f < n -> struct_valid f.
Proof.
  induction n as [|n IH]; intros f L; [inversion L|].
  intros o fs vs cfg g F H. destruct f as [|f1]; [discriminate H|].
  rewrite reify_struct_unfold in H.
  destruct (struct_loop f1 o cfg fs vs) as [r| | |] eqn:E; cbn [bind] in H; try discriminate.
  inversion H; subst. exists r. split; [reflexivity|].
  apply (loop_valid f1) with (cfg := cfg) (vs := vs); [|exact F|exact E].
  intros f' L'. apply IH. apply PeanoNat.Nat.lt_le_trans with f1; [exact L'|]. apply le_S_n. apply le_S_n. apply le_S. exact L.
Qed.

(* Unpack into a struct of primitives and structs, to any depth: the result passes the deep
   re-validation *)
Theorem nested_struct_validated f o fs vs cfg g :
  Forall plain_field fs ->
  reify_struct f o (TStruct fs) (GStructV vs) cfg = Ok g ->
  rec_validate (r_vo o) (TStruct fs) g [] = Ok tt.
Proof.
  intros F H. destruct (struct_valid_below (S f) f (PeanoNat.Nat.lt_succ_diag_r f) o fs vs cfg g F H) as [r [Eg Rv]].
  subst g. rewrite rec_validate_struct_fields. exact Rv.
Qed.

(* non-vacuity: two levels, validators at both; a violating default inside the nested struct is
   rejected, a valid configuration accepted *)
Example nested_validated_example :
  let o := {| r_p := {| p_sep := "."; p_maxIdx := 1024; p_numKeys := false; p_escape := false |}; r_h := 0%N;
              r_vo := {| vo_dur := fun _ => None |}; r_ft := [] |} in
  let inner := TStruct [("Port", "port", "min=1,max=65535", TPrim (KInt 64)); ("Name", "", "nonzero", TPrim KString)] in
  let t := [("Srv", "srv", "", inner); ("Retries", "", "positive", TPrim (KInt 64)); ("skip", "", "min=99", TPrim (KInt 64))] in
  Forall plain_field t /\
  reify_struct 8 o (TStruct t) (GStructV [GStructV [GP (CI 0); GP (CS "n")]; GP (CI 3); GP (CI 0)])
               (VSub [("srv", ("srv", VSub [("port", ("port", VUint 8080))] None))] None)
  = Ok (GStructV [GStructV [GP (CI 8080); GP (CS "n")]; GP (CI 3); GP (CI 0)])
  /\ (exists r p, reify_struct 8 o (TStruct t) (GStructV [GStructV [GP (CI 0); GP (CS "n")]; GP (CI 3); GP (CI 0)]) (VSub [] None) = Err r p).
Proof.
  split.
  - repeat constructor; intros; discriminate.
  - vm_compute. split; [reflexivity|]. eauto.
Qed.
