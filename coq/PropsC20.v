(* PropsC20.v — C20: numeric path segments index lists only within [0, MaxIdx].
   Only statements, each closed by [exact], with Print Assumptions. *)
From Ucfg Require Import Base ParseInt Consts Field CorrC20 ProofsField Tree PathOps ProofsTree.

(* A segment is a list index exactly when numeric keys are off and it is an integer
   literal (every syntax of strconv.ParseInt base 0) between 0 and the maximum index. *)
Theorem c20_index_iff : forall s maxIdx numKeys i,
  parse_field s maxIdx numKeys = FIdx i <->
  numKeys = false /\ parse_int0 s = Some i /\ 0 <= i <= maxIdx.
Proof. exact parse_field_idx_iff. Qed.
Print Assumptions c20_index_iff.

(* Any other segment - negative, above the maximum, non-numeric, or any segment when
   numeric keys are enabled - is an ordinary name that round-trips unchanged. *)
Theorem c20_name_iff : forall s maxIdx numKeys,
  parse_field s maxIdx numKeys = FName s <->
  (numKeys = true \/ parse_int0 s = None \/ exists i, parse_int0 s = Some i /\ ~ (0 <= i <= maxIdx)).
Proof. exact parse_field_name_iff. Qed.
Print Assumptions c20_name_iff.

Theorem c20_index_or_same_name : forall s maxIdx numKeys,
  (exists i, parse_field s maxIdx numKeys = FIdx i) \/ parse_field s maxIdx numKeys = FName s.
Proof. exact parse_field_cases. Qed.
Print Assumptions c20_index_or_same_name.

(* EnableNumKeys only applies to single-segment keys: a path of two or more segments
   is parsed with numeric keys off. *)
Theorem c20_multi_segment_disables_numkeys : forall s sep maxIdx numKeys escape a b r,
  String.eqb sep "" || (escape && escape_match s) = false ->
  split s sep = a :: b :: r ->
  parse_path s sep maxIdx numKeys escape = map (fun x => parse_field x maxIdx false) (a :: b :: r).
Proof. exact multi_segment_disables_numkeys. Qed.
Print Assumptions c20_multi_segment_disables_numkeys.

(* No parsed path contains an index outside [0, maxIdx] ... *)
Theorem c20_path_index_bound : forall input sep maxIdx numKeys escape i,
  In (FIdx i) (parse_path input sep maxIdx numKeys escape) -> 0 <= i <= maxIdx.
Proof. exact parse_path_idx_bound. Qed.
Print Assumptions c20_path_index_bound.

(* ... consequently no single key makes a list grow beyond maxIdx+1 entries: writing at an
   index that came out of path parsing grows the list to exactly max(len, idx+1) *)
Theorem c20_growth_bound : forall mx input sep maxIdx numKeys escape i pp d a ov v d' a',
  In (FIdx i) (parse_path input sep maxIdx numKeys escape) ->
  set_field mx (FIdx i) pp (VSub d a) ov v = Ok (VSub d' a') ->
  lenZ (arr_of a') <= Z.max (lenZ (arr_of a)) (maxIdx + 1).
Proof. exact parsed_index_growth. Qed.
Print Assumptions c20_growth_bound.

(* The boolean property evaluated by the check on the implementation's output is
   satisfied by the model on every input (so a flagged case is a real deviation). *)
Theorem c20_checker_sound_on_model : forall input sep maxIdx numKeys escape,
  prop_holds (CPath input sep maxIdx numKeys escape (parse_path input sep maxIdx numKeys escape)) = true.
Proof. exact prop_holds_model. Qed.
Print Assumptions c20_checker_sound_on_model.

(* integer literals accepted by the model are int64 values *)
Theorem c20_literal_range : forall s z,
  parse_int0 s = Some z -> - 9223372036854775808 <= z <= 9223372036854775807.
Proof. exact parse_int0_range. Qed.
Print Assumptions c20_literal_range.

(* Non-vacuity: the hypotheses are met by concrete inputs in every syntax. *)
Example c20_ex_hex : parse_field "0x10" 1024 false = FIdx 16. Proof. reflexivity. Qed.
Example c20_ex_underscore : parse_field "1_0" 1024 false = FIdx 10. Proof. reflexivity. Qed.
Example c20_ex_neg : parse_field "-1" 1024 false = FName "-1". Proof. reflexivity. Qed.
Example c20_ex_above : parse_field "1025" 1024 false = FName "1025". Proof. reflexivity. Qed.
Example c20_ex_numkeys : parse_field "5" 1024 true = FName "5". Proof. reflexivity. Qed.
Example c20_ex_multi : parse_path "a.5" "." 1024 true false = [FName "a"; FIdx 5]. Proof. reflexivity. Qed.

(* Every index the options allow has a spelling: the decimal text of i is read as the index i
   (and as nothing else), and it is the text the index is printed with in paths. *)
From Ucfg Require Import ProofsDec.
Theorem c20_index_text_is_index : forall i maxIdx,
  (0 <= i <= maxIdx)%Z -> (maxIdx < 9223372036854775808)%Z ->
  parse_field (dec i) maxIdx false = FIdx i /\ field_str (FIdx i) = dec i.
Proof. exact index_text_is_index. Qed.
Print Assumptions c20_index_text_is_index.


(* Names inside expressions: the name on the left of the default and error operators is looked up
   along exactly the path the parser builds for the plain reference ${name} under the options of
   the call - the segment rule above (indices, EnableNumKeys, EscapePath, MaxIdx) is the same one. *)
From Ucfg Require Import Merge OTree F64 ParseValue VarParse Normalize Flags VarEval SpecEval ProofsSpec.
Theorem c20_default_operator_reads_reference : forall o dv n r sep root st, n <> ""%string ->
  exp_s o dv (EDefault (EConst n) r sep) root st
  = match exp_s o dv (ERef (parse_path n sep (p_maxIdx (eo_p o)) (p_numKeys (eo_p o)) (p_escape (eo_p o))) sep) root st with
    | Ok (v, m) => if String.eqb v "" then taint m (exp_s o dv r root st) else Ok (v, m)
    | Err e p => taint (cyc_err e p) (exp_s o dv r root st)
    | Panic => Panic
    | OutOfModel => OutOfModel
    end.
Proof. exact default_operator_reads_reference. Qed.
Print Assumptions c20_default_operator_reads_reference.

Theorem c20_error_operator_reads_reference : forall o dv n r sep root st, n <> ""%string ->
  exp_s o dv (EErr (EConst n) r sep) root st
  = match exp_s o dv (ERef (parse_path n sep (p_maxIdx (eo_p o)) (p_numKeys (eo_p o)) (p_escape (eo_p o))) sep) root st with
    | Ok (v, m) => if String.eqb v ""
                   then (y <- taint m (exp_s o dv r root st) ;; taint (snd y) (Err EOther "!raw"))
                   else Ok (v, m)
    | Err e p => (y <- taint (cyc_err e p) (exp_s o dv r root st) ;; taint (snd y) (Err EOther "!raw"))
    | Panic => Panic
    | OutOfModel => OutOfModel
    end.
Proof. exact error_operator_reads_reference. Qed.
Print Assumptions c20_error_operator_reads_reference.
