(* PropsC16.v — C16: a per-field merge policy applies to exactly the named subtree.
   Statements only; proofs are in ProofsPolicy.v.

   PARTIAL.  Proved for ALL trees, both global and named policies, and every policy on ONE
   top-level name (any name that is not index-like, a wildcard or empty): the options in force
   at the named field are the named policy, and everything at and below it is merged exactly
   as if the named policy were the global one; at every other named field the global policy
   stays in force and the rest of the merge is the global-policy merge (which C01 proves equal
   to the plain-tree specification); wherever no field tree is in force the merge is the
   global-policy merge.  NOT proved: dotted field paths of depth > 1, indices and wildcards in
   the path, several policies at once; those are decided by the correspondence run (merge_full
   against the implementation on random trees, paths and policy combinations) and by the
   evaluation of the plain-tree specification spec_merge_at per case.  F31 is the known
   deviation at list levels. *)
From Ucfg Require Import Base ParseInt Consts Field Tree PathOps Merge ProofsPolicy.

Theorem c16_no_tree_is_global_policy_partial : forall v o old,
  m_ft o = None -> merge_full o old v = merge_plain o old v.
Proof. exact merge_full_no_tree. Qed.
Print Assumptions c16_no_tree_is_global_policy_partial.

(* a policy on one top-level name, for all trees and all values *)
Theorem c16_single_name_policy_partial : forall h name h', name_ok name -> (h' < 256)%N ->
  (forall old v, o' <- field_opts_override {| m_h := h; m_ft := Some (policy_tree name h') |} name (-1) ;;
                 merge_full o' old v
                 = merge_plain (plain_opts h') old v) /\
  (forall k old v, name_ok k -> k <> name ->
                   o' <- field_opts_override {| m_h := h; m_ft := Some (policy_tree name h') |} k (-1) ;;
                   merge_full o' old v
                   = merge_plain {| m_h := h; m_ft := None |} old v).
Proof. exact single_name_policy. Qed.
Print Assumptions c16_single_name_policy_partial.

Theorem c16_named_policy_is_global_below_partial : forall h' v old,
  merge_full {| m_h := h'; m_ft := Some (policy_leaf h') |} old v = merge_plain (plain_opts h') old v.
Proof. exact named_policy_is_global_below. Qed.
Print Assumptions c16_named_policy_is_global_below_partial.

Theorem c16_name_hypothesis_examples : name_ok "paths" /\ name_ok "a-b_c" /\ ~ name_ok "3" /\ ~ name_ok "*".
Proof. exact name_ok_examples. Qed.
Print Assumptions c16_name_hypothesis_examples.

Theorem c16_named_field_instances_partial :
  field_opts_override {| m_h := hDefault; m_ft := Some (policy_tree "paths" hAppend) |} "paths" (-1)
  = Ok {| m_h := hAppend; m_ft := Some (policy_leaf hAppend) |}
  /\ field_opts_override {| m_h := hDefault; m_ft := Some (policy_tree "paths" hAppend) |} "other" (-1)
     = Ok {| m_h := hDefault; m_ft := None |}
  /\ field_opts_override {| m_h := hAppend; m_ft := Some (policy_leaf hAppend) |} "child" (-1)
     = Ok {| m_h := hAppend; m_ft := None |}
  /\ field_opts_override {| m_h := hAppend; m_ft := Some (policy_leaf hAppend) |} "*" (-1)
     = Ok {| m_h := hAppend; m_ft := Some (policy_leaf hAppend) |}.
Proof. exact policy_examples. Qed.
Print Assumptions c16_named_field_instances_partial.

(* the same last name component at another depth is unaffected *)
Theorem c16_same_name_other_depth_instance_partial :
  let o := {| m_h := hDefault; m_ft := Some (policy_tree "paths" hAppend) |} in
  let l x := VSub [] (Some [("0", VUint x)]) in
  merge_full o
    (Some (VSub [("a", ("a", VSub [("paths", ("paths", l 1))] None)); ("paths", ("paths", l 1))] None))
    (VSub [("a", ("a", VSub [("paths", ("paths", l 2))] None)); ("paths", ("paths", l 2))] None)
  = Ok (VSub [("a", ("a", VSub [("paths", ("paths", l 2))] None));
              ("paths", ("paths", VSub [] (Some [("0", VUint 1); ("1", VUint 2)])))] None).
Proof. exact policy_depth_example. Qed.
Print Assumptions c16_same_name_other_depth_instance_partial.
