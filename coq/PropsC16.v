(* PropsC16.v — C16: a per-field merge policy applies to exactly the named subtree.
   Statements only; proofs are in ProofsPolicy.v.

   PARTIAL.  Proved for ALL trees, all global and named policies, and every policy on a dotted
   path of names n1.n2...nk (names that are not index-like, wildcards or empty; policy_path is
   the handling tree the implementation builds for it, as reported by the verif hook in every
   case of the stream): walking down the path keeps the global policy in force until the last
   name; there the named policy takes over and everything at and below it is merged exactly as
   if the named policy were the global one; stepping off the path at any depth - in particular
   at a setting that merely shares the last name at another depth - leaves the global-policy
   merge (which C01 proves equal to the plain-tree specification).  NOT proved: indices and
   wildcards in the path, several policies at once, list levels; those are decided by the
   correspondence run (merge_full against the implementation on random trees, paths and
   policy combinations) and by the evaluation of the plain-tree specification spec_merge_at
   per case.  F31 is the known deviation at list levels. *)
From Ucfg Require Import Base ParseInt Consts Field Tree PathOps Merge ProofsPolicy.

Theorem c16_no_tree_is_global_policy_partial : forall v o old,
  m_ft o = None -> merge_full o old v = merge_plain o old v.
Proof. exact merge_full_no_tree. Qed.
Print Assumptions c16_no_tree_is_global_policy_partial.

(* a policy on a dotted path of names, for all trees: one step of the walk *)
Theorem c16_path_policy_partial : forall h h', (h' < 256)%N -> forall path, Forall name_ok path -> path <> [] ->
  match path with
  | [] => True
  | n :: r =>
    (forall old v,
        o' <- field_opts_override {| m_h := h; m_ft := Some (policy_path path h') |} n (-1) ;;
        merge_full o' old v
        = match r with
          | [] => merge_plain (plain_opts h') old v
          | _ => merge_full {| m_h := h; m_ft := Some (policy_path r h') |} old v
          end) /\
    (forall k old v, name_ok k -> k <> n ->
        o' <- field_opts_override {| m_h := h; m_ft := Some (policy_path path h') |} k (-1) ;;
        merge_full o' old v
        = merge_plain {| m_h := h; m_ft := None |} old v)
  end.
Proof. exact path_policy. Qed.
Print Assumptions c16_path_policy_partial.

(* a policy on one top-level name, for all trees and all values *)
Theorem c16_single_name_policy_partial : forall h name h', name_ok name -> (h' < 256)%N ->
  (forall old v, o' <- field_opts_override {| m_h := h; m_ft := Some (policy_tree name h') |} name (-1) ;;
                 merge_full o' old v
                 = merge_plain (plain_opts h') old v) /\
  (forall k old v, name_ok k -> k <> name ->
                   o' <- field_opts_override {| m_h := h; m_ft := Some (policy_tree name h') |} k (-1) ;;
                   merge_full o' old v
                   = merge_plain {| m_h := h; m_ft := None |} old v).
Proof. exact single_name_policy. Qed.
Print Assumptions c16_single_name_policy_partial.

Theorem c16_named_policy_is_global_below_partial : forall h' v old,
  merge_full {| m_h := h'; m_ft := Some (policy_leaf h') |} old v = merge_plain (plain_opts h') old v.
Proof. exact named_policy_is_global_below. Qed.
Print Assumptions c16_named_policy_is_global_below_partial.

Theorem c16_name_hypothesis_examples : name_ok "paths" /\ name_ok "a-b_c" /\ ~ name_ok "3" /\ ~ name_ok "*".
Proof. exact name_ok_examples. Qed.
Print Assumptions c16_name_hypothesis_examples.

Theorem c16_named_field_instances_partial :
  field_opts_override {| m_h := hDefault; m_ft := Some (policy_tree "paths" hAppend) |} "paths" (-1)
  = Ok {| m_h := hAppend; m_ft := Some (policy_leaf hAppend) |}
  /\ field_opts_override {| m_h := hDefault; m_ft := Some (policy_tree "paths" hAppend) |} "other" (-1)
     = Ok {| m_h := hDefault; m_ft := None |}
  /\ field_opts_override {| m_h := hAppend; m_ft := Some (policy_leaf hAppend) |} "child" (-1)
     = Ok {| m_h := hAppend; m_ft := None |}
  /\ field_opts_override {| m_h := hAppend; m_ft := Some (policy_leaf hAppend) |} "*" (-1)
     = Ok {| m_h := hAppend; m_ft := Some (policy_leaf hAppend) |}.
Proof. exact policy_examples. Qed.
Print Assumptions c16_named_field_instances_partial.

(* the same last name component at another depth is unaffected *)
Theorem c16_same_name_other_depth_instance_partial :
  let o := {| m_h := hDefault; m_ft := Some (policy_tree "paths" hAppend) |} in
  let l x := VSub [] (Some [("0", VUint x)]) in
  merge_full o
    (Some (VSub [("a", ("a", VSub [("paths", ("paths", l 1))] None)); ("paths", ("paths", l 1))] None))
    (VSub [("a", ("a", VSub [("paths", ("paths", l 2))] None)); ("paths", ("paths", l 2))] None)
  = Ok (VSub [("a", ("a", VSub [("paths", ("paths", l 2))] None));
              ("paths", ("paths", VSub [] (Some [("0", VUint 1); ("1", VUint 2)])))] None).
Proof. exact policy_depth_example. Qed.
Print Assumptions c16_same_name_other_depth_instance_partial.
