(* PropsC16.v — C16: a per-field merge policy applies to exactly the named subtree.
   Statements only; proofs are in ProofsPolicy.v.

   PARTIAL: proved for all trees is that wherever no field-policy tree is in force the merge
   IS the global-policy merge (which C01 ties to the plain-tree specification); which options
   are in force at and below a named field is shown on instances evaluated by the model
   (the named policy at the field, nothing of the tree below it, the tree dropped at every
   other name - hence, by the theorem, the global policy there), not yet for all field paths,
   indices and wildcards.  The correspondence run compares merge_full with the implementation
   on random trees, paths and policy combinations, and checks the property itself against the
   plain-tree specification spec_merge_at.  F31 is the known deviation at list levels. *)
From Ucfg Require Import Base ParseInt Consts Field Tree PathOps Merge ProofsPolicy.

Theorem c16_no_tree_is_global_policy_partial : forall v o old,
  m_ft o = None -> merge_full o old v = merge_plain o old v.
Proof. exact merge_full_no_tree. Qed.
Print Assumptions c16_no_tree_is_global_policy_partial.

Theorem c16_named_field_instances_partial :
  field_opts_override {| m_h := hDefault; m_ft := Some (policy_tree "paths" hAppend) |} "paths" (-1)
  = Ok {| m_h := hAppend; m_ft := Some (policy_leaf hAppend) |}
  /\ field_opts_override {| m_h := hDefault; m_ft := Some (policy_tree "paths" hAppend) |} "other" (-1)
     = Ok {| m_h := hDefault; m_ft := None |}
  /\ field_opts_override {| m_h := hAppend; m_ft := Some (policy_leaf hAppend) |} "child" (-1)
     = Ok {| m_h := hAppend; m_ft := None |}
  /\ field_opts_override {| m_h := hAppend; m_ft := Some (policy_leaf hAppend) |} "*" (-1)
     = Ok {| m_h := hAppend; m_ft := Some (policy_leaf hAppend) |}.
Proof. exact policy_examples. Qed.
Print Assumptions c16_named_field_instances_partial.

(* the same last name component at another depth is unaffected *)
Theorem c16_same_name_other_depth_instance_partial :
  let o := {| m_h := hDefault; m_ft := Some (policy_tree "paths" hAppend) |} in
  let l x := VSub [] (Some [("0", VUint x)]) in
  merge_full o
    (Some (VSub [("a", ("a", VSub [("paths", ("paths", l 1))] None)); ("paths", ("paths", l 1))] None))
    (VSub [("a", ("a", VSub [("paths", ("paths", l 2))] None)); ("paths", ("paths", l 2))] None)
  = Ok (VSub [("a", ("a", VSub [("paths", ("paths", l 2))] None));
              ("paths", ("paths", VSub [] (Some [("0", VUint 1); ("1", VUint 2)])))] None).
Proof. exact policy_depth_example. Qed.
Print Assumptions c16_same_name_other_depth_instance_partial.
