(* PropsC16.v — C16: a per-field merge policy applies to exactly the named subtree. *)
From Ucfg Require Import Base ParseInt Consts Field Tree PathOps Merge OTree.
