(* CorrC13.v — Unpack changes only what the config mentions, and nothing when it fails. *)
From Ucfg Require Export CorrC04.

(* on failure the struct passed in still holds its previous field values; only the contents
   of maps and pointed-to objects it shares may differ *)
Fixpoint gv_same_fields (a b : gv) {struct a} : bool :=
  match a, b with
  | GPtr _, GPtr _ => true                       (* same pointer; the pointee is shared *)
  | GMapV _, GMapV _ => true                     (* same map; its contents are shared *)
  | GCfgV _, GCfgV _ => true                     (* same *Config; the pointed-to config is shared *)
  (* a slice field still shows the entries it had: Unpack builds the new list in fresh storage and
     never writes through the caller's slice (what the entries point to is shared) *)
  | GSlice l1, GSlice l2 | GArr l1, GArr l2 | GStructV l1, GStructV l2 =>
    (fix go (l1 l2 : list gv) : bool :=
       match l1, l2 with
       | [], [] => true
       | x :: r1, y :: r2 => gv_same_fields x y && go r1 r2
       | _, _ => false
       end) l1 l2
  | _, _ => gv_eqb a b
  end.

(* on success every field for which the configuration has no setting is as it was *)
Fixpoint frame_ok (o : ropts) (t : ty) (cfg : value) (old new : gv) {struct t} : bool :=
  match t, old, new with
  | TStruct fs, GStructV os, GStructV ns =>
    (fix go (fl : list (string * string * string * ty)) (ol nl : list gv) {struct fl} : bool :=
       match fl, ol, nl with
       | (goname, ctag, _, ft) :: fr, x :: orr, y :: nr =>
         (if negb (is_upper_first goname) || tag_ignore ctag then gv_eqb x y
          else if tag_squash ctag then true
          else
            let name := if String.eqb (tag_name ctag) "" then lower_ascii_str goname else tag_name ctag in
            match get_path "" (opts_path (r_p o) name) cfg with
            | Ok (Some (_, VNil)) | Ok None | Err EMissing _ =>
              match ft with
              | TStruct _ => frame_ok o ft VNil x y
              | _ => gv_eqb x y
              end
            | Ok (Some (_, v)) =>
              match ft with
              | TStruct _ => frame_ok o ft v x y
              | _ => true
              end
            | _ => true
            end)
         && go fr orr nr
       | _, _, _ => true
       end) fs os ns
  | _, _, _ => true
  end.

Definition prop_c13 (c : case) : bool :=
  match c with
  | CUnpack o t old cfg (UErr _ _) after => gv_same_fields old after
  | CUnpack o t old cfg (UOk v) _ => frame_ok o t cfg old v
  | CUnpack _ _ _ _ UPanic _ => false
  (* vRegexp: a valid pair - the compiled fields are overwritten by what the configuration says,
     also when they hold a compiled expression already ([after] carries the expected fields) *)
  | CHooked what _ old ob after =>
    if String.eqb what "vRegexp"
    then match ob with UOk v => gv_eqb v after | _ => false end
    else match ob with
         | UErr _ _ => gv_same_fields old after
         | UPanic => false
         | _ => true
         end
  | _ => true
  end.

Definition verdict13 (c : case) : N :=
  if skipped c then 8%N
  else ((if model_agrees c then 0 else 1) + (if prop_c13 c then 0 else 2))%N.

Fixpoint run_cases (i : N) (cs : list case) : list (N * N * N) :=
  match cs with
  | [] => []
  | c :: r =>
    let v := verdict13 c in
    if (v =? 0)%N then run_cases (i + 1)%N r
    else (i, v, 0%N) :: run_cases (i + 1)%N r
  end.
