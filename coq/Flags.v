(* Flags.v — flag/value.go (NewFlagKeyValue), flag/util.go (FlagValue.Set),
   cfgutil.Collector.Add. *)
From Ucfg Require Import Base ParseInt Consts Field Tree PathOps Merge F64 ParseValue VarParse Normalize Ops.

Fixpoint pv_to_gval (v : pv) : gval :=
  match v with
  | PNil => GNil
  | PBool b => GBool b
  | PInt z => GInt z
  | PUint z => GUint z
  | PFloat f => GFloat f
  | PStr s => GStr s
  | PArr l => GList (map pv_to_gval l)
  | PObj m => GMap true ((fix go (l : list (string * pv)) : list (gkey * gval) :=
                            match l with [] => [] | (k, x) :: r => (KStr k, pv_to_gval x) :: go r end) m)
  end.

Record fstate := { f_cfg : value; f_err : obs }.     (* f_err = OV VNil when no error yet *)

Definition no_err (e : obs) : bool := match e with OV VNil => true | _ => false end.

(* the loader of NewFlagKeyValue: Some (Ok cfg) / Some error / None (argument ignored) *)
Definition load_arg (o : nopts) (autoBool : bool) (arg : string) : option (res value) :=
  match split_eq arg "" with
  | (_, None) =>
    if negb autoBool then Some (Err EOther "!raw")
    else Some (normalize o (GMap true [(KStr arg, GBool true)]))
  | (key, Some "") => None
  | (key, Some v) =>
    match parse_value_with_config DefaultConfig v with
    | POk x => Some (normalize o (GMap true [(KStr key, pv_to_gval x)]))
    | PErr _ => Some (Err EOther "!raw")
    | PPanic => Some Panic
    | PUnknown => Some OutOfModel
    end
  end.

(* FlagValue.Set = loader + Collector.Add; returns (error returned by Set, new state).
   [co] are the options the collector merges with. *)
Definition flag_set (o : nopts) (co : mopts) (autoBool : bool) (st : fstate) (arg : string)
  : obs * fstate :=
  match load_arg o autoBool arg with
  | None => (OV VNil, st)
  | Some r =>
    let reported := match r with
                    | Ok _ => OV VNil
                    | Err e p => OE e p
                    | Panic => OPanic
                    | OutOfModel => OSkip
                    end in
    if negb (no_err (f_err st)) then (reported, st)          (* the first error is kept *)
    else match r with
         | Ok c =>
           match merge_full co (Some (f_cfg st)) c with
           | Ok m => (reported, {| f_cfg := m; f_err := OV VNil |})
           | Err e p => (reported, {| f_cfg := f_cfg st; f_err := OE e p |})
           | Panic => (OPanic, st)
           | OutOfModel => (OSkip, st)
           end
         | Err e p => (reported, {| f_cfg := f_cfg st; f_err := OE e p |})
         | Panic => (OPanic, st)
         | OutOfModel => (OSkip, st)
         end
  end.
