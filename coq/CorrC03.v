(* CorrC03.v — typed unpacking preserves the value or fails: model vs implementation, and the
   decision rule evaluated on the implementation's result. *)
From Ucfg Require Export Base ParseInt Consts Field Tree PathOps Merge OTree F64 ParseValue VarParse Normalize Flags Ops VarEval Conv.

Inductive cobs := COk (c : cval) | CEr (r : ereason) | CPanic.

Inductive case :=
| CConv (how : string) (k : tkind) (v : value) (ft : list (Z * string)) (durs : list (string * option Z))
        (observed : cobs)
| CConvDyn (how : string) (k : tkind) (o : eopts) (root : value) (durs : list (string * option Z))
           (observed : cobs).

Definition dur_lookup (t : list (string * option Z)) (s : string) : option (option Z) := dict_get s t.

Definition cobs_of (r : res cval) : option cobs :=
  match r with
  | Ok c => Some (COk c)
  | Err e _ => Some (CEr e)
  | Panic => Some CPanic
  | OutOfModel => None
  end.

Definition cobs_eqb (a b : cobs) : bool :=
  match a, b with
  | COk x, COk y => cval_eqb x y
  | CEr r, CEr s => ereason_eqb r s
  | CPanic, CPanic => true
  | _, _ => false
  end.

Definition model_conv (c : case) : res cval :=
  match c with
  | CConv _ k v ft durs _ => conv ft (dur_lookup durs) k v
  | CConvDyn _ k o root durs _ =>
    let fuel := (40 + vsize root)%nat in
    x <- get_value_dyn o fuel root "v" (-1) (act_push fresh) ;;
    y <- force o fuel fuel (snd x) (fst x) ;;
    match l_val (fst y), k with
    | VNil, _ => OutOfModel           (* a nil setting leaves the zero value: not a conversion *)
    (* a value reached through references is converted like one written in place (durations too:
       reifyDuration follows the chain, so a number is a number of seconds) *)
    | pv, _ => conv (eo_ftext o) (dur_lookup durs) k pv
    end
  end.

Definition observed_of (c : case) : cobs :=
  match c with CConv _ _ _ _ _ ob | CConvDyn _ _ _ _ _ ob => ob end.

Definition model_agrees (c : case) : bool :=
  match cobs_of (model_conv c) with
  | Some m => cobs_eqb m (observed_of c)
  | None => true
  end.

Definition skipped (c : case) : bool :=
  match model_conv c with OutOfModel => true | _ => false end.

(** * The decision rule, stated independently of the conversion functions:
    the mathematical value of a numeric setting as an exact rational sign*num/den *)
Inductive mval := MNum (neg : bool) (num den : Z) | MNaN | MInf (neg : bool) | MNone.

Definition math_of_float (bits : Z) : mval :=
  match decode bits with
  | FFin neg m e => if 0 <=? e then MNum neg (m * 2 ^ e) 1 else MNum neg m (2 ^ (- e))
  | FInf n => MInf n
  | FNaN => MNaN
  end.

Definition math_val (v : value) : mval :=
  match v with
  | VInt i => MNum (i <? 0) (Z.abs i) 1
  | VUint u => MNum false u 1
  | VFloat f => math_of_float f
  | _ => MNone
  end.

(* truncation toward zero of sign*num/den *)
Definition mtrunc (neg : bool) (num den : Z) : Z := let q := num / den in if neg then - q else q.

(* what the property demands for an integer target of [lo, hi] *)
Definition int_rule (lo hi : Z) (v : value) (mk : Z -> cval) (ob : cobs) : bool :=
  match math_val v with
  | MNum neg num den =>
    let t := mtrunc neg num den in
    (* a negative value for an unsigned target is always an error, even when it truncates to 0 *)
    if (lo =? 0) && neg && negb (num =? 0) then match ob with CEr _ => true | _ => false end
    else if (lo <=? t) && (t <=? hi) then cobs_eqb ob (COk (mk t))
    else match ob with CEr _ => true | _ => false end
  | MNaN | MInf _ => match ob with CEr _ => true | _ => false end
  | MNone =>
    match v with
    | VStr s =>
      (* a string must parse as an integer literal of the target's signedness *)
      match (if lo <? 0 then parse_int0 s else parse_uint0_opt s) with
      | Some t => if (lo <=? t) && (t <=? hi) then cobs_eqb ob (COk (mk t))
                  else match ob with CEr _ => true | _ => false end
      | None => match ob with CEr _ => true | _ => false end
      end
    | _ => match ob with CEr _ => true | _ => false end        (* bool, container: not a number *)
    end
  end.

Definition prop_holds (c : case) : bool :=
  let ob := observed_of c in
  match ob with
  | CPanic => false
  | _ =>
    match c with
    | CConv _ k v _ _ _ =>
      match k with
      | KInt bits => int_rule (- 2 ^ (bits - 1)) (2 ^ (bits - 1) - 1) v CI ob
      | KUint bits => int_rule 0 (2 ^ bits - 1) v CU ob
      | KDuration =>
        match math_val v with
        | MNum neg num den =>
          (* numbers mean seconds *)
          let ns := mtrunc neg (num * second_ns) den in
          if (minI64 <=? ns) && (ns <=? maxI64)
          then match ob with
               | COk (CD o) =>
                 (* integers exactly; floats up to the float64 rounding of the product *)
                 match v with VFloat _ => Z.abs (o - ns) <=? Z.max 1 (Z.abs ns / 2 ^ 52) | _ => o =? ns end
               | _ => false end
          else match ob with
               | CEr _ => true
               (* a float whose product with 1e9 rounds onto the bound itself: the same float64
                  rounding of the product that is granted inside the range *)
               | COk (CD o) => match v with VFloat _ => Z.abs (o - ns) <=? Z.max 1 (Z.abs ns / 2 ^ 52) | _ => false end
               | _ => false
               end
        | MNaN | MInf _ => match ob with CEr _ => true | _ => false end
        | MNone => true
        end
      | KBool => match v with
                 | VBool b => cobs_eqb ob (COk (CB b))
                 | VStr _ => true
                 | _ => match ob with CEr _ => true | _ => false end
                 end
      | KString => match v with VStr s => cobs_eqb ob (COk (CS s)) | _ => true end
      | KFloat64 => match v with
                    | VFloat f => cobs_eqb ob (COk (CF f))
                    | VInt i | VUint i => cobs_eqb ob (COk (CF (f64_of_Z i)))      (* correctly rounded *)
                    | VStr _ => true
                    | _ => match ob with CEr _ => true | _ => false end
                    end
      | KFloat32 =>
        (* a finite number beyond the largest float32, (2^24-1)*2^104, is out of range; it must
           not come back as an infinity *)
        let maxf32 := (2 ^ 24 - 1) * 2 ^ 104 in
        let beyond := match v with
                      | VFloat f => match decode f with
                                    | FFin _ m e => if 0 <=? e then maxf32 <? m * 2 ^ e else false
                                    | _ => false end
                      | VInt i | VUint i => maxf32 <? Z.abs i
                      | _ => false
                      end in
        if beyond then match ob with CEr _ => true | _ => false end else true
      end
    | CConvDyn _ _ _ _ _ _ => true
    end
  end.

(* known-finding signatures *)
Definition signature (c : case) : N := 0%N.

Definition verdict (c : case) : N :=
  if skipped c then 8%N
  else ((if model_agrees c then 0 else 1) + (if prop_holds c then 0 else 2))%N.

Fixpoint run_cases (i : N) (cs : list case) : list (N * N * N) :=
  match cs with
  | [] => []
  | c :: r =>
    let v := verdict c in
    if (v =? 0)%N then run_cases (i + 1)%N r
    else (i, v, signature c) :: run_cases (i + 1)%N r
  end.
