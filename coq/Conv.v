(* Conv.v — typed conversions (types.go toBool/toInt/toUint/toFloat/toString, reify.go
   reifyInt/reifyUint/reifyFloat/reifyBool/reifyDuration/doReifyPrimitive, the getters). *)
From Ucfg Require Import Base ParseInt Consts Field Tree F64.

(** target kinds of a primitive setting *)
Inductive tkind :=
| KBool | KInt (bits : Z) | KUint (bits : Z) | KFloat32 | KFloat64 | KString | KDuration.

(** converted values: integers by value, floats by their float64 bit pattern, durations in ns *)
Inductive cval := CB (b : bool) | CI (z : Z) | CU (z : Z) | CF (bits : Z) | CS (s : string) | CD (ns : Z).

Definition cval_eqb (a b : cval) : bool :=
  match a, b with
  | CB x, CB y => Bool.eqb x y
  | CI x, CI y | CU x, CU y | CF x, CF y | CD x, CD y => Z.eqb x y
  | CS x, CS y => String.eqb x y
  | _, _ => false
  end.

Definition minI64 : Z := - two63z.
Definition maxI64 : Z := two63z - 1.
Definition maxU64z : Z := two64z - 1.

(* strconv.ParseBool *)
Definition parse_bool (s : string) : option bool :=
  if existsb (String.eqb s) ["1"; "t"; "T"; "TRUE"; "true"; "True"] then Some true
  else if existsb (String.eqb s) ["0"; "f"; "F"; "FALSE"; "false"; "False"] then Some false
  else None.

Definition to_bool (v : value) : res bool :=
  match v with
  | VBool b => Ok b
  | VStr s => match parse_bool s with Some b => Ok b | None => Err EOther "" end
  | VRef _ _ | VSplice _ => OutOfModel
  | _ => Err ETypeMismatch ""
  end.

(** float -> int64: the value must lie in [-2^63, 2^63) (NaN and infinities do not) *)
Definition float_to_int (bits : Z) : res Z :=
  match decode bits with
  | FFin neg m e =>
    let t := fin_trunc neg m e in
    if (minI64 <=? t) && (t <=? maxI64) then Ok t else Err EOverflow ""
  | _ => Err EOverflow ""
  end.

Definition float_to_uint (bits : Z) : res Z :=
  match decode bits with
  | FFin neg m e =>
    if neg && negb (m =? 0) then Err ENegative ""
    else let t := fin_trunc false m e in
         if t <=? maxU64z then Ok t else Err EOverflow ""
  | FInf true => Err ENegative ""
  | _ => Err EOverflow ""
  end.

Definition to_int (v : value) : res Z :=
  match v with
  | VInt i => Ok i
  | VUint u => if maxI64 <? u then Err EOverflow "" else Ok u
  | VFloat f => float_to_int f
  | VStr s => match parse_int0 s with Some i => Ok i | None => Err EOther "" end
  | VRef _ _ | VSplice _ => OutOfModel
  | _ => Err ETypeMismatch ""
  end.

Definition to_uint (v : value) : res Z :=
  match v with
  | VInt i => if i <? 0 then Err ENegative "" else Ok i
  | VUint u => Ok u
  | VFloat f => float_to_uint f
  | VStr s => match parse_uint0_opt s with Some u => Ok u | None => Err EOther "" end
  | VRef _ _ | VSplice _ => OutOfModel
  | _ => Err ETypeMismatch ""
  end.

Definition to_float (v : value) : res Z :=
  match v with
  | VInt i => Ok (f64_of_Z i)
  | VUint u => Ok (f64_of_Z u)
  | VFloat f => Ok f
  | VStr s => match parse_float_dec s with
              | PFOk b => Ok b
              | PFUnknown => OutOfModel
              | _ => Err EOther ""
              end
  | VRef _ _ | VSplice _ => OutOfModel
  | _ => Err ETypeMismatch ""
  end.

(* [ft]: oracle table for the %v text of floats *)
Definition to_string (ft : list (Z * string)) (v : value) : res string :=
  match v with
  | VNil => Ok "null"
  | VBool true => Ok "true"
  | VBool false => Ok "false"
  | VInt z | VUint z => Ok (dec z)
  | VStr s => Ok s
  | VFloat f => (fix look (t : list (Z * string)) : res string :=
                   match t with
                   | [] => OutOfModel
                   | (b, s) :: r => if Z.eqb b f then Ok s else look r
                   end) ft
  | VRef _ _ | VSplice _ => OutOfModel
  | VSub _ _ => Err ETypeMismatch ""
  end.

(** float64 -> float32 -> float64 (reflect Convert), nearest-even on a 24-bit mantissa *)
Definition round_f32 (bits : Z) : Z :=
  match decode bits with
  | FFin neg m e =>
    if m =? 0 then bits
    else
      (* value m*2^e; target exponent so that the mantissa has 24 bits, not below -149 *)
      let k := Z.log2 m + e in                       (* floor(log2 value) *)
      let e' := Z.max (k - 23) (-149) in
      let sh := e' - e in                            (* drop [sh] low bits when positive *)
      let '(q, up) :=
          if sh <=? 0 then (m * 2 ^ (- sh), false)
          else let q := m / 2 ^ sh in
               let r := m mod 2 ^ sh in
               let half := 2 ^ (sh - 1) in
               (q, (half <? r) || ((r =? half) && Z.odd q)) in
      let q := if up then q + 1 else q in
      let '(q, e') := if q =? 2 ^ 24 then (2 ^ 23, e' + 1) else (q, e') in
      if 104 <? e' then (if neg then neg_inf_bits else pos_inf_bits)     (* beyond MaxFloat32 *)
      else if q =? 0 then (if neg then sign_bit else 0)
      else match round_q neg (if 0 <=? e' then q * 2 ^ e' else q) (if 0 <=? e' then 1 else 2 ^ (- e')) with
           | Some b => b
           | None => bits
           end
  | _ => bits
  end.

Definition maxFloat32_bits : Z := 5183643170566569984.   (* 0x47EFFFFFE0000000 *)

(* reflect.Value.OverflowFloat for float32: MaxFloat32 < |x| <= MaxFloat64 *)
Definition overflow_f32 (bits : Z) : bool :=
  match decode bits with
  | FFin _ m e =>
    match decode maxFloat32_bits with
    | FFin _ m2 e2 =>
      (* compare m*2^e with m2*2^e2 exactly *)
      let lo := Z.min e e2 in
      (m2 * 2 ^ (e2 - lo)) <? (m * 2 ^ (e - lo))
    | _ => false
    end
  | _ => false
  end.

Definition second_ns : Z := 1000000000.

(** doReifyPrimitive on a primitive (non-nil, non-dynamic) value for a base kind.
    [dur]: oracle for time.ParseDuration on strings (None = not supplied). *)
Definition conv (ft : list (Z * string)) (dur : string -> option (option Z)) (k : tkind) (v : value)
  : res cval :=
  match k with
  | KString => s <- to_string ft v ;; Ok (CS s)
  | KBool => b <- to_bool v ;; Ok (CB b)
  | KInt bits =>
    i <- to_int v ;;
    if (- 2 ^ (bits - 1) <=? i) && (i <=? 2 ^ (bits - 1) - 1) then Ok (CI i) else Err EOverflow ""
  | KUint bits =>
    u <- to_uint v ;;
    if u <=? 2 ^ bits - 1 then Ok (CU u) else Err EOverflow ""
  | KFloat64 => f <- to_float v ;; Ok (CF (match decode f with FNaN => nan_bits | _ => f end))
  | KFloat32 =>
    f <- to_float v ;;
    if overflow_f32 f then Err EOverflow ""
    else Ok (CF (match decode f with FNaN => nan_bits | _ => round_f32 f end))
  | KDuration =>
    match v with
    | VInt i | VUint i =>
      let ns := i * second_ns in
      if (minI64 <=? ns) && (ns <=? maxI64) then Ok (CD ns) else Err EOverflow ""
    | VFloat f =>
      (* seconds as a float: the product is rounded to float64, then truncated *)
      match decode f with
      | FFin neg m e =>
        if m =? 0 then Ok (CD 0)
        else
          let num := if 0 <=? e then m * 2 ^ e * second_ns else m * second_ns in
          let den := if 0 <=? e then 1 else 2 ^ (- e) in
          match round_q neg num den with
          | Some pb => match float_to_int pb with
                       | Ok ns => Ok (CD ns)
                       | _ => Err EOverflow ""
                       end
          | None => Err EOverflow ""
          end
      | _ => Err EOverflow ""
      end
    | VStr s =>
      match dur s with
      | Some (Some ns) => Ok (CD ns)
      | Some None => Err EOther ""
      | None => OutOfModel
      end
    | VRef _ _ | VSplice _ => OutOfModel
    | VBool b => match dur (if b then "true" else "false") with
                 | Some (Some ns) => Ok (CD ns) | Some None => Err EOther "" | None => OutOfModel end
    | VNil => match dur "null" with
              | Some (Some ns) => Ok (CD ns) | Some None => Err EOther "" | None => OutOfModel end
    | VSub _ _ => Err ETypeMismatch ""
    end
  end.
