(* ProofsRefine.v — C08: on the reference fragment the model of the implementation's bookkeeping
   (VarEval.v: sets of active names that grow within a scope) computes what the specification
   (SpecEval.v: a stack of the names being evaluated) says.  For the tree that is read and Env
   configs made of plain references (any shape: cyclic, dangling, into lists, at containers or
   at other references, across trees), without resolvers, a String read by the two evaluators
   gives the same value or an error of the same reason, whenever the fuel exceeds the number
   of references. *)
From Ucfg Require Import Base ParseInt Consts Field Tree PathOps Merge OTree F64 ParseValue VarParse Normalize Flags VarEval SpecEval ProofsVarEval ProofsFuel ProofsTerm ProofsSpec ProofsSpecTerm.
From Coq Require Import Lia.
Local Open Scope nat_scope.

(** the set of active names and the stack hold the same names (the bookkeeping marker aside) *)
Definition same (a : act) (st : stack) : Prop :=
  forall n, n <> cyc_marker -> act_has n a = on_stack n st.

Lemma on_stack_cons x n st : on_stack x (n :: st) = String.eqb x n || on_stack x st.
Proof. reflexivity. Qed.

Lemma same_add n a st : same a st -> same (act_add n a) (n :: st).
Proof. intros H x Hx. rewrite act_has_add, on_stack_cons, (H x Hx). reflexivity. Qed.

Lemma act_has_mark n a : n <> cyc_marker -> act_has n (act_mark a) = act_has n a.
Proof.
  intro Hn. assert (String.eqb n cyc_marker = false) as E by (apply String.eqb_neq; exact Hn).
  unfold act_has. induction a as [|s r IH].
  - cbn. rewrite E. reflexivity.
  - destruct r as [|s2 r2].
    + cbn [act_mark existsb]. rewrite E. reflexivity.
    + change (act_mark (s :: s2 :: r2)) with (s :: act_mark (s2 :: r2)). cbn [existsb]. rewrite IH. reflexivity.
Qed.

Lemma same_mark a st : same a st -> same (act_mark a) st.
Proof. intros H x Hx. rewrite (act_has_mark x a Hx). exact (H x Hx). Qed.

Lemma same_cond (c : bool) a st : same a st -> same (if c then act_mark a else a) st.
Proof. intro H. destruct c; [apply same_mark|]; exact H. Qed.

(** agreement of outcomes *)
Definition simv {A B} (eqv : A -> B -> Prop) (r : R A) (s : SR B) : Prop :=
  match r, s with
  | Ok (x, _), Ok (y, _) => eqv x y
  | Err e _, Err e' _ => e = e'
  | Panic, Panic => True
  | _, _ => False
  end.

Definition simr (x y : res (option loc)) : Prop :=
  match x, y with
  | Ok u, Ok v => u = v
  | Err e _, Err e' _ => e = e'
  | Panic, Panic => True
  | _, _ => False
  end.

Definition simq (x y : rres) : Prop :=
  match x, y with
  | RFound v, RFound w => v = w
  | RNone, RNone | RMissing, RMissing | RCyclic, RCyclic => True
  | RCritical e _, RCritical e' _ => e = e'
  | RStop Panic, RStop Panic => True
  | _, _ => False
  end.

(** what a located value is once its references have been followed: a config, or not *)
Definition cls (w : loc) : option loc :=
  match l_val w with
  | VSub _ _ => Some w
  | VNil => Some {| l_root := l_root w; l_path := l_path w; l_val := empty_cfg |}
  | _ => None
  end.

Section Force.
  Variable o : eopts.

  (* the local loops of the model follow a chain of dynamic values like [force] does *)
  Lemma to_cfg_dyn_force f : forall n a v,
    match force o f n a v with
    | Ok (w, a') => is_dyn (l_val w) = false /\ to_cfg_dyn (dyn_value o f) n a v = Ok (cls w, a')
    | Err _ _ => exists a'', to_cfg_dyn (dyn_value o f) n a v = Ok (None, a'')
    | Panic => to_cfg_dyn (dyn_value o f) n a v = Panic
    | OutOfModel => to_cfg_dyn (dyn_value o f) n a v = OutOfModel
    end.
  Proof.
    induction n as [|n IH]; intros a v; [reflexivity|]. cbn [force to_cfg_dyn].
    destruct (l_val v) as [ | | | | | |p sep|e|d0 a0] eqn:Ev; unfold cls; try (rewrite Ev; split; reflexivity).
    - destruct (dyn_value o f (l_root v) a (l_path v) (VRef p sep)) as [[v1 a1]|e1 pe| |]; cbn [bind fst snd];
        [exact (IH a1 v1)|eexists; reflexivity|reflexivity|reflexivity].
    - destruct (dyn_value o f (l_root v) a (l_path v) (VSplice e)) as [[v1 a1]|e1 pe| |]; cbn [bind fst snd];
        [exact (IH a1 v1)|eexists; reflexivity|reflexivity|reflexivity].
  Qed.

  Lemma to_string_dyn_force f : forall n a v,
    to_string_dyn o (dyn_value o f) n a v
    = match force o f n a v with
      | Ok (w, a') => s <- with_mark a' (simple_string (eo_ftext o) (l_val w)) ;; Ok (s, a')
      | Err e p => Err e p
      | Panic => Panic
      | OutOfModel => OutOfModel
      end.
  Proof.
    induction n as [|n IH]; intros a v; [reflexivity|]. cbn [force to_string_dyn].
    destruct (l_val v) as [ | | | | | |p sep|e|d0 a0] eqn:Ev; try (rewrite Ev; reflexivity).
    - destruct (dyn_value o f (l_root v) a (l_path v) (VRef p sep)) as [[v1 a1]|e1 pe| |]; cbn [bind fst snd]; try reflexivity.
      exact (IH a1 v1).
    - destruct (dyn_value o f (l_root v) a (l_path v) (VSplice e)) as [[v1 a1]|e1 pe| |]; cbn [bind fst snd]; try reflexivity.
      exact (IH a1 v1).
  Qed.
End Force.

Lemma dv_ok_mono o own S0 K K' dv : K <= K' -> dv_ok o own S0 K' dv -> dv_ok o own S0 K dv.
Proof. intros L H rt a dp d Hin Hs Hm. apply H; [exact Hin|exact Hs|lia]. Qed.

Lemma m_mark S0 a : m S0 (act_mark a) <= m S0 a.
Proof. apply m_le. apply le_act_mark. Qed.

Section Refine.
  Variable o : eopts.
  Hypothesis Hres : eo_res o = [].
  Variable own : value.
  Variable S0 : list string.
  Hypothesis Href : forall p sep, good o own (VRef p sep) -> In (path_str p sep) S0.
  Hypothesis Hspl : forall e, ~ good o own (VSplice e).
  Hypothesis Hmark : ~ In cyc_marker S0.

  Notation lg := (lgood o own).
  Notation mm := (m S0).

  Section Step.
    Variable K f2 : nat.
    (* agreement for chains with fewer than K free names, whatever the fuel of the model *)
    Hypothesis HA : forall f1, K <= f1 -> forall rt a st dp p sep n,
      In rt (all o own) -> sub (VRef p sep) rt -> same a st -> mm a < K -> mm a < n ->
      simv eq (force o f1 n a {| l_root := rt; l_path := dp; l_val := VRef p sep |}) (dyn_s o f2 rt st dp (VRef p sep)).

    Variable f1 : nat.
    Hypothesis Hf1 : K <= f1.
    Notation dv := (dyn_value o f1).
    Notation dvs := (dyn_s o f2).

    Lemma Hdv : dv_ok o own S0 K dv.
    Proof. apply (dv_ok_mono o own S0 K f1); [exact Hf1|]. apply dyn_value_ok; assumption. Qed.

    Lemma force_sim n a st v : lg v -> same a st -> mm a < K -> mm a < n ->
      simv eq (force o f1 n a v) (force1 dvs st v).
    Proof.
      intros [Hr Hg] Hs Hk Hn. destruct n as [|n]; [lia|].
      destruct v as [rt dp d]. cbn [l_root l_val l_path] in *. unfold force1. cbn [l_val l_root l_path].
      destruct d as [ | | | | | |p sep|e|d0 a0]; try (cbn [force l_val]; reflexivity).
      - exact (HA f1 Hf1 rt a st dp p sep (S n) Hr Hg Hs Hk Hn).
      - exfalso. apply (Hspl e). exists rt. split; assumption.
    Qed.

    Definition field_post (st : stack) (x : R (res (option loc))) (y : SR (res (option loc))) : Prop :=
      match x, y with
      | Ok (r, a'), Ok (r', _) => simr r r' /\ same a' st
      | Panic, Panic => True
      | _, _ => False
      end.

    Lemma get_field_sim fuel0 fl a st elem : K <= fuel0 ->
      lg elem -> same a st -> mm a < K -> mm a < fuel0 ->
      field_post st (get_field_dyn dv fuel0 fl a elem) (get_field_s dvs fl st elem).
    Proof.
      intros HK0 G Hs Hk Hn. unfold get_field_dyn, get_field_s, to_cfg_s.
      pose proof (to_cfg_dyn_force o f1 fuel0 a elem) as TF.
      pose proof (force_sim fuel0 a st elem G Hs Hk Hn) as FS.
      pose proof (to_cfg_dyn_ok o own S0 Hspl dv K fuel0 Hdv HK0 fuel0 a elem G Hn Hk) as TO.
      destruct (force o f1 fuel0 a elem) as [[w a0]|e pe| |];
        destruct (force1 dvs st elem) as [[w' m']|e' pe'| |]; cbn [simv] in FS; try contradiction.
      - subst w'. destruct TF as [ND TF]. rewrite TF in *. cbn [bind]. cbv zeta.
        assert (same (if act_marked a0 then act_mark a else a) st) as SC by (apply same_cond; exact Hs).
        destruct TO as [_ C]. unfold cls in *.
        destruct (l_val w) as [ | | | | | |p sep|e|d0 ar] eqn:Ew; cbn [bind];
          try (destruct fl as [nm|i]; [|destruct i as [|i|i]]; cbn [field_post simr]; split; try reflexivity; exact SC).
        destruct (C _ eq_refl) as [Hsb _]. rewrite Ew in Hsb.
        cbv zeta. cbn [l_val l_path l_root fst snd]. rewrite ?Ew.
        destruct (get_field_decided fl (l_path w) (VSub d0 ar) Hsb) as [NO NP].
        destruct (get_field fl (l_path w) (VSub d0 ar)) as [[[pp x]|]|e pe| |]; try contradiction;
          cbn [field_post simr]; (split; [reflexivity|exact SC]).
      - destruct TF as [a'' TF]. rewrite TF. cbn [bind]. cbv zeta.
        assert (same (if act_marked a'' then act_mark a else a) st) as SC by (apply same_cond; exact Hs).
        destruct fl as [nm|i]; [|destruct i as [|i|i]]; cbn [field_post simr]; split; try reflexivity; exact SC.
      - rewrite TF. cbn [bind field_post]. exact I.
    Qed.
    Lemma get_path_sim fuel0 : K <= fuel0 -> forall fs a st cur,
      lg cur -> same a st -> mm a < K -> mm a < fuel0 ->
      field_post st (get_path_dyn dv fuel0 fs a cur) (get_path_s dvs fs st cur).
    Proof.
      intro HK0. induction fs as [|fl rest IH]; intros a st cur G Hs Hk Hn.
      - cbn [get_path_dyn get_path_s field_post simr]. split; [reflexivity|exact Hs].
      - pose proof (get_field_sim fuel0 fl a st cur HK0 G Hs Hk Hn) as F.
        pose proof (get_field_dyn_ok o own S0 Hspl dv K fuel0 Hdv HK0 fl a cur G Hn Hk) as FO.
        destruct rest as [|f2' rest'].
        + cbn [get_path_dyn get_path_s].
          destruct (get_field_dyn dv fuel0 fl a cur) as [[r a1]|e pe| |];
            destruct (get_field_s dvs fl st cur) as [[r' m1]|e' pe'| |]; cbn [field_post] in F; try contradiction; cbn [bind fst snd].
          * destruct F as [SR SA].
            destruct r as [ol|e pe| |]; destruct r' as [ol'|e' pe'| |]; cbn [simr] in SR; try contradiction;
              cbn [field_post simr]; (split; [try reflexivity; try exact SR|exact SA]).
          * exact I.
        + change (get_path_dyn dv fuel0 (fl :: f2' :: rest') a cur)
            with (x <- get_field_dyn dv fuel0 fl a cur ;;
                  match fst x with
                  | Ok (Some nxt) => get_path_dyn dv fuel0 (f2' :: rest') (snd x) nxt
                  | Ok None => Ok (Err EMissing "", snd x)
                  | r => Ok (r, snd x)
                  end).
          change (get_path_s dvs (fl :: f2' :: rest') st cur)
            with (x <- get_field_s dvs fl st cur ;;
                  match fst x with
                  | Ok (Some nxt) => y <- get_path_s dvs (f2' :: rest') st nxt ;; Ok (fst y, snd x || snd y)
                  | Ok None => Ok (Err EMissing "", snd x)
                  | r => Ok (r, snd x)
                  end).
          destruct (get_field_dyn dv fuel0 fl a cur) as [[r a1]|e pe| |];
            destruct (get_field_s dvs fl st cur) as [[r' m1]|e' pe'| |]; cbn [field_post] in F; try contradiction; cbn [bind fst snd].
          * destruct F as [SR SA]. cbn [read_post] in FO. destruct FO as [L [NO GL]].
            pose proof (m_le S0 _ _ L) as ML.
            destruct r as [[nxt|]|e pe| |]; destruct r' as [[nxt'|]|e' pe'| |]; cbn [simr] in SR; try contradiction; try discriminate SR.
            -- injection SR as SR. subst nxt'.
               specialize (IH a1 st nxt (GL nxt eq_refl) SA ltac:(lia) ltac:(lia)).
               destruct (get_path_dyn dv fuel0 (f2' :: rest') a1 nxt) as [[r2 a2]|e2 pe2| |];
                 destruct (get_path_s dvs (f2' :: rest') st nxt) as [[r2' m2]|e2' pe2'| |]; cbn [field_post] in IH; try contradiction; cbn [bind fst snd field_post].
               ++ exact IH.
               ++ exact I.
            -- cbn [field_post simr]. split; [reflexivity|exact SA].
            -- cbn [field_post simr]. split; [exact SR|exact SA].
            -- cbn [field_post simr]. split; [exact I|exact SA].
          * exact I.
    Qed.
    Lemma try_roots_sim fuel0 p : K <= fuel0 -> forall roots a st last last' mf,
      (forall rt, In rt roots -> In rt (all o own)) -> last_ok last -> simq last last' ->
      same a st -> mm a < K -> mm a < fuel0 ->
      simq (fst (try_roots dv fuel0 p roots a last)) (fst (try_roots_s dvs p roots st last' mf))
      /\ same (snd (try_roots dv fuel0 p roots a last)) st.
    Proof.
      intro HK0. induction roots as [|rt more IH]; intros a st last last' mf Hin Hl Sl Hs Hk Hn.
      - cbn [try_roots try_roots_s fst snd]. split; [exact Sl|exact Hs].
      - cbn [try_roots try_roots_s].
        assert (lg {| l_root := rt; l_path := ""; l_val := rt |}) as GR
            by (split; [apply Hin; left; reflexivity|apply sub_refl]).
        assert (forall x, In x more -> In x (all o own)) as Hin' by (intros x Hx; apply Hin; right; exact Hx).
        pose proof (get_path_sim fuel0 HK0 p a st _ GR Hs Hk Hn) as P.
        pose proof (get_path_dyn_ok o own S0 Hspl dv K fuel0 Hdv HK0 p a _ GR Hn Hk) as PO.
        destruct (get_path_dyn dv fuel0 p a {| l_root := rt; l_path := ""; l_val := rt |}) as [[r a1]|e pe| |];
          destruct (get_path_s dvs p st {| l_root := rt; l_path := ""; l_val := rt |}) as [[r' m1]|e' pe'| |];
          cbn [field_post] in P; try contradiction.
        + destruct P as [SR SA]. cbn [read_post] in PO. destruct PO as [L [NO GL]].
          pose proof (m_le S0 _ _ L) as ML.
          destruct r as [[v|]|e pe| |]; destruct r' as [[v'|]|e' pe'| |]; cbn [simr] in SR; try contradiction; try discriminate SR.
          * injection SR as SR. subst v'. cbn [fst snd simq]. split; [reflexivity|exact SA].
          * apply IH; [exact Hin'|exact I|exact I|exact SA|lia|lia].
          * subst e'. destruct e; apply IH; try exact Hin'; try exact I; try exact SA; try lia; cbn [simq]; reflexivity.
          * cbn [fst snd simq]. split; [exact I|exact SA].
        + cbn [fst snd simq]. split; [exact I|exact Hs].
    Qed.
  End Step.

  Lemma simv_taint {A B} (eqv : A -> B -> Prop) (r : R A) mfl (s : SR B) : simv eqv r s -> simv eqv r (taint mfl s).
  Proof.
    destruct r as [[x a]|e p| |], s as [[y m']|e' p'| |]; cbn [simv taint]; auto;
      destruct (mfl && negb (err_marked p')); auto.
  Qed.

  Lemma name_not_marker p sep rt : In rt (all o own) -> sub (VRef p sep) rt -> path_str p sep <> cyc_marker.
  Proof.
    intros Hin Hs E. apply Hmark. rewrite <- E. apply Href. exists rt. split; assumption.
  Qed.

  (** one more free name *)
  Lemma agree_step K f2
    (HA : forall f1, K <= f1 -> forall rt a st dp p sep n,
        In rt (all o own) -> sub (VRef p sep) rt -> same a st -> mm a < K -> mm a < n ->
        simv eq (force o f1 n a {| l_root := rt; l_path := dp; l_val := VRef p sep |}) (dyn_s o f2 rt st dp (VRef p sep))) :
    forall f1, K <= f1 -> forall rt a st dp p sep n,
      In rt (all o own) -> sub (VRef p sep) rt -> same a st -> mm a < S K -> mm a < n ->
      simv eq (force o (S f1) n a {| l_root := rt; l_path := dp; l_val := VRef p sep |}) (dyn_s o (S f2) rt st dp (VRef p sep)).
  Proof.
    intros f1 Hf1 rt a st dp p sep n Hin Hsb Hs Hk Hn.
    destruct n as [|n]; [lia|].
    cbn [force l_val l_root l_path].
    change (dyn_value o (S f1)) with (dyn_step o (dyn_value o f1) (S f1)).
    change (dyn_s o (S f2)) with (dyn_step_s o (dyn_s o f2)).
    unfold dyn_step, dyn_step_s, resolve_ref, resolve_ref_s.
    assert (In (path_str p sep) S0) as IN by (apply Href; exists rt; split; assumption).
    pose proof (name_not_marker p sep rt Hin Hsb) as NM.
    rewrite <- (Hs _ NM).
    destruct (act_has (path_str p sep) a) eqn:EA.
    - rewrite (no_resolver o Hres). unfold mkerr. destruct (act_marked a); cbn [bind simv taint andb]; reflexivity.
    - pose proof (m_add S0 _ _ IN EA) as MA.
      assert (K <= S f1) as HK0 by lia.
      assert (forall x, In x (rt :: rev (eo_envs o)) -> In x (all o own)) as Hroots
          by (intros x Hx; exact (in_all_rev o own x rt Hin Hx)).
      pose proof (try_roots_sim K f2 HA f1 Hf1 (S f1) p HK0 (rt :: rev (eo_envs o)) (act_add (path_str p sep) a)
                    (path_str p sep :: st) RNone RNone false Hroots I I (same_add _ _ _ Hs) ltac:(lia) ltac:(lia)) as [SQ SA].
      pose proof (try_roots_ok o own S0 Hspl (dyn_value o f1) K (S f1) (Hdv K f1 Hf1) HK0 p (rt :: rev (eo_envs o))
                    (act_add (path_str p sep) a) RNone Hroots I ltac:(lia) ltac:(lia)) as [L [NO [NC GL]]].
      destruct (try_roots (dyn_value o f1) (S f1) p (rt :: rev (eo_envs o)) (act_add (path_str p sep) a) RNone) as [r a1].
      destruct (try_roots_s (dyn_s o f2) p (rt :: rev (eo_envs o)) (path_str p sep :: st) RNone false) as [r' m1].
      cbn [fst snd] in *. pose proof (m_le S0 _ _ L) as ML.
      destruct r as [v| | | |e pe|r0]; [| | | | |rewrite (NO r0 eq_refl) in *];
        destruct r' as [v'| | | |e' pe'|r0']; cbn [simq] in SQ; try contradiction.
      + subst v'. cbn [bind fst snd]. apply simv_taint.
        apply (force_sim K f2 HA (S f1) HK0 n a1 (path_str p sep :: st) v (GL v eq_refl) SA); lia.
      + rewrite (no_resolver o Hres). unfold mkerr. destruct (act_marked a1); cbn [bind]; apply simv_taint; reflexivity.
      + rewrite (no_resolver o Hres). unfold mkerr. destruct (act_marked a1); cbn [bind]; apply simv_taint; reflexivity.
      + subst e'. rewrite (no_resolver o Hres). unfold mkerr. destruct (act_marked a1); cbn [bind]; apply simv_taint; reflexivity.
      + destruct r0'; try contradiction. exact I.
  Qed.

  Lemma agree_all : forall K f1 f2, K <= f1 -> K <= f2 -> forall rt a st dp p sep n,
    In rt (all o own) -> sub (VRef p sep) rt -> same a st -> mm a < K -> mm a < n ->
    simv eq (force o f1 n a {| l_root := rt; l_path := dp; l_val := VRef p sep |}) (dyn_s o f2 rt st dp (VRef p sep)).
  Proof.
    induction K as [|K IH]; intros f1 f2 H1 H2 rt a st dp p sep n Hin Hsb Hs Hk Hn; [lia|].
    destruct f1 as [|f1]; [lia|]. destruct f2 as [|f2]; [lia|].
    apply (agree_step K f2); try assumption; try lia.
    intros f1' Hf1'. apply IH; lia.
  Qed.
  Lemma same_fresh : same fresh [].
  Proof. intros n _. reflexivity. Qed.

  (** a String read: the model and the specification agree *)
  Definition agree (r : res string) (s : SR string) : Prop :=
    match r, s with
    | Ok x, Ok (y, _) => x = y
    | Err e _, Err e' _ => e = e'
    | Panic, Panic => True
    | OutOfModel, OutOfModel => True      (* a float without an entry in the text table *)
    | _, _ => False
    end.

  Lemma agree_taint r mfl s : agree r s -> agree r (taint mfl s).
  Proof.
    destruct r as [x|e p| |], s as [[y m']|e' p'| |]; cbn [agree taint]; auto;
      destruct (mfl && negb (err_marked p')); auto.
  Qed.

  Theorem read_string_refines fuel name idx : List.length S0 < fuel ->
    agree (read_string o fuel own name idx) (spec_string o fuel own name idx).
  Proof.
    intro HF. unfold read_string, get_value_dyn, spec_string.
    pose proof (m_bound S0 fresh) as MB.
    assert (lg {| l_root := own; l_path := ""; l_val := own |}) as GR by (split; [left; reflexivity|apply sub_refl]).
    set (HA := fun f1 (H1 : fuel <= f1) => agree_all fuel f1 fuel H1 (Nat.le_refl fuel)).
    pose proof (get_path_sim fuel fuel HA fuel (Nat.le_refl _) fuel (Nat.le_refl _)
                  (opts_path_idx (eo_p o) name idx) fresh [] _ GR same_fresh ltac:(lia) ltac:(lia)) as P.
    pose proof (get_path_dyn_ok o own S0 Hspl (dyn_value o fuel) fuel fuel (Hdv fuel fuel (Nat.le_refl _)) (Nat.le_refl _)
                  (opts_path_idx (eo_p o) name idx) fresh _ GR ltac:(lia) ltac:(lia)) as PO.
    destruct (get_path_dyn (dyn_value o fuel) fuel (opts_path_idx (eo_p o) name idx) fresh
                {| l_root := own; l_path := ""; l_val := own |}) as [[r a1]|e pe| |];
      destruct (get_path_s (dyn_s o fuel) (opts_path_idx (eo_p o) name idx) []
                  {| l_root := own; l_path := ""; l_val := own |}) as [[r' m1]|e' pe'| |];
      cbn [field_post] in P; try contradiction; cbn [bind fst snd]; [|exact I].
    destruct P as [SR SA]. cbn [read_post] in PO. destruct PO as [L [NO GL]].
    pose proof (m_le S0 _ _ L) as ML.
    destruct r as [[v|]|e pe| |]; destruct r' as [[v'|]|e' pe'| |]; cbn [simr] in SR; try contradiction; try discriminate SR.
    - injection SR as SR. subst v'. cbn [bind fst snd]. apply agree_taint.
      rewrite (to_string_dyn_force o fuel fuel a1 v). unfold to_string_s.
      pose proof (force_sim fuel fuel HA fuel (Nat.le_refl _) fuel a1 [] v (GL v eq_refl) SA ltac:(lia) ltac:(lia)) as FS.
      destruct (force o fuel fuel a1 v) as [[w a2]|e pe| |];
        destruct (force1 (dyn_s o fuel) [] v) as [[w' m2]|e' pe'| |]; cbn [simv] in FS; try contradiction; cbn [bind fst snd agree].
      + subst w'. apply agree_taint.
        destruct (simple_string (eo_ftext o) (l_val w)) as [s|e pe| |]; cbn [with_mark bind fst agree]; try reflexivity.
      + exact FS.
      + exact I.
    - unfold mkerr. cbn [bind]. apply agree_taint. cbn [agree]. reflexivity.
    - unfold mkerr. cbn [bind]. apply agree_taint. cbn [agree]. exact SR.
    - cbn [bind agree]. exact I.
  Qed.
End Refine.

(** the statement for concrete trees: the decidable condition of ProofsTerm, and the marker of the
    bookkeeping is no reference name *)
Theorem model_refines_specification_on_references o own S0 fuel name idx :
  eo_res o = [] -> forallb (refs_only (eo_ftext o) S0) (own :: eo_envs o) = true ->
  existsb (String.eqb cyc_marker) S0 = false ->
  List.length S0 < fuel ->
  agree (read_string o fuel own name idx) (spec_string o fuel own name idx).
Proof.
  intros Hr Hk Hm HF.
  assert (forall v, good o own v -> refs_only (eo_ftext o) S0 v = true) as K.
  { intros v [rt [I S]]. apply (refs_only_sub _ _ _ _ S). rewrite forallb_forall in Hk. apply Hk. exact I. }
  apply (read_string_refines o Hr own S0); [| | |exact HF].
  - intros p sep G. pose proof (K _ G) as X. cbn [refs_only] in X.
    apply existsb_exists in X. destruct X as [n [I E]]. apply String.eqb_eq in E. subst n. exact I.
  - intros e G. pose proof (K _ G) as X. discriminate X.
  - intro I. assert (existsb (String.eqb cyc_marker) S0 = true) as X
        by (apply existsb_exists; exists cyc_marker; split; [exact I|apply String.eqb_refl]).
    rewrite X in Hm. discriminate Hm.
Qed.

Example refinement_example :
  let po := {| p_sep := "."; p_maxIdx := 1024; p_numKeys := false; p_escape := false |} in
  let e1 := VSub [("s", ("s", VRef [FName "u"] ".")); ("v", ("v", VStr "env1"))] None in
  let e2 := VSub [("u", ("u", VSub [("inner", ("inner", VRef [FName "v"] "."))] None)); ("v", ("v", VStr "env2"))] None in
  let o := {| eo_p := po; eo_envs := [e1; e2]; eo_res := []; eo_noparse := false; eo_nocomma := false;
              eo_n := {| n_p := po; n_varexp := true; n_m := {| m_h := 0%N; m_ft := None |} |};
              eo_ftext := [] |} in
  let root := VSub [("a", ("a", VRef [FName "b"] "."));
                    ("b", ("b", VRef [FName "a"] "."));
                    ("c", ("c", VRef [FName "nowhere"] "."));
                    ("d", ("d", VRef [FName "l"; FIdx 1] "."));
                    ("e", ("e", VRef [FName "d"] "."));
                    ("l", ("l", VSub [] (Some [("0", VInt 1); ("1", VStr "one")])));
                    ("x", ("x", VRef [FName "s"; FName "inner"] "."))] None in
  forall fuel name idx, (8 < fuel)%nat ->
    agree (read_string o fuel root name idx) (spec_string o fuel root name idx).
Proof.
  intros po e1 e2 o root fuel name idx L.
  apply (model_refines_specification_on_references o root ["b"; "a"; "nowhere"; "l.1"; "d"; "s.inner"; "u"; "v"]%string);
    [reflexivity|vm_compute; reflexivity|vm_compute; reflexivity|exact L].
Qed.
