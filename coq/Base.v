(* Base.v — byte strings, decimal printing, result type.  Stdlib only. *)
From Coq Require Export List ZArith NArith Bool String Ascii Lia.
From Coq Require Import DecimalString Decimal DecimalZ DecimalN.
Export ListNotations.
Open Scope string_scope.
Open Scope list_scope.
Open Scope Z_scope.
Infix "+++" := String.append (right associativity, at level 60).

(** * Results.  Panics are values (C07); OutOfModel marks behaviour the model
      deliberately does not define (excluded from comparison and counted). *)
Inductive ereason :=
| EMissing | ENoParse | ECyclic | ETypeNoArray | ETypeMismatch | EKeyTypeNotString
| EIndexOutOfRange | EPointerRequired | EArraySizeMismatch | EExpectedObject
| ENilConfig | ENilValue | EDuplicateKey | EOverflow | ENegative | EZeroValue
| ERequired | EEmpty | EArrayEmpty | EMapEmpty | ERegexEmpty | EStringEmpty
| EOther.

Definition ereason_eqb (a b : ereason) : bool :=
  match a, b with
  | EMissing, EMissing | ENoParse, ENoParse | ECyclic, ECyclic | ETypeNoArray, ETypeNoArray
  | ETypeMismatch, ETypeMismatch | EKeyTypeNotString, EKeyTypeNotString
  | EIndexOutOfRange, EIndexOutOfRange | EPointerRequired, EPointerRequired
  | EArraySizeMismatch, EArraySizeMismatch | EExpectedObject, EExpectedObject
  | ENilConfig, ENilConfig | ENilValue, ENilValue | EDuplicateKey, EDuplicateKey
  | EOverflow, EOverflow | ENegative, ENegative | EZeroValue, EZeroValue
  | ERequired, ERequired | EEmpty, EEmpty | EArrayEmpty, EArrayEmpty | EMapEmpty, EMapEmpty
  | ERegexEmpty, ERegexEmpty | EStringEmpty, EStringEmpty | EOther, EOther => true
  | _, _ => false
  end.

Inductive res (A : Type) :=
| Ok (a : A)
| Err (r : ereason) (path : string)
| Panic
| OutOfModel.
Arguments Ok {A} a.
Arguments Err {A} r path.
Arguments Panic {A}.
Arguments OutOfModel {A}.

Definition bind {A B} (x : res A) (f : A -> res B) : res B :=
  match x with
  | Ok a => f a
  | Err r p => Err r p
  | Panic => Panic
  | OutOfModel => OutOfModel
  end.
Notation "x <- e ;; k" := (bind e (fun x => k)) (at level 61, e at next level, right associativity).

Definition is_ok {A} (x : res A) : bool := match x with Ok _ => true | _ => false end.
Definition is_err {A} (x : res A) : bool := match x with Err _ _ => true | _ => false end.
Definition is_panic {A} (x : res A) : bool := match x with Panic => true | _ => false end.

(** * Bytes and strings.  A Go string is a byte sequence; so is a Coq [string]. *)
Definition byte_of (a : ascii) : N := N_of_ascii a.
Definition ch (n : N) : ascii := ascii_of_N n.

Fixpoint bs (l : list N) : string :=
  match l with [] => EmptyString | x :: r => String (ch x) (bs r) end.

Definition str1 (a : ascii) : string := String a EmptyString.

Fixpoint rev_app (s acc : string) : string :=
  match s with EmptyString => acc | String a r => rev_app r (String a acc) end.
Definition srev (s : string) : string := rev_app s EmptyString.

Fixpoint sdrop (n : nat) (s : string) : string :=
  match n, s with
  | O, _ => s
  | S k, String _ r => sdrop k r
  | S _, EmptyString => EmptyString
  end.

Fixpoint stake (n : nat) (s : string) : string :=
  match n, s with
  | O, _ => EmptyString
  | S k, String a r => String a (stake k r)
  | S _, EmptyString => EmptyString
  end.

Definition is_prefix (p s : string) : bool := String.prefix p s.

Definition has_suffix (s suf : string) : bool := String.prefix (srev suf) (srev s).

(** [strings.Split(s, sep)] for a non-empty [sep]: scan left to right, cut at every
    non-overlapping occurrence.  Fuel = length s + 1 (each step consumes a byte). *)
Fixpoint split_go (fuel : nat) (sep : string) (cur : string) (s : string) : list string :=
  match fuel with
  | O => [srev cur]
  | S f =>
    match s with
    | EmptyString => [srev cur]
    | String a r =>
      if String.prefix sep s
      then srev cur :: split_go f sep EmptyString (sdrop (String.length sep) s)
      else split_go f sep (String a cur) r
    end
  end.

Definition split (s sep : string) : list string :=
  split_go (S (String.length s)) sep EmptyString s.

Definition join (sep : string) (l : list string) : string := String.concat sep l.

(** unicode.IsSpace restricted to the Latin-1 range that a single byte can encode
    is: \t \n \v \f \r space, U+0085, U+00A0.  On raw bytes (invalid UTF-8 when
    >= 0x80 stands alone) Go decodes RuneError, which is not a space; the harness
    alphabet for whitespace is ASCII, and this function is validated against Go. *)
Definition is_space (a : ascii) : bool :=
  let n := byte_of a in
  ((9 <=? n) && (n <=? 13) || (n =? 32))%N.

(* number of bytes of a white-space rune at the head of [s] (unicode.IsSpace on the decoded
   rune): ASCII spaces, U+0085, U+00A0, U+1680, U+2000-200A, U+2028, U+2029, U+202F,
   U+205F, U+3000; 0 if the head is not a space *)
Definition space_prefix (s : string) : nat :=
  match s with
  | String a r =>
    if is_space a then 1%nat
    else
      let c := byte_of a in
      match r with
      | String b r2 =>
        let d := byte_of b in
        if ((c =? 194) && ((d =? 133) || (d =? 160)))%N then 2%nat
        else match r2 with
             | String e _ =>
               let f := byte_of e in
               if ((c =? 225) && (d =? 154) && (f =? 128))%N then 3%nat
               else if ((c =? 226) && (d =? 128) &&
                        (((128 <=? f) && (f <=? 138)) || (f =? 168) || (f =? 169) || (f =? 175)))%N then 3%nat
               else if ((c =? 226) && (d =? 129) && (f =? 159))%N then 3%nat
               else if ((c =? 227) && (d =? 128) && (f =? 128))%N then 3%nat
               else 0%nat
             | EmptyString => 0%nat
             end
      | EmptyString => 0%nat
      end
  | EmptyString => 0%nat
  end.

(* the same, at the end of the string given reversed *)
Definition space_suffix_rev (s : string) : nat :=
  match s with
  | String a r =>
    if is_space a then 1%nat
    else
      let f := byte_of a in
      match r with
      | String b r2 =>
        let d := byte_of b in
        if ((d =? 194) && ((f =? 133) || (f =? 160)))%N then 2%nat
        else match r2 with
             | String e _ =>
               let c := byte_of e in
               if ((c =? 225) && (d =? 154) && (f =? 128))%N then 3%nat
               else if ((c =? 226) && (d =? 128) &&
                        (((128 <=? f) && (f <=? 138)) || (f =? 168) || (f =? 169) || (f =? 175)))%N then 3%nat
               else if ((c =? 226) && (d =? 129) && (f =? 159))%N then 3%nat
               else if ((c =? 227) && (d =? 128) && (f =? 128))%N then 3%nat
               else 0%nat
             | EmptyString => 0%nat
             end
      | EmptyString => 0%nat
      end
  | EmptyString => 0%nat
  end.

Fixpoint trim_with (pre : string -> nat) (fuel : nat) (s : string) : string :=
  match fuel with
  | O => s
  | S f => match pre s with
           | O => s
           | n => trim_with pre f (sdrop n s)
           end
  end.
Definition trim_left (s : string) : string := trim_with space_prefix (String.length s) s.
Definition trim_right (s : string) : string :=
  srev (trim_with space_suffix_rev (String.length s) (srev s)).
Definition trim_space (s : string) : string := trim_right (trim_left s).

Fixpoint mem_ascii (a : ascii) (set : string) : bool :=
  match set with
  | EmptyString => false
  | String b r => Ascii.eqb a b || mem_ascii a r
  end.

(** [strings.IndexAny(s, set)] for an ASCII [set]: position of the first byte in [set]. *)
Fixpoint index_any (s set : string) : option nat :=
  match s with
  | EmptyString => None
  | String a r =>
    if mem_ascii a set then Some O
    else match index_any r set with Some n => Some (S n) | None => None end
  end.

Fixpoint index_byte (s : string) (c : ascii) : option nat :=
  match s with
  | EmptyString => None
  | String a r =>
    if Ascii.eqb a c then Some O
    else match index_byte r c with Some n => Some (S n) | None => None end
  end.

(* strings.SplitN(s, "=", 2): the text before the first '=' and, if there is one, the rest *)
Fixpoint split_eq (s acc : string) : string * option string :=
  match s with
  | EmptyString => (srev acc, None)
  | String a r => if Ascii.eqb a "="%char then (srev acc, Some r) else split_eq r (String a acc)
  end.

(** * Decimal printing of integers ([%d] / [%v] of an int). *)
Definition dec (z : Z) : string := NilZero.string_of_int (Z.to_int z).
Definition decN (n : N) : string := dec (Z.of_N n).

(** * Small list helpers *)
Fixpoint nth_opt {A} (l : list A) (n : nat) : option A :=
  match l, n with
  | [], _ => None
  | x :: _, O => Some x
  | _ :: r, S k => nth_opt r k
  end.

Fixpoint set_nth {A} (l : list A) (n : nat) (v : A) : list A :=
  match l, n with
  | [], _ => []
  | _ :: r, O => v :: r
  | x :: r, S k => x :: set_nth r k v
  end.

Fixpoint del_nth {A} (l : list A) (n : nat) : list A :=
  match l, n with
  | [], _ => []
  | _ :: r, O => r
  | x :: r, S k => x :: del_nth r k
  end.

Definition lenZ {A} (l : list A) : Z := Z.of_nat (List.length l).

Definition opt_eqb {A} (eqb : A -> A -> bool) (a b : option A) : bool :=
  match a, b with
  | Some x, Some y => eqb x y
  | None, None => true
  | _, _ => false
  end.

Fixpoint list_eqb {A} (eqb : A -> A -> bool) (a b : list A) : bool :=
  match a, b with
  | [], [] => true
  | x :: r, y :: s => eqb x y && list_eqb eqb r s
  | _, _ => false
  end.
