(* PropsC09.v — C09: results never depend on map iteration order.
   Statements only; proofs are in ProofsNormalize.v.

   Where an enumeration order exists in the model: a Go map given as input is the list of its
   entries IN THE ORDER THE RUNTIME ENUMERATED THEM (gval, constructor GMap), at every depth.
   The internal dictionaries of a Config are sorted association lists (Tree.v): they have one
   representation, every loop of Merge.v / VarEval.v / Reify.v visits them in that order, and
   the correspondence runs (first error reported, values of mutually referencing variables)
   tie that to the implementation, which visits sorted keys since fix 18904c4. *)
From Coq Require Import Permutation.
From Ucfg Require Import Base ParseInt Consts Field Tree PathOps Merge VarParse Normalize ProofsNormalize.

(* NewFrom / Merge of a map: any two enumerations of the same entries (pairwise distinct keys,
   as in every Go map) give the same outcome - the same tree or the same error. *)
Theorem c09_map_enumeration_order_irrelevant : forall o ok kvs kvs',
  Permutation kvs kvs' -> NoDup (map fst kvs) ->
  normalize o (GMap ok kvs) = normalize o (GMap ok kvs').
Proof. exact normalize_map_order_irrelevant. Qed.
Print Assumptions c09_map_enumeration_order_irrelevant.

(* ... and the same for every map nested anywhere inside the input (maps in maps, maps in
   lists), each enumerated in an order of its own. *)
Theorem c09_nested_enumeration_orders_irrelevant : forall o g g',
  gperm g g' -> normalize o g = normalize o g'.
Proof. exact normalize_gperm. Qed.
Print Assumptions c09_nested_enumeration_orders_irrelevant.

(* the sorted visit is what makes it so: entries are visited by ascending name *)
Theorem c09_visit_is_sorted : forall l, Sorted.StronglySorted key_le (kv_sort l).
Proof. exact kv_sort_sorted. Qed.
Print Assumptions c09_visit_is_sorted.

(* non-vacuity: an input with overlapping keys, whose outcome DID depend on the order before
   the fix, has one outcome under both enumerations *)
Theorem c09_overlapping_keys_example :
  let o := {| n_p := {| p_sep := "."; p_maxIdx := 1024; p_numKeys := false; p_escape := false |};
              n_varexp := false; n_m := {| m_h := 0%N; m_ft := None |} |} in
  normalize o (GMap true [(KStr "a.b", GUint 1); (KStr "a", GMap true [(KStr "b", GUint 2)])])
  = normalize o (GMap true [(KStr "a", GMap true [(KStr "b", GUint 2)]); (KStr "a.b", GUint 1)])
  /\ normalize o (GMap true [(KStr "a.b", GUint 1); (KStr "a", GMap true [(KStr "b", GUint 2)])])
     = Err EDuplicateKey "a.b".
Proof. exact sorted_visit_example. Qed.
Print Assumptions c09_overlapping_keys_example.
