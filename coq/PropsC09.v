(* PropsC09.v — C09: results never depend on map iteration order. *)
From Ucfg Require Import Base ParseInt Consts Field Tree PathOps Merge OTree VarParse Normalize.
