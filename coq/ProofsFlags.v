(* ProofsFlags.v — the flag collector as a fold (C19). *)
From Ucfg Require Import Base ParseInt Consts Field Tree PathOps Merge F64 ParseValue VarParse Normalize Ops Flags.

Definition run_flags (o : nopts) (co : mopts) (ab : bool) (st : fstate) (args : list string) : fstate :=
  fold_left (fun s a => snd (flag_set o co ab s a)) args st.

(* once an error is recorded, no later argument changes the config or the error *)
Lemma flag_set_sticky o co ab st arg :
  no_err (f_err st) = false -> snd (flag_set o co ab st arg) = st.
Proof.
  intros H. unfold flag_set. destruct (load_arg o ab arg) as [r|]; [|reflexivity].
  rewrite H. reflexivity.
Qed.

Lemma run_flags_sticky o co ab args st :
  no_err (f_err st) = false -> run_flags o co ab st args = st.
Proof.
  revert st. induction args as [|a args IH]; intros st H; [reflexivity|].
  unfold run_flags in *. cbn [fold_left]. rewrite flag_set_sticky by exact H. apply IH; exact H.
Qed.

(* a key with an empty value is ignored *)
Lemma append_nil_r x : x +++ "" = x.
Proof. induction x; cbn; congruence. Qed.

Lemma rev_app_rev_app s a b : rev_app (rev_app s a) b = rev_app a (s +++ b).
Proof.
  revert a b. induction s as [|c s IH]; intros a b; cbn [rev_app String.append]; [reflexivity|].
  rewrite IH. reflexivity.
Qed.

Lemma srev_involutive s : srev (srev s) = s.
Proof. unfold srev. rewrite rev_app_rev_app. cbn. apply append_nil_r. Qed.

Lemma split_eq_at_first_eq key rest acc :
  index_byte key "="%char = None ->
  split_eq (key +++ String "="%char rest) acc = (srev (rev_app key acc), Some rest).
Proof.
  revert acc. induction key as [|c k IH]; intros acc H.
  - reflexivity.
  - cbn [String.append split_eq]. cbn [index_byte] in H.
    destruct (Ascii.eqb c "=") eqn:A; [discriminate|].
    destruct (index_byte k "=") eqn:E; [discriminate|].
    rewrite IH by reflexivity. reflexivity.
Qed.

Lemma split_eq_no_eq key acc :
  index_byte key "="%char = None -> split_eq key acc = (srev (rev_app key acc), None).
Proof.
  revert acc. induction key as [|c k IH]; intros acc H.
  - reflexivity.
  - cbn [split_eq]. cbn [index_byte] in H.
    destruct (Ascii.eqb c "=") eqn:A; [discriminate|].
    destruct (index_byte k "=") eqn:E; [discriminate|].
    rewrite IH by reflexivity. reflexivity.
Qed.

Lemma empty_value_ignored o co ab st key :
  index_byte key "="%char = None ->
  flag_set o co ab st (key +++ "=") = (OV VNil, st).
Proof.
  intros H. unfold flag_set, load_arg.
  rewrite (split_eq_at_first_eq key "" "" H). reflexivity.
Qed.

(* a bare key means true (autoBool) *)
Lemma bare_key_is_true o key :
  index_byte key "="%char = None ->
  load_arg o true key = Some (normalize o (GMap true [(KStr key, GBool true)])).
Proof.
  intros H. unfold load_arg. rewrite (split_eq_no_eq key "" H). reflexivity.
Qed.

(* the key is everything before the first '=', the value everything after it *)
Lemma key_value_split o ab key v :
  index_byte key "="%char = None -> v <> "" ->
  load_arg o ab (key +++ String "="%char v) =
  match parse_value_with_config DefaultConfig v with
  | POk x => Some (normalize o (GMap true [(KStr key, pv_to_gval x)]))
  | PErr _ => Some (Err EOther "!raw")
  | PPanic => Some Panic
  | PUnknown => Some OutOfModel
  end.
Proof.
  intros H Hv. unfold load_arg. rewrite (split_eq_at_first_eq key v "" H).
  change (rev_app key "") with (srev key). rewrite srev_involutive.
  destruct v; [congruence|reflexivity].
Qed.

(* the collector is a left fold of merges with the flag's options over the settings *)
Lemma run_flags_cons o co ab st a args :
  run_flags o co ab st (a :: args) = run_flags o co ab (snd (flag_set o co ab st a)) args.
Proof. reflexivity. Qed.

Lemma flag_set_merges o co ab st arg c m :
  no_err (f_err st) = true ->
  load_arg o ab arg = Some (Ok c) ->
  merge_full co (Some (f_cfg st)) c = Ok m ->
  flag_set o co ab st arg = (OV VNil, {| f_cfg := m; f_err := OV VNil |}).
Proof.
  intros H L M. unfold flag_set. rewrite L, H, M. reflexivity.
Qed.

Lemma flag_set_records_first_error o co ab st arg e p :
  no_err (f_err st) = true ->
  load_arg o ab arg = Some (Err e p) ->
  flag_set o co ab st arg = (OE e p, {| f_cfg := f_cfg st; f_err := OE e p |}).
Proof.
  intros H L. unfold flag_set. rewrite L, H. reflexivity.
Qed.
