(* KeysDyn.v — FlattenedKeys over trees with references (ucfg.go flattenedKeys): every value
   is resolved in its own child set of active names; a value that is not a config (or cannot
   be resolved to one) is listed under its own path. *)
From Ucfg Require Import Base ParseInt Consts Field Tree PathOps Merge OTree F64 ParseValue VarParse Normalize Flags VarEval Keys.

Section KD.
  Variable o : eopts.
  Variable sep : string.

  (* path of a located value with the separator of the call *)
  Definition respath (p : string) : string := p.

  (* toConfig keeping track of where the resulting config lives *)
  Fixpoint cfg_loc (fuel : nat) (k : nat) (a : act) (v : loc) {struct k} : R (option loc) :=
    match k with
    | O => OutOfModel
    | S k' =>
      match l_val v with
      | VSub _ _ => Ok (Some v, a)
      | VNil => Ok (Some {| l_root := l_root v; l_path := l_path v; l_val := empty_cfg |}, a)
      | VRef _ _ | VSplice _ =>
        match dyn_value o fuel (l_root v) a (l_path v) (l_val v) with
        | Ok (v', a') => cfg_loc fuel k' a' v'
        | Err _ pe => if err_marked pe then OutOfModel else Ok (None, a)
        | Panic => Panic
        | OutOfModel => OutOfModel
        end
      | _ => Ok (None, a)
      end
    end.

  Fixpoint flat_dyn (fuel : nat) (n : nat) (a : act) (c : loc) {struct n} : res (list string) :=
    match n with
    | O => OutOfModel
    | S n' =>
      match l_val c with
      | VSub d ar =>
        let visit (nm : string) (x : value) : res (list string) :=
            let v := {| l_root := l_root c; l_path := cpath sep (l_path c) nm; l_val := x |} in
            match cfg_loc fuel fuel (act_push a) v with
            (* a cyclic error was absorbed while resolving this value: what it evaluates to can
               depend on the per-call cache of evaluated values, which the model does not have *)
            | Ok (Some cv, a') => if act_marked a' then OutOfModel else flat_dyn fuel n' a' cv
            | Ok (None, a') => if act_marked a' then OutOfModel else Ok [l_path v]
            | Err _ _ => Ok [l_path v]
            | Panic => Panic
            | OutOfModel => OutOfModel
            end in
        dk <- (fix god (l : list (string * (string * value))) : res (list string) :=
                 match l with
                 | [] => Ok []
                 | (_, (nm, x)) :: r => h <- visit nm x ;; t <- god r ;; Ok (h ++ t)
                 end) d ;;
        ak <- match ar with
              | Some l =>
                (fix goa (l : list (string * value)) : res (list string) :=
                   match l with
                   | [] => Ok []
                   | (nm, x) :: r => h <- visit nm x ;; t <- goa r ;; Ok (h ++ t)
                   end) l
              | None => Ok []
              end ;;
        Ok (dk ++ ak)
      | _ => Ok []
      end
    end.

  Definition flattened_keys_dyn (fuel : nat) (root : value) : res (list string) :=
    x <- flat_dyn fuel fuel fresh {| l_root := root; l_path := ""; l_val := root |} ;;
    Ok (sort_strings x).
End KD.
