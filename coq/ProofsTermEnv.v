(* ProofsTermEnv.v — C08: termination on the reference fragment with Env configs.  The tree that is
   read and every Env config consist of plain references (no splices); there are no resolvers.
   A reference is looked up in the tree it stands in, then in the Env configs, most recent first;
   whatever it finds may again be a reference, standing in another tree.  With fuel above the
   number of references of all the trees together every read is decided. *)
From Ucfg Require Import Base ParseInt Consts Field Tree PathOps Merge OTree F64 ParseValue VarParse Normalize Flags VarEval ProofsVarEval ProofsTerm.
From Coq Require Import Lia.
Local Open Scope nat_scope.

Section TermEnv.
  Variable o : eopts.
  Hypothesis Hres : eo_res o = [].
  Variable own : value.             (* the tree that is read *)
  Variable S0 : list string.        (* the names of the references of all the trees *)

  Definition all : list value := own :: eo_envs o.
  Definition good (v : value) : Prop := exists rt, In rt all /\ sub v rt.
  Hypothesis Href : forall p sep, good (VRef p sep) -> In (path_str p sep) S0.
  Hypothesis Hspl : forall e, ~ good (VSplice e).
  Hypothesis Hflt : forall f, good (VFloat f) -> ftext_lookup (eo_ftext o) f <> None.

  Definition lgood (v : loc) : Prop := In (l_root v) all /\ sub (l_val v) (l_root v).
  Lemma lgood_good v : lgood v -> good (l_val v).
  Proof. intros [I S]. exists (l_root v). split; assumption. Qed.

  (* how many reference names are not being evaluated *)
  Definition free_in (a : act) (l : list string) : nat := List.length (filter (fun n => negb (act_has n a)) l).
  Definition m (a : act) : nat := free_in a S0.

  Lemma free_le a a' l : le_act a a' -> free_in a' l <= free_in a l.
  Proof.
    intro L. unfold free_in. induction l as [|x r IH]; [apply Nat.le_refl|]. cbn [filter].
    destruct (act_has x a) eqn:E.
    - rewrite (L x E). cbn [negb]. exact IH.
    - cbn [negb]. destruct (negb (act_has x a')); cbn [List.length]; lia.
  Qed.

  Lemma free_lt a a' n l : le_act a a' -> In n l -> act_has n a = false -> act_has n a' = true ->
    free_in a' l < free_in a l.
  Proof.
    intros L I Ha Ha'. unfold free_in. induction l as [|x r IH]; [contradiction|]. cbn [filter].
    destruct I as [I|I].
    - subst x. rewrite Ha, Ha'. cbn [negb List.length]. pose proof (free_le a a' r L) as Q. unfold free_in in Q. lia.
    - specialize (IH I). destruct (act_has x a) eqn:E.
      + rewrite (L x E). cbn [negb]. exact IH.
      + cbn [negb]. destruct (negb (act_has x a')); cbn [List.length]; lia.
  Qed.

  Lemma m_le a a' : le_act a a' -> m a' <= m a.
  Proof. apply free_le. Qed.

  Lemma m_add n a : In n S0 -> act_has n a = false -> m (act_add n a) < m a.
  Proof.
    intros I H. apply (free_lt a (act_add n a) n); [apply le_act_add|exact I|exact H|].
    rewrite act_has_add, String.eqb_refl. reflexivity.
  Qed.

  Lemma free_bound a l : free_in a l <= List.length l.
  Proof.
    unfold free_in. induction l as [|x r IH]; [apply Nat.le_refl|]. cbn [filter].
    destruct (negb (act_has x a)); cbn [List.length]; lia.
  Qed.

  Lemma m_bound a : m a <= List.length S0.
  Proof. apply free_bound. Qed.

  Lemma no_resolver n : resolve_env o n = None.
  Proof. unfold resolve_env. rewrite Hres. reflexivity. Qed.

  (** what a recursive evaluator good for chains with fewer than K free names provides *)
  Definition dv_ok (K : nat) (dv : value -> act -> string -> value -> R loc) : Prop :=
    forall a dp d, good d -> m a < K ->
      match dv root a dp d with
      | Ok (v, a') => lgood v /\ le_act a a' /\ (is_dyn d = true -> m a' < m a)
      | OutOfModel => False
      | _ => True
      end.

  Section Step.
    Variable dv : value -> act -> string -> value -> R loc.
    Variable K fuel0 : nat.
    Hypothesis Hdv : dv_ok K dv.
    Hypothesis HK : K <= fuel0.

    Lemma to_cfg_dyn_ok : forall n a v, lgood v -> m a < n -> m a < K ->
      match to_cfg_dyn dv n a v with
      | Ok (c, a') => le_act a a' /\ (forall cv, c = Some cv -> is_sub cv = true /\ (cv = empty_cfg \/ good cv))
      | OutOfModel => False
      | _ => True
      end.
    Proof.
      induction n as [|n IH]; intros a v [Hr Hg] Hn Hk; [lia|]. cbn [to_cfg_dyn].
      destruct (l_val v) as [ | | | | | |p sep|e|d0 a0] eqn:Ev;
        try (split; [apply le_act_refl|intros cv X; discriminate X]).
      - split; [apply le_act_refl|]. intros cv X. injection X as X. subst cv. split; [reflexivity|left; reflexivity].
      - pose proof (Hdv a (l_path v) (VRef p sep) Hg Hk) as D. rewrite Hr.
        destruct (dv root a (l_path v) (VRef p sep)) as [[v1 a1]|e1 pe| |]; [|..|exact I|contradiction].
        + destruct D as [G1 [L1 M1]]. specialize (M1 eq_refl).
          specialize (IH a1 v1 G1 ltac:(lia) ltac:(lia)).
          destruct (to_cfg_dyn dv n a1 v1) as [[c a2]|e2 pe2| |]; try exact I; [|contradiction].
          destruct IH as [L2 C]. split; [exact (le_act_trans _ _ _ L1 L2)|exact C].
        + split; [destruct (err_marked pe); [apply le_act_mark|apply le_act_refl]|intros cv X; discriminate X].
      - exfalso. exact (Hspl e Hg).
      - split; [apply le_act_refl|]. intros cv X. injection X as X. subst cv. split; [reflexivity|right; exact Hg].
    Qed.

    (* postcondition shared by the field and path readers *)
    Definition read_post (a : act) (x : R (res (option loc))) : Prop :=
      match x with
      | Ok (r, a') => le_act a a' /\ r <> OutOfModel /\ (forall l, r = Ok (Some l) -> lgood l)
      | OutOfModel => False
      | _ => True
      end.

    Lemma get_field_dyn_ok fl a elem : lgood elem -> m a < fuel0 -> m a < K ->
      read_post a (get_field_dyn dv fuel0 fl a elem).
    Proof.
      intros G Hn Hk. unfold get_field_dyn.
      pose proof (to_cfg_dyn_ok fuel0 a elem G Hn Hk) as T.
      destruct (to_cfg_dyn dv fuel0 a elem) as [[c a1]|e pe| |]; cbn [bind]; [|exact I|exact I|contradiction].
      destruct T as [L C]. destruct c as [cv|].
      - destruct (C cv eq_refl) as [Hs Hc].
        destruct (get_field_decided fl (l_path elem) cv Hs) as [NO NP].
        pose proof (get_field_child fl (l_path elem) cv) as CH.
        destruct (get_field fl (l_path elem) cv) as [[[pp x]|]|e pe| |]; try contradiction; cbn [read_post].
        + split; [exact L|]. split; [discriminate|]. intros l X. injection X as X. subst l.
          split; [destruct G as [G _]; exact G|]. cbn [l_val].
          specialize (CH pp x Hs eq_refl). destruct Hc as [Hc|Hc].
          * subst cv. inversion CH; subst; contradiction.
          * exact (sub_step _ _ _ CH Hc).
        + split; [exact L|]. split; [discriminate|]. intros l X. discriminate X.
        + split; [exact L|]. split; [discriminate|]. intros l X. discriminate X.
      - destruct fl as [nm|i]; [|destruct i as [|i|i]]; cbn [read_post];
          (split; [exact L|]; split; [discriminate|]; intros l X; try discriminate X).
        injection X as X. subst l. exact G.
    Qed.

    Lemma get_path_dyn_ok : forall fs a cur, lgood cur -> m a < fuel0 -> m a < K ->
      read_post a (get_path_dyn dv fuel0 fs a cur).
    Proof.
      induction fs as [|fl rest IH]; intros a cur G Hn Hk.
      - cbn [get_path_dyn read_post]. split; [apply le_act_refl|]. split; [discriminate|].
        intros l X. injection X as X. subst l. exact G.
      - pose proof (get_field_dyn_ok fl a cur G Hn Hk) as F.
        destruct rest as [|f2 rest'].
        + cbn [get_path_dyn]. destruct (get_field_dyn dv fuel0 fl a cur) as [[r a1]|e pe| |]; cbn [bind]; try exact F.
          cbn [read_post fst snd] in *. destruct F as [L [NO GL]].
          destruct r as [ol|e pe| |]; cbn [read_post]; try (split; [exact L|]; split; [assumption|exact GL]).
          split; [exact L|]. split; [discriminate|]. intros l X. discriminate X.
        + change (get_path_dyn dv fuel0 (fl :: f2 :: rest') a cur)
            with (x <- get_field_dyn dv fuel0 fl a cur ;;
                  match fst x with
                  | Ok (Some nxt) => get_path_dyn dv fuel0 (f2 :: rest') (snd x) nxt
                  | Ok None => Ok (Err EMissing "", snd x)
                  | r => Ok (r, snd x)
                  end).
          destruct (get_field_dyn dv fuel0 fl a cur) as [[r a1]|e pe| |]; cbn [bind]; try exact F.
          cbn [read_post fst snd] in *. destruct F as [L [NO GL]].
          pose proof (m_le _ _ L) as ML.
          destruct r as [[nxt|]|e pe| |]; cbn [read_post].
          * specialize (IH a1 nxt (GL nxt eq_refl) ltac:(lia) ltac:(lia)).
            destruct (get_path_dyn dv fuel0 (f2 :: rest') a1 nxt) as [[r2 a2]|e2 pe2| |]; try exact IH.
            cbn [read_post] in *. destruct IH as [L2 R2]. split; [exact (le_act_trans _ _ _ L L2)|exact R2].
          * split; [exact L|]. split; [discriminate|]. intros l X. discriminate X.
          * split; [exact L|]. split; [discriminate|]. intros l X. discriminate X.
          * split; [exact L|]. split; [discriminate|]. intros l X. discriminate X.
          * contradiction.
    Qed.

    (* one unfolding of cfgDynamic.getValue handles one more free name *)
    Lemma dyn_step_ok : dv_ok (S K) (dyn_step o dv fuel0).
    Proof.
      intros a dp d G Hk.
      destruct d as [ | | | | | |p sep|e|d0 a0];
        try (cbn [dyn_step is_dyn]; split; [split; [reflexivity|exact G]|]; split; [apply le_act_refl|discriminate]).
      - pose proof (Href p sep G) as IN. unfold dyn_step, resolve_ref. rewrite Henv. cbn [rev app].
        destruct (act_has (path_str p sep) a) eqn:EA.
        + rewrite no_resolver. unfold mkerr. exact I.
        + cbn [try_roots].
          pose proof (m_add _ _ IN EA) as MA.
          assert (lgood {| l_root := root; l_path := ""; l_val := root |}) as GR by (split; [reflexivity|apply sub_refl]).
          pose proof (get_path_dyn_ok p (act_add (path_str p sep) a) _ GR ltac:(lia) ltac:(lia)) as P.
          destruct (get_path_dyn dv fuel0 p (act_add (path_str p sep) a) {| l_root := root; l_path := ""; l_val := root |})
            as [[r a1]|e pe| |]; [|unfold mkerr; exact I|exact I|contradiction].
          cbn [read_post] in P. destruct P as [L [NO GL]].
          destruct r as [[v|]|e pe| |].
          * split; [exact (GL v eq_refl)|]. split; [exact (le_act_trans _ _ _ (le_act_add _ _) L)|].
            intros _. pose proof (m_le _ _ L). lia.
          * rewrite no_resolver. unfold mkerr. exact I.
          * destruct e; try (unfold mkerr; exact I); rewrite no_resolver; unfold mkerr; exact I.
          * exact I.
          * contradiction.
      - exfalso. exact (Hspl e G).
    Qed.

    Lemma to_string_dyn_ok : forall n a v, lgood v -> m a < n -> m a < K -> to_string_dyn o dv n a v <> OutOfModel.
    Proof.
      induction n as [|n IH]; intros a v [Hr Hg] Hn Hk; [lia|]. cbn [to_string_dyn].
      destruct (l_val v) as [ | |z|z|f|s|p sep|e|d0 a0] eqn:Ev;
        try (unfold simple_string, with_mark, mkerr; cbn [bind]; discriminate).
      - destruct b; cbn [simple_string with_mark bind]; discriminate.
      - cbn [simple_string]. pose proof (Hflt f Hg) as F. destruct (ftext_lookup (eo_ftext o) f); [|contradiction].
        cbn [with_mark bind]. discriminate.
      - pose proof (Hdv a (l_path v) (VRef p sep) Hg Hk) as D. rewrite Hr.
        destruct (dv root a (l_path v) (VRef p sep)) as [[v1 a1]|e1 pe| |]; cbn [bind]; try discriminate; [|contradiction].
        destruct D as [G1 [L1 M1]]. specialize (M1 eq_refl). cbn [fst snd]. apply IH; [exact G1|lia|lia].
      - exfalso. exact (Hspl e Hg).
    Qed.
  End Step.

  Lemma dyn_value_ok : forall f, dv_ok f (dyn_value o f).
  Proof.
    induction f as [|f IH].
    - intros a dp d _ H. lia.
    - change (dyn_value o (S f)) with (dyn_step o (dyn_value o f) (S f)).
      apply dyn_step_ok; [exact IH|lia].
  Qed.

  (** Config.String on such a tree is decided once the fuel exceeds the number of references *)
  Theorem read_string_decided fuel name idx : List.length S0 < fuel ->
    read_string o fuel root name idx <> OutOfModel.
  Proof.
    intro HF. unfold read_string, get_value_dyn.
    assert (lgood {| l_root := root; l_path := ""; l_val := root |}) as GR by (split; [reflexivity|apply sub_refl]).
    pose proof (m_bound fresh) as MB.
    pose proof (get_path_dyn_ok (dyn_value o fuel) fuel fuel (dyn_value_ok fuel) (Nat.le_refl _)
                  (opts_path_idx (eo_p o) name idx) fresh _ GR ltac:(lia) ltac:(lia)) as P.
    destruct (get_path_dyn (dyn_value o fuel) fuel (opts_path_idx (eo_p o) name idx) fresh
                {| l_root := root; l_path := ""; l_val := root |}) as [[r a1]|e pe| |]; cbn [bind]; try discriminate; [|contradiction].
    cbn [read_post fst snd] in *. destruct P as [L [NO GL]]. pose proof (m_le _ _ L) as ML.
    destruct r as [[v|]|e pe| |]; cbn [bind]; try (unfold mkerr; discriminate); [|contradiction].
    pose proof (to_string_dyn_ok (dyn_value o fuel) fuel fuel (dyn_value_ok fuel) (Nat.le_refl _) fuel a1 v (GL v eq_refl) ltac:(lia) ltac:(lia)) as T.
    cbn [fst snd]. destruct (to_string_dyn o (dyn_value o fuel) fuel a1 v) as [y|e pe| |]; cbn [bind fst snd]; [intro X; discriminate X|discriminate|discriminate|exfalso; apply T; reflexivity].
  Qed.
End Term.

