(* CorrC10.v — Merge copies: on the implementation the source is the same before and after
   (contents, identities, path, parent, what its references read), the destination shares
   no object with the source, and later writes on either side are invisible through the
   other.  Model: the merged contents (Merge.v) and the identities of the destination's
   objects (AGraph.merge_ids) against the observed object graph. *)
From Ucfg Require Export Base ParseInt Consts Field Tree PathOps Merge OTree Ops AGraph.

(* one observation of a config: contents, identities, Path(), reads of its settings *)
Record snap := { sn_tree : value; sn_ids : ids; sn_path : string; sn_reads : list (string * string) }.

Definition reads_eqb (a b : list (string * string)) : bool :=
  list_eqb (fun x y => String.eqb (fst x) (fst y) && String.eqb (snd x) (snd y)) a b.

Definition snap_eqb (a b : snap) : bool :=
  value_eqb (sn_tree a) (sn_tree b) && ids_eqb (sn_ids a) (sn_ids b) &&
  String.eqb (sn_path a) (sn_path b) && reads_eqb (sn_reads a) (sn_reads b).

(* a later operation on one side, with both sides observed afterwards *)
Record follow := { fo_on_src : bool; fo_what : string; fo_src : snap; fo_dst : snap }.

Inductive case :=
| CMerge10 (h : N) (embedded : bool)
           (srcn : value)                       (* the normalized source as Merge sees it *)
           (dst_before : snap) (src_before src_after : snap) (dst_after : snap)
           (merge_failed : bool)
           (follows : list follow)
| CAlias10 (what : string) (before after : value) (keys : list string)
| CIndep10 (what : string) (before after : otree).
    (* the data one of two configs holds around an operation on the other one, after a merge
       between them (lists at the top level, list children): it must be the same *)
    (* a merge into one setting of the destination: the settings [keys] of the destination, which
       the source does not mention, must hold the same contents afterwards *)

Definition src_keys (v : value) : list string := match v with VSub d _ => map fst d | _ => [] end.
Definition src_len (v : value) : option nat :=
  match v with VSub _ (Some (x :: r)) => Some (List.length (x :: r)) | _ => None end.

Definition model_agrees (c : case) : bool :=
  match c with
  | CMerge10 h emb srcn db sb sa da failed fs =>
    if failed then true
    else
      match merge_root (plain_opts h) (sn_tree db) srcn with
      | Ok m =>
        value_eqb m (sn_tree da) &&
        (let old := addrs (sn_ids db) ++ addrs (sn_ids sb) in
         let n := (max_addr old + 1)%N in
         let pred := snd (merge_ids n h (sn_ids db) m (src_keys srcn) (src_len srcn)) in
         iso_fresh n old pred (sn_ids da))
      | Err _ _ => false
      | _ => true
      end
  | CAlias10 _ _ _ _ => true
  | CIndep10 _ _ _ => true
  end.

Definition skipped (c : case) : bool :=
  match c with
  | CMerge10 h _ srcn db _ _ _ failed _ =>
    negb failed && match merge_root (plain_opts h) (sn_tree db) srcn with OutOfModel => true | _ => false end
  | CAlias10 _ _ _ _ => false
  | CIndep10 _ _ _ => false
  end.

(* the follow-ups: the side that was not operated on is unchanged (contents and identities) *)
Fixpoint follows_ok (src dst : snap) (fs : list follow) : bool :=
  match fs with
  | [] => true
  | f :: r =>
    (if fo_on_src f then snap_eqb dst (fo_dst f) else snap_eqb src (fo_src f))
    && disjoint_n (addrs (sn_ids (fo_src f))) (addrs (sn_ids (fo_dst f)))
    && follows_ok (fo_src f) (fo_dst f) r
  end.

Definition src_untouched (c : case) : bool :=
  match c with CMerge10 _ _ _ _ sb sa _ _ _ => snap_eqb sb sa | _ => true end.

Definition setting_of (k : string) (v : value) : option value :=
  match v with VSub d _ => match dict_get k d with Some (_, x) => Some x | None => None end | _ => None end.

Definition prop_holds (c : case) : bool :=
  match c with
  | CMerge10 h emb srcn db sb sa da failed fs =>
    snap_eqb sb sa &&
    disjoint_n (addrs (sn_ids da)) (addrs (sn_ids sa)) &&
    nodup_n (addrs (sn_ids da)) &&
    parented (parent_of (sn_ids da)) (sn_ids da) &&
    parented (parent_of (sn_ids sa)) (sn_ids sa) &&
    follows_ok sa da fs
  | CAlias10 _ b a keys =>
    forallb (fun k => match setting_of k b, setting_of k a with
                      | Some x, Some y => value_eqb x y
                      | None, None => true
                      | _, _ => false
                      end) keys
  | CIndep10 _ b a => otree_eqb b a
  end.

(* known-finding signature 11: an embedded config keeps its contents and objects but is given
   a path and a parent (SetContext writes into the source's header) *)
Definition ids_same_objects (a b : ids) : bool := list_eqb N.eqb (addrs a) (addrs b).
Definition signature (c : case) : N :=
  match c with
  | CMerge10 _ true _ _ sb sa da _ _ =>
    if negb (snap_eqb sb sa) && value_eqb (sn_tree sb) (sn_tree sa)
       && ids_same_objects (sn_ids sb) (sn_ids sa) then 11%N else 0%N
  | _ => 0%N
  end.

Definition verdict (c : case) : N :=
  if skipped c then 8%N
  else ((if model_agrees c then 0 else 1) + (if prop_holds c then 0 else 2))%N.

Fixpoint run_cases (i : N) (cs : list case) : list (N * N * N) :=
  match cs with
  | [] => []
  | c :: r =>
    let v := verdict c in
    if (v =? 0)%N then run_cases (i + 1)%N r
    else (i, v, signature c) :: run_cases (i + 1)%N r
  end.
