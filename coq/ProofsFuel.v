(* ProofsFuel.v — C08: the fuel of the evaluator model is not part of its answer.  Whenever an
   evaluation with some fuel produces an outcome (a value, an error, a panic - anything but
   "out of model"), every evaluation with more fuel produces exactly that outcome, including the
   set of names that were active.  The answers the correspondence check compares with the
   implementation are therefore answers of the unbounded evaluator, not of a depth-limited one. *)
From Ucfg Require Import Base ParseInt Consts Field Tree PathOps Merge OTree F64 ParseValue VarParse Normalize Flags VarEval.
From Coq Require Import Lia.
Local Open Scope nat_scope.

(** r' extends r: once r is an outcome, r' is that outcome *)
Definition ext {A} (r r' : res A) : Prop := r <> OutOfModel -> r' = r.

Lemma ext_refl {A} (r : res A) : ext r r.
Proof. intro. reflexivity. Qed.

Lemma ext_oom {A} (r' : res A) : ext OutOfModel r'.
Proof. intro H. exfalso. apply H. reflexivity. Qed.

Lemma ext_bind {A B} (r r' : res A) (k k' : A -> res B) :
  ext r r' -> (forall x, ext (k x) (k' x)) -> ext (bind r k) (bind r' k').
Proof.
  intros H K. destruct r as [x|e p| |].
  - rewrite (H ltac:(discriminate)). cbn [bind]. apply K.
  - rewrite (H ltac:(discriminate)). apply ext_refl.
  - rewrite (H ltac:(discriminate)). apply ext_refl.
  - apply ext_oom.
Qed.

Lemma ext_trans {A} (r1 r2 r3 : res A) : ext r1 r2 -> ext r2 r3 -> ext r1 r3.
Proof.
  intros H1 H2 D. pose proof (H1 D) as E. rewrite E in H2. rewrite (H2 D). reflexivity.
Qed.

(* the same for the pair resolveRef returns *)
Definition extp (x x' : rres * act) : Prop := fst x <> RStop OutOfModel -> x' = x.

(** induction over expressions, through the pieces of a splice *)
Section VexpInd.
  Variable P : vexp -> Prop.
  Hypothesis Hconst : forall s, P (EConst s).
  Hypothesis Href : forall p sep, P (ERef p sep).
  Hypothesis Hsplice : forall ps, Forall P ps -> P (ESplice ps).
  Hypothesis Hsingle : forall e sep, P e -> P (ESingle e sep).
  Hypothesis Hdefault : forall l r sep, P l -> P r -> P (EDefault l r sep).
  Hypothesis Halt : forall l r sep, P l -> P r -> P (EAlt l r sep).
  Hypothesis Herr : forall l r sep, P l -> P r -> P (EErr l r sep).

  Fixpoint vexp_induction (e : vexp) : P e :=
    match e with
    | EConst s => Hconst s
    | ERef p sep => Href p sep
    | ESplice ps =>
      Hsplice ps ((fix go (l : list vexp) : Forall P l :=
                     match l with
                     | [] => Forall_nil P
                     | x :: r => Forall_cons x (vexp_induction x) (go r)
                     end) ps)
    | ESingle x sep => Hsingle x sep (vexp_induction x)
    | EDefault l r sep => Hdefault l r sep (vexp_induction l) (vexp_induction r)
    | EAlt l r sep => Halt l r sep (vexp_induction l) (vexp_induction r)
    | EErr l r sep => Herr l r sep (vexp_induction l) (vexp_induction r)
    end.
End VexpInd.

Section Mono.
  Variable o : eopts.
  Variables dv dv' : value -> act -> string -> value -> R loc.
  Variables fuel0 fuel0' : nat.
  Hypothesis Hdv : forall root a dp d, ext (dv root a dp d) (dv' root a dp d).
  Hypothesis Hf : fuel0 <= fuel0'.

  Lemma to_cfg_dyn_ext : forall n n' a v, n <= n' -> ext (to_cfg_dyn dv n a v) (to_cfg_dyn dv' n' a v).
  Proof.
    clear Hf. induction n as [|n IH]; intros n' a v L; [apply ext_oom|].
    destruct n' as [|n']; [lia|]. cbn [to_cfg_dyn].
    destruct (l_val v); try apply ext_refl.
    - pose proof (Hdv (l_root v) a (l_path v) (VRef p sep)) as H.
      destruct (dv (l_root v) a (l_path v) (VRef p sep)) as [[v1 a1]|e pe| |];
        [rewrite (H ltac:(discriminate)); apply IH; lia
        |rewrite (H ltac:(discriminate)); apply ext_refl
        |rewrite (H ltac:(discriminate)); apply ext_refl
        |apply ext_oom].
    - pose proof (Hdv (l_root v) a (l_path v) (VSplice e)) as H.
      destruct (dv (l_root v) a (l_path v) (VSplice e)) as [[v1 a1]|e1 pe| |];
        [rewrite (H ltac:(discriminate)); apply IH; lia
        |rewrite (H ltac:(discriminate)); apply ext_refl
        |rewrite (H ltac:(discriminate)); apply ext_refl
        |apply ext_oom].
  Qed.

  Lemma get_field_dyn_ext fl a elem : ext (get_field_dyn dv fuel0 fl a elem) (get_field_dyn dv' fuel0' fl a elem).
  Proof.
    unfold get_field_dyn. apply ext_bind; [apply to_cfg_dyn_ext; exact Hf|]. intro x. apply ext_refl.
  Qed.

  Lemma get_path_dyn_ext : forall fs a cur, ext (get_path_dyn dv fuel0 fs a cur) (get_path_dyn dv' fuel0' fs a cur).
  Proof.
    induction fs as [|fl rest IH]; intros a cur; [apply ext_refl|].
    destruct rest as [|f2 rest'].
    - cbn [get_path_dyn]. apply ext_bind; [apply get_field_dyn_ext|]. intro x. apply ext_refl.
    - change (get_path_dyn dv fuel0 (fl :: f2 :: rest') a cur)
        with (x <- get_field_dyn dv fuel0 fl a cur ;;
              match fst x with
              | Ok (Some nxt) => get_path_dyn dv fuel0 (f2 :: rest') (snd x) nxt
              | Ok None => Ok (Err EMissing "", snd x)
              | r => Ok (r, snd x)
              end).
      change (get_path_dyn dv' fuel0' (fl :: f2 :: rest') a cur)
        with (x <- get_field_dyn dv' fuel0' fl a cur ;;
              match fst x with
              | Ok (Some nxt) => get_path_dyn dv' fuel0' (f2 :: rest') (snd x) nxt
              | Ok None => Ok (Err EMissing "", snd x)
              | r => Ok (r, snd x)
              end).
      apply ext_bind; [apply get_field_dyn_ext|]. intro x.
      destruct (fst x) as [[nxt|]|e pe| |]; try apply ext_refl. apply IH.
  Qed.

  Lemma try_roots_ext p : forall roots a last,
    extp (try_roots dv fuel0 p roots a last) (try_roots dv' fuel0' p roots a last).
  Proof.
    induction roots as [|rt more IH]; intros a last; [intro; reflexivity|].
    cbn [try_roots].
    pose proof (get_path_dyn_ext p a {| l_root := rt; l_path := ""; l_val := rt |}) as G.
    destruct (get_path_dyn dv fuel0 p a {| l_root := rt; l_path := ""; l_val := rt |}) as [[r a1]|e pe| |].
    - rewrite (G ltac:(discriminate)).
      destruct r as [[v|]|e pe| |]; try (intro; reflexivity); try apply IH.
      destruct e; apply IH.
    - rewrite (G ltac:(discriminate)). intro; reflexivity.
    - rewrite (G ltac:(discriminate)). intro; reflexivity.
    - intro H. exfalso. apply H. reflexivity.
  Qed.

  Lemma resolve_ref_ext root a p sep :
    extp (resolve_ref o dv fuel0 root a p sep) (resolve_ref o dv' fuel0' root a p sep).
  Proof.
    unfold resolve_ref. destruct (act_has (path_str p sep) a); [intro; reflexivity|apply try_roots_ext].
  Qed.

  Lemma to_string_dyn_ext : forall n n' a v, n <= n' -> ext (to_string_dyn o dv n a v) (to_string_dyn o dv' n' a v).
  Proof.
    clear Hf. induction n as [|n IH]; intros n' a v L; [apply ext_oom|].
    destruct n' as [|n']; [lia|]. cbn [to_string_dyn].
    destruct (l_val v); try apply ext_refl.
    - apply ext_bind; [apply Hdv|]. intro x. apply IH. lia.
    - apply ext_bind; [apply Hdv|]. intro x. apply IH. lia.
  Qed.

  Lemma ref_resolve_ext root a p sep :
    ext (ref_resolve o dv fuel0 root a p sep) (ref_resolve o dv' fuel0' root a p sep).
  Proof.
    unfold ref_resolve. pose proof (resolve_ref_ext root a p sep) as X.
    destruct (resolve_ref o dv fuel0 root a p sep) as [r a1].
    destruct r as [v| | | |e pe|r0]; try (rewrite (X ltac:(discriminate)); apply ext_refl).
    destruct r0; try (rewrite (X ltac:(discriminate)); apply ext_refl). apply ext_oom.
  Qed.

  Lemma ref_eval_ext root a p sep :
    ext (ref_eval o dv fuel0 root a p sep) (ref_eval o dv' fuel0' root a p sep).
  Proof.
    unfold ref_eval. apply ext_bind; [apply ref_resolve_ext|]. intro x.
    destruct (fst x); [apply to_string_dyn_ext; exact Hf|apply ext_refl].
  Qed.

  Lemma scoped_ext {A} a (r r' : R A) : ext r r' -> ext (scoped a r) (scoped a r').
  Proof. intro H. unfold scoped. apply ext_bind; [exact H|]. intro x. apply ext_refl. Qed.

  Definition exp_ext (e : vexp) : Prop :=
    forall root a, ext (eval_exp o dv fuel0 e root a) (eval_exp o dv' fuel0' e root a).

  Lemma eval_exp_ext : forall e, exp_ext e.
  Proof.
    apply vexp_induction; unfold exp_ext.
    - intros s root a. apply ext_refl.
    - intros p sep root a. cbn [eval_exp]. apply ref_eval_ext.
    - intros ps F root a. cbn [eval_exp]. generalize ""%string as acc. revert a.
      induction F as [|x r Hx Hr IH]; intros a acc; [apply ext_refl|].
      apply ext_bind; [apply scoped_ext; apply Hx|]. intro y. apply IH.
    - intros e sep IH root a. cbn [eval_exp]. apply ext_bind; [apply scoped_ext; apply IH|].
      intro y. apply scoped_ext. apply ref_eval_ext.
    - intros l r sep IHl IHr root a. cbn [eval_exp].
      pose proof (scoped_ext a _ _ (IHl root (act_push a))) as L.
      destruct (scoped a (eval_exp o dv fuel0 l root (act_push a))) as [[path a1]|e pe| |];
        [rewrite (L ltac:(discriminate))|rewrite (L ltac:(discriminate))|rewrite (L ltac:(discriminate)); apply ext_refl|apply ext_oom].
      + destruct (String.eqb path ""); [apply scoped_ext; apply IHr|].
        pose proof (scoped_ext a1 _ _ (ref_eval_ext root (act_push a1)
             (parse_path path sep (p_maxIdx (eo_p o)) (p_numKeys (eo_p o)) (p_escape (eo_p o))) sep)) as S.
        match goal with |- ext (match ?X with _ => _ end) _ => destruct X as [[v a2]|e pe| |] end;
          [rewrite (S ltac:(discriminate))|rewrite (S ltac:(discriminate))|rewrite (S ltac:(discriminate)); apply ext_refl|apply ext_oom].
        * destruct (String.eqb v ""); [apply scoped_ext; apply IHr|apply ext_refl].
        * apply scoped_ext. apply IHr.
      + apply scoped_ext. apply IHr.
    - intros l r sep IHl IHr root a. cbn [eval_exp].
      pose proof (scoped_ext a _ _ (IHl root (act_push a))) as L.
      destruct (scoped a (eval_exp o dv fuel0 l root (act_push a))) as [[path a1]|e pe| |];
        [rewrite (L ltac:(discriminate))|rewrite (L ltac:(discriminate)); apply ext_refl|rewrite (L ltac:(discriminate)); apply ext_refl|apply ext_oom].
      destruct (String.eqb path ""); [apply ext_refl|].
      pose proof (scoped_ext a1 _ _ (ref_resolve_ext root (act_push a1)
           (parse_path path sep (p_maxIdx (eo_p o)) (p_numKeys (eo_p o)) (p_escape (eo_p o))) sep)) as S.
      match goal with |- ext (match ?X with _ => _ end) _ => destruct X as [[[v|] a2]|e pe| |] end;
        [rewrite (S ltac:(discriminate))|rewrite (S ltac:(discriminate)); apply ext_refl
        |rewrite (S ltac:(discriminate)); apply ext_refl|rewrite (S ltac:(discriminate)); apply ext_refl|apply ext_oom].
      apply scoped_ext. apply IHr.
    - intros l r sep IHl IHr root a. cbn [eval_exp].
      assert (forall a0, ext (y <- scoped a0 (eval_exp o dv fuel0 r root (act_push a0)) ;; @mkerr (string * act) (snd y) EOther "!raw")
                             (y <- scoped a0 (eval_exp o dv' fuel0' r root (act_push a0)) ;; @mkerr (string * act) (snd y) EOther "!raw")) as Fl.
      { intro a0. apply ext_bind; [apply scoped_ext; apply IHr|]. intro. apply ext_refl. }
      pose proof (scoped_ext a _ _ (IHl root (act_push a))) as L.
      destruct (scoped a (eval_exp o dv fuel0 l root (act_push a))) as [[path a1]|e pe| |];
        [rewrite (L ltac:(discriminate))|rewrite (L ltac:(discriminate)); apply Fl|rewrite (L ltac:(discriminate)); apply ext_refl|apply ext_oom].
      destruct (String.eqb path ""); [apply Fl|].
      pose proof (scoped_ext a1 _ _ (ref_eval_ext root (act_push a1)
           (parse_path path sep (p_maxIdx (eo_p o)) (p_numKeys (eo_p o)) (p_escape (eo_p o))) sep)) as S.
      match goal with |- ext (match ?X with _ => _ end) _ => destruct X as [[v a2]|e pe| |] end;
        [rewrite (S ltac:(discriminate))|rewrite (S ltac:(discriminate)); apply Fl|rewrite (S ltac:(discriminate)); apply ext_refl|apply ext_oom].
      destruct (String.eqb v ""); [apply Fl|apply ext_refl].
  Qed.

  Lemma dyn_step_ext root a dp d :
    ext (dyn_step o dv fuel0 root a dp d) (dyn_step o dv' fuel0' root a dp d).
  Proof.
    destruct d; try apply ext_refl.
    - unfold dyn_step. pose proof (resolve_ref_ext root a p sep) as X.
      destruct (resolve_ref o dv fuel0 root a p sep) as [r a1].
      destruct r as [v| | | |e pe|r0]; try (rewrite (X ltac:(discriminate)); apply ext_refl).
      destruct r0; try (rewrite (X ltac:(discriminate)); apply ext_refl). apply ext_oom.
    - unfold dyn_step. apply ext_bind; [apply eval_exp_ext|]. intro x. apply ext_refl.
  Qed.
End Mono.

(** * the evaluator *)
Theorem dyn_value_fuel o : forall f f', f <= f' ->
  forall root a dp d, ext (dyn_value o f root a dp d) (dyn_value o f' root a dp d).
Proof.
  induction f as [|f IH]; intros f' L root a dp d; [apply ext_oom|].
  destruct f' as [|f']; [lia|]. cbn [dyn_value].
  apply dyn_step_ext; [|lia]. intros. apply IH. lia.
Qed.

Theorem get_value_dyn_fuel o f f' root name idx a : f <= f' ->
  ext (get_value_dyn o f root name idx a) (get_value_dyn o f' root name idx a).
Proof.
  intro L. unfold get_value_dyn. apply ext_bind.
  - apply get_path_dyn_ext; [|exact L]. intros. apply dyn_value_fuel. exact L.
  - intro x. apply ext_refl.
Qed.

(* Config.String: an answer obtained with some fuel is the answer for every larger fuel *)
Theorem read_string_fuel o f f' root name idx r : f <= f' ->
  read_string o f root name idx = r -> r <> OutOfModel -> read_string o f' root name idx = r.
Proof.
  intros L E D. subst r. revert D. change (ext (read_string o f root name idx) (read_string o f' root name idx)).
  unfold read_string. apply ext_bind; [apply get_value_dyn_fuel; exact L|]. intro x.
  apply ext_bind; [|intro; apply ext_refl].
  apply to_string_dyn_ext; [|exact L]. intros. apply dyn_value_fuel. exact L.
Qed.

Theorem force_fuel o : forall n n' f f' a v, n <= n' -> f <= f' ->
  ext (force o f n a v) (force o f' n' a v).
Proof.
  induction n as [|n IH]; intros n' f f' a v Ln Lf; [apply ext_oom|].
  destruct n' as [|n']; [lia|]. cbn [force].
  destruct (l_val v); try apply ext_refl.
  - apply ext_bind; [apply dyn_value_fuel; exact Lf|]. intro x. apply IH; [lia|exact Lf].
  - apply ext_bind; [apply dyn_value_fuel; exact Lf|]. intro x. apply IH; [lia|exact Lf].
Qed.

(* two runs that both produce an outcome produce the same outcome, whatever their fuel *)
Corollary read_string_fuel_irrelevant o f1 f2 root name idx :
  read_string o f1 root name idx <> OutOfModel -> read_string o f2 root name idx <> OutOfModel ->
  read_string o f1 root name idx = read_string o f2 root name idx.
Proof.
  intros D1 D2. destruct (Nat.le_ge_cases f1 f2) as [L|L].
  - symmetry. exact (read_string_fuel o f1 f2 root name idx _ L eq_refl D1).
  - exact (read_string_fuel o f2 f1 root name idx _ L eq_refl D2).
Qed.

(** Unpack into interface{} of a tree with references *)
Theorem reify_loc_fuel o : forall n n' f f', n <= n' -> f <= f' ->
  forall a v, ext (reify_loc o f n a v) (reify_loc o f' n' a v).
Proof.
  induction n as [|n IH]; intros n' f f' Ln Lf a v; [apply ext_oom|].
  destruct n' as [|n']; [lia|]. cbn [reify_loc].
  destruct (l_val v) as [ | | | | | |p sep|e|d ar]; try apply ext_refl.
  - apply ext_bind; [apply dyn_value_fuel; exact Lf|]. intro x.
    apply ext_bind; [apply IH; [lia|exact Lf]|]. intro y. apply ext_refl.
  - apply ext_bind; [apply dyn_value_fuel; exact Lf|]. intro x.
    apply ext_bind; [apply IH; [lia|exact Lf]|]. intro y. apply ext_refl.
  - apply ext_bind.
    + induction d as [|[k [nm x]] r IHd]; [apply ext_refl|].
      apply ext_bind; [apply IH; [lia|exact Lf]|]. intro y.
      apply ext_bind; [exact IHd|]. intro rest. apply ext_refl.
    + intro sd. apply ext_bind; [|intro sa; apply ext_refl].
      destruct ar as [l|]; [|apply ext_refl].
      induction l as [|[nm x] r IHl]; [apply ext_refl|].
      apply ext_bind; [apply IH; [lia|exact Lf]|]. intro y.
      apply ext_bind; [exact IHl|]. intro rest. apply ext_refl.
Qed.

(* the statement is about something: a chain of references needs fuel, and has an answer *)
Example fuel_example :
  let o := {| eo_p := {| p_sep := "."; p_maxIdx := 1024; p_numKeys := false; p_escape := false |};
              eo_envs := []; eo_res := []; eo_noparse := false; eo_nocomma := false;
              eo_n := {| n_p := {| p_sep := "."; p_maxIdx := 1024; p_numKeys := false; p_escape := false |};
                         n_varexp := true; n_m := {| m_h := 0%N; m_ft := None |} |};
              eo_ftext := [] |} in
  let root := VSub [("a", ("a", VRef [FName "b"] ".")); ("b", ("b", VRef [FName "c"] ".")); ("c", ("c", VStr "x"))] None in
  read_string o 1 root "a" (-1) = OutOfModel /\
  read_string o 4 root "a" (-1) = Ok "x"%string /\
  (forall f, 4 <= f -> read_string o f root "a" (-1) = Ok "x"%string).
Proof.
  split; [vm_compute; reflexivity|]. split; [vm_compute; reflexivity|].
  intros f L. apply (read_string_fuel _ 4 f); [exact L|vm_compute; reflexivity|discriminate].
Qed.
