(* ProofsValid.v — C04 for flat structs: after a successful Unpack every field of primitive
   type satisfies every validator of its tag, whether its value came from the configuration
   or was there before, for every struct type, pre-filled value and configuration. *)
From Ucfg Require Import Base ParseInt Consts Field Tree PathOps Merge OTree F64 Conv Reify ProofsReify.

Definition prim_field (fld : string * string * string * ty) : Prop :=
  let '(_, ctag, _, ft) := fld in tag_squash ctag = false /\ exists k, ft = TPrim k.

(* the statement about one field and its value in the result *)
Definition field_valid (vo : voracle) (fld : string * string * string * ty) (v : gv) : Prop :=
  let '(_, _, vtagtext, _) := fld in
  untouched fld = true \/ exists vts, parse_vtags vtagtext = Some vts /\ run_validators vo vts (view v) = Ok tt.

Lemma rec_validate_prim vo k x vts :
  rec_validate vo (TPrim k) x vts = Ok tt -> run_validators vo vts (view x) = Ok tt.
Proof.
  cbn [rec_validate]. destruct (run_validators vo vts (view x)) as [[]| | |]; simpl; try discriminate. reflexivity.
Qed.

Lemma reify_merge_prim f2 o th vts k old val g :
  reify_merge_value (S (S f2)) (o, th, vts) (TPrim k) old val = Ok g ->
  is_nil (Some val) = false ->
  exists c, g = GP c /\ run_validators (r_vo o) vts (WPrim c) = Ok tt.
Proof.
  intros H Hn. cbn [reify_merge_value] in H.
  destruct (reify_primitive_validated f2 o th vts val k g H Hn) as [c [Eg [_ Fv]]].
  exists c. split; [exact Eg|].
  clear -Fv. induction Fv as [|t r Ht Fr IH]; [reflexivity|]. simpl. rewrite Ht. exact IH.
Qed.

Theorem flat_fields_validated f2 o cfg : forall fs vs r,
  Forall prim_field fs ->
  struct_loop (S (S f2)) o cfg fs vs = Ok r ->
  List.length vs = List.length fs ->
  Forall2 (field_valid (r_vo o)) fs r.
Proof.
  induction fs as [|[[[goname ctag] vtagtext] ft] fr IH]; intros vs r F H L.
  - destruct vs; cbn [struct_loop] in H; inversion H; subst; constructor.
  - destruct vs as [|x vr]; [discriminate|]. simpl in L. injection L as L.
    inversion F as [|? ? Hp Fr]; subst. simpl in Hp. destruct Hp as [Hs [k Ek]]; subst.
    cbn [struct_loop] in H. fold (struct_loop (S (S f2)) o cfg) in H.
    destruct (negb (is_upper_first goname) || tag_ignore ctag) eqn:U.
    + destruct (struct_loop (S (S f2)) o cfg fr vr) as [rest| | |] eqn:Er; simpl in H; try discriminate.
      inversion H; subst. constructor; [|apply (IH vr rest Fr Er L)].
      left. unfold untouched. exact U.
    + destruct (parse_vtags vtagtext) as [vts|] eqn:Pv; [|discriminate].
      rewrite Hs in H. cbv zeta in H.
      match type of H with (bind ?Y _) = _ => destruct Y as [y| | |] eqn:Ey end; simpl in H; try discriminate.
      destruct (struct_loop (S (S f2)) o cfg fr vr) as [rest| | |] eqn:Er; simpl in H; try discriminate.
      inversion H; subst. constructor; [|apply (IH vr rest Fr Er L)].
      right. exists vts. split; [exact Pv|].
      (* the setting is nil/absent (the old value is kept and validated) or present (converted and validated) *)
      match type of Ey with (bind ?Z _) = _ => destruct Z as [v| | |] eqn:Ev end; cbn [bind] in Ey; try discriminate.
      destruct (is_nil v) eqn:Nv.
      * destruct (rec_validate (r_vo o) (TPrim k) x vts) as [[]| | |] eqn:Rv; cbn [bind] in Ey; try discriminate.
        inversion Ey; subst. apply (rec_validate_prim _ _ _ _ Rv).
      * destruct v as [n|]; [|discriminate].
        apply in_seg_ok in Ey. destruct (reify_merge_prim f2 _ _ vts k x n y Ey Nv) as [c [Eg Rv]]. subst y. exact Rv.
Qed.

(* Unpack into a flat struct: every field of the result satisfies its validators *)
Theorem flat_struct_validated f2 o fs vs cfg g :
  Forall prim_field fs -> List.length vs = List.length fs ->
  reify_struct (S (S (S f2))) o (TStruct fs) (GStructV vs) cfg = Ok g ->
  exists r, g = GStructV r /\ Forall2 (field_valid (r_vo o)) fs r.
Proof.
  intros F L H. rewrite reify_struct_unfold in H.
  destruct (struct_loop (S (S f2)) o cfg fs vs) as [r| | |] eqn:E; simpl in H; try discriminate.
  inversion H; subst. exists r. split; [reflexivity|]. eapply flat_fields_validated; eauto.
Qed.

(* non-vacuity: a config that violates min=1 on a pre-filled default is rejected, a valid one accepted *)
Example flat_validated_example :
  let o := {| r_p := {| p_sep := "."; p_maxIdx := 1024; p_numKeys := false; p_escape := false |}; r_h := 0%N;
              r_vo := {| vo_dur := fun _ => None |}; r_ft := [] |} in
  let t := [("Port", "port", "min=1,max=65535", TPrim (KInt 64)); ("Name", "", "nonzero", TPrim KString)] in
  reify_struct 5 o (TStruct t) (GStructV [GP (CI 0); GP (CS "n")]) (VSub [("port", ("port", VUint 8080))] None)
  = Ok (GStructV [GP (CI 8080); GP (CS "n")])
  /\ (exists r p, reify_struct 5 o (TStruct t) (GStructV [GP (CI 0); GP (CS "n")]) (VSub [] None) = Err r p)
  /\ (exists r p, reify_struct 5 o (TStruct t) (GStructV [GP (CI 0); GP (CS "n")]) (VSub [("port", ("port", VUint 70000))] None) = Err r p).
Proof. vm_compute. split; [reflexivity|]. split; eauto. Qed.
