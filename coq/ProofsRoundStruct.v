(* ProofsRoundStruct.v — C06: a flat struct of primitive fields survives Struct -> Config -> struct,
   for any number of fields and any of the kinds bool, string, signed and unsigned integers of
   every width, float64. *)
From Ucfg Require Import Base ParseInt Consts Field Tree PathOps Merge OTree F64 Conv VarParse Normalize Reify
     ProofsTree ProofsNormData ProofsReify.
From Coq Require Import Lia.

Record fspec := { f_go : string; f_kind : tkind; f_val : cval }.

Definition gval_of_cval (c : cval) : gval :=
  match c with
  | CB b => GBool b | CI i => GInt i | CU u => GUint u | CF f => GFloat f | CS s => GStr s | CD _ => GNil
  end.

Definition key_of (f : fspec) : string := Normalize.to_lower (f_go f).

Definition gstruct (fs : list fspec) : gval :=
  GStruct (map (fun f => (f_go f, "", gval_of_cval (f_val f))) fs).
Definition tfields (fs : list fspec) : list (string * string * string * ty) :=
  map (fun f => (f_go f, "", "", TPrim (f_kind f))) fs.
Definition vfields (fs : list fspec) : list gv := map (fun f => GP (f_val f)) fs.
Definition zfields (fs : list fspec) : list gv := map (fun f => zero (TPrim (f_kind f))) fs.

(* the settings the struct normalizes to *)
Definition dict_of (d : dict) (fs : list fspec) : dict :=
  fold_left (fun d f => dict_set (key_of f) (key_of f, stored (f_val f)) d) fs d.

Definition field_ok (o : nopts) (f : fspec) : Prop :=
  is_upper_ascii (f_go f) = true /\ name_like o (key_of f) /\ fits (f_kind f) (f_val f).

Section Flat.
  Variable o : nopts.
  Hypothesis no_sep : p_sep (n_p o) = "".
  Hypothesis no_varexp : n_varexp o = false.

  Lemma normalize_cval c k : fits k c -> normalize_value o (gval_of_cval c) = Ok (stored c, None).
  Proof.
    destruct c, k; simpl; intro F; try contradiction; try reflexivity.
    unfold normalize_string. rewrite no_varexp. reflexivity.
  Qed.

  Lemma set_field_norm_absent d k v :
    name_like o k -> dict_get k d = None ->
    set_field_norm o (VSub d None) k None v = Ok (VSub (dict_set k (k, v) d) None).
  Proof.
    intros Hn G. unfold set_field_norm. rewrite (opts_path_name o no_sep k Hn).
    unfold get_path. simpl. unfold nv in *. rewrite G. simpl. reflexivity.
  Qed.

  (* the struct loop of normalize_value on plain fields *)
  Lemma normalize_flat : forall fs d,
    Forall (field_ok o) fs -> NoDup (map key_of fs) ->
    (forall f, In f fs -> dict_get (key_of f) d = None) ->
    (fix into (cfg : value) (l : list (string * string * gval)) {struct l} : res value :=
       match l with
       | [] => Ok cfg
       | (goname, tag, x) :: r =>
         if negb (is_upper_ascii goname) then into cfg r
         else if Normalize.tag_ignore tag then into cfg r
         else if Normalize.tag_squash tag then
           match x with
           | GStruct fs2 =>
             cfg' <- (fix into2 (cfg : value) (l : list (string * string * gval)) {struct l} : res value :=
                        match l with
                        | [] => Ok cfg
                        | (g2, t2, x2) :: r2 =>
                          if negb (is_upper_ascii g2) || Normalize.tag_ignore t2 then into2 cfg r2
                          else if Normalize.tag_squash t2 then OutOfModel
                          else
                            y <- normalize_value o x2 ;;
                            cfg' <- set_field_norm o cfg (field_name (Normalize.tag_name t2) g2) (snd y) (fst y) ;;
                            into2 cfg' r2
                        end) cfg fs2 ;;
             into cfg' r
           | GMap ok kvs =>
             if negb ok then Err EKeyTypeNotString ""
             else
               cfg' <- map_into o cfg
                         ((fix go (l : list (gkey * gval)) : list (gkey * nres) :=
                             match l with
                             | [] => []
                             | (k, x2) :: r2 => (k, normalize_value o x2) :: go r2
                             end) kvs) ;;
               into cfg' r
           | _ => Err ETypeMismatch ""
           end
         else
           y <- normalize_value o x ;;
           cfg' <- set_field_norm o cfg (field_name (Normalize.tag_name tag) goname) (snd y) (fst y) ;;
           into cfg' r
       end) (VSub d None) (map (fun f => (f_go f, "", gval_of_cval (f_val f))) fs)
    = Ok (VSub (dict_of d fs) None).
  Proof.
    induction fs as [|f r IH]; intros d F ND Habs; [reflexivity|].
    inversion F as [|? ? [Hu [Hn Hf]] Fr]; subst. inversion ND as [|? ? Hni NDr]; subst.
    cbn [map]. rewrite Hu. cbn [negb].
    change (Normalize.tag_ignore "") with false. change (Normalize.tag_squash "") with false. cbv iota.
    rewrite (normalize_cval (f_val f) (f_kind f) Hf). cbn [bind fst snd].
    change (field_name (Normalize.tag_name "") (f_go f)) with (key_of f).
    rewrite (set_field_norm_absent d (key_of f) _ Hn (Habs f (or_introl eq_refl))). cbn [bind].
    rewrite IH; [reflexivity|exact Fr|exact NDr|].
    intros g Hg. rewrite dict_get_set_other.
    - apply Habs. right. exact Hg.
    - intro E. apply Hni. rewrite E. apply in_map. exact Hg.
  Qed.
End Flat.

Lemma lower_same s : lower_ascii_str s = Normalize.to_lower s.
Proof. induction s as [|a r IH]; simpl; [reflexivity|]. rewrite IH. reflexivity. Qed.
Lemma upper_same s : is_upper_first s = is_upper_ascii s.
Proof. destruct s; reflexivity. Qed.

Lemma dict_of_keeps d fs k x :
  ~ In k (map key_of fs) -> dict_get k d = Some x -> dict_get k (dict_of d fs) = Some x.
Proof.
  revert d. induction fs as [|f r IH]; intros d Hni G; [exact G|].
  simpl. apply IH.
  - intro H. apply Hni. right. exact H.
  - rewrite dict_get_set_other; [exact G|]. intro E. apply Hni. left. exact E.
Qed.

Lemma dict_of_has : forall fs d, NoDup (map key_of fs) ->
  forall f, In f fs -> dict_get (key_of f) (dict_of d fs) = Some (key_of f, stored (f_val f)).
Proof.
  induction fs as [|g r IH]; intros d ND f Hin; [destruct Hin|].
  inversion ND as [|? ? Hni NDr]; subst. simpl. destruct Hin as [E|Hin].
  - subst g. apply dict_of_keeps; [exact Hni|]. apply dict_get_set_same.
  - apply IH; assumption.
Qed.

Section Back.
  Variable ro : ropts.
  Variable o : nopts.
  Hypothesis same_popts : r_p ro = n_p o.
  Hypothesis no_sep : p_sep (n_p o) = "".

  Lemma stored_not_nil k c : fits k c -> is_nil (Some (stored c)) = false.
  Proof. destruct k, c; simpl; intro F; try contradiction; try reflexivity. destruct (0 <? z)%Z; reflexivity. Qed.

  Lemma reify_flat_loop f2 all : Forall (field_ok o) all -> NoDup (map key_of all) ->
    forall fs, (forall f, In f fs -> In f all) ->
    struct_loop (S (S f2)) ro (VSub (dict_of [] all) None) (tfields fs) (zfields fs) = Ok (vfields fs).
  Proof.
    intros Fall ND. induction fs as [|f r IH]; intro Hsub; [reflexivity|].
    assert (In f all) as Hf by (apply Hsub; left; reflexivity).
    rewrite Forall_forall in Fall. destruct (Fall f Hf) as [Hu [Hn Hfit]].
    cbn [tfields zfields vfields map]. cbn [struct_loop]. fold (struct_loop (S (S f2)) ro (VSub (dict_of [] all) None)).
    rewrite upper_same, Hu. cbn [negb orb].
    change (Reify.tag_ignore "") with false. cbv iota.
    change (parse_vtags "") with (Some (@nil vtag)). cbv iota.
    change (Reify.tag_squash "") with false. cbv iota. cbv zeta.
    change (String.eqb (Reify.tag_name "") "") with true. cbv iota.
    rewrite lower_same. cbn [r_p]. rewrite same_popts.
    fold (key_of f). rewrite (opts_path_name o no_sep (key_of f) Hn).
    unfold get_path. cbn [get_path_go get_field to_cfg].
    pose proof (dict_of_has all [] ND f Hf) as G. unfold nv, dict, arr in *. rewrite G. clear G. cbn [path_join bind].
    rewrite (stored_not_nil _ _ Hfit).
    (* reify_merge_value -> reify_primitive -> conv *)
    cbn [reify_merge_value]. cbn [reify_primitive]. rewrite (stored_not_nil _ _ Hfit).
    cbn [base_ty]. cbn [r_ft r_vo]. rewrite (prim_roundtrip _ _ _ _ Hfit). cbn [bind run_validators pointerize].
    fold (tfields r). fold (zfields r). rewrite IH; [reflexivity|]. intros g Hg. apply Hsub. right. exact Hg.
  Qed.
End Back.

(* Struct -> Config -> struct for flat structs of primitive fields *)
Theorem flat_struct_roundtrip o ro f2 fs :
  r_p ro = n_p o -> p_sep (n_p o) = "" -> n_varexp o = false ->
  Forall (field_ok o) fs -> NoDup (map key_of fs) ->
  exists cfg, normalize_value o (gstruct fs) = Ok (cfg, None) /\
              reify_struct (S (S (S f2))) ro (TStruct (tfields fs)) (GStructV (zfields fs)) cfg
              = Ok (GStructV (vfields fs)).
Proof.
  intros Hp Hs Hv F ND. exists (VSub (dict_of [] fs) None). split.
  - pose proof (normalize_flat o Hs Hv fs [] F ND (fun f _ => eq_refl)) as N.
    unfold gstruct. cbn [normalize_value]. unfold empty_cfg.
    match goal with |- bind ?X _ = _ => replace X with (Ok (VSub (dict_of [] fs) None) : res value) end;
      [reflexivity|try (symmetry; exact N)..].
  - rewrite reify_struct_unfold. rewrite (reify_flat_loop ro o Hp Hs f2 fs F ND fs); [reflexivity|auto].
Qed.

(* non-vacuity: a struct with five fields of different kinds and extreme values *)
Example flat_struct_example :
  let o := {| n_p := {| p_sep := ""; p_maxIdx := 1024; p_numKeys := false; p_escape := false |};
              n_varexp := false; n_m := {| m_h := 0%N; m_ft := None |} |} in
  let fs := [ {| f_go := "Name"; f_kind := KString; f_val := CS "a.b,${c}" |};
              {| f_go := "Max"; f_kind := KUint 64; f_val := CU 18446744073709551615 |};
              {| f_go := "Min"; f_kind := KInt 8; f_val := CI (-128) |};
              {| f_go := "On"; f_kind := KBool; f_val := CB true |};
              {| f_go := "Ratio"; f_kind := KFloat64; f_val := CF 4602678819172646912 |} ] in
  Forall (field_ok o) fs /\ NoDup (map key_of fs).
Proof.
  split.
  - repeat constructor; try reflexivity; cbv [fits]; try lia; try discriminate.
  - vm_compute. repeat constructor; simpl; intuition discriminate.
Qed.
