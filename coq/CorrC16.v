(* CorrC16.v — per-field merge policies (FieldMergeValues / FieldReplaceValues /
   FieldAppendValues / FieldPrependValues): model vs implementation, and the plain-tree
   specification "the named policy applies to exactly the subtree at the path". *)
From Ucfg Require Export Base ParseInt Consts Field Tree PathOps Merge OTree.

(* specs: (field path as given to the option, handling); ft: the handling tree the
   implementation built from them (dumped through the verif hook) *)
Inductive case :=
| CFieldMerge (h : N) (specs : list (string * N)) (ft : option value)
              (a b : value) (result : option value) (unpacked : option otree).

Definition spec_path (name : string) : list field :=
  (* the option appends ".*"; the handling applies at and below the named path *)
  let segs := split name "." in
  let segs := match rev segs with
              | last :: r => if String.eqb last "*" then rev r else segs
              | [] => segs end in
  map (fun s => parse_field s defaultMaxIdx false) segs.

Fixpoint is_prefix_of (p q : list field) : bool :=
  match p, q with
  | [], _ => true
  (* by their texts: whether a numeric segment is an index or a name of the data is decided by
     the options of the call (MaxIdx, EnableNumKeys), the path names it either way *)
  | f :: r, g :: s => String.eqb (field_str f) (field_str g) && is_prefix_of r s
  | _, [] => false
  end.

(* the policy at a position: the longest named path that is a prefix of it, else global *)
Definition polf (h : N) (specs : list (string * N)) (pos : list field) : N :=
  snd (fold_left (fun best sp =>
                    let p := spec_path (fst sp) in
                    if is_prefix_of p pos && (fst best <=? List.length p)%nat
                    then (List.length p, snd sp) else best)
                 specs (O, h)).

Fixpoint has_wildcard (specs : list (string * N)) : bool :=
  match specs with
  | [] => false
  | (n, _) :: r =>
    existsb (fun s => String.eqb s "*" || String.eqb s "**")
            (match rev (split n ".") with
             | last :: r => if String.eqb last "*" then r else last :: r
             | [] => [] end)
    || has_wildcard r
  end.

Definition root_view (t : otree) : otree :=
  match canon t with ONil => OMap [] | OMap m => OMap (drop_nils m) | x => x end.

Definition prop_holds (c : case) : bool :=
  match c with
  | CFieldMerge h specs _ a b _ (Some u) =>
    if pure a && pure b && negb (has_wildcard specs)
    then otree_equiv (root_view (spec_merge_at (polf h specs) [] (strip a) (strip b))) (root_view u)
    else true
  | _ => true
  end.

Definition model_result (c : case) : res value :=
  match c with CFieldMerge h _ ft a b _ _ => merge_root {| m_h := h; m_ft := ft |} a b end.

Definition model_agrees (c : case) : bool :=
  match c with
  | CFieldMerge h _ ft a b r u =>
    match model_result c, r with
    | Ok m, Some r => value_eqb m r && opt_eqb otree_eqb (Some (strip_root r)) u
    | Err _ _, None => true
    | OutOfModel, _ => true
    | _, _ => false
    end
  end.

Definition skipped (c : case) : bool :=
  match model_result c with OutOfModel => true | _ => false end.

(* known-finding signature 31: a named policy path runs into a list where it expects a
   name (list levels are transparent to the handling tree, so the policy also applies
   inside the list's entries) *)
Fixpoint crosses_list (p : list field) (t : otree) {struct p} : bool :=
  match p with
  | [] => false
  | FName n :: r =>
    match t with
    | OMap m => match dict_get n m with Some c => crosses_list r c | None => false end
    | OList _ => true
    | _ => false
    end
  | FIdx i :: r =>
    match t with
    | OList l => match nth_opt l (Z.to_nat i) with Some c => crosses_list r c | None => false end
    | _ => false
    end
  end.

(* known-finding signature 52: a named policy other than replace on a path one of whose
   enclosing containers is replaced wholesale by the policy in force there (the global one, or
   another named one): the old subtree is dropped with its container before the named policy is
   looked up *)
Definition under_replace (h : N) (specs : list (string * N)) : bool :=
  existsb (fun sp =>
             let p := spec_path (fst sp) in
             negb (pol_replace (snd sp)) &&
             existsb (fun k => pol_replace (polf h specs (firstn k p))) (seq 0 (List.length p)))
          specs.

Definition signature (c : case) : N :=
  match c with
  | CFieldMerge h specs _ a b _ _ =>
    if existsb (fun sp => crosses_list (spec_path (fst sp)) (strip a) ||
                          crosses_list (spec_path (fst sp)) (strip b)) specs
    then 31%N
    else if under_replace h specs then 52%N else 0%N
  end.

Definition verdict (c : case) : N :=
  if skipped c then 8%N
  else ((if model_agrees c then 0 else 1) + (if prop_holds c then 0 else 2))%N.

Fixpoint run_cases (i : N) (cs : list case) : list (N * N * N) :=
  match cs with
  | [] => []
  | c :: r =>
    let v := verdict c in
    if (v =? 0)%N then run_cases (i + 1)%N r
    else (i, v, signature c) :: run_cases (i + 1)%N r
  end.
