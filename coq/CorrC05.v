(* CorrC05.v — normalization: model vs implementation (normalize), and the canonical-tree
   properties evaluated on the implementation's outputs (C05); shared with C09. *)
From Ucfg Require Export Base ParseInt Consts Field Tree PathOps Merge OTree Ops VarParse Normalize.

Inductive case :=
| CNorm (o : nopts) (input : gval) (observed : obs)
    (* normalize(input): internal tree or error *)
| CNormSet (o : nopts) (kvs : list (gkey * gval)) (observed : list obs)
    (* the distinct outcomes of repeated NewFrom on one map (the runtime picks the order) *)
| CUnpack (normalized : value) (unpacked : option otree) (data : otree)
    (* data in = data out *)
| CSame (what : string) (a b : obs)
    (* two results that the property says are identical configs *)
| CDup (o : nopts) (kvs : list (gkey * gval)) (observed : list obs)
    (* an input defining one setting twice: every run must report a duplicate key *)
| CRepeat (what : string) (observed : list obs).
    (* the distinct outcomes of one call repeated on equal inputs (C09) *)

(* errors are compared by reason; the path only for reasons whose path the model defines *)
Definition nobs_eqb (a b : obs) : bool :=
  match a, b with
  | OE EOther _, OE EOther _ => true
  | _, _ => obs_eqb a b
  end.

Definition norm_obs (o : nopts) (g : gval) : obs := obs_of (fun v => v) (normalize o g).

(* the entries are listed in the order of one enumeration of the map; the model sorts them *)
Definition model_outcome (o : nopts) (kvs : list (gkey * gval)) : obs := norm_obs o (GMap true kvs).

Definition model_agrees (c : case) : bool :=
  match c with
  | CNorm o g obs => nobs_eqb (norm_obs o g) obs
  | CNormSet o kvs observed | CDup o kvs observed =>
    forallb (nobs_eqb (model_outcome o kvs)) observed
  | CUnpack n u _ => opt_eqb otree_eqb (Some (strip_root n)) u
  | CSame _ _ _ => true
  | CRepeat _ _ => true
  end.

Definition skipped (c : case) : bool :=
  match c with
  | CNorm o g _ => match normalize o g with OutOfModel => true | _ => false end
  | _ => false
  end.

(* numbers are compared by value: a positive integer is the same setting whether it is
   stored signed or unsigned *)
Fixpoint num_canon (t : otree) : otree :=
  match t with
  | OUint z => OInt z
  | OList l => OList (map num_canon l)
  | OMap m => OMap ((fix go (l : list (string * otree)) :=
                       match l with [] => [] | (k, x) :: r => (k, num_canon x) :: go r end) m)
  | _ => t
  end.

Definition root_view (t : otree) : otree :=
  match canon t with ONil => OMap [] | OMap m => OMap (drop_nils m) | x => x end.

Definition data_equiv (a b : otree) : bool :=
  otree_eqb (num_canon (root_view a)) (num_canon (root_view b)).

Definition is_dup (ob : obs) : bool :=
  match ob with OE EDuplicateKey _ => true | _ => false end.
Definition is_rejected (ob : obs) : bool :=
  match ob with OE _ _ => true | _ => false end.

(* one key is given a scalar and another key extends it (a = 1 together with a.b = 2): the two
   keys name different settings of incompatible shapes; the input must be rejected, as a
   duplicate or as a type conflict *)
Definition is_scalar (g : gval) : bool :=
  match g with GMap _ _ | GList _ | GStruct _ | GCfg _ _ => false | _ => true end.
Definition key_str (k : gkey) : string := match k with KStr s => s | KOther => "" end.
Definition shape_conflict (sep : string) (kvs : list (gkey * gval)) : bool :=
  existsb (fun kv => is_scalar (snd kv) &&
                     existsb (fun kv2 => prefix (key_str (fst kv) +++ sep) (key_str (fst kv2))) kvs) kvs.
Definition all_objects (kvs : list (gkey * gval)) : bool :=
  forallb (fun kv => match snd kv with GMap _ _ => true | _ => false end) kvs.

Definition prop_holds (c : case) : bool :=
  match c with
  | CNorm _ _ OPanic => false
  | CNorm _ _ _ => true
  | CNormSet _ _ observed => forallb (fun ob => match ob with OPanic => false | _ => true end) observed
  | CUnpack _ (Some u) data => data_equiv u data
  | CUnpack _ None _ => false
  | CSame _ (OV x) (OV y) => data_equiv (strip_root x) (strip_root y)   (* nil = empty *)
  | CSame _ _ _ => false
  | CDup o kvs observed =>
    if shape_conflict (p_sep (n_p o)) kvs then forallb is_rejected observed else forallb is_dup observed
  | CRepeat _ _ => true
  end.

(* known-finding signatures: 9 = one setting defined twice through two object-valued spellings
   (the two objects are merged silently); 24 = unsupported kinds *)
Definition signature (c : case) : N :=
  match c with
  | CDup _ kvs _ => if all_objects kvs then 9%N else 0%N
  | CNorm _ _ OPanic => 24%N
  | _ => 0%N
  end.

Definition verdict (c : case) : N :=
  if skipped c then 8%N
  else ((if model_agrees c then 0 else 1) + (if prop_holds c then 0 else 2))%N.

Fixpoint run_cases (i : N) (cs : list case) : list (N * N * N) :=
  match cs with
  | [] => []
  | c :: r =>
    let v := verdict c in
    if (v =? 0)%N then run_cases (i + 1)%N r
    else (i, v, signature c) :: run_cases (i + 1)%N r
  end.
