(* PropsC05.v — C05: every input shape normalizes to the same canonical tree.
   Statements only; proofs are in ProofsNormData.v and ProofsNormalize.v.

   Modelled rather than proved: the map from Go values to the universe gval (pointers and
   interfaces chased, every map kind with string or interface keys is GMap, slices and arrays
   are GList, structs are GStruct with their tags) is the harness's printer coqGval; the
   correspondence run compares normalize on its output with NewFrom on the Go value. *)
From Coq Require Import Permutation Sorting.Sorted.
From Ucfg Require Import Base ParseInt Consts Field Tree PathOps Merge OTree VarParse Normalize
     ProofsNormalize ProofsNormData ProofsDotted.

(* Data in = data out, for EVERY plain data tree of any depth and width given as generic maps
   and lists (no path separator, no variable expansion): the config exists and its generic
   view holds the same data, numbers compared by value, nil and empty containers equal. *)
Theorem c05_data_in_data_out : forall o, p_sep (n_p o) = "" -> n_varexp o = false ->
  forall t, plain o t ->
  exists v, normalize_value o (gval_of t) = Ok (v, None) /\
            canon (numc (strip v)) = canon (numc t).
Proof. exact data_in_data_out. Qed.
Print Assumptions c05_data_in_data_out.

(* ... exactly: positive integers come back unsigned, an empty object comes back as nil,
   and nothing else changes *)
Theorem c05_generic_view_exact : forall o, p_sep (n_p o) = "" -> n_varexp o = false ->
  forall t, plain o t ->
  exists v, normalize_value o (gval_of t) = Ok (v, None) /\ strip v = back t.
Proof. exact normalize_value_back. Qed.
Print Assumptions c05_generic_view_exact.

(* Feeding the result back in yields a config with an identical generic view. *)
Theorem c05_feeding_back_is_identity : forall o, p_sep (n_p o) = "" -> n_varexp o = false ->
  forall t, plain o t ->
  exists v v2, normalize_value o (gval_of t) = Ok (v, None) /\
               normalize_value o (gval_of (strip v)) = Ok (v2, None) /\
               strip v2 = strip v.
Proof. exact normalize_back_again. Qed.
Print Assumptions c05_feeding_back_is_identity.

(* The order in which a map is enumerated (at any depth) does not matter, so the ascending
   order assumed by [plain] is no restriction. *)
Theorem c05_enumeration_order_irrelevant : forall o g g',
  gperm g g' -> normalize o g = normalize o g'.
Proof. exact normalize_gperm. Qed.
Print Assumptions c05_enumeration_order_irrelevant.

(* A dotted key is the nesting it spells: for every chain of names n1.n2...nk (no dots inside a
   name, not index-like) and every value. *)
Theorem c05_dotted_key_is_nesting_partial : forall o, p_sep (n_p o) = "." -> p_escape (n_p o) = false ->
  forall n r x v, Forall (seg_name o) (n :: r) -> normalize_value o x = Ok (v, None) ->
  normalize_value o (GMap true [(KStr (dotted n r), x)]) = normalize_value o (gchain (n :: r) x).
Proof. exact dotted_is_nested. Qed.
Print Assumptions c05_dotted_key_is_nesting_partial.

Theorem c05_dotted_example :
  let o := {| n_p := {| p_sep := "."; p_maxIdx := 1024; p_numKeys := false; p_escape := false |};
              n_varexp := false; n_m := {| m_h := 0%N; m_ft := None |} |} in
  Forall (seg_name o) ["output"; "elasticsearch"; "hosts"] /\
  dotted "output" ["elasticsearch"; "hosts"] = "output.elasticsearch.hosts" /\
  normalize o (GMap true [(KStr "output.elasticsearch.hosts", GList [GStr "a"; GStr "b"])])
  = normalize o (GMap true [(KStr "output", GMap true [(KStr "elasticsearch", GMap true [(KStr "hosts", GList [GStr "a"; GStr "b"])])])]).
Proof. exact dotted_example. Qed.
Print Assumptions c05_dotted_example.

(* non-vacuity, and a dotted key next to the nesting it duplicates is rejected *)
Theorem c05_plain_example :
  let o := {| n_p := {| p_sep := ""; p_maxIdx := 1024; p_numKeys := false; p_escape := false |};
              n_varexp := false; n_m := {| m_h := 0%N; m_ft := None |} |} in
  let t := OMap [("a", OList [OInt 3; OStr "x${y}"; OMap []]); ("b", OMap [("c", ONil); ("d.e", OBool true)])] in
  plain o t /\
  (x <- normalize_value o (gval_of t) ;; Ok (strip (fst x)))
  = Ok (OMap [("a", OList [OUint 3; OStr "x${y}"; ONil]); ("b", OMap [("c", ONil); ("d.e", OBool true)])]).
Proof. exact plain_example. Qed.
Print Assumptions c05_plain_example.

Theorem c05_duplicate_example :
  let o := {| n_p := {| p_sep := "."; p_maxIdx := 1024; p_numKeys := false; p_escape := false |};
              n_varexp := false; n_m := {| m_h := 0%N; m_ft := None |} |} in
  normalize o (GMap true [(KStr "a.b", GUint 1); (KStr "a", GMap true [(KStr "b", GUint 2)])])
  = normalize o (GMap true [(KStr "a", GMap true [(KStr "b", GUint 2)]); (KStr "a.b", GUint 1)])
  /\ normalize o (GMap true [(KStr "a.b", GUint 1); (KStr "a", GMap true [(KStr "b", GUint 2)])])
     = Err EDuplicateKey "a.b".
Proof. exact sorted_visit_example. Qed.
Print Assumptions c05_duplicate_example.

(* NOT proved here (c05 is partial in this respect): the equivalence of dotted keys and nesting
   for mixtures of several keys (one dotted chain is proved above), the struct / typed-map representations, and duplicate
   rejection for all overlapping spellings. They are decided by the correspondence run only
   (and F9b shows the last one false for two object-valued spellings). *)
