(* PropsC05.v — C05: every input shape normalizes to the same canonical tree. *)
From Ucfg Require Import Base ParseInt Consts Field Tree PathOps Merge OTree VarParse Normalize.
