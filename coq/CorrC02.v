(* CorrC02.v — variable expansion: model vs implementation for String reads and Unpack,
   and the substitution specification on the implementation's results (C02, C08). *)
From Ucfg Require Export Base ParseInt Consts Field Tree PathOps Merge OTree F64 ParseValue VarParse Normalize Flags Ops VarEval Keys KeysDyn SpecEval.

Inductive xobs := XV (t : otree) | XE (r : ereason) | XPanic | XHang.

Inductive tfield := TStr (k : string) | TList (k : string) (n : nat) | TSlice (k : string) | TRe (k : string) | TDur (k : string).
    (* TDur: a time.Duration field for a setting that stands for a whole number (of seconds), reached
       directly or through references: reported in nanoseconds *)
    (* TRe: a *regexp.Regexp field (the setting's text is a valid expression): reported by its source text *)

Inductive case :=
| CRead (o : eopts) (root : value) (name : string) (idx : Z) (observed : obs)   (* Config.String *)
| CUnpackDyn (o : eopts) (root : value) (observed : xobs)                         (* Unpack into map[string]interface{} *)
| CFlat (o : eopts) (root : value) (observed : option (list string))             (* FlattenedKeys; None = it did not return *)
| CExpr (o : nopts) (s : string) (observed : option value)
    (* the text s stored as the setting "v": what NewFrom made of it (None = rejected) *)
| CTyped (o : eopts) (root : value) (fields : list tfield) (observed : xobs)
    (* Unpack into a struct: a string field per setting, a []string field per literal list, a
       []string field for a setting that is no literal list (TSlice: a reference may name one) *)
| CHas (o : eopts) (root : value) (name : string) (idx : Z) (observed : obs).       (* Config.Has *)

(** escapes outside any ${...}: "$$" is a dollar, "$}" a closing brace, a last "$" stays.  A
    specification by itself (it does not use the parser model), for texts without "${" *)
Fixpoint unescape (s : string) : string :=
  match s with
  | String a r =>
    if Ascii.eqb a "$"%char then
      match r with
      | String b r' =>
        if Ascii.eqb b "$"%char then String "$"%char (unescape r')
        else if Ascii.eqb b "}"%char then String "}"%char (unescape r')
        else String a (unescape r)
      | EmptyString => s
      end
    else String a (unescape r)
  | EmptyString => EmptyString
  end.
Fixpoint has_open (s : string) : bool :=
  match s with
  | String a r => (Ascii.eqb a "$"%char && match r with String b _ => Ascii.eqb b "{"%char | _ => false end) || has_open r
  | EmptyString => false
  end.

Definition fuel_for (o : eopts) (root : value) : nat :=
  (40 + vsize root + fold_right (fun e n => Nat.add (vsize e) n) O (eo_envs o))%nat.

(* errors are compared by reason *)
Definition robs_eqb (a b : obs) : bool :=
  match a, b with
  | OE r _, OE s _ => ereason_eqb r s
  | _, _ => obs_eqb a b
  end.

Definition model_read (c : case) : obs :=
  match c with
  | CRead o root name idx _ => obs_of VStr (read_string o (fuel_for o root) root name idx)
  | _ => OSkip
  end.

(* Unpack of the root into map[string]interface{}: the data, or the list of error reasons
   of the fields that fail (the first one in sorted key order is reported) *)
Definition unpack_root (o : eopts) (root : value) : res (otree + list ereason) :=
  match root with
  | VSub d _ =>
    let fuel := fuel_for o root in
    m <- (fix gd (l : list (string * (string * value)))
          : res (list (string * otree) * list ereason * bool) :=
            match l with
            | [] => Ok ([], [], false)
            | (k, (nm, x)) :: r =>
              match reify_loc o fuel fuel (act_push fresh) {| l_root := root; l_path := nm; l_val := x |} with
              | Ok y => rest <- gd r ;;
                        let '(ds, es, mk) := rest in Ok ((k, to_otree (fst y)) :: ds, es, snd y || mk)
              | Err e p => rest <- gd r ;; let '(ds, es, mk) := rest in Ok (ds, e :: es, mk || err_marked p)
              | Panic => Panic
              | OutOfModel => OutOfModel
              end
            end) d ;;
    let '(ds, es, mk) := m in
    (* a cyclic error absorbed by a default: the values can depend on the per-call cache
       and on the order in which the fields are unpacked (F10) *)
    if mk then OutOfModel
    else match es with
         | [] => Ok (inl (OMap (drop_nils ds)))
         | _ => Ok (inr es)
         end
  | _ => OutOfModel
  end.

(* an operator that can absorb an error (a default, an alternative, an error message) occurs
   somewhere in the tree: the value a cyclic evaluation takes can then depend on the per-call
   cache of evaluated values, which the model does not have *)
Fixpoint exp_absorbs (e : vexp) : bool :=
  match e with
  | EConst _ | ERef _ _ => false
  | ESplice ps => existsb exp_absorbs ps
  | ESingle x _ => exp_absorbs x
  | EDefault _ _ _ | EAlt _ _ _ | EErr _ _ _ => true
  end.
Fixpoint has_absorber (v : value) : bool :=
  match v with
  | VSplice e => exp_absorbs e
  | VSub d a =>
    (fix gd (l : list (string * (string * value))) : bool :=
       match l with [] => false | (_, (_, x)) :: r => has_absorber x || gd r end) d ||
    match a with
    | None => false
    | Some l => (fix ga (l : list (string * value)) : bool :=
                   match l with [] => false | (_, x) :: r => has_absorber x || ga r end) l
    end
  | _ => false
  end.

(* the root unpacked by the specification (SpecEval.reify_s): Some data when every setting has a
   finite value and no cyclic error was absorbed on the way *)
Definition spec_unpack_root (o : eopts) (root : value) : option otree :=
  match root with
  | VSub d _ =>
    let fuel := fuel_for o root in
    (fix gd (l : list (string * (string * value))) (acc : list (string * otree)) : option otree :=
       match l with
       | [] => Some (OMap (drop_nils (rev acc)))
       | (k, (nm, x)) :: r =>
         match reify_s o fuel fuel {| l_root := root; l_path := nm; l_val := x |} with
         | Ok (y, false) => gd r ((k, to_otree y) :: acc)
         | _ => None
         end
       end) d []
  | _ => None
  end.

Definition xobs_eqb (a b : xobs) : bool :=
  match a, b with
  | XV x, XV y => otree_eqb x y
  | XE r, XE s => ereason_eqb r s
  | XPanic, XPanic | XHang, XHang => true
  | _, _ => false
  end.

Definition model_agrees (c : case) : bool :=
  match c with
  | CRead o root name idx obs =>
    robs_eqb (model_read c) obs
    (* a cyclic error absorbed by a default, where the (unmodelled) per-call cache of
       evaluated values can show: both must at least be values *)
    || (read_string_marked o (fuel_for o root) root name idx
        && match model_read c, obs with OV _, OV _ => true | _, _ => false end)
    (* an error raised after a cyclic error was absorbed: with the cache the implementation may
       have taken another way *)
    || match model_read c, obs with
       | OE _ p, (OV _ | OE _ _) => err_marked p
       | _, _ => false
       end
  | CUnpackDyn o root obs =>
    (* the per-call cache of evaluated references (not modelled) lets the implementation finish
       some evaluations that walk a second time through a reference whose content is still being
       unpacked: the data must then be what the specification gives *)
    match obs, spec_unpack_root o root with
    | XV t, Some t' => otree_eqb t t'
    | _, _ => false
    end ||
    match unpack_root o root with
    | Ok (inl t) => xobs_eqb (XV t) obs
    | Ok (inr es) =>
      (* some field fails: Unpack visits the fields in sorted order (also inside nested
         objects) and reports the first failure it meets *)
      match es with e :: _ => xobs_eqb (XE e) obs | [] => false end
    | Err r _ => xobs_eqb (XE r) obs
    | Panic => xobs_eqb XPanic obs
    | OutOfModel => true
    end
  | CFlat o root obs =>
    match flattened_keys_dyn o "." (fuel_for o root) root, obs with
    | Ok m, Some l => list_eqb String.eqb m l
    | OutOfModel, _ => true
    | _, _ => false
    end
  | CExpr o s obs =>
    match normalize o (GMap true [(KStr "v", GStr s)]), obs with
    | Ok m, Some d => value_eqb m d
    | Err _ _, None => true
    | OutOfModel, _ => true
    | _, _ => false
    end
  | CTyped _ _ _ _ => true       (* typed targets with references are outside the Unpack model *)
  | CHas _ _ _ _ _ => true       (* judged by the specification only *)
  end.

Definition skipped (c : case) : bool :=
  match c with
  | CRead _ _ _ _ _ => match model_read c with OSkip => true | _ => false end
  | CUnpackDyn o root _ => match unpack_root o root with OutOfModel => true | _ => false end
  | CFlat o root _ => match flattened_keys_dyn o "." (fuel_for o root) root with OutOfModel => true | _ => false end
  | CExpr o s _ => match normalize o (GMap true [(KStr "v", GStr s)]) with OutOfModel => true | _ => false end
  | CTyped _ _ _ _ => true
  | CHas _ _ _ _ _ => true
  end.

(* C08 on a String read, judged by the specification (SpecEval.v): a read that never re-enters a
   reference gives the substituted value; a re-entered one fails (unless absorbed) *)
Definition any_absorber (o : eopts) (root : value) : bool :=
  has_absorber root || existsb has_absorber (eo_envs o) || negb (match eo_res o with [] => true | _ => false end).

Definition spec_read_ok (o : eopts) (root : value) (name : string) (idx : Z) (ob : obs) : bool :=
  match spec_string o (fuel_for o root) root name idx with
  | Ok (s, false) => obs_eqb ob (OV (VStr s))
  | Ok (_, true) => match ob with OPanic => false | _ => true end
  | Err _ _ => match ob with
               | OE _ _ => true
               | OV _ => any_absorber o root      (* with the per-call cache a value may survive *)
               | _ => false
               end
  | _ => match ob with OPanic => false | _ => true end
  end.

(* Config.Has by the specification: the walk to the setting, nothing is converted.  A setting the
   specification finds must be reported as present; one it does not find (or cannot reach) must
   not be *)
Definition spec_has_ok (o : eopts) (root : value) (name : string) (idx : Z) (ob : obs) : bool :=
  let fuel := fuel_for o root in
  let p := opts_path_idx (eo_p o) name idx in
  match ob with
  | OPanic => false
  | _ =>
    match get_path_s (dyn_s o fuel) p [] {| l_root := root; l_path := ""; l_val := root |} with
    | Ok (Ok (Some _), false) => obs_eqb ob (OV (VBool true))
    | Ok (Ok None, false) | Ok (Err _ _, false) | Err _ _ =>
      negb (obs_eqb ob (OV (VBool true))) || any_absorber o root
    | _ => true
    end
  end.

(* Unpack into typed fields, by the specification: every field and every list entry is read on
   its own.  st_ok: the expected data; st_err: some field fails; st_any: a cyclic error was
   absorbed somewhere (the per-call cache may show) *)
Inductive styped := STOk (m : list (string * otree)) | STErr | STAny.

Definition spec_typed (o : eopts) (root : value) (fs : list tfield) : styped :=
  let fuel := fuel_for o root in
  let rd (k : string) (i : Z) : option (option string) :=      (* None: relaxed; Some None: fails *)
      match spec_string o fuel root k i with
      | Ok (s, false) => Some (Some s)
      | Err _ _ => Some None
      | _ => None
      end in
  let ents (k : string) :=
      (fix ents (i : nat) (todo : nat) : option (option (list otree)) :=
                match todo with
                | O => Some (Some [])
                | S t => match rd k (Z.of_nat i) with
                         | Some (Some s) => match ents (S i) t with
                                            | Some (Some l) => Some (Some (OStr s :: l))
                                            | x => x end
                         | Some None => Some None
                         | None => None
                         end
                end) in
  (fix go (l : list tfield) (acc : list (string * otree)) : styped :=
     match l with
     | [] => STOk (rev acc)
     | TStr k :: r =>
       match rd k (-1) with
       | Some (Some s) => go r ((k, OStr s) :: acc)
       | Some None => STErr
       | None => STAny
       end
     | TRe k :: r =>
       match rd k (-1) with
       | Some (Some s) => go r ((k, OStr s) :: acc)
       | Some None => STErr
       | None => STAny
       end
     | TDur k :: r =>
       match root with
       | VSub d _ =>
         match dict_get k d with
         | Some (nm, x) =>
           match reify_s o fuel fuel {| l_root := root; l_path := nm; l_val := x |} with
           | Ok ((XInt n | XUint n), false) => go r ((k, OInt (n * 1000000000)) :: acc)
           | Err _ _ => STErr
           | _ => STAny
           end
         | None => STAny
         end
       | _ => STAny
       end
     | TList k n :: r =>
       match ents k O n with
       | Some (Some l) => go r ((k, OList l) :: acc)
       | Some None => STErr
       | None => STAny
       end
     | TSlice k :: r =>
       (* what the setting stands for decides: the entries of a list one by one, a single value
          as a list of one *)
       match root with
       | VSub d _ =>
         match dict_get k d with
         | Some (nm, x) =>
           match reify_s o fuel fuel {| l_root := root; l_path := nm; l_val := x |} with
           | Ok (XSub [] ar true, false) =>
             match ents k O (List.length ar) with
             | Some (Some l) => go r ((k, OList l) :: acc)
             | Some None => STErr
             | None => STAny
             end
           | Ok ((XBool _ | XInt _ | XUint _ | XFloat _ | XStr _), false) =>
             match rd k (-1) with
             | Some (Some s) => go r ((k, OList [OStr s]) :: acc)
             | Some None => STErr
             | None => STAny
             end
           | Err _ _ => STErr
           | _ => STAny
           end
         | None => STAny
         end
       | _ => STAny
       end
     end) fs [].

(* a setting that reads as "null" is left alone by Unpack (the field keeps its zero value) *)
Fixpoint typed_eqb (spec got : list (string * otree)) : bool :=
  match spec, got with
  | [], [] => true
  | (k, x) :: r, (k2, y) :: r2 =>
    String.eqb k k2 && typed_eqb r r2 &&
    match x, y with
    | OStr "null", _ => true
    | OList l, OList l2 =>
      (fix el (a b : list otree) : bool :=
         match a, b with
         | [], [] => true
         | OStr "null" :: a', _ :: b' => el a' b'
         | u :: a', v :: b' => otree_eqb u v && el a' b'
         | _, _ => false
         end) l l2
    | _, _ => otree_eqb x y
    end
  | _, _ => false
  end.

(* Unpack into map[string]interface{} must not fail when the specification evaluates every setting
   (a cyclic error may have been absorbed on the way: the per-call cache of the implementation can
   then change values, but it only ever replaces an evaluation by the primitive value an earlier
   one gave).  Judged where no reference walks a path through another value and no resolver
   answers: there a primitive is accepted wherever another value is. *)
Fixpoint has_dot (s : string) : bool :=
  match s with
  | EmptyString => false
  | String a r => (byte_of a =? 46)%N || has_dot r
  end.
(* the name an operator looks up is a constant of one segment; no computed names (a cached
   primitive in the place of another text would name another setting) *)
Definition const_name (e : vexp) : bool :=
  match e with EConst n => negb (has_dot n) | _ => false end.
(* an expression that never evaluates to the empty text *)
Fixpoint nonempty_exp (e : vexp) : bool :=
  match e with
  | EConst s => negb (String.eqb s "")
  | ESplice ps => existsb nonempty_exp ps
  | EDefault _ r _ => nonempty_exp r
  | _ => false
  end.
(* No alternative operator and no default that can be empty: a value obtained while a cycle was
   being absorbed is cached for the call, and an EMPTY one (the alternative operator's answer for
   a re-entered name) makes a later `${x:?...}` fail where the setting read on its own succeeds
   (found by the thorough tier: a: ${c:d0}, b: ${c:+alt1}, c: ${b:?boom2}) *)
Fixpoint exp_simple (e : vexp) : bool :=
  match e with
  | EConst _ => true
  | ERef p _ => (List.length p <=? 1)%nat
  | ESplice ps => forallb exp_simple ps
  | ESingle _ _ => false
  | EDefault l r _ => const_name l && exp_simple r && nonempty_exp r
  | EAlt _ _ _ => false
  | EErr l r _ => const_name l && exp_simple r
  end.
Fixpoint refs_simple (v : value) : bool :=
  match v with
  | VRef p _ => (List.length p <=? 1)%nat
  | VSplice e => exp_simple e
  | VSub d a =>
    (fix gd (l : list (string * (string * value))) : bool :=
       match l with [] => true | (_, (_, x)) :: r => refs_simple x && gd r end) d &&
    match a with
    | None => true
    | Some l => (fix ga (l : list (string * value)) : bool :=
                   match l with [] => true | (_, x) :: r => refs_simple x && ga r end) l
    end
  | _ => true
  end.
Definition spec_all_ok (o : eopts) (root : value) : bool :=
  match root with
  | VSub d _ =>
    let fuel := fuel_for o root in
    forallb (fun e : string * (string * value) =>
               match reify_s o fuel fuel {| l_root := root; l_path := fst (snd e); l_val := snd (snd e) |} with
               | Ok _ => true
               | _ => false
               end) d
  | _ => false
  end.
Definition unpack_must_succeed (o : eopts) (root : value) : bool :=
  match eo_res o with
  | [] => forallb refs_simple (root :: eo_envs o) && spec_all_ok o root
  | _ => false
  end.

Definition prop_holds (c : case) : bool :=
  match c with
  | CTyped _ _ _ XPanic | CTyped _ _ _ XHang => false
  | CTyped o root fs ob =>
    match spec_typed o root fs, ob with
    | STOk m, XV (OMap got) => typed_eqb m got
    | STOk _, _ => false
    | STErr, XE _ => true
    | STErr, _ => any_absorber o root
    | STAny, _ => true
    end
  | CRead _ _ _ _ OPanic => false
  | CRead o root name idx ob => spec_read_ok o root name idx ob
  | CHas o root name idx ob => spec_has_ok o root name idx ob
  | CUnpackDyn _ _ XPanic | CUnpackDyn _ _ XHang => false
  | CUnpackDyn o root (XE _) => negb (unpack_must_succeed o root)
  | CFlat _ _ None => false
  (* a text without "${" is a literal: it reads back with its escapes undone, wherever they stand *)
  | CExpr _ s obs =>
    if has_open s then true
    else match obs with
         | Some (VSub [(_, (_, x))] None) =>
           (* (the empty text is stored as an expression of no pieces; it reads as "") *)
           value_eqb x (VStr (unescape s)) || (String.eqb s "" && value_eqb x (VSplice (ESplice [])))
         | _ => false
         end
  | _ => true
  end.

Definition signature (c : case) : N := 0%N.

Definition verdict (c : case) : N :=
  if skipped c then (if prop_holds c then 8%N else 2%N)     (* outside the model: the property is still evaluated *)
  else ((if model_agrees c then 0 else 1) + (if prop_holds c then 0 else 2))%N.

Fixpoint run_cases (i : N) (cs : list case) : list (N * N * N) :=
  match cs with
  | [] => []
  | c :: r =>
    let v := verdict c in
    if (v =? 0)%N then run_cases (i + 1)%N r
    else (i, v, signature c) :: run_cases (i + 1)%N r
  end.
