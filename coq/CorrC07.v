(* CorrC07.v — totality: histories of getters/setters with arbitrary names and indices (model:
   the C12 machinery), parse.Value strings (model: the C17 parser), and the outcome class of
   the entry points that have no model.  The property: every call returns a value or an error
   - no panic, no hang, no leaked goroutine - and no write makes a list longer than
   max(previous length, MaxIdx + 1, length of a list that was inserted). *)
From Ucfg Require Export CorrC12 CorrC17 CorrC02.

Inductive case :=
| CHist7 (c : CorrC12.case)
| CParse7 (c : CorrC17.case)
| CDyn7 (c : CorrC02.case)
| CTotal (entry : string) (input : string) (outcome : N).
    (* 0 returned nil, 1 returned an error, 2 panicked, 3 did not return, 4 leaked a goroutine *)

(* the longest list anywhere in a tree *)
Fixpoint max_list (v : value) : Z :=
  match v with
  | VSub d a =>
    let md := (fix gd (l : list (string * (string * value))) : Z :=
                 match l with [] => 0 | (_, (_, x)) :: r => Z.max (max_list x) (gd r) end) d in
    let ma := match a with
              | None => 0
              | Some l => Z.max (lenZ l)
                            ((fix ga (l : list (string * value)) : Z :=
                                match l with [] => 0 | (_, x) :: r => Z.max (max_list x) (ga r) end) l)
              end in
    Z.max md ma
  | _ => 0
  end.

Definition op_list_bound (o : op) : Z :=
  match o with
  | OpSetChild _ _ v _ => max_list v
  | OpMerge _ v => max_list v
  | _ => 0
  end.
Definition op_is_merge (o : op) : bool := match o with OpMerge _ _ => true | _ => false end.

Fixpoint growth_ok (mx : Z) (prev : value) (ss : list step) : bool :=
  match ss with
  | [] => true
  | s :: r =>
    (op_is_merge (st_op s) ||
     (max_list (st_tree s) <=? Z.max (max_list prev) (Z.max (mx + 1) (op_list_bound (st_op s)))))
    && growth_ok mx (st_tree s) r
  end.

Definition obs_no_panic (ob : obs) : bool := match ob with OPanic => false | _ => true end.
Definition probe_no_panic (p : probe) : bool :=
  obs_no_panic (pr_has p) && obs_no_panic (pr_str p) && obs_no_panic (pr_child p).
Definition step_no_panic (s : step) : bool :=
  obs_no_panic (st_res s) && obs_no_panic (st_count s) && forallb probe_no_panic (st_probes s).

(* values only known at read time: the longest list in what Unpack returns is bounded by
   MaxIdx + 1, by the lists that stand in the trees, and by what a text can spell out (an
   element per comma, plus one) *)
Fixpoint otree_max_list (t : otree) : Z :=
  match t with
  | OList l => Z.max (lenZ l) ((fix go (l : list otree) : Z := match l with [] => 0 | x :: r => Z.max (otree_max_list x) (go r) end) l)
  | OMap kvs => (fix go (l : list (string * otree)) : Z := match l with [] => 0 | (_, x) :: r => Z.max (otree_max_list x) (go r) end) kvs
  | _ => 0
  end.
Fixpoint commas (s : string) : Z :=
  match s with
  | EmptyString => 1
  | String a r => (if (byte_of a =? 44)%N then 1 else 0) + commas r
  end.
Fixpoint exp_commas (e : vexp) : Z :=
  match e with
  | EConst s => commas s
  | ERef _ _ => 1
  | ESplice ps => (fix go (l : list vexp) : Z := match l with [] => 0 | x :: r => exp_commas x + go r end) ps
  | ESingle x _ => exp_commas x
  | EDefault l x _ | EAlt l x _ | EErr l x _ => exp_commas l + exp_commas x
  end.
Fixpoint text_bound (v : value) : Z :=
  match v with
  | VStr s => commas s
  | VSplice e => exp_commas e
  | VSub d a =>
    Z.max ((fix gd (l : list (string * (string * value))) : Z :=
              match l with [] => 0 | (_, (_, x)) :: r => Z.max (text_bound x) (gd r) end) d)
          (match a with
           | None => 0
           | Some l => (fix ga (l : list (string * value)) : Z :=
                          match l with [] => 0 | (_, x) :: r => Z.max (text_bound x) (ga r) end) l
           end)
  | _ => 0
  end.
Definition res_bound (rs : list (list (string * (string * pcfg)))) : Z :=
  fold_right (fun t acc => fold_right (fun e acc => Z.max (commas (fst (snd e))) acc) acc t) 0 rs.
Definition dyn_bound (o : eopts) (root : value) : Z :=
  let trees := root :: eo_envs o in
  Z.max (p_maxIdx (eo_p o) + 1)
        (Z.max (fold_right (fun t acc => Z.max (Z.max (max_list t) (text_bound t)) acc) 0 trees) (res_bound (eo_res o))).

Definition dyn_prop (c : CorrC02.case) : bool :=
  match c with
  | CRead _ _ _ _ OPanic | CHas _ _ _ _ OPanic => false
  | CUnpackDyn _ _ XPanic | CUnpackDyn _ _ XHang | CTyped _ _ _ XPanic | CTyped _ _ _ XHang => false
  | CFlat _ _ None => false
  | CUnpackDyn o root (XV t) => (otree_max_list t <=? dyn_bound o root)
  | _ => true
  end.

Definition model_agrees (c : case) : bool :=
  match c with
  | CDyn7 d => CorrC02.model_agrees d
  | CHist7 h => CorrC12.model_agrees h
  | CParse7 p => CorrC17.model_agrees p
  | CTotal _ _ _ => true
  end.

Definition skipped (c : case) : bool :=
  match c with
  | CParse7 p => CorrC17.skipped p
  | CDyn7 d => CorrC02.skipped d
  | _ => false
  end.

Definition prop_holds (c : case) : bool :=
  match c with
  | CHist7 (CHist o init p0 ss) =>
    forallb probe_no_panic p0 && forallb step_no_panic ss && growth_ok (p_maxIdx o) init ss
  | CParse7 (CParse _ _ RPanic) => false
  | CParse7 _ => true
  | CDyn7 d => dyn_prop d
  | CTotal _ _ n => (n <=? 1)%N
  end.

(* known-finding signatures, by entry point: the text before the first colon of [entry] *)
Definition entry_kind (e : string) : string :=
  match split e ":" with k :: _ => k | [] => e end.
Definition signature (c : case) : N :=
  match c with
  | CTotal e _ _ =>
    let k := entry_kind e in
    if String.eqb k "loader" then 71%N
    else if String.eqb k "varexp" then 72%N
    else if String.eqb k "flag" then 73%N
    else if String.eqb k "unpack" then 74%N
    else if String.eqb k "merge" then 75%N
    else if String.eqb k "newfrom" then 76%N
    else 0%N
  | _ => 0%N
  end.

Definition verdict (c : case) : N :=
  if skipped c then (if prop_holds c then 8%N else 2%N)     (* outside the model: the property is still evaluated *)
  else ((if model_agrees c then 0 else 1) + (if prop_holds c then 0 else 2))%N.

Fixpoint run_cases (i : N) (cs : list case) : list (N * N * N) :=
  match cs with
  | [] => []
  | c :: r =>
    let v := verdict c in
    if (v =? 0)%N then run_cases (i + 1)%N r
    else (i, v, signature c) :: run_cases (i + 1)%N r
  end.
