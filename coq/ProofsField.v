(* ProofsField.v — lemmas about ParseInt.v and Field.v (C20). *)
From Ucfg Require Import Base ParseInt Consts Field CorrC20.

Lemma digits_bound base s n r :
  (n <= maxU64)%N -> digits base s n = PVal r -> (r <= maxU64)%N.
Proof.
  revert n. induction s as [|a s IH]; intros n Hn H; cbn [digits] in H.
  - inversion H; subst; exact Hn.
  - destruct (Ascii.eqb a "_"%char); [eapply IH; eauto|].
    destruct (digit_val a) as [d|]; [|discriminate].
    destruct (base <=? d)%N; [discriminate|].
    destruct (maxU64 / base + 1 <=? n)%N; [discriminate|].
    destruct (maxU64 <? n * base + d)%N eqn:E; [discriminate|].
    apply N.ltb_ge in E. eapply IH; eauto.
Qed.

Lemma parse_uint0_bound s n : parse_uint0 s = PVal n -> (n <= maxU64)%N.
Proof.
  unfold parse_uint0. destruct s as [|a s]; [discriminate|].
  destruct (base_split (String a s)) as [base body].
  destruct (digits base body 0) eqn:E; try discriminate.
  destruct (has_underscore body && negb (underscore_ok (String a s))); [discriminate|].
  intros H; inversion H; subst. eapply digits_bound; [|exact E]. unfold maxU64; lia.
Qed.

Lemma parse_int0_range s z :
  parse_int0 s = Some z -> - 9223372036854775808 <= z <= 9223372036854775807.
Proof.
  unfold parse_int0. destruct s as [|a s]; [discriminate|].
  set (sb := if Ascii.eqb a "+" then (false, s) else if Ascii.eqb a "-" then (true, s) else (false, String a s)).
  destruct sb as [neg body].
  destruct (parse_uint0 body) as [un| |] eqn:E; try discriminate.
  pose proof (parse_uint0_bound _ _ E) as Hb. unfold maxU64 in Hb.
  destruct neg; cbn [negb andb].
  - destruct (two63 <? un)%N eqn:C; [discriminate|]. apply N.ltb_ge in C. unfold two63 in C.
    intros H; inversion H; subst. lia.
  - destruct (two63 <=? un)%N eqn:C; [discriminate|]. apply N.leb_gt in C. unfold two63 in C.
    intros H; inversion H; subst. lia.
Qed.

(* The decision rule of C20, both directions. *)
Lemma parse_field_idx_iff s m nk i :
  parse_field s m nk = FIdx i <-> nk = false /\ parse_int0 s = Some i /\ 0 <= i <= m.
Proof.
  unfold parse_field. split.
  - destruct nk; [discriminate|]. destruct (parse_int0 s) as [j|]; [|discriminate].
    destruct ((0 <=? j) && (j <=? m)) eqn:E; [|discriminate].
    intros H; inversion H; subst. apply andb_true_iff in E as [E1 E2].
    apply Z.leb_le in E1, E2. auto.
  - intros (-> & -> & H1 & H2).
    apply Z.leb_le in H1, H2. rewrite H1, H2. reflexivity.
Qed.

Lemma parse_field_name_iff s m nk :
  parse_field s m nk = FName s <->
  (nk = true \/ parse_int0 s = None \/ exists i, parse_int0 s = Some i /\ ~ (0 <= i <= m)).
Proof.
  unfold parse_field. split.
  - destruct nk; [auto|]. destruct (parse_int0 s) as [j|]; [|auto].
    destruct ((0 <=? j) && (j <=? m)) eqn:E; [discriminate|].
    intros _. right; right; exists j; split; [reflexivity|].
    intros [H1 H2]. apply Z.leb_le in H1, H2. rewrite H1, H2 in E. discriminate.
  - intros [->|[->|(i & -> & Hn)]]; [reflexivity|destruct nk; reflexivity|].
    destruct nk; [reflexivity|].
    destruct ((0 <=? i) && (i <=? m)) eqn:E; [|reflexivity].
    apply andb_true_iff in E as [E1 E2]. apply Z.leb_le in E1, E2. exfalso; apply Hn; auto.
Qed.

(* every segment is either an index or its own unchanged name *)
Lemma parse_field_cases s m nk :
  (exists i, parse_field s m nk = FIdx i) \/ parse_field s m nk = FName s.
Proof.
  unfold parse_field. destruct nk; [auto|]. destruct (parse_int0 s); [|auto].
  destruct ((0 <=? z) && (z <=? m)); eauto.
Qed.

Lemma name_roundtrip s m nk : parse_field s m nk = FName s -> field_str (parse_field s m nk) = s.
Proof. intros ->. reflexivity. Qed.

Lemma multi_segment_disables_numkeys s sep m nk e a b r :
  String.eqb sep "" || (e && escape_match s) = false ->
  split s sep = a :: b :: r ->
  parse_path s sep m nk e = map (fun x => parse_field x m false) (a :: b :: r).
Proof. intros H1 H2. unfold parse_path. rewrite H1, H2. reflexivity. Qed.

Lemma single_segment_keeps_numkeys s sep m nk e :
  String.eqb sep "" || (e && escape_match s) = true ->
  parse_path s sep m nk e = [parse_field s m nk].
Proof. intros H. unfold parse_path. rewrite H. reflexivity. Qed.

(* the checker's boolean form of the property is satisfied by the model on every input *)
Lemma seg_ok_model s m nk : seg_ok s m nk (parse_field s m nk) = true.
Proof.
  unfold parse_field. destruct nk.
  - unfold seg_ok. rewrite String.eqb_refl. reflexivity.
  - destruct (parse_int0 s) as [i|] eqn:E.
    + destruct ((0 <=? i) && (i <=? m)) eqn:B.
      * unfold seg_ok. rewrite E. apply andb_true_iff in B as [B1 B2]. rewrite B1, B2.
        unfold opt_eqb. rewrite Z.eqb_refl. reflexivity.
      * unfold seg_ok. rewrite String.eqb_refl, E, B. reflexivity.
    + unfold seg_ok. rewrite String.eqb_refl, E. reflexivity.
Qed.

Lemma segs_ok_model ss m nk : segs_ok ss m nk (map (fun x => parse_field x m nk) ss) = true.
Proof. induction ss as [|s ss IH]; cbn; [reflexivity|]. rewrite seg_ok_model, IH. reflexivity. Qed.

Lemma prop_holds_model input sep m nk e :
  prop_holds (CPath input sep m nk e (parse_path input sep m nk e)) = true.
Proof.
  unfold prop_holds, parse_path.
  destruct (String.eqb sep "" || (e && escape_match input)).
  - cbn. rewrite seg_ok_model. reflexivity.
  - apply segs_ok_model.
Qed.

(* an index produced by path parsing is always within [0, maxIdx] *)
Lemma parse_path_idx_bound input sep m nk e i :
  In (FIdx i) (parse_path input sep m nk e) -> 0 <= i <= m.
Proof.
  unfold parse_path.
  destruct (String.eqb sep "" || (e && escape_match input)).
  - intros [H|[]]. apply parse_field_idx_iff in H. tauto.
  - intros H. apply in_map_iff in H as (x & H & _). apply parse_field_idx_iff in H. tauto.
Qed.
