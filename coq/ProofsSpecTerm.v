(* ProofsSpecTerm.v — C08: the specification evaluator terminates on the reference fragment.  For
   the tree that is read and every Env config made of plain references (no splices) and no
   resolvers, a String read by SpecEval.v is decided once the fuel exceeds the number of
   references of all the trees: the stack holds distinct names of references, so its height is
   bounded, and every recursive call of the evaluator pushes one. *)
From Ucfg Require Import Base ParseInt Consts Field Tree PathOps Merge OTree F64 ParseValue VarParse Normalize Flags VarEval SpecEval ProofsVarEval ProofsTerm.
From Coq Require Import Lia.
Local Open Scope nat_scope.

Section SpecTerm.
  Variable o : eopts.
  Hypothesis Hres : eo_res o = [].
  Variable own : value.
  Variable S0 : list string.

  Definition alls : list value := own :: eo_envs o.
  Definition goods (v : value) : Prop := exists rt, In rt alls /\ sub v rt.
  Hypothesis Href : forall p sep, goods (VRef p sep) -> In (path_str p sep) S0.
  Hypothesis Hspl : forall e, ~ goods (VSplice e).
  Hypothesis Hflt : forall f, goods (VFloat f) -> ftext_lookup (eo_ftext o) f <> None.

  Definition lgoods (v : loc) : Prop := In (l_root v) alls /\ sub (l_val v) (l_root v).

  (* the names not on the stack *)
  Definition frees_in (st : stack) (l : list string) : nat := List.length (filter (fun n => negb (on_stack n st)) l).
  Definition frees (st : stack) : nat := frees_in st S0.

  Lemma frees_in_le n st l : frees_in (n :: st) l <= frees_in st l.
  Proof.
    unfold frees_in. induction l as [|y r IH]; [apply Nat.le_refl|]. cbn [filter].
    change (on_stack y (n :: st)) with (String.eqb y n || on_stack y st).
    destruct (String.eqb y n); cbn [orb negb]; destruct (negb (on_stack y st)); cbn [List.length]; lia.
  Qed.

  Lemma frees_in_push n st l : In n l -> on_stack n st = false -> frees_in (n :: st) l < frees_in st l.
  Proof.
    intros I H. unfold frees_in. induction l as [|x r IH]; [contradiction|]. cbn [filter].
    change (on_stack x (n :: st)) with (String.eqb x n || on_stack x st).
    pose proof (frees_in_le n st r) as LE. unfold frees_in in LE.
    destruct I as [I|I].
    - subst x. rewrite String.eqb_refl, H. cbn [orb negb List.length]. lia.
    - specialize (IH I). destruct (String.eqb x n); cbn [orb negb];
        destruct (negb (on_stack x st)); cbn [List.length]; lia.
  Qed.

  Lemma frees_push n st : In n S0 -> on_stack n st = false -> frees (n :: st) < frees st.
  Proof. apply frees_in_push. Qed.

  Lemma frees_in_bound st l : frees_in st l <= List.length l.
  Proof.
    unfold frees_in. induction l as [|x r IH]; [apply Nat.le_refl|]. cbn [filter].
    destruct (negb (on_stack x st)); cbn [List.length]; lia.
  Qed.

  Lemma frees_bound st : frees st <= List.length S0.
  Proof. apply frees_in_bound. Qed.

  Lemma no_resolver_s n : resolve_env o n = None.
  Proof. unfold resolve_env. rewrite Hres. reflexivity. Qed.

  Definition plain_loc (v : loc) : Prop := is_dyn (l_val v) = false.

  Lemma taint_post {A} (P : A -> Prop) m (r : SR A) :
    match r with Ok (v, _) => P v | OutOfModel => False | _ => True end ->
    match taint m r with Ok (v, _) => P v | OutOfModel => False | _ => True end.
  Proof.
    destruct r as [[x m']|e p| |]; cbn [taint]; auto. destruct (m && negb (err_marked p)); auto.
  Qed.
  Lemma taint_decided {A} m (r : SR A) : r <> OutOfModel -> taint m r <> OutOfModel.
  Proof.
    destruct r as [[x m']|e p| |]; cbn [taint]; auto; try discriminate. destruct (m && negb (err_marked p)); discriminate.
  Qed.

  Definition dvs_ok (K : nat) (dv : value -> stack -> string -> value -> SR loc) : Prop :=
    forall rt st dp d, In rt alls -> sub d rt -> frees st < K ->
      match dv rt st dp d with
      | Ok (v, _) => lgoods v /\ plain_loc v
      | OutOfModel => False
      | _ => True
      end.

  Section Step.
    Variable dv : value -> stack -> string -> value -> SR loc.
    Variable K : nat.
    Hypothesis Hdv : dvs_ok K dv.

    Lemma force1_ok st v : lgoods v -> frees st < K ->
      match force1 dv st v with
      | Ok (w, _) => lgoods w /\ plain_loc w
      | OutOfModel => False
      | _ => True
      end.
    Proof.
      intros [Hr Hg] Hk. unfold force1.
      destruct (l_val v) eqn:Ev; try (split; [split; [exact Hr|rewrite Ev; exact Hg]|unfold plain_loc; rewrite Ev; reflexivity]).
      - rewrite <- Ev. rewrite Ev. apply (Hdv (l_root v) st (l_path v) (VRef p sep) Hr Hg Hk).
      - exfalso. apply (Hspl e). exists (l_root v). split; assumption.
    Qed.

    Definition reads_post (x : SR (res (option loc))) : Prop :=
      match x with
      | Ok (r, _) => r <> OutOfModel /\ (forall l, r = Ok (Some l) -> lgoods l)
      | OutOfModel => False
      | _ => True
      end.

    Lemma field_of_cfg_ok fl (cl : loc) (m : bool) :
      is_sub (l_val cl) = true -> In (l_root cl) alls ->
      (l_val cl = empty_cfg \/ sub (l_val cl) (l_root cl)) ->
      reads_post (match get_field fl (l_path cl) (l_val cl) with
                  | Ok (Some (pp, v)) => Ok (Ok (Some {| l_root := l_root cl; l_path := pp; l_val := v |}), m)
                  | Ok None => Ok (Ok None, m)
                  | Err e p => Ok (Err e p, m)
                  | Panic => Panic
                  | OutOfModel => OutOfModel
                  end).
    Proof.
      intros Hs Hin Hc.
      destruct (get_field_decided fl (l_path cl) (l_val cl) Hs) as [NO NP].
      pose proof (get_field_child fl (l_path cl) (l_val cl)) as CH.
      destruct (get_field fl (l_path cl) (l_val cl)) as [[[pp x]|]|e pe| |]; try contradiction; cbn [reads_post].
      - split; [discriminate|]. intros l X. injection X as X. subst l.
        split; [exact Hin|]. cbn [l_val l_root].
        specialize (CH pp x Hs eq_refl). destruct Hc as [Hc|Hc].
        + rewrite Hc in CH. inversion CH; subst; contradiction.
        + exact (sub_step _ _ _ CH Hc).
      - split; [discriminate|]. intros l X. discriminate X.
      - split; [discriminate|]. intros l X. discriminate X.
    Qed.

    Lemma get_field_s_ok fl st elem : lgoods elem -> frees st < K -> reads_post (get_field_s dv fl st elem).
    Proof.
      intros G Hk. unfold get_field_s, to_cfg_s.
      pose proof (force1_ok st elem G Hk) as F.
      assert (forall m, reads_post (match fl with
                                    | FIdx 0 => Ok (Ok (Some elem), m)
                                    | _ => Ok (Err EExpectedObject "", m)
                                    end)) as NC.
      { intro m. destruct fl as [nm|i]; [|destruct i as [|i|i]]; cbn [reads_post];
          (split; [discriminate|]; intros l X; try discriminate X). injection X as X. subst l. exact G. }
      destruct (force1 dv st elem) as [[w m]|e pe| |]; cbn [bind]; [|apply NC|exact I|contradiction].
      destruct F as [[Wr Wg] Wp].
      destruct (l_val w) as [ | | | | | |p sep|e|d0 a0] eqn:Ew; cbn [bind]; try apply NC.
      - apply (field_of_cfg_ok fl {| l_root := l_root w; l_path := l_path w; l_val := empty_cfg |} m);
          [reflexivity|exact Wr|left; reflexivity].
      - apply (field_of_cfg_ok fl w m); [rewrite Ew; reflexivity|exact Wr|right; rewrite Ew; exact Wg].
    Qed.

    Lemma get_path_s_ok : forall fs st cur, lgoods cur -> frees st < K -> reads_post (get_path_s dv fs st cur).
    Proof.
      induction fs as [|fl rest IH]; intros st cur G Hk.
      - cbn [get_path_s reads_post]. split; [discriminate|]. intros l X. injection X as X. subst l. exact G.
      - pose proof (get_field_s_ok fl st cur G Hk) as F.
        destruct rest as [|f2 rest'].
        + cbn [get_path_s]. destruct (get_field_s dv fl st cur) as [[r m]|e pe| |]; cbn [bind]; try exact F.
          cbn [reads_post fst snd] in *. destruct F as [NO GL].
          destruct r as [ol|e pe| |]; cbn [reads_post]; try (split; [assumption|exact GL]).
          split; [discriminate|]. intros l X. discriminate X.
        + change (get_path_s dv (fl :: f2 :: rest') st cur)
            with (x <- get_field_s dv fl st cur ;;
                  match fst x with
                  | Ok (Some nxt) => y <- get_path_s dv (f2 :: rest') st nxt ;; Ok (fst y, snd x || snd y)
                  | Ok None => Ok (Err EMissing "", snd x)
                  | r => Ok (r, snd x)
                  end).
          destruct (get_field_s dv fl st cur) as [[r m]|e pe| |]; cbn [bind]; try exact F.
          cbn [reads_post fst snd] in *. destruct F as [NO GL].
          destruct r as [[nxt|]|e pe| |]; cbn [reads_post]; try (split; [discriminate|]; intros l X; discriminate X); [|contradiction].
          specialize (IH st nxt (GL nxt eq_refl) Hk).
          destruct (get_path_s dv (f2 :: rest') st nxt) as [[r2 m2]|e2 pe2| |]; cbn [bind]; exact IH.
    Qed.

    Definition found_post_s (x : rres * bool) : Prop :=
      (forall r0, fst x = RStop r0 -> r0 = Panic) /\ (fst x <> RCyclic) /\ (forall v, fst x = RFound v -> lgoods v).

    Lemma try_roots_s_ok p : forall roots st last m,
      (forall rt, In rt roots -> In rt alls) -> last_ok last -> frees st < K ->
      found_post_s (try_roots_s dv p roots st last m).
    Proof.
      induction roots as [|rt more IH]; intros st last m Hin Hl Hk.
      - cbn [try_roots_s]. unfold found_post_s. cbn [fst].
        destruct last; try contradiction; (split; [intros r0 X; discriminate X|]; split; [discriminate|]; intros v X; discriminate X).
      - cbn [try_roots_s].
        assert (lgoods {| l_root := rt; l_path := ""; l_val := rt |}) as GR
            by (split; [apply Hin; left; reflexivity|apply sub_refl]).
        pose proof (get_path_s_ok p st _ GR Hk) as P.
        assert (forall x, In x more -> In x alls) as Hin' by (intros x Hx; apply Hin; right; exact Hx).
        destruct (get_path_s dv p st {| l_root := rt; l_path := ""; l_val := rt |}) as [[r m1]|e pe| |];
          [| |unfold found_post_s; cbn [fst]; split; [intros r0 X; injection X as X; subst r0; reflexivity|]; split; [discriminate|]; intros v X; discriminate X|contradiction].
        + cbn [reads_post] in P. destruct P as [NO GL].
          destruct r as [[v|]|e pe| |].
          * unfold found_post_s. cbn [fst]. split; [intros r0 X; discriminate X|]. split; [discriminate|].
            intros v0 X. injection X as X. subst v0. exact (GL v eq_refl).
          * apply IH; [exact Hin'|exact I|exact Hk].
          * destruct e; apply IH; try exact Hin'; try exact I; exact Hk.
          * unfold found_post_s. cbn [fst]. split; [intros r0 X; injection X as X; subst r0; reflexivity|]. split; [discriminate|]. intros v X; discriminate X.
          * contradiction.
        + unfold found_post_s. cbn [fst]. split; [intros r0 X; discriminate X|]. split; [discriminate|]. intros v X; discriminate X.
    Qed.

    Lemma dyn_step_s_ok : dvs_ok (S K) (dyn_step_s o dv).
    Proof.
      intros rt st dp d Hrt G Hk.
      destruct d as [ | | | | | |p sep|e|d0 a0];
        try (cbn [dyn_step_s]; split; [split; [exact Hrt|exact G]|reflexivity]).
      - assert (In (path_str p sep) S0) as IN by (apply Href; exists rt; split; assumption).
        unfold dyn_step_s, resolve_ref_s.
        destruct (on_stack (path_str p sep) st) eqn:EA.
        + rewrite no_resolver_s. apply (taint_post (fun v => lgoods v /\ plain_loc v)). exact I.
        + pose proof (frees_push _ _ IN EA) as MA.
          assert (forall x, In x (rt :: rev (eo_envs o)) -> In x alls) as Hin.
          { intros x [E|X]; [subst x; exact Hrt|right; apply in_rev; exact X]. }
          pose proof (try_roots_s_ok p (rt :: rev (eo_envs o)) (path_str p sep :: st) RNone false Hin I ltac:(lia)) as T.
          destruct (try_roots_s dv p (rt :: rev (eo_envs o)) (path_str p sep :: st) RNone false) as [r m].
          destruct T as [NO [NC GL]]. cbn [fst] in *.
          destruct r as [v| | | |e pe|r0].
          * pose proof (force1_ok (path_str p sep :: st) v (GL v eq_refl) ltac:(lia)) as F.
            apply (taint_post (fun v => lgoods v /\ plain_loc v)). exact F.
          * rewrite no_resolver_s. apply (taint_post (fun v => lgoods v /\ plain_loc v)). exact I.
          * rewrite no_resolver_s. apply (taint_post (fun v => lgoods v /\ plain_loc v)). exact I.
          * exfalso. apply NC. reflexivity.
          * rewrite no_resolver_s. apply (taint_post (fun v => lgoods v /\ plain_loc v)). exact I.
          * rewrite (NO r0 eq_refl). exact I.
      - exfalso. apply (Hspl e). exists rt. split; assumption.
    Qed.
  End Step.

  Lemma dyn_s_ok : forall f, dvs_ok f (dyn_s o f).
  Proof.
    induction f as [|f IH].
    - intros rt st dp d _ _ H. lia.
    - change (dyn_s o (S f)) with (dyn_step_s o (dyn_s o f)). apply dyn_step_s_ok. exact IH.
  Qed.

  Theorem spec_string_decided fuel name idx : List.length S0 < fuel ->
    spec_string o fuel own name idx <> OutOfModel.
  Proof.
    intro HF. unfold spec_string.
    assert (lgoods {| l_root := own; l_path := ""; l_val := own |}) as GR by (split; [left; reflexivity|apply sub_refl]).
    pose proof (frees_bound []) as MB.
    pose proof (get_path_s_ok (dyn_s o fuel) fuel (dyn_s_ok fuel) (opts_path_idx (eo_p o) name idx) [] _ GR ltac:(lia)) as P.
    destruct (get_path_s (dyn_s o fuel) (opts_path_idx (eo_p o) name idx) [] {| l_root := own; l_path := ""; l_val := own |})
      as [[r m]|e pe| |]; cbn [bind]; try discriminate; [|contradiction].
    cbn [reads_post fst snd] in *. destruct P as [NO GL].
    destruct r as [[v|]|e pe| |]; try discriminate; try (apply taint_decided; discriminate); [|contradiction].
    apply taint_decided. unfold to_string_s.
    pose proof (force1_ok (dyn_s o fuel) fuel (dyn_s_ok fuel) [] v (GL v eq_refl) ltac:(lia)) as F.
    destruct (force1 (dyn_s o fuel) [] v) as [[w mw]|e pe| |]; cbn [bind fst snd]; try discriminate; [|contradiction].
    destruct F as [[Wr Wg] Wp]. apply taint_decided.
    destruct (l_val w) as [ | |z|z|f|s|p sep|e|d0 a0] eqn:Ew; cbn [simple_string bind]; try discriminate.
    - destruct b; cbn [bind]; discriminate.
    - assert (ftext_lookup (eo_ftext o) f <> None) as Fl by (apply Hflt; exists (l_root w); split; assumption).
      destruct (ftext_lookup (eo_ftext o) f); [cbn [bind]; discriminate|contradiction].
  Qed.
End SpecTerm.

Theorem spec_plain_references_terminate o own S0 fuel name idx :
  eo_res o = [] -> forallb (refs_only (eo_ftext o) S0) (own :: eo_envs o) = true ->
  List.length S0 < fuel -> spec_string o fuel own name idx <> OutOfModel.
Proof.
  intros Hr Hk HF.
  assert (forall v, goods o own v -> refs_only (eo_ftext o) S0 v = true) as K.
  { intros v [rt [I S]]. apply (refs_only_sub _ _ _ _ S). rewrite forallb_forall in Hk. apply Hk. exact I. }
  apply (spec_string_decided o Hr own S0); [| | |exact HF].
  - intros p sep G. pose proof (K _ G) as X. cbn [refs_only] in X.
    apply existsb_exists in X. destruct X as [n [I E]]. apply String.eqb_eq in E. subst n. exact I.
  - intros e G. pose proof (K _ G) as X. discriminate X.
  - intros f G. pose proof (K _ G) as X. cbn [refs_only] in X.
    destruct (ftext_lookup (eo_ftext o) f); [discriminate|discriminate X].
Qed.
