(* AGraph.v — identities of the objects of a config graph (C10, C11).
   A config is a tree of objects: every sub-config is a *Config header (id) pointing to a
   *fields store (fid), every primitive an object of its own; each records its parent.  The
   skeleton [ids] runs parallel to the [value] holding the contents.  Modelled: value.cpy /
   cfgSub.cpy (a deep copy: fresh objects throughout) and the identity discipline of
   mergeConfig: the destination's root objects are kept, every entry the source touches is
   replaced by a fresh deep copy of the merged value, every other entry is kept as it is. *)
From Ucfg Require Import Base ParseInt Consts Field Tree PathOps Merge.

Inductive ids :=
| ILeaf (id parent : N)
| INode (id fid parent : N) (d : list (string * ids)) (a : list ids).

Definition id_of (t : ids) : N := match t with ILeaf i _ | INode i _ _ _ _ => i end.
Definition parent_of (t : ids) : N := match t with ILeaf _ p | INode _ _ p _ _ => p end.

Fixpoint addrs (t : ids) : list N :=
  match t with
  | ILeaf i _ => [i]
  | INode i f _ d a =>
    i :: f :: (fix gd (l : list (string * ids)) : list N :=
                 match l with [] => [] | (_, x) :: r => addrs x ++ gd r end) d
         ++ (fix ga (l : list ids) : list N :=
               match l with [] => [] | x :: r => addrs x ++ ga r end) a
  end.

Definition addrs_d (l : list (string * ids)) : list N :=
  (fix gd (l : list (string * ids)) : list N :=
     match l with [] => [] | (_, x) :: r => addrs x ++ gd r end) l.
Definition addrs_a (l : list ids) : list N :=
  (fix ga (l : list ids) : list N := match l with [] => [] | x :: r => addrs x ++ ga r end) l.

(* every object records the enclosing config as its parent *)
Fixpoint parented (p : N) (t : ids) : bool :=
  match t with
  | ILeaf _ q => N.eqb p q
  | INode i _ q d a =>
    N.eqb p q &&
    (fix gd (l : list (string * ids)) : bool :=
       match l with [] => true | (_, x) :: r => parented i x && gd r end) d &&
    (fix ga (l : list ids) : bool :=
       match l with [] => true | x :: r => parented i x && ga r end) a
  end.

Fixpoint ids_eqb (x y : ids) {struct x} : bool :=
  match x, y with
  | ILeaf i p, ILeaf j q => N.eqb i j && N.eqb p q
  | INode i f p d a, INode j g q d2 a2 =>
    N.eqb i j && N.eqb f g && N.eqb p q &&
    (fix gd (l1 l2 : list (string * ids)) : bool :=
       match l1, l2 with
       | [], [] => true
       | (k, x) :: r1, (k2, y) :: r2 => String.eqb k k2 && ids_eqb x y && gd r1 r2
       | _, _ => false
       end) d d2 &&
    (fix ga (l1 l2 : list ids) : bool :=
       match l1, l2 with
       | [], [] => true
       | x :: r1, y :: r2 => ids_eqb x y && ga r1 r2
       | _, _ => false
       end) a a2
  | _, _ => false
  end.

(** * value.cpy: a deep copy; the new objects are numbered n, n+1, ... *)
Fixpoint label (n p : N) (v : value) {struct v} : N * ids :=
  match v with
  | VSub d a =>
    let id := n in
    let '(n1, ds) :=
        (fix gd (n : N) (l : list (string * (string * value))) : N * list (string * ids) :=
           match l with
           | [] => (n, [])
           | (k, (_, x)) :: r =>
             let '(n', t) := label n id x in
             let '(n'', ts) := gd n' r in (n'', (k, t) :: ts)
           end) (n + 2)%N d in
    let '(n2, ar) :=
        match a with
        | None => (n1, [])
        | Some l =>
          (fix ga (n : N) (l : list (string * value)) : N * list ids :=
             match l with
             | [] => (n, [])
             | (_, x) :: r =>
               let '(n', t) := label n id x in
               let '(n'', ts) := ga n' r in (n'', t :: ts)
             end) n1 l
        end in
    (n2, INode id (n + 1)%N p ds ar)
  | _ => ((n + 1)%N, ILeaf n p)
  end.

Definition label_dict (id : N) :=
  fix gd (n : N) (l : list (string * (string * value))) : N * list (string * ids) :=
    match l with
    | [] => (n, [])
    | (k, (_, x)) :: r =>
      let '(n', t) := label n id x in
      let '(n'', ts) := gd n' r in (n'', (k, t) :: ts)
    end.
Definition label_arr (id : N) :=
  fix ga (n : N) (l : list (string * value)) : N * list ids :=
    match l with
    | [] => (n, [])
    | (_, x) :: r =>
      let '(n', t) := label n id x in
      let '(n'', ts) := ga n' r in (n'', t :: ts)
    end.

(** * mergeConfig on identities.
    [dst] is the destination's skeleton, [merged] the merged contents (Merge.merge_root),
    [skeys] the names the source's dictionary holds, [nsrc] the length of the source's list
    (None: the source has no list part or an empty one), [nold] the old list length. *)
Fixpoint lookup_ids (k : string) (d : list (string * ids)) : option ids :=
  match d with
  | [] => None
  | (k2, x) :: r => if String.eqb k k2 then Some x else lookup_ids k r
  end.

Fixpoint merge_dict_ids (n id : N) (skeys : list string) (replace : bool) (old : list (string * ids))
         (dm : list (string * (string * value))) : N * list (string * ids) :=
  match dm with
  | [] => (n, [])
  | (k, (_, x)) :: r =>
    let keep := if replace then None
                else if existsb (String.eqb k) skeys then None else lookup_ids k old in
    match keep with
    | Some t => let '(n', ts) := merge_dict_ids n id skeys replace old r in (n', (k, t) :: ts)
    | None =>
      let '(n1, t) := label n id x in
      let '(n2, ts) := merge_dict_ids n1 id skeys replace old r in (n2, (k, t) :: ts)
    end
  end.

(* which entries of the merged list are the old objects: position i is kept iff [keep i] *)
Fixpoint merge_arr_ids (n id : N) (keep : nat -> bool) (i : nat) (old : list ids)
         (am : list (string * value)) : N * list ids :=
  match am with
  | [] => (n, [])
  | (_, x) :: r =>
    match (if keep i then nth_error old i else None) with
    | Some t => let '(n', ts) := merge_arr_ids n id keep (S i) old r in (n', t :: ts)
    | None =>
      let '(n1, t) := label n id x in
      let '(n2, ts) := merge_arr_ids n1 id keep (S i) old r in (n2, t :: ts)
    end
  end.

Definition arr_keep (h : N) (nold : nat) (nsrc : option nat) (i : nat) : bool :=
  match nsrc with
  | None => true                                              (* the list is not touched *)
  | Some ns =>
    if ((h =? hReplace) || (h =? hArrReplace) || (h =? hPrepend))%N then false
    else if (h =? hAppend)%N then Nat.ltb i nold
    else Nat.leb ns i && Nat.ltb i nold                       (* index-wise merge: the old tail stays *)
  end.

Definition merge_ids (n : N) (h : N) (dst : ids) (merged : value) (skeys : list string) (nsrc : option nat)
  : N * ids :=
  match dst, merged with
  | INode id fid p d a, VSub dm am =>
    let replace := (h =? hReplace)%N && negb (Nat.eqb (List.length skeys) 0) in
    let '(n1, d') := merge_dict_ids n id skeys replace d dm in
    let '(n2, a') := merge_arr_ids n1 id (arr_keep h (List.length a) nsrc) O a (arr_of am) in
    (n2, INode id fid p d' a')
  | _, _ => (n, dst)
  end.

(** * comparison of a predicted skeleton with an observed one: objects the prediction numbers
    below [n] are old and must be the very same objects; objects numbered from [n] on are new
    and must be none of the [old] objects *)
Fixpoint iso_fresh (n : N) (old : list N) (pred obs : ids) {struct pred} : bool :=
  let same (i j : N) := if (i <? n)%N then N.eqb i j else negb (existsb (N.eqb j) old) in
  match pred, obs with
  | ILeaf i _, ILeaf j _ => same i j
  | INode i f _ d a, INode j g _ d2 a2 =>
    same i j && same f g &&
    (fix gd (l1 l2 : list (string * ids)) : bool :=
       match l1, l2 with
       | [], [] => true
       | (k, x) :: r1, (k2, y) :: r2 => String.eqb k k2 && iso_fresh n old x y && gd r1 r2
       | _, _ => false
       end) d d2 &&
    (fix ga (l1 l2 : list ids) : bool :=
       match l1, l2 with
       | [], [] => true
       | x :: r1, y :: r2 => iso_fresh n old x y && ga r1 r2
       | _, _ => false
       end) a a2
  | _, _ => false
  end.

Fixpoint nodup_n (l : list N) : bool :=
  match l with
  | [] => true
  | x :: r => negb (existsb (N.eqb x) r) && nodup_n r
  end.

Definition disjoint_n (l1 l2 : list N) : bool := forallb (fun x => negb (existsb (N.eqb x) l2)) l1.

Definition max_addr (l : list N) : N := fold_right N.max 0%N l.
