(* ParseValue.v — Gallina model of parse/parse.go (parse.Value / ValueWithConfig) on byte
   strings, with strconv.Unquote for double-quoted strings. *)
From Ucfg Require Import Base ParseInt Consts Field Tree F64.

Inductive pv :=
| PNil | PBool (b : bool) | PInt (z : Z) | PUint (z : Z) | PFloat (bits : Z) | PStr (s : string)
| PArr (l : list pv) | PObj (m : list (string * pv)).

Fixpoint pv_eqb (x y : pv) {struct x} : bool :=
  match x, y with
  | PNil, PNil => true
  | PBool a, PBool b => Bool.eqb a b
  | PInt a, PInt b => Z.eqb a b
  | PUint a, PUint b => Z.eqb a b
  | PFloat a, PFloat b => Z.eqb a b
  | PStr a, PStr b => String.eqb a b
  | PArr l1, PArr l2 =>
    (fix go (l1 l2 : list pv) : bool :=
       match l1, l2 with
       | [], [] => true
       | a :: r1, b :: r2 => pv_eqb a b && go r1 r2
       | _, _ => false
       end) l1 l2
  | PObj m1, PObj m2 =>
    (fix go (l1 l2 : list (string * pv)) : bool :=
       match l1, l2 with
       | [], [] => true
       | (k, a) :: r1, (k2, b) :: r2 => String.eqb k k2 && pv_eqb a b && go r1 r2
       | _, _ => false
       end) m1 m2
  | _, _ => false
  end.

(* error kinds (the implementation returns plain errors; the harness maps the message) *)
Inductive perr :=
| PEArrClose | PEArrSep | PEDictSep | PEKey | PEDQuote | PESQuote
| PEUnexpected | PEExpectComma | PEExpectColon | PEUnquote | PECfg.

Definition perr_eqb (a b : perr) : bool :=
  match a, b with
  | PEArrClose, PEArrClose | PEArrSep, PEArrSep | PEDictSep, PEDictSep | PEKey, PEKey
  | PEDQuote, PEDQuote | PESQuote, PESQuote | PEUnexpected, PEUnexpected
  | PEExpectComma, PEExpectComma | PEExpectColon, PEExpectColon | PEUnquote, PEUnquote
  | PECfg, PECfg => true
  | _, _ => false
  end.

Inductive pres (A : Type) := POk (a : A) | PErr (e : perr) | PPanic | PUnknown.
Arguments POk {A} a. Arguments PErr {A} e. Arguments PPanic {A}. Arguments PUnknown {A}.

Definition pbind {A B} (x : pres A) (f : A -> pres B) : pres B :=
  match x with POk a => f a | PErr e => PErr e | PPanic => PPanic | PUnknown => PUnknown end.
Notation "x <~ e ;; k" := (pbind e (fun x => k)) (at level 61, e at next level, right associativity).

Record pcfg := { c_array : bool; c_object : bool; c_dq : bool; c_sq : bool; c_nocomma : bool }.
Definition pcfg_of (f : bool * bool * bool * bool * bool) : pcfg :=
  let '(a, o, d, s, i) := f in {| c_array := a; c_object := o; c_dq := d; c_sq := s; c_nocomma := i |}.
Definition DefaultConfig := pcfg_of DefaultConfig_flags.
Definition EnvConfig := pcfg_of EnvConfig_flags.
Definition NoopConfig := pcfg_of NoopConfig_flags.

(** * strconv.Unquote on a double-quoted literal (quotes included) *)
Definition in_range (c lo hi : N) : bool := ((lo <=? c) && (c <=? hi))%N.
Definition cont (c : N) : bool := in_range c 128 191.

(* size of the valid UTF-8 sequence at the head of [s] (0 if invalid); s starts with a byte >= 0x80 *)
Definition utf8_size (s : string) : nat :=
  match s with
  | String a r =>
    let c := byte_of a in
    let b n := match nth_opt (list_ascii_of_string r) n with Some x => byte_of x | None => 0%N end in
    if in_range c 194 223 then (if cont (b 0%nat) then 2 else 0)%nat
    else if (c =? 224)%N then (if in_range (b 0%nat) 160 191 && cont (b 1%nat) then 3 else 0)%nat
    else if in_range c 225 236 || in_range c 238 239
         then (if cont (b 0%nat) && cont (b 1%nat) then 3 else 0)%nat
    else if (c =? 237)%N then (if in_range (b 0%nat) 128 159 && cont (b 1%nat) then 3 else 0)%nat
    else if (c =? 240)%N
         then (if in_range (b 0%nat) 144 191 && cont (b 1%nat) && cont (b 2%nat) then 4 else 0)%nat
    else if in_range c 241 243
         then (if cont (b 0%nat) && cont (b 1%nat) && cont (b 2%nat) then 4 else 0)%nat
    else if (c =? 244)%N
         then (if in_range (b 0%nat) 128 143 && cont (b 1%nat) && cont (b 2%nat) then 4 else 0)%nat
    else 0%nat
  | EmptyString => 0%nat
  end.

Definition rune_error : string := bs [239; 191; 189]%N.

(* utf8.AppendRune for a valid rune *)
Definition utf8_encode (v : N) : string :=
  if (v <? 128)%N then bs [v]
  else if (v <? 2048)%N then bs [192 + v / 64; 128 + v mod 64]%N
  else if (v <? 65536)%N then bs [224 + v / 4096; 128 + (v / 64) mod 64; 128 + v mod 64]%N
  else bs [240 + v / 262144; 128 + (v / 4096) mod 64; 128 + (v / 64) mod 64; 128 + v mod 64]%N.

Definition valid_rune (v : N) : bool :=
  ((v <? 55296) || ((57343 <? v) && (v <=? 1114111)))%N.

Definition unhex (a : ascii) : option N :=
  let c := byte_of a in
  if in_range c 48 57 then Some (c - 48)%N
  else if in_range c 97 102 then Some (c - 97 + 10)%N
  else if in_range c 65 70 then Some (c - 65 + 10)%N
  else None.

Fixpoint hex_n (n : nat) (s : string) (acc : N) : option (N * string) :=
  match n with
  | O => Some (acc, s)
  | S k => match s with
           | String a r => match unhex a with
                           | Some x => hex_n k r (acc * 16 + x)%N
                           | None => None end
           | EmptyString => None
           end
  end.

(* body after the opening quote; returns the decoded text and the rest after the closing quote *)
(* [json]: with the two JSON escapes that Go string literals lack (parse.go rewrites them
   before strconv.Unquote); without them this is strconv.Unquote itself *)
Fixpoint unquote_body (json : bool) (fuel : nat) (s : string) (acc : string) : option (string * string) :=
  match fuel with
  | O => None
  | S f =>
    match s with
    | EmptyString => None                                  (* no terminating quote *)
    | String a r =>
      let c := byte_of a in
      if (c =? 34)%N then Some (srev acc, r)
      else if (c =? 10)%N then None
      else if (128 <=? c)%N then
        match utf8_size s with
        | O => unquote_body json f r (rev_app rune_error acc)
        | n => unquote_body json f (sdrop n s) (rev_app (stake n s) acc)
        end
      else if negb (c =? 92)%N then unquote_body json f r (String a acc)
      else
        match r with
        | EmptyString => None
        | String e r2 =>
          let ec := byte_of e in
          let simple (v : N) := unquote_body json f r2 (String (ch v) acc) in
          if (ec =? 97)%N then simple 7%N
          else if (ec =? 98)%N then simple 8%N
          else if (ec =? 102)%N then simple 12%N
          else if (ec =? 110)%N then simple 10%N
          else if (ec =? 114)%N then simple 13%N
          else if (ec =? 116)%N then simple 9%N
          else if (ec =? 118)%N then simple 11%N
          else if (ec =? 92)%N then simple 92%N
          else if (ec =? 34)%N then simple 34%N
          else if (ec =? 120)%N then
            match hex_n 2 r2 0%N with
            | Some (v, r3) => unquote_body json f r3 (String (ch v) acc)
            | None => None end
          else if json && (ec =? 47)%N then simple 47%N          (* the JSON escape of a slash (parse.go rewrites it) *)
          else if (ec =? 117)%N || (ec =? 85)%N then
            match hex_n (if (ec =? 117)%N then 4 else 8) r2 0%N with
            | Some (v, r3) =>
              if valid_rune v then unquote_body json f r3 (rev_app (utf8_encode v) acc)
              else if json && (ec =? 117)%N && in_range v 55296 56319 then
                (* a JSON surrogate pair: \uD83D\uDE00 is one code point (parse.go rewrites it) *)
                match r3 with
                | String b1 (String b2 r4) =>
                  if ((byte_of b1 =? 92) && (byte_of b2 =? 117))%N then
                    match hex_n 4 r4 0%N with
                    | Some (lo, r5) =>
                      if in_range lo 56320 57343
                      then unquote_body json f r5 (rev_app (utf8_encode (65536 + (v - 55296) * 1024 + (lo - 56320))%N) acc)
                      else None
                    | None => None
                    end
                  else None
                | _ => None
                end
              else None
            | None => None end
          else if in_range ec 48 55 then
            match r2 with
            | String d1 (String d2 r3) =>
              let x1 := byte_of d1 in let x2 := byte_of d2 in
              if in_range x1 48 55 && in_range x2 48 55 then
                let v := ((ec - 48) * 64 + (x1 - 48) * 8 + (x2 - 48))%N in
                if (255 <? v)%N then None else unquote_body json f r3 (String (ch v) acc)
              else None
            | _ => None
            end
          else None
        end
    end
  end.

Definition unquote_gen (json : bool) (s : string) : option string :=
  match s with
  | String q body =>
    if Ascii.eqb q """"%char then
      match unquote_body json (S (String.length body)) body EmptyString with
      | Some (out, EmptyString) => Some out
      | _ => None
      end
    else None
  | EmptyString => None
  end.
Definition unquote_dq : string -> option string := unquote_gen true.     (* parse.go *)
Definition unquote_go : string -> option string := unquote_gen false.    (* strconv.Unquote *)

(** * the parser *)
Definition bool_word (s : string) : option bool :=
  if existsb (String.eqb s) bool_true_words then Some true
  else if existsb (String.eqb s) bool_false_words then Some false
  else None.

(* parseNonQuotedString: up to the first byte of the stop set; the text is trimmed *)
Definition non_quoted (s stop : string) : pres (string * string) :=
  match index_any s stop with
  | Some O => PErr PEUnexpected
  | Some n => POk (trim_space (stake n s), sdrop n s)
  | None => POk (trim_space s, EmptyString)
  end.

Definition primitive_of (content : string) : pres pv :=
  if String.eqb content "null" then POk PNil
  else match bool_word content with
       | Some b => POk (PBool b)
       | None =>
         match parse_uint0_opt content with
         | Some u => POk (PUint u)
         | None =>
           match parse_int0 content with
           | Some i => POk (PInt i)
           | None =>
             match parse_float_dec content with
             | PFOk bits => POk (PFloat bits)
             | PFSyntax | PFRange => POk (PStr content)
             | PFUnknown => PUnknown
             end
           end
         end
       end.

Definition parse_primitive (s stop : string) : pres (pv * string) :=
  x <~ non_quoted s stop ;;
  v <~ primitive_of (fst x) ;;
  POk (v, snd x).

(* parseStringDQuote: the literal ends at the first double quote not preceded by a backslash *)
Fixpoint count_leading_bs (s : string) : nat :=
  match s with
  | String a r => if Ascii.eqb a "\"%char then S (count_leading_bs r) else O
  | EmptyString => O
  end.

(* a quote is escaped only when an odd number of backslashes precedes it (the opening
   quote at index 0 is not counted) *)
Fixpoint dq_end (fuel : nat) (s : string) (off : nat) : option nat :=
  match fuel with
  | O => None
  | S f =>
    match index_byte (sdrop off s) """"%char with
    | None => None
    | Some i =>
      let i := (i + off)%nat in
      if Nat.odd (count_leading_bs (srev (sdrop 1 (stake i s)))) then dq_end f s (S i) else Some i
    end
  end.

Definition parse_dquote (s : string) : pres (string * string) :=
  match dq_end (S (String.length s)) s 1 with
  | None => PErr PEDQuote
  | Some i =>
    match unquote_dq (stake (S i) s) with
    | Some out => POk (out, sdrop (S i) s)
    | None => PErr PEUnquote
    end
  end.

Definition parse_squote (s : string) : pres (string * string) :=
  match index_byte (sdrop 1 s) "'"%char with
  | None => PErr PESQuote
  | Some i => POk (stake i (sdrop 1 s), sdrop (i + 2) s)
  end.

Definition expect_char (c : ascii) (e : perr) (s : string) : pres string :=
  match s with
  | String a r => if Ascii.eqb a c then POk r else PErr e
  | EmptyString => PErr e
  end.

Definition parse_key (s : string) : pres (string * string) :=
  match s with
  | EmptyString => PErr PEKey
  | String a _ =>
    if Ascii.eqb a """"%char then parse_dquote s
    else if Ascii.eqb a "'"%char then parse_squote s
    else non_quoted s objKeyStopSet
  end.

Section Parser.
  Variable cfg : pcfg.

  (* fuel: every recursive call happens after at least one byte was consumed *)
  Fixpoint parse_value (fuel : nat) (s stop : string) {struct fuel} : pres (pv * string) :=
    match fuel with
    | O => PUnknown
    | S f =>
      let s := trim_left s in
      match s with
      | EmptyString => POk (PNil, s)
      | String a r =>
        if Ascii.eqb a "["%char && c_array cfg then
          (* parseArray *)
          (fix arr_loop (n : nat) (s : string) (acc : list pv) {struct n} : pres (pv * string) :=
             match n with
             | O => PUnknown
             | S n' =>
               let s := trim_left s in
               match s with
               | EmptyString => PErr PEArrClose
               | String c r' =>
                 if Ascii.eqb c "]"%char
                 then POk (match acc with [] => PNil | _ => PArr (rev acc) end, r')
                 else
                   x <~ parse_value f s arrayElemStopSet ;;
                   let s2 := trim_left (snd x) in
                   match s2 with
                   | EmptyString => PErr PEArrClose
                   | String nx r2 =>
                     if Ascii.eqb nx "]"%char then POk (PArr (rev (fst x :: acc)), r2)
                     else if Ascii.eqb nx ","%char then arr_loop n' r2 (fst x :: acc)
                     else PErr PEArrSep
                   end
               end
             end) fuel r []
        else if Ascii.eqb a "{"%char && c_object cfg then
          (* parseObj *)
          (fix obj_loop (n : nat) (s : string) (acc : list (string * pv)) {struct n} : pres (pv * string) :=
             match n with
             | O => PUnknown
             | S n' =>
               let s := trim_left s in
               match s with
               | EmptyString => PErr PEDictSep
               | String c r' =>
                 if Ascii.eqb c "}"%char
                 then POk (match acc with [] => PNil | _ => PObj acc end, r')
                 else
                   k <~ parse_key s ;;
                   s1 <~ expect_char ":"%char PEExpectColon (trim_left (snd k)) ;;
                   x <~ parse_value f s1 objValueStopSet ;;
                   match trim_left (snd x) with
                   | EmptyString => PErr PEDictSep
                   | String nx r2 =>
                     let acc' := dict_set (fst k) (fst x) acc in
                     if Ascii.eqb nx "}"%char then POk (PObj acc', r2)
                     else if Ascii.eqb nx ","%char then obj_loop n' r2 acc'
                     else PErr PEDictSep
                   end
               end
             end) fuel r []
        else if Ascii.eqb a """"%char && c_dq cfg then
          x <~ parse_dquote s ;; POk (PStr (fst x), snd x)
        else if Ascii.eqb a "'"%char && c_sq cfg then
          x <~ parse_squote s ;; POk (PStr (fst x), snd x)
        else parse_primitive s stop
      end
    end.

  Definition valid_cfg : bool := c_array cfg || negb (c_object cfg).

  (* flagParser.parse: top-level values separated by commas build a list *)
  Fixpoint parse_top (n : nat) (s : string) (acc : list pv) : pres pv :=
    match n with
    | O => PUnknown
    | S n' =>
      x <~ parse_value (S (String.length s)) s (if c_nocomma cfg then "" else toplevelStopSet) ;;
      let acc := fst x :: acc in
      let s2 := trim_left (snd x) in
      match s2 with
      | EmptyString => POk (match acc with [v] => v | _ => PArr (rev acc) end)
      | _ => s3 <~ expect_char ","%char PEExpectComma s2 ;; parse_top n' s3 acc
      end
    end.

  Definition parse_value_with_config (content : string) : pres pv :=
    let s := trim_space content in
    if negb valid_cfg then PErr PECfg
    else parse_top (S (String.length s)) s [].
End Parser.
