(* PropsC18.v — C18: the YAML, JSON and HJSON front-ends agree and record where settings came
   from.  Statements only; proofs are in ProofsFrontEnds.v.

   The front-ends are: a third-party decoder, then NewFrom.  The decoders are not modelled; the
   theorem is about NewFrom on what they return: a decoder that keeps integers (yaml.v2) and
   one that turns every number into a float64 (encoding/json, hjson-go) give configs with the
   same data, numbers compared by value, for EVERY plain document whose integers are exactly
   representable as float64.  PARTIAL: what each decoder returns for a given text is observed
   by the harness (the decoded Go value is printed into the model's universe and normalize on
   it is compared with NewConfig); typed targets, the WithFile loaders and the file name in
   error messages are decided on the implementation by the correspondence run.  F17
   (integers beyond 2^53) is the known counterexample outside the theorem's hypothesis. *)
From Ucfg Require Import Base ParseInt Consts Field Tree PathOps Merge OTree F64 ParseValue VarParse Normalize
     ProofsNormalize ProofsNormData CorrC17 CorrC18 ProofsFrontEnds.

Theorem c18_front_ends_agree_partial : forall o, p_sep (n_p o) = "" -> n_varexp o = false ->
  forall t, plain o t -> ints_exact t ->
  exists vy vj, normalize_value o (yaml_decoded t) = Ok (vy, None) /\
                normalize_value o (json_decoded t) = Ok (vj, None) /\
                num_equiv (strip vy) (strip vj) = true.
Proof. exact front_ends_agree. Qed.
Print Assumptions c18_front_ends_agree_partial.

(* the hypothesis on integers holds up to 2^53 and fails beyond (F17) *)
Theorem c18_integer_hypothesis_examples :
  ints_exact (OMap [("a", OInt (-7)); ("b", OList [OUint 9007199254740992; OUint 0; OInt 1000000007])])
  /\ num_eq_int_float 9007199254740993 (f64_of_Z 9007199254740993) = false.
Proof. exact ints_exact_examples. Qed.
Print Assumptions c18_integer_hypothesis_examples.
