(* CorrC18.v — the YAML / JSON / HJSON front-ends: what each third-party decoder returned is
   normalized by the model and compared with NewConfig (CLoad); the three configs must hold
   the same data with numbers compared by value (CAgree on the trees, CText on the generic
   and typed views rendered by the harness); the WithFile loaders must give the same config
   and name the file in every error about a setting (CFile). *)
From Ucfg Require Export CorrC05 CorrC17.

Inductive case :=
| CLoad (frontend : string) (o : nopts) (decoded : gval) (observed : obs)
| CAgree (what : string) (a b : obs)
| CText (what : string) (a b : string)
| CFile (frontend : string) (inmem withfile : obs) (fname : string) (msgs : list string).

(* data equality with numbers by value: integers are compared as integers, an integer and
   a float are equal when the float denotes exactly that integer *)
Fixpoint num_equiv (x y : otree) {struct x} : bool :=
  match x, y with
  | ONil, ONil => true
  | OBool a, OBool b => Bool.eqb a b
  | OStr a, OStr b => String.eqb a b
  | (OInt a | OUint a), (OInt b | OUint b) => Z.eqb a b
  | OFloat a, OFloat b => Z.eqb a b
  | (OInt a | OUint a), OFloat b => num_eq_int_float a b
  | OFloat a, (OInt b | OUint b) => num_eq_int_float b a
  | OList l1, OList l2 =>
    (fix go (l1 l2 : list otree) : bool :=
       match l1, l2 with
       | [], [] => true
       | a :: r1, b :: r2 => num_equiv a b && go r1 r2
       | _, _ => false
       end) l1 l2
  | OMap m1, OMap m2 =>
    (fix go (l1 l2 : list (string * otree)) : bool :=
       match l1, l2 with
       | [], [] => true
       | (k, a) :: r1, (k2, b) :: r2 => String.eqb k k2 && num_equiv a b && go r1 r2
       | _, _ => false
       end) m1 m2
  | _, _ => false
  end.

(* the same on internal trees (unevaluated references and splices are compared as such) *)
Fixpoint vnum_equiv (x y : value) {struct x} : bool :=
  match x, y with
  | (VInt a | VUint a), (VInt b | VUint b) => Z.eqb a b
  | (VInt a | VUint a), VFloat b => num_eq_int_float a b
  | VFloat a, (VInt b | VUint b) => num_eq_int_float b a
  | VSub d a, VSub d2 a2 =>
    (fix god (l1 l2 : list (string * (string * value))) : bool :=
       match l1, l2 with
       | [], [] => true
       | (k, (n, v)) :: r1, (k2, (n2, v2)) :: r2 =>
         String.eqb k k2 && String.eqb n n2 && vnum_equiv v v2 && god r1 r2
       | _, _ => false
       end) d d2
    &&
    match a, a2 with
    | None, None => true
    | Some l1, Some l2 =>
      (fix goa (l1 l2 : list (string * value)) : bool :=
         match l1, l2 with
         | [], [] => true
         | (n, v) :: r1, (n2, v2) :: r2 => String.eqb n n2 && vnum_equiv v v2 && goa r1 r2
         | _, _ => false
         end) l1 l2
    | _, _ => false
    end
  | _, _ => value_eqb x y
  end.

Definition same_data (a b : obs) : bool :=
  match a, b with
  | OV x, OV y => vnum_equiv x y
  | OE r _, OE s _ => ereason_eqb r s
  | _, _ => false
  end.

(* an integer whose magnitude exceeds 2^53 somewhere in the tree (F17: JSON and HJSON decode
   every number to float64) *)
Fixpoint has_big_int (t : otree) : bool :=
  match t with
  | OInt z | OUint z => 9007199254740992 <? Z.abs z
  | OFloat f => match decode f with
                | FFin _ m e => (0 <=? e) && (9007199254740992 <? m * 2 ^ e)
                | _ => false
                end
  | OList l => existsb has_big_int l
  | OMap m => (fix go (l : list (string * otree)) : bool :=
                 match l with [] => false | (_, x) :: r => has_big_int x || go r end) m
  | _ => false
  end.

Definition model_agrees (c : case) : bool :=
  match c with
  | CLoad _ o g ob => nobs_eqb (norm_obs o g) ob
  | _ => true
  end.

Definition skipped (c : case) : bool :=
  match c with
  | CLoad _ o g _ => match normalize o g with OutOfModel => true | _ => false end
  | _ => false
  end.

Definition mentions (fname msg : string) : bool := CorrC17.has_sub (S (String.length msg)) fname msg.

Definition prop_holds (c : case) : bool :=
  match c with
  | CLoad _ _ _ OPanic => false
  | CLoad _ _ _ _ => true
  | CAgree _ a b => same_data a b
  | CText _ a b => String.eqb a b
  | CFile _ inmem withfile fname msgs =>
    nobs_eqb inmem withfile && forallb (mentions fname) msgs &&
    match withfile with OV _ => negb (Nat.eqb (List.length msgs) 0) | _ => true end
  end.

(* known-finding signature 17: the two trees differ and one of them holds an integer beyond
   2^53 *)
Definition signature (c : case) : N :=
  match c with
  | CAgree _ (OV x) (OV y) => if has_big_int (strip x) || has_big_int (strip y) then 17%N else 0%N
  | _ => 0%N
  end.

Definition verdict (c : case) : N :=
  if skipped c then 8%N
  else ((if model_agrees c then 0 else 1) + (if prop_holds c then 0 else 2))%N.

Fixpoint run_cases (i : N) (cs : list case) : list (N * N * N) :=
  match cs with
  | [] => []
  | c :: r =>
    let v := verdict c in
    if (v =? 0)%N then run_cases (i + 1)%N r
    else (i, v, signature c) :: run_cases (i + 1)%N r
  end.
