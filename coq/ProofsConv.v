(* ProofsConv.v — the decision rule of typed conversions (C03). *)
From Ucfg Require Import Base ParseInt Consts Field Tree F64 Conv ProofsField.
From Coq Require Import ZifyBool.

Local Open Scope Z_scope.

(** truncation toward zero of m*2^e *)
Lemma fin_trunc_pos_spec m e :
  0 <= m ->
  let t := fin_trunc false m e in
  if 0 <=? e then t = m * 2 ^ e
  else t * 2 ^ (- e) <= m < (t + 1) * 2 ^ (- e).
Proof.
  intros Hm. unfold fin_trunc. destruct (0 <=? e) eqn:E; [reflexivity|].
  apply Z.leb_gt in E. cbn zeta.
  assert (H2 : 0 < 2 ^ (- e)) by (apply Z.pow_pos_nonneg; lia).
  pose proof (Z.div_mod m (2 ^ (- e)) ltac:(lia)) as D.
  pose proof (Z.mod_pos_bound m (2 ^ (- e)) H2) as B.
  nia.
Qed.

Lemma fin_trunc_neg m e : fin_trunc true m e = - fin_trunc false m e.
Proof. unfold fin_trunc. destruct (0 <=? e); reflexivity. Qed.

Lemma fin_trunc_nonneg m e : 0 <= m -> 0 <= fin_trunc false m e.
Proof.
  intros Hm. unfold fin_trunc. destruct (0 <=? e) eqn:E.
  - apply Z.leb_le in E. apply Z.mul_nonneg_nonneg; [lia|]. apply Z.pow_nonneg; lia.
  - apply Z.div_pos; [lia|]. apply Z.pow_pos_nonneg; lia.
Qed.

(** float -> int64 *)
Lemma float_to_int_sound bits t :
  float_to_int bits = Ok t ->
  exists neg m e, decode bits = FFin neg m e /\ t = fin_trunc neg m e /\ minI64 <= t <= maxI64.
Proof.
  unfold float_to_int. destruct (decode bits) as [neg m e|n|] eqn:D; try discriminate.
  destruct ((minI64 <=? fin_trunc neg m e) && (fin_trunc neg m e <=? maxI64)) eqn:R; [|discriminate].
  intros H; inversion H; subst. exists neg, m, e. repeat split; try reflexivity; lia.
Qed.

Lemma float_to_int_complete bits :
  (forall neg m e, decode bits = FFin neg m e -> ~ (minI64 <= fin_trunc neg m e <= maxI64)) ->
  float_to_int bits = Err EOverflow "".
Proof.
  intros H. unfold float_to_int. destruct (decode bits) as [neg m e|n|] eqn:D; try reflexivity.
  specialize (H neg m e eq_refl).
  destruct ((minI64 <=? fin_trunc neg m e) && (fin_trunc neg m e <=? maxI64)) eqn:R; [|reflexivity].
  exfalso; apply H; lia.
Qed.

(* NaN and the infinities are never integers *)
Lemma float_to_int_nan_inf bits :
  (decode bits = FNaN \/ exists n, decode bits = FInf n) -> float_to_int bits = Err EOverflow "".
Proof. intros [H|[n H]]; unfold float_to_int; rewrite H; reflexivity. Qed.

Lemma float_to_uint_nan_inf bits :
  (decode bits = FNaN \/ exists n, decode bits = FInf n) -> exists r, float_to_uint bits = Err r "".
Proof.
  intros [H|[n H]]; unfold float_to_uint; rewrite H; [eauto|]. destruct n; eauto.
Qed.

Lemma float_to_uint_sound bits t :
  float_to_uint bits = Ok t ->
  exists neg m e, decode bits = FFin neg m e /\ (neg = false \/ m = 0) /\
                  t = fin_trunc false m e /\ t <= maxU64z.
Proof.
  unfold float_to_uint. destruct (decode bits) as [neg m e|n|] eqn:D; try discriminate.
  - destruct (neg && negb (m =? 0)) eqn:N; [discriminate|].
    destruct (fin_trunc false m e <=? maxU64z) eqn:R; [|discriminate].
    intros H; inversion H; subst. exists neg, m, e.
    split; [reflexivity|]. split.
    + destruct neg; [right|left; reflexivity].
      change (negb (m =? 0) = false) in N. apply Bool.negb_false_iff, Z.eqb_eq in N. exact N.
    + split; [reflexivity|]. apply Z.leb_le in R. exact R.
  - destruct n; discriminate.
Qed.

(** toInt / toUint on the stored kinds *)
(* stored integers are int64 / uint64 values *)
Definition wf_prim (v : value) : Prop :=
  match v with
  | VInt z => minI64 <= z <= maxI64
  | VUint z => 0 <= z <= maxU64z
  | _ => True
  end.

Lemma to_int_range v i : wf_prim v -> to_int v = Ok i -> minI64 <= i <= maxI64.
Proof.
  intros W. destruct v; unfold to_int; try discriminate.
  - intros H; inversion H; subst. exact W.
  - destruct (maxI64 <? z) eqn:E; [discriminate|]. intros H; inversion H; subst.
    cbn in W. unfold minI64, maxI64, two63z in *. lia.
  - intros H. apply float_to_int_sound in H as (neg & m & e & _ & _ & R). exact R.
  - destruct (parse_int0 s) as [j|] eqn:P; [|discriminate]. intros H; inversion H; subst.
    apply parse_int0_range in P. unfold minI64, maxI64, two63z. lia.
Qed.

Lemma to_uint_nonneg_int i u : to_uint (VInt i) = Ok u -> 0 <= i /\ u = i.
Proof. unfold to_uint. destruct (i <? 0) eqn:E; [discriminate|]. intros H; inversion H; subst. lia. Qed.

Lemma to_uint_negative_int i : i < 0 -> to_uint (VInt i) = Err ENegative "".
Proof. intros H. unfold to_uint. destruct (i <? 0) eqn:E; [reflexivity|lia]. Qed.

(** sized integer targets: the stored value, or an error - never a wrapped value *)
Lemma conv_int_sound ft dur bits v c :
  conv ft dur (KInt bits) v = Ok c ->
  exists i, c = CI i /\ to_int v = Ok i /\ - 2 ^ (bits - 1) <= i <= 2 ^ (bits - 1) - 1.
Proof.
  unfold conv. destruct (to_int v) as [i| | |] eqn:T; unfold bind; try discriminate.
  destruct ((- 2 ^ (bits - 1) <=? i) && (i <=? 2 ^ (bits - 1) - 1)) eqn:R; [|discriminate].
  intros H; inversion H; subst. exists i. repeat split; lia.
Qed.

Lemma conv_int_overflow ft dur bits v i :
  to_int v = Ok i -> ~ (- 2 ^ (bits - 1) <= i <= 2 ^ (bits - 1) - 1) ->
  conv ft dur (KInt bits) v = Err EOverflow "".
Proof.
  intros T H. unfold conv. rewrite T. unfold bind.
  destruct ((- 2 ^ (bits - 1) <=? i) && (i <=? 2 ^ (bits - 1) - 1)) eqn:R; [|reflexivity].
  exfalso; apply H; lia.
Qed.

Lemma conv_uint_sound ft dur bits v c :
  conv ft dur (KUint bits) v = Ok c ->
  exists u, c = CU u /\ to_uint v = Ok u /\ u <= 2 ^ bits - 1.
Proof.
  unfold conv. destruct (to_uint v) as [u| | |] eqn:T; unfold bind; try discriminate.
  destruct (u <=? 2 ^ bits - 1) eqn:R; [|discriminate].
  intros H; inversion H; subst. exists u. repeat split; lia.
Qed.

Lemma conv_uint_overflow ft dur bits v u :
  to_uint v = Ok u -> 2 ^ bits - 1 < u -> conv ft dur (KUint bits) v = Err EOverflow "".
Proof.
  intros T H. unfold conv. rewrite T. unfold bind. destruct (u <=? 2 ^ bits - 1) eqn:R; [lia|reflexivity].
Qed.

(* an error of the underlying conversion is an error of the typed one *)
Lemma conv_int_error ft dur bits v r p :
  to_int v = Err r p -> conv ft dur (KInt bits) v = Err r p.
Proof. intros T. unfold conv. rewrite T. reflexivity. Qed.

Lemma conv_uint_error ft dur bits v r p :
  to_uint v = Err r p -> conv ft dur (KUint bits) v = Err r p.
Proof. intros T. unfold conv. rewrite T. reflexivity. Qed.

(** durations: integer seconds are exact nanoseconds or an error *)
Lemma conv_duration_int ft dur i c :
  conv ft dur KDuration (VInt i) = Ok c -> c = CD (i * second_ns) /\ minI64 <= i * second_ns <= maxI64.
Proof.
  unfold conv. destruct ((minI64 <=? i * second_ns) && (i * second_ns <=? maxI64)) eqn:R; [|discriminate].
  intros H; inversion H; subst. split; [reflexivity|lia].
Qed.

Lemma conv_duration_int_overflow ft dur i :
  ~ (minI64 <= i * second_ns <= maxI64) -> conv ft dur KDuration (VInt i) = Err EOverflow "".
Proof.
  intros H. unfold conv. destruct ((minI64 <=? i * second_ns) && (i * second_ns <=? maxI64)) eqn:R; [|reflexivity].
  exfalso; apply H; lia.
Qed.

Lemma conv_duration_float_nan_inf ft dur bits :
  (decode bits = FNaN \/ exists n, decode bits = FInf n) ->
  conv ft dur KDuration (VFloat bits) = Err EOverflow "".
Proof. intros [H|[n H]]; unfold conv; rewrite H; reflexivity. Qed.

(* bool and string targets never change a stored bool / string *)
Lemma conv_bool_id ft dur b : conv ft dur KBool (VBool b) = Ok (CB b).
Proof. reflexivity. Qed.
Lemma conv_string_id ft dur s : conv ft dur KString (VStr s) = Ok (CS s).
Proof. reflexivity. Qed.
Lemma conv_container_error ft dur k d a :
  k <> KString -> exists r, conv ft dur k (VSub d a) = Err r "".
Proof.
  intros _. destruct k; cbn; eauto.
Qed.
