(* ProofsNormalize.v — normalization does not depend on the order in which the runtime
   enumerates a map (C09), and the algebra of the sorted visit used by C05. *)
From Coq Require Import Permutation Sorting.Sorted OrderedTypeEx.
From Ucfg Require Import Base ParseInt Consts Field Tree PathOps Merge VarParse Normalize.

(** * String order *)
Lemma leb_iff a b : String.leb a b = true <-> a = b \/ String_as_OT.lt a b.
Proof.
  unfold String.leb. destruct (String.compare a b) eqn:C.
  - apply String.compare_eq_iff in C. split; auto.
  - apply String_as_OT.cmp_lt in C. split; auto.
  - split; [discriminate|]. intros [E|L].
    + subst. assert (String.compare b b = Eq) as R.
      { clear C. induction b as [|c b IH]; simpl; auto.
        assert (Ascii.compare c c = Eq) as Rc.
        { unfold Ascii.compare. apply N.compare_refl. }
        rewrite Rc. exact IH. }
      congruence.
    + apply String_as_OT.cmp_lt in L. unfold String_as_OT.cmp in L. congruence.
Qed.

Lemma leb_trans a b c : String.leb a b = true -> String.leb b c = true -> String.leb a c = true.
Proof.
  rewrite !leb_iff. intros [E1|L1] [E2|L2]; subst; auto.
  right. eapply String_as_OT.lt_trans; eauto.
Qed.

Lemma leb_false_flip a b : String.leb a b = false -> String.leb b a = true.
Proof. intro H. destruct (String.leb_total a b) as [T|T]; congruence. Qed.

(** * Insertion sort on named entries *)
Definition key_le (x y : string * nres) : Prop := String.leb (fst x) (fst y) = true.

Lemma kv_insert_perm k x l : Permutation ((k, x) :: l) (kv_insert k x l).
Proof.
  induction l as [|[k2 y] r IH]; simpl; auto.
  destruct (String.leb k k2); auto.
  eapply perm_trans; [apply perm_swap|]. apply perm_skip. exact IH.
Qed.

Lemma kv_sort_perm l : Permutation l (kv_sort l).
Proof.
  induction l as [|[k x] r IH]; simpl; auto.
  eapply perm_trans; [|apply kv_insert_perm]. apply perm_skip. exact IH.
Qed.

Lemma kv_insert_sorted k x l :
  StronglySorted key_le l -> StronglySorted key_le (kv_insert k x l).
Proof.
  induction l as [|[k2 y] r IH]; simpl; intro S.
  - constructor; constructor.
  - inversion S as [|? ? Sr Hall]; subst.
    destruct (String.leb k k2) eqn:L.
    + constructor; [exact S|]. constructor; [exact L|].
      rewrite Forall_forall in *. intros z Hz. unfold key_le in *. simpl in *.
      eapply leb_trans; [exact L|]. apply (Hall z Hz).
    + constructor; [apply IH; exact Sr|].
      rewrite Forall_forall in *. intros z Hz.
      apply Permutation_in with (l' := (k, x) :: r) in Hz;
        [|apply Permutation_sym, kv_insert_perm].
      destruct Hz as [E|Hz]; [subst z; unfold key_le; simpl; apply leb_false_flip; exact L|].
      apply Hall; exact Hz.
Qed.

Lemma kv_sort_sorted l : StronglySorted key_le (kv_sort l).
Proof.
  induction l as [|[k x] r IH]; simpl; [constructor|]. apply kv_insert_sorted; exact IH.
Qed.

(* two sorted lists with the same entries and pairwise distinct names are equal *)
Lemma sorted_perm_unique l : forall l',
  StronglySorted key_le l -> StronglySorted key_le l' ->
  Permutation l l' -> NoDup (map fst l) -> l = l'.
Proof.
  induction l as [|a r IH]; intros l' S S' P ND.
  - apply Permutation_nil in P. auto.
  - destruct l' as [|b r'].
    { apply Permutation_sym, Permutation_nil in P. discriminate. }
    inversion S as [|? ? Sr Ha]; subst. inversion S' as [|? ? Sr' Hb]; subst.
    assert (a = b) as E.
    { assert (In a (b :: r')) as Ia by (eapply Permutation_in; [exact P|left; auto]).
      assert (In b (a :: r)) as Ib by (eapply Permutation_in; [apply Permutation_sym; exact P|left; auto]).
      destruct Ia as [E|Ia]; [auto|]. destruct Ib as [E|Ib]; [auto|].
      rewrite Forall_forall in Ha, Hb.
      pose proof (Ha b Ib) as L1. pose proof (Hb a Ia) as L2. unfold key_le in *.
      pose proof (String.leb_antisym _ _ L1 L2) as Ek.
      (* a and b carry the same name, b occurs in r: the names of a :: r are not distinct *)
      exfalso. simpl in ND. inversion ND as [|? ? Hni _]; subst. apply Hni.
      rewrite Ek. apply in_map. exact Ib. }
    subst b. f_equal. apply IH; auto.
    + eapply Permutation_cons_inv; exact P.
    + simpl in ND. inversion ND; auto.
Qed.

Theorem kv_sort_perm_eq l l' :
  Permutation l l' -> NoDup (map fst l) -> kv_sort l = kv_sort l'.
Proof.
  intros P ND. apply sorted_perm_unique.
  - apply kv_sort_sorted.
  - apply kv_sort_sorted.
  - eapply perm_trans; [apply Permutation_sym, kv_sort_perm|].
    eapply perm_trans; [exact P|apply kv_sort_perm].
  - eapply Permutation_NoDup; [|exact ND]. apply Permutation_map, kv_sort_perm.
Qed.

(** * Keys that are no strings *)
Definition key_name (k : gkey) : option string := match k with KStr s => Some s | KOther => None end.

Lemma kv_names_none ys : kv_names ys = None <-> exists y, In y ys /\ fst y = KOther.
Proof.
  induction ys as [|[k x] r IH]; simpl.
  - split; [discriminate|]. intros [y [[] _]].
  - destruct k as [n|].
    + destruct (kv_names r) eqn:E.
      * split; [discriminate|]. intros [y [[Ey|Hy] Hk]].
        { subst y. discriminate. }
        { assert (@None (list (string * nres)) = None) as T by reflexivity.
          destruct IH as [_ IH2]. assert (exists y, In y r /\ fst y = KOther) as Ex by eauto.
          specialize (IH2 Ex). discriminate. }
      * split; auto. intros _. destruct IH as [IH1 _]. destruct (IH1 eq_refl) as [y [Hy Hk]].
        exists y. auto.
    + split; auto. intros _. exists (KOther, x). auto.
Qed.

Lemma kv_names_perm ys ys' : Permutation ys ys' ->
  match kv_names ys, kv_names ys' with
  | Some l, Some l' => Permutation l l'
  | None, None => True
  | _, _ => False
  end.
Proof.
  induction 1 as [|[k x] l l' P IH|[k1 x1] [k2 x2] l|l l' l'' P1 IH1 P2 IH2]; simpl.
  - auto.
  - destruct k; auto. destruct (kv_names l), (kv_names l'); auto.
  - destruct k1, k2; auto. destruct (kv_names l); auto. apply perm_swap.
  - destruct (kv_names l), (kv_names l'), (kv_names l''); auto; try contradiction.
    eapply perm_trans; eauto.
Qed.

Lemma kv_names_in ys : forall l n, kv_names ys = Some l -> In n (map fst l) -> In (KStr n) (map fst ys).
Proof.
  induction ys as [|[k x] r IH]; simpl; intros l n H Hin.
  - inversion H; subst. contradiction.
  - destruct k as [m|]; [|discriminate]. destruct (kv_names r) as [t|] eqn:E; [|discriminate].
    inversion H; subst. simpl in Hin. destruct Hin as [Hn|Hin]; [left; congruence|].
    right. eapply IH; eauto.
Qed.

Lemma kv_names_nodup ys : forall l, kv_names ys = Some l -> NoDup (map fst ys) -> NoDup (map fst l).
Proof.
  induction ys as [|[k x] r IH]; simpl; intros l H ND.
  - inversion H; constructor.
  - destruct k as [m|]; [|discriminate]. destruct (kv_names r) as [t|] eqn:E; [|discriminate].
    inversion H; subst. inversion ND as [|? ? Hni NDr]; subst. simpl. constructor.
    + intro Hin. apply Hni. eapply kv_names_in; eauto.
    + apply IH; auto.
Qed.

(** * The visit of a map does not depend on the enumeration order *)
Theorem map_into_perm o cfg ys ys' :
  Permutation ys ys' -> NoDup (map fst ys) -> map_into o cfg ys = map_into o cfg ys'.
Proof.
  intros P ND. unfold map_into.
  pose proof (kv_names_perm ys ys' P) as H.
  destruct (kv_names ys) as [l|] eqn:E, (kv_names ys') as [l'|] eqn:E'; try contradiction; auto.
  f_equal. apply kv_sort_perm_eq; auto.
  eapply kv_names_nodup; eauto.
Qed.

(* the entries of a Go map, each with the result of normalizing its value *)
Definition norm_entries (o : nopts) (kvs : list (gkey * gval)) : list (gkey * nres) :=
  map (fun kv => (fst kv, normalize_value o (snd kv))) kvs.

Lemma normalize_value_map o ok kvs :
  normalize_value o (GMap ok kvs) =
  if negb ok then Err EKeyTypeNotString ""
  else c <- map_into o empty_cfg (norm_entries o kvs) ;; Ok (c, None).
Proof.
  simpl. destruct ok; simpl; auto.
  assert ((fix go (l : list (gkey * gval)) : list (gkey * nres) :=
             match l with
             | [] => []
             | (k, x) :: r => (k, normalize_value o x) :: go r
             end) kvs = norm_entries o kvs) as R.
  { induction kvs as [|[k x] r IH]; simpl; auto. f_equal. exact IH. }
  rewrite R. reflexivity.
Qed.

Theorem normalize_map_order_irrelevant o ok kvs kvs' :
  Permutation kvs kvs' -> NoDup (map fst kvs) ->
  normalize o (GMap ok kvs) = normalize o (GMap ok kvs').
Proof.
  intros P ND. unfold normalize. rewrite !normalize_value_map.
  destruct ok; simpl; auto.
  rewrite (map_into_perm o empty_cfg (norm_entries o kvs) (norm_entries o kvs')); auto.
  - apply Permutation_map. exact P.
  - unfold norm_entries. rewrite map_map. simpl. exact ND.
Qed.

(* the order matters to the unsorted visit: the theorem is not vacuous *)
Example sorted_visit_example :
  let o := {| n_p := {| p_sep := "."; p_maxIdx := 1024; p_numKeys := false; p_escape := false |};
              n_varexp := false; n_m := {| m_h := 0%N; m_ft := None |} |} in
  normalize o (GMap true [(KStr "a.b", GUint 1); (KStr "a", GMap true [(KStr "b", GUint 2)])])
  = normalize o (GMap true [(KStr "a", GMap true [(KStr "b", GUint 2)]); (KStr "a.b", GUint 1)])
  /\ normalize o (GMap true [(KStr "a.b", GUint 1); (KStr "a", GMap true [(KStr "b", GUint 2)])])
     = Err EDuplicateKey "a.b".
Proof. vm_compute. split; reflexivity. Qed.

(** * Nested maps: every map inside the input may be enumerated in any order *)
Inductive gperm : gval -> gval -> Prop :=
| gp_refl g : gperm g g
| gp_list l l' : Forall2 gperm l l' -> gperm (GList l) (GList l')
| gp_map ok kvs mid kvs' :
    Forall2 (fun a b => fst a = fst b /\ gperm (snd a) (snd b)) kvs mid ->
    Permutation mid kvs' -> NoDup (map fst mid) ->
    gperm (GMap ok kvs) (GMap ok kvs').

Lemma normalize_value_list o l :
  normalize_value o (GList l) =
  els <- (fix go (i : Z) (l : list gval) : res (list nv) :=
            match l with
            | [] => Ok []
            | x :: r =>
              y <- normalize_value o x ;;
              rest <- go (i + 1) r ;;
              Ok ((match snd y with Some n => n | None => dec i end, fst y) :: rest)
            end) 0 l ;;
  Ok (VSub [] (Some els), None).
Proof. reflexivity. Qed.

Theorem normalize_value_gperm o : forall g g', gperm g g' -> normalize_value o g = normalize_value o g'.
Proof.
  fix IH 3. intros g g' H. destruct H as [g|l l' F|ok kvs mid kvs' F P ND].
  - reflexivity.
  - rewrite !normalize_value_list.
    assert (forall i, (fix go (i : Z) (l : list gval) : res (list nv) :=
            match l with
            | [] => Ok []
            | x :: r =>
              y <- normalize_value o x ;;
              rest <- go (i + 1) r ;;
              Ok ((match snd y with Some n => n | None => dec i end, fst y) :: rest)
            end) i l = (fix go (i : Z) (l : list gval) : res (list nv) :=
            match l with
            | [] => Ok []
            | x :: r =>
              y <- normalize_value o x ;;
              rest <- go (i + 1) r ;;
              Ok ((match snd y with Some n => n | None => dec i end, fst y) :: rest)
            end) i l') as R.
    { induction F as [|a b r r' Hab F' IHF]; intro i; [reflexivity|].
      rewrite (IH a b Hab). rewrite (IHF (i + 1)). reflexivity. }
    rewrite (R 0). reflexivity.
  - rewrite !normalize_value_map. destruct ok; simpl; auto.
    assert (norm_entries o kvs = norm_entries o mid) as R.
    { clear P ND. induction F as [|a b r r' Hab F' IHF]; [reflexivity|].
      simpl. destruct Hab as [Hk Hv]. rewrite Hk, (IH _ _ Hv), IHF. reflexivity. }
    rewrite R.
    rewrite (map_into_perm o empty_cfg (norm_entries o mid) (norm_entries o kvs')); auto.
    + apply Permutation_map. exact P.
    + unfold norm_entries. rewrite map_map. simpl. exact ND.
Qed.

Theorem normalize_gperm o g g' : gperm g g' -> normalize o g = normalize o g'.
Proof.
  intro H. pose proof (normalize_value_gperm o g g' H) as E.
  destruct H as [g|l l' F|ok kvs mid kvs' F P ND]; auto; unfold normalize; rewrite E; reflexivity.
Qed.
