(* ProofsJson.v — C17: parse.Value reads back every JSON document of a fragment, for all nesting
   depths and widths: null, true, false, strings over the printable ASCII characters other than
   the quote and the backslash, integers of the whole int64 and uint64 ranges (decimal), arrays
   and objects (compact printing).  Floats, escapes, non-ASCII text and free layout are outside
   this theorem. *)
From Ucfg Require Import Base ParseInt Consts Field Tree F64 ParseValue ProofsFlags ProofsParse ProofsDec.
From Coq Require Import Lia.
Local Open Scope nat_scope.
Local Open Scope string_scope.

(** * the fragment *)
Inductive jv :=
| JNull | JBool (b : bool) | JStr (s : string) | JInt (z : Z)
| JArr (l : list jv) | JObj (m : list (string * jv)).

Notation q := (""""%char) (only parsing).

(* the fragment is stated for any spelling [sp] of the text between the quotes that the string
   scanner reads back ([Hsp]); it is instantiated with the plain spelling of texts that need no
   escapes (below) and with the escaped spelling of every printable-ASCII text (ProofsJsonEsc) *)
Section Doc.
Variable sp : string -> string.
Variable okstr : string -> bool.

Fixpoint print (v : jv) : string :=
  match v with
  | JNull => "null"
  | JBool true => "true"
  | JBool false => "false"
  | JStr s => String q (sp s +++ String q "")
  | JInt z => dec z
  | JArr l =>
    String "["%char
      ((fix elems (l : list jv) : string :=
          match l with
          | [] => ""
          | [x] => print x
          | x :: r => print x +++ String ","%char (elems r)
          end) l +++ "]")
  | JObj m =>
    String "{"%char
      ((fix mems (l : list (string * jv)) : string :=
          match l with
          | [] => ""
          | [(k, x)] => String q (sp k +++ String q (String ":"%char (print x)))
          | (k, x) :: r => String q (sp k +++ String q (String ":"%char (print x))) +++ String ","%char (mems r)
          end) m +++ "}")
  end.

Definition print_elems :=
  fix elems (l : list jv) : string :=
    match l with
    | [] => ""
    | [x] => print x
    | x :: r => print x +++ String ","%char (elems r)
    end.
Definition print_mems :=
  fix mems (l : list (string * jv)) : string :=
    match l with
    | [] => ""
    | [(k, x)] => String q (sp k +++ String q (String ":"%char (print x)))
    | (k, x) :: r => String q (sp k +++ String q (String ":"%char (print x))) +++ String ","%char (mems r)
    end.

(* what the parser returns: an empty array or object reads as nil, objects are sorted by key
   and a repeated key keeps its last value *)
Fixpoint data (v : jv) : pv :=
  match v with
  | JNull => PNil
  | JBool b => PBool b
  | JStr s => PStr s
  | JInt z => if (0 <=? z)%Z then PUint z else PInt z    (* ParseUint is tried first *)
  | JArr [] => PNil
  | JArr l => PArr (map data l)
  | JObj [] => PNil
  | JObj m => PObj (fold_left (fun acc kv => dict_set (fst kv) (data (snd kv)) acc) m [])
  end.

Definition obj_data (acc : list (string * pv)) (m : list (string * jv)) : list (string * pv) :=
  fold_left (fun acc kv => dict_set (fst kv) (data (snd kv)) acc) m acc.

Fixpoint jsize (v : jv) : nat :=
  match v with
  | JArr l => S (List.length l + (fix sum (l : list jv) : nat := match l with [] => O | x :: r => jsize x + sum r end) l)
  | JObj m => S (List.length m + (fix sum (l : list (string * jv)) : nat :=
                                    match l with [] => O | (_, x) :: r => jsize x + sum r end) m)
  | _ => 1%nat
  end.
Definition sum_sizes (l : list jv) : nat :=
  (fix sum (l : list jv) : nat := match l with [] => O | x :: r => jsize x + sum r end) l.
Definition sum_msizes (m : list (string * jv)) : nat :=
  (fix sum (l : list (string * jv)) : nat := match l with [] => O | (_, x) :: r => jsize x + sum r end) m.

(* characters a string may hold: printable ASCII without the quote and the backslash *)
Definition safe_char (a : ascii) : bool :=
  let c := byte_of a in ((32 <=? c) && (c <? 127) && negb (c =? 34) && negb (c =? 92))%N.
Fixpoint safe_str (s : string) : bool :=
  match s with EmptyString => true | String a r => safe_char a && safe_str r end.

Fixpoint wf (v : jv) : bool :=
  match v with
  | JStr s => okstr s
  | JInt z => ((- 9223372036854775808 <=? z) && (z <=? 18446744073709551615))%Z
  | JArr l => (fix all (l : list jv) : bool := match l with [] => true | x :: r => wf x && all r end) l
  | JObj m => (fix all (l : list (string * jv)) : bool :=
                 match l with [] => true | (k, x) :: r => okstr k && wf x && all r end) m
  | _ => true
  end.

(** * strings *)
Lemma app_assoc_s a b c : (a +++ b) +++ c = a +++ (b +++ c).
Proof. induction a as [|x r IH]; simpl; [reflexivity|]. rewrite IH. reflexivity. Qed.

Lemma safe_char_facts a : safe_char a = true ->
  (byte_of a =? 34)%N = false /\ (byte_of a =? 10)%N = false /\ (128 <=? byte_of a)%N = false /\
  (byte_of a =? 92)%N = false.
Proof.
  unfold safe_char. intro H. repeat (apply andb_prop in H; destruct H as [H ?]).
  apply N.leb_le in H. apply N.ltb_lt in H2. apply negb_true_iff in H1. apply negb_true_iff in H0.
  repeat split; auto; try (apply N.eqb_neq; lia); try (apply N.leb_gt; lia).
Qed.

Lemma unquote_body_safe json body : forall fuel acc rest,
  safe_str body = true -> (String.length body < fuel)%nat ->
  unquote_body json fuel (body +++ String q rest) acc = Some (srev (rev_app body acc), rest).
Proof.
  induction body as [|a r IH]; intros fuel acc rest S L.
  - destruct fuel; [simpl in L; lia|]. simpl. unfold srev. reflexivity.
  - destruct fuel; [simpl in L; lia|]. simpl in S. apply andb_prop in S. destruct S as [Sa Sr].
    destruct (safe_char_facts a Sa) as [E34 [E10 [E128 E92]]].
    cbn [String.append unquote_body]. rewrite E34, E10, E128, E92. cbn [negb].
    rewrite IH; [reflexivity|exact Sr|simpl in L; lia].
Qed.

Lemma srev_rev_app_nil body : srev (rev_app body "") = body.
Proof. fold (srev body). apply srev_involutive. Qed.

Lemma unquote_dq_safe body :
  safe_str body = true -> unquote_dq (String q (body +++ String q "")) = Some body.
Proof.
  intro S. unfold unquote_dq, unquote_gen. change (Ascii.eqb q """"%char) with true. cbv iota.
  rewrite (unquote_body_safe true body _ "" ""); [|exact S|].
  - rewrite srev_rev_app_nil. reflexivity.
  - clear. induction body as [|a r IH]; simpl; [lia|]. simpl in IH. lia.
Qed.

Lemma safe_no_quote body : safe_str body = true -> mem_ascii q body = false.
Proof.
  induction body as [|a r IH]; cbn [mem_ascii safe_str]; intro S; [reflexivity|].
  apply andb_prop in S. destruct S as [Sa Sr]. rewrite (IH Sr).
  destruct (safe_char_facts a Sa) as [E34 _].
  destruct (Ascii.eqb q a) eqn:E; [|reflexivity].
  apply Ascii.eqb_eq in E. subst a. discriminate.
Qed.

Lemma count_bs_safe_rev body : safe_str body = true -> count_leading_bs (srev body) = O.
Proof.
  intro S. destruct (srev body) as [|a r] eqn:E; [reflexivity|].
  simpl. destruct (Ascii.eqb a "\"%char) eqn:B; [|reflexivity].
  apply Ascii.eqb_eq in B. subst a.
  (* a backslash in the reversal is a backslash in the body *)
  exfalso. assert (mem_ascii "\"%char (srev body) = true) as M by (rewrite E; simpl; reflexivity).
  assert (forall s acc, mem_ascii "\"%char (rev_app s acc) = mem_ascii "\"%char s || mem_ascii "\"%char acc) as G.
  { induction s as [|c s IH]; intros acc; cbn [rev_app mem_ascii]; [reflexivity|]. rewrite IH. cbn [mem_ascii].
    destruct (Ascii.eqb "\"%char c), (mem_ascii "\"%char s), (mem_ascii "\"%char acc); reflexivity. }
  unfold srev in M. rewrite G in M. cbn [mem_ascii] in M. rewrite orb_false_r in M.
  clear -S M. induction body as [|c r IH]; cbn [mem_ascii safe_str] in *; [discriminate|].
  apply andb_prop in S. destruct S as [Sc Sr]. destruct (safe_char_facts c Sc) as [_ [_ [_ E92]]].
  destruct (Ascii.eqb "\"%char c) eqn:B.
  - apply Ascii.eqb_eq in B. subst c. discriminate.
  - cbn [orb] in M. apply IH; auto.
Qed.

Lemma length_app_s a b : String.length (a +++ b) = (String.length a + String.length b)%nat.
Proof. induction a as [|x r IH]; simpl; [reflexivity|]. rewrite IH. reflexivity. Qed.

Theorem parse_dquote_safe body rest :
  safe_str body = true ->
  parse_dquote (String q (body +++ String q rest)) = POk (body, rest).
Proof.
  intro HS. unfold parse_dquote.
  set (s := String q (body +++ String q rest)).
  assert (dq_end (S (String.length s)) s 1 = Some (S (String.length body))) as D.
  { cbn [dq_end]. change (sdrop 1 s) with (body +++ String q rest).
    rewrite (index_byte_app body q rest (safe_no_quote body HS)).
    replace (String.length body + 1)%nat with (S (String.length body)) by lia.
    change (stake (S (String.length body)) s) with (String q (stake (String.length body) (body +++ String q rest))).
    rewrite stake_app. change (sdrop 1 (String q body)) with body.
    rewrite (count_bs_safe_rev body HS). reflexivity. }
  rewrite D.
  change (stake (S (S (String.length body))) s) with (String q (stake (S (String.length body)) (body +++ String q rest))).
  replace (S (String.length body)) with (String.length (body +++ String q "")) at 1
    by (rewrite length_app_s; simpl; lia).
  replace (body +++ String q rest) with ((body +++ String q "") +++ rest)
    by (rewrite app_assoc_s; reflexivity).
  rewrite stake_app. rewrite (unquote_dq_safe body HS).
  change (sdrop (S (S (String.length body))) s) with (sdrop (S (String.length body)) (body +++ String q rest)).
  replace (S (String.length body)) with (String.length (body +++ String q "")) by (rewrite length_app_s; simpl; lia).
  replace (body +++ String q rest) with ((body +++ String q "") +++ rest) by (rewrite app_assoc_s; reflexivity).
  rewrite sdrop_app. reflexivity.
Qed.

Hypothesis Hsp : forall body rest, okstr body = true ->
  parse_dquote (String q (sp body +++ String q rest)) = POk (body, rest).

(** * unquoted words *)
Fixpoint word_clear (w stop : string) : bool :=
  match w with EmptyString => true | String a r => negb (mem_ascii a stop) && word_clear r stop end.

Lemma index_any_clear w stop : word_clear w stop = true -> index_any w stop = None.
Proof.
  induction w as [|a r IH]; cbn [word_clear index_any]; intro H; [reflexivity|].
  apply andb_prop in H. destruct H as [Ha Hr]. apply negb_true_iff in Ha. rewrite Ha, (IH Hr). reflexivity.
Qed.

Lemma index_any_word w c rest stop :
  word_clear w stop = true -> mem_ascii c stop = true ->
  index_any (w +++ String c rest) stop = Some (String.length w).
Proof.
  induction w as [|a r IH]; cbn [word_clear index_any String.append String.length]; intros H Hc.
  - rewrite Hc. reflexivity.
  - apply andb_prop in H. destruct H as [Ha Hr]. apply negb_true_iff in Ha. rewrite Ha, (IH Hr Hc). reflexivity.
Qed.

(* what may follow a value: nothing, or a character of the stop set in force *)
Definition ok_rest (stop rest : string) : Prop :=
  rest = "" \/ exists c r, rest = String c r /\ mem_ascii c stop = true.

Lemma non_quoted_word w rest stop :
  w <> "" -> word_clear w stop = true -> ok_rest stop rest ->
  non_quoted (w +++ rest) stop = POk (trim_space w, rest).
Proof.
  intros Hne Hw [E|[c [r [E Hc]]]]; subst rest; unfold non_quoted.
  - rewrite append_nil_r, (index_any_clear w stop Hw). reflexivity.
  - rewrite (index_any_word w c r stop Hw Hc).
    destruct w as [|a w']; [contradiction|]. cbn [String.length].
    change (S (String.length w')) with (String.length (String a w')).
    rewrite stake_app, sdrop_app. reflexivity.
Qed.

Lemma primitive_word w v rest stop :
  w <> "" -> word_clear w stop = true -> ok_rest stop rest ->
  trim_space w = w -> primitive_of w = POk v ->
  parse_primitive (w +++ rest) stop = POk (v, rest).
Proof.
  intros Hne Hw Hr Ht Hp. unfold parse_primitive. rewrite (non_quoted_word w rest stop Hne Hw Hr).
  cbn [pbind fst snd]. rewrite Ht, Hp. reflexivity.
Qed.

Lemma space_suffix_ascii a r :
  is_space a = false -> (byte_of a <? 128)%N = true -> space_suffix_rev (String a r) = O.
Proof.
  intros Hs Hb. unfold space_suffix_rev. rewrite Hs.
  assert ((byte_of a =? 133)%N = false) as E1 by (apply N.eqb_neq; apply N.ltb_lt in Hb; lia).
  assert ((byte_of a =? 160)%N = false) as E2 by (apply N.eqb_neq; apply N.ltb_lt in Hb; lia).
  assert ((byte_of a =? 128)%N = false) as E3 by (apply N.eqb_neq; apply N.ltb_lt in Hb; lia).
  assert ((128 <=? byte_of a)%N = false) as E4 by (apply N.leb_gt; apply N.ltb_lt in Hb; lia).
  assert ((byte_of a =? 168)%N = false) as E5 by (apply N.eqb_neq; apply N.ltb_lt in Hb; lia).
  assert ((byte_of a =? 169)%N = false) as E6 by (apply N.eqb_neq; apply N.ltb_lt in Hb; lia).
  assert ((byte_of a =? 175)%N = false) as E7 by (apply N.eqb_neq; apply N.ltb_lt in Hb; lia).
  assert ((byte_of a =? 159)%N = false) as E8 by (apply N.eqb_neq; apply N.ltb_lt in Hb; lia).
  destruct r as [|b r2]; [reflexivity|]. rewrite E1, E2. rewrite andb_false_r. cbv iota.
  destruct r2 as [|e r3]; [reflexivity|]. rewrite E3, E4, E5, E6, E7, E8.
  rewrite ?andb_false_r, ?andb_false_l. cbn [andb orb]. rewrite ?andb_false_r. reflexivity.
Qed.


(* a string of plain characters (no white space, ASCII) is not trimmed *)
Lemma rev_app_head_plain : forall r a acc,
  (is_space a = false /\ (byte_of a <? 128)%N = true) ->
  (fix all (s : string) : Prop := match s with EmptyString => True | String k t => (is_space k = false /\ (byte_of k <? 128)%N = true) /\ all t end) r ->
  exists c t, rev_app r (String a acc) = String c t /\ is_space c = false /\ (byte_of c <? 128)%N = true.
Proof.
  induction r as [|b r' IH]; intros a acc Pa Pr.
  - exists a, acc. split; [reflexivity|exact Pa].
  - destruct Pr as [Pb Pr']. cbn [rev_app]. apply IH; assumption.
Qed.

(** * integer literals *)
Lemma num_start_neq a k : num_start a = true -> num_start k = false -> Ascii.eqb a k = false.
Proof.
  intros Ha Hk. destruct (Ascii.eqb a k) eqn:E; [apply Ascii.eqb_eq in E; subst k; congruence|reflexivity].
Qed.

Lemma num_start_plain a : num_start a = true -> is_space a = false /\ (byte_of a <? 128)%N = true.
Proof.
  unfold num_start, is_dec_digit. intro H. apply Bool.orb_true_iff in H. destruct H as [H|H].
  - apply andb_prop in H. destruct H as [H1 H2]. apply N.leb_le in H1. apply N.leb_le in H2.
    split; [|apply N.ltb_lt; lia].
    unfold is_space. cbv zeta.
    assert ((byte_of a <=? 13)%N = false) as E1 by (apply N.leb_gt; lia).
    assert ((byte_of a =? 32)%N = false) as E2 by (apply N.eqb_neq; lia).
    rewrite E1, E2, Bool.andb_false_r. reflexivity.
  - apply Ascii.eqb_eq in H. subst a. split; reflexivity.
Qed.

Lemma digit_num_start a : is_dec_digit a = true -> num_start a = true.
Proof. intro H. unfold num_start. rewrite H. reflexivity. Qed.

(* stop sets that contain no digit and no minus sign *)
Definition num_clear (stop : string) : Prop := forall a, num_start a = true -> mem_ascii a stop = false.

Lemma word_clear_digits r stop : num_clear stop -> all_digits r = true -> word_clear r stop = true.
Proof.
  intros Hc. induction r as [|a t IH]; [reflexivity|]. cbn [all_digits word_clear]. intro H.
  apply andb_prop in H. destruct H as [Ha Ht]. rewrite (Hc a (digit_num_start a Ha)), (IH Ht). reflexivity.
Qed.

Lemma word_clear_dec z stop : num_clear stop -> word_clear (dec z) stop = true.
Proof.
  intro Hc. destruct (dec_head z) as [a [r [E [Ha Hr]]]]. rewrite E. cbn [word_clear].
  rewrite (Hc a Ha), (word_clear_digits r stop Hc Hr). reflexivity.
Qed.

Lemma dec_trim z : trim_space (dec z) = dec z.
Proof.
  destruct (dec_head z) as [a [r [E [Hn Hr]]]]. unfold trim_space. rewrite E.
  destruct (num_start_plain a Hn) as [Hs Hb]. rewrite (trim_left_ascii a r Hs Hb). unfold trim_right.
  assert ((fix all (s : string) : Prop := match s with EmptyString => True | String k t => (is_space k = false /\ (byte_of k <? 128)%N = true) /\ all t end) r) as Pr.
  { clear -Hr. induction r as [|b r' IH]; [exact I|]. cbn [all_digits] in Hr. apply andb_prop in Hr. destruct Hr as [Hb Hr'].
    split; [apply num_start_plain; apply digit_num_start; exact Hb|exact (IH Hr')]. }
  destruct (rev_app_head_plain r a "" (conj Hs Hb) Pr) as [c [t [Er [Hc Hd]]]].
  assert (srev (String a r) = String c t) as Es by exact Er.
  rewrite Es. rewrite (trim_with_zero _ _ _ (space_suffix_ascii c t Hc Hd)). rewrite <- Es. apply srev_involutive.
Qed.

Lemma num_clear_of (stop : string) :
  (fix all (s : string) : bool := match s with EmptyString => true | String k r => negb (num_start k) && all r end) stop = true ->
  num_clear stop.
Proof.
  intros H a Ha. induction stop as [|k r IH]; [reflexivity|].
  apply andb_prop in H. destruct H as [Hk Hr]. apply Bool.negb_true_iff in Hk.
  cbn [mem_ascii]. rewrite (num_start_neq a k Ha Hk). exact (IH Hr).
Qed.

(** * the parser on printed documents *)
Section Roundtrip.
  Variable cfg : pcfg.
  Hypothesis Harr : c_array cfg = true.
  Hypothesis Hobj : c_object cfg = true.
  Hypothesis Hdq : c_dq cfg = true.

  (* stop sets under which the three words and the structural characters are no stop characters *)
  Definition stop_ok (stop : string) : Prop :=
    word_clear "null" stop = true /\ word_clear "true" stop = true /\ word_clear "false" stop = true /\
    num_clear stop.

  (* the statement for one value, at the fuel available for it *)
  Definition reads_back (f : nat) (v : jv) : Prop :=
    forall stop rest, stop_ok stop -> ok_rest stop rest ->
      parse_value cfg f (print v +++ rest) stop = POk (data v, rest).

  (* every printed value starts with a character that is no white space and not a closing bracket *)
  Definition head_ok (s : string) : Prop :=
    exists a r, s = String a r /\ is_space a = false /\ (byte_of a <? 128)%N = true /\
                Ascii.eqb a "]"%char = false /\ Ascii.eqb a "}"%char = false.

  Lemma print_head v rest : head_ok (print v +++ rest).
  Proof.
    destruct v as [|[|]|s|z|l|m]; cbn [print String.append];
      try (eexists _, _; (split; [reflexivity|]); repeat split; reflexivity).
    destruct (dec_head z) as [a [r [E [Ha _]]]]. rewrite E. cbn [String.append].
    destruct (num_start_plain a Ha) as [Hs Hb].
    exists a, (r +++ rest). split; [reflexivity|]. split; [exact Hs|]. split; [exact Hb|].
    split; apply (num_start_neq a _ Ha); reflexivity.
  Qed.

  Lemma trim_left_head s : head_ok s -> trim_left s = s.
  Proof. intros [a [r [E [Hs [Hb _]]]]]. subst s. apply trim_left_ascii; assumption. Qed.

  Lemma arr_loop_elems f : forall l acc n rest,
    l <> [] -> (List.length l <= n)%nat ->
    Forall (reads_back f) l ->
    arr_loop_of cfg f n (print_elems l +++ String "]"%char rest) acc
    = POk (PArr (rev acc ++ map data l), rest).
  Proof.
    induction l as [|x r IH]; intros acc n rest Hne Hn F; [contradiction|].
    inversion F as [|? ? Hx Fr]; subst.
    destruct n as [|n']; [simpl in Hn; lia|].
    assert (arrayElemStopSet = ",]") as SS by reflexivity.
    assert (stop_ok arrayElemStopSet) as SO by (rewrite SS; repeat split; try reflexivity; apply num_clear_of; reflexivity).
    destruct r as [|y r'].
    - (* the last element *)
      cbn [print_elems]. cbn [arr_loop_of].
      rewrite (trim_left_head _ (print_head x _)).
      destruct (print_head x (String "]"%char rest)) as [a [t [E [_ [_ [Hc _]]]]]]. rewrite E, Hc. rewrite <- E.
      rewrite (Hx arrayElemStopSet (String "]"%char rest) SO).
      2:{ right. exists "]"%char, rest. split; [reflexivity|rewrite SS; reflexivity]. }
      cbn [pbind fst snd]. cbv zeta.
      rewrite (trim_left_ascii "]"%char rest eq_refl eq_refl).
      change (Ascii.eqb "]"%char "]"%char) with true. cbv iota.
      cbn [rev map]. reflexivity.
    - (* an element followed by a comma *)
      change (print_elems (x :: y :: r')) with (print x +++ String ","%char (print_elems (y :: r'))).
      rewrite app_assoc_s. cbn [String.append].
      cbn [arr_loop_of].
      rewrite (trim_left_head _ (print_head x _)).
      destruct (print_head x (String ","%char (print_elems (y :: r') +++ String "]"%char rest))) as [a [t [E [_ [_ [Hc _]]]]]].
      rewrite E, Hc. rewrite <- E.
      rewrite (Hx arrayElemStopSet _ SO).
      2:{ right. eexists _, _. split; [reflexivity|rewrite SS; reflexivity]. }
      cbn [pbind fst snd]. cbv zeta.
      rewrite (trim_left_ascii ","%char _ eq_refl eq_refl).
      change (Ascii.eqb ","%char "]"%char) with false. change (Ascii.eqb ","%char ","%char) with true. cbv iota.
      rewrite (IH (data x :: acc) n' rest); [|discriminate|simpl in Hn |- *; lia|exact Fr].
      cbn [rev map]. rewrite <- app_assoc. reflexivity.
  Qed.

  Lemma obj_loop_mems f : forall m acc n rest,
    m <> [] -> (List.length m <= n)%nat ->
    Forall (fun kv => okstr (fst kv) = true /\ reads_back f (snd kv)) m ->
    obj_loop_of cfg f n (print_mems m +++ String "}"%char rest) acc
    = POk (PObj (obj_data acc m), rest).
  Proof.
    induction m as [|[k x] r IH]; intros acc n rest Hne Hn F; [contradiction|].
    inversion F as [|? ? [Hk Hx] Fr]; subst. simpl in Hk, Hx.
    destruct n as [|n']; [simpl in Hn; lia|].
    assert (objValueStopSet = ",}") as SS by reflexivity.
    assert (stop_ok objValueStopSet) as SO by (rewrite SS; repeat split; try reflexivity; apply num_clear_of; reflexivity).
    destruct r as [|[k2 y] r'].
    - cbn [print_mems]. cbn [String.append]. cbn [obj_loop_of].
      rewrite (trim_left_ascii """"%char _ eq_refl eq_refl).
      change (Ascii.eqb """"%char "}"%char) with false. cbv iota.
      unfold parse_key. change (Ascii.eqb """"%char """"%char) with true. cbv iota.
      rewrite app_assoc_s. cbn [String.append].
      rewrite (Hsp k _ Hk). cbn [pbind fst snd].
      rewrite (trim_left_ascii ":"%char _ eq_refl eq_refl).
      cbn [expect_char]. change (Ascii.eqb ":"%char ":"%char) with true. cbv iota. cbn [pbind].
      rewrite (Hx objValueStopSet (String "}"%char rest) SO).
      2:{ right. exists "}"%char, rest. split; [reflexivity|rewrite SS; reflexivity]. }
      cbn [pbind fst snd].
      rewrite (trim_left_ascii "}"%char rest eq_refl eq_refl). cbv zeta.
      change (Ascii.eqb "}"%char "}"%char) with true. cbv iota. reflexivity.
    - change (print_mems ((k, x) :: (k2, y) :: r'))
        with (String """"%char (sp k +++ String """"%char (String ":"%char (print x))) +++ String ","%char (print_mems ((k2, y) :: r'))).
      cbn [String.append]. cbn [obj_loop_of].
      rewrite (trim_left_ascii """"%char _ eq_refl eq_refl).
      change (Ascii.eqb """"%char "}"%char) with false. cbv iota.
      unfold parse_key. change (Ascii.eqb """"%char """"%char) with true. cbv iota.
      rewrite ?app_assoc_s. cbn [String.append]. rewrite ?app_assoc_s. cbn [String.append].
      rewrite (Hsp k _ Hk). cbn [pbind fst snd].
      rewrite (trim_left_ascii ":"%char _ eq_refl eq_refl).
      cbn [expect_char]. change (Ascii.eqb ":"%char ":"%char) with true. cbv iota. cbn [pbind].
      rewrite (Hx objValueStopSet _ SO).
      2:{ right. eexists _, _. split; [reflexivity|rewrite SS; reflexivity]. }
      cbn [pbind fst snd].
      rewrite (trim_left_ascii ","%char _ eq_refl eq_refl). cbv zeta.
      change (Ascii.eqb ","%char "}"%char) with false. change (Ascii.eqb ","%char ","%char) with true. cbv iota.
      rewrite (IH (dict_set k (data x) acc) n' rest); [|discriminate|simpl in Hn |- *; lia|exact Fr].
      reflexivity.
  Qed.
End Roundtrip.

(** * induction principle for the nested type *)
Section JInd.
  Variable P : jv -> Prop.
  Hypothesis Hnull : P JNull.
  Hypothesis Hbool : forall b, P (JBool b).
  Hypothesis Hstr : forall s, P (JStr s).
  Hypothesis Hint : forall z, P (JInt z).
  Hypothesis Harr : forall l, Forall P l -> P (JArr l).
  Hypothesis Hobj : forall m, Forall (fun kv => P (snd kv)) m -> P (JObj m).
  Fixpoint jv_ind' (v : jv) : P v :=
    match v with
    | JNull => Hnull | JBool b => Hbool b | JStr s => Hstr s | JInt z => Hint z
    | JArr l => Harr l ((fix go (l : list jv) : Forall P l :=
                           match l with [] => Forall_nil P | x :: r => Forall_cons x (jv_ind' x) (go r) end) l)
    | JObj m => Hobj m ((fix go (l : list (string * jv)) : Forall (fun kv => P (snd kv)) l :=
                           match l with
                           | [] => Forall_nil _
                           | (k, x) :: r => Forall_cons (k, x) (jv_ind' x) (go r)
                           end) m)
    end.
End JInd.

Lemma print_arr l : print (JArr l) = String "["%char (print_elems l +++ "]").
Proof. reflexivity. Qed.
Lemma print_obj m : print (JObj m) = String "{"%char (print_mems m +++ "}").
Proof. reflexivity. Qed.
Lemma jsize_arr l : jsize (JArr l) = S (List.length l + sum_sizes l).
Proof. reflexivity. Qed.
Lemma jsize_obj m : jsize (JObj m) = S (List.length m + sum_msizes m).
Proof. reflexivity. Qed.
Lemma wf_arr l : wf (JArr l) = forallb wf l.
Proof. induction l as [|x r IH]; [reflexivity|]. simpl in *. rewrite IH. reflexivity. Qed.
Lemma wf_obj m : wf (JObj m) = forallb (fun kv => okstr (fst kv) && wf (snd kv)) m.
Proof. induction m as [|[k x] r IH]; [reflexivity|]. simpl in *. rewrite IH. reflexivity. Qed.

Lemma in_sum_sizes x l : In x l -> jsize x <= sum_sizes l.
Proof.
  induction l as [|y r IH]; intro H; [destruct H|]. destruct H as [E|H]; simpl.
  - subst. fold (sum_sizes r). lia.
  - fold (sum_sizes r). specialize (IH H). lia.
Qed.
Lemma in_sum_msizes kv m : In kv m -> jsize (snd kv) <= sum_msizes m.
Proof.
  induction m as [|[k y] r IH]; intro H; [destruct H|]. destruct H as [E|H]; simpl.
  - subst. simpl. fold (sum_msizes r). lia.
  - fold (sum_msizes r). specialize (IH H). lia.
Qed.

Theorem parse_print cfg :
  c_array cfg = true -> c_object cfg = true -> c_dq cfg = true ->
  forall v, wf v = true -> forall f, jsize v < f -> reads_back cfg f v.
Proof.
  intros Ha Ho Hd.
  induction v as [|b|s|z|l IHl|m IHm] using jv_ind'; intros W f L stop rest [Sn [St [Sf Snum]]] R;
    (destruct f as [|f']; [lia|]); rewrite parse_value_unfold;
    rewrite (trim_left_head _ (print_head _ rest)).
  - (* null *)
    cbn [print String.append]. change (Ascii.eqb "n"%char "["%char) with false.
    change (Ascii.eqb "n"%char "{"%char) with false. change (Ascii.eqb "n"%char """"%char) with false.
    change (Ascii.eqb "n"%char "'"%char) with false. cbn [andb].
    apply (primitive_word "null" PNil rest stop); [discriminate|exact Sn|exact R|reflexivity|reflexivity].
  - destruct b.
    + cbn [print String.append]. change (Ascii.eqb "t"%char "["%char) with false.
      change (Ascii.eqb "t"%char "{"%char) with false. change (Ascii.eqb "t"%char """"%char) with false.
      change (Ascii.eqb "t"%char "'"%char) with false. cbn [andb].
      apply (primitive_word "true" (PBool true) rest stop); [discriminate|exact St|exact R|reflexivity|reflexivity].
    + cbn [print String.append]. change (Ascii.eqb "f"%char "["%char) with false.
      change (Ascii.eqb "f"%char "{"%char) with false. change (Ascii.eqb "f"%char """"%char) with false.
      change (Ascii.eqb "f"%char "'"%char) with false. cbn [andb].
      apply (primitive_word "false" (PBool false) rest stop); [discriminate|exact Sf|exact R|reflexivity|reflexivity].
  - (* strings *)
    cbn [print String.append]. change (Ascii.eqb """"%char "["%char) with false.
    change (Ascii.eqb """"%char "{"%char) with false. change (Ascii.eqb """"%char """"%char) with true.
    rewrite Hd. cbn [andb]. rewrite app_assoc_s. cbn [String.append].
    simpl in W. rewrite (Hsp s rest W). reflexivity.
  - (* integers *)
    cbn [print]. destruct (dec_head z) as [a [r [E [Hn Hr]]]].
    assert (parse_primitive (dec z +++ rest) stop = POk (data (JInt z), rest)) as PP.
    { apply (primitive_word (dec z) (data (JInt z)) rest stop).
      - rewrite E. discriminate.
      - apply word_clear_dec. exact Snum.
      - exact R.
      - apply dec_trim.
      - cbn [data]. apply primitive_of_dec. cbn [wf] in W. apply andb_prop in W. destruct W as [W1 W2].
        apply Z.leb_le in W1. apply Z.leb_le in W2. lia. }
    rewrite E in *. cbn [String.append] in *.
    rewrite (num_start_neq a "["%char Hn eq_refl), (num_start_neq a "{"%char Hn eq_refl),
            (num_start_neq a """"%char Hn eq_refl), (num_start_neq a "'"%char Hn eq_refl). cbn [andb].
    exact PP.
  - (* arrays *)
    rewrite print_arr. cbn [String.append]. change (Ascii.eqb "["%char "["%char) with true. rewrite Ha. cbn [andb].
    rewrite app_assoc_s. cbn [String.append].
    rewrite jsize_arr in L. rewrite wf_arr in W.
    destruct l as [|x r].
    + cbn [print_elems String.append arr_loop_of].
      rewrite (trim_left_ascii "]"%char rest eq_refl eq_refl).
      change (Ascii.eqb "]"%char "]"%char) with true. reflexivity.
    + rewrite (arr_loop_elems cfg f' (x :: r) [] (S f') rest); [reflexivity|discriminate|lia|].
      rewrite Forall_forall in *. intros y Hy. apply IHl; [exact Hy| |].
      * rewrite forallb_forall in W. apply W. exact Hy.
      * pose proof (in_sum_sizes y (x :: r) Hy). lia.
  - (* objects *)
    rewrite print_obj. cbn [String.append]. change (Ascii.eqb "{"%char "["%char) with false.
    change (Ascii.eqb "{"%char "{"%char) with true. rewrite Ho. cbn [andb].
    rewrite app_assoc_s. cbn [String.append].
    rewrite jsize_obj in L. rewrite wf_obj in W.
    destruct m as [|[k x] r].
    + cbn [print_mems String.append obj_loop_of].
      rewrite (trim_left_ascii "}"%char rest eq_refl eq_refl).
      change (Ascii.eqb "}"%char "}"%char) with true. reflexivity.
    + rewrite (obj_loop_mems cfg f' ((k, x) :: r) [] (S f') rest); [reflexivity|discriminate|lia|].
      rewrite Forall_forall in *. intros kv Hkv. rewrite forallb_forall in W. specialize (W kv Hkv).
      apply andb_prop in W. destruct W as [Wk Wx]. split; [exact Wk|].
      apply IHm; [exact Hkv|exact Wx|]. pose proof (in_sum_msizes kv ((k, x) :: r) Hkv). lia.
Qed.

(** * the whole document, as parse.Value / ValueWithConfig reads it *)
Lemma len_elems l : Forall (fun x => jsize x <= String.length (print x)) l ->
  sum_sizes l + List.length l <= String.length (print_elems l) + 1.
Proof.
  induction l as [|x r IH]; intro F; [simpl; lia|].
  inversion F as [|? ? Hx Fr]; subst. destruct r as [|y r'].
  - simpl. fold (sum_sizes []). simpl. lia.
  - change (print_elems (x :: y :: r')) with (print x +++ String ","%char (print_elems (y :: r'))).
    rewrite length_app_s. cbn [String.length]. specialize (IH Fr).
    change (sum_sizes (x :: y :: r')) with (jsize x + sum_sizes (y :: r')).
    cbn [List.length] in *. lia.
Qed.

Lemma len_mems m : Forall (fun kv => jsize (snd kv) <= String.length (print (snd kv))) m ->
  sum_msizes m + List.length m <= String.length (print_mems m) + 1.
Proof.
  induction m as [|[k x] r IH]; intro F; [simpl; lia|].
  inversion F as [|? ? Hx Fr]; subst. simpl in Hx. destruct r as [|[k2 y] r'].
  - cbn [print_mems String.length]. rewrite length_app_s. cbn [String.length].
    change (sum_msizes [(k, x)]) with (jsize x + 0). cbn [List.length]. lia.
  - change (print_mems ((k, x) :: (k2, y) :: r'))
      with (String """"%char (sp k +++ String """"%char (String ":"%char (print x))) +++ String ","%char (print_mems ((k2, y) :: r'))).
    rewrite length_app_s. cbn [String.length]. rewrite length_app_s. cbn [String.length]. specialize (IH Fr).
    change (sum_msizes ((k, x) :: (k2, y) :: r')) with (jsize x + sum_msizes ((k2, y) :: r')).
    cbn [List.length] in *. lia.
Qed.

Lemma jsize_le_length : forall v, jsize v <= String.length (print v).
Proof.
  induction v as [|b|s|z|l IHl|m IHm] using jv_ind'.
  - simpl. lia.
  - destruct b; simpl; lia.
  - simpl. lia.
  - cbn [print jsize]. destruct (dec_head z) as [a [r [E _]]]. rewrite E. cbn [String.length]. lia.
  - rewrite print_arr, jsize_arr. cbn [String.length]. rewrite length_app_s. cbn [String.length].
    pose proof (len_elems l IHl). lia.
  - rewrite print_obj, jsize_obj. cbn [String.length]. rewrite length_app_s. cbn [String.length].
    pose proof (len_mems m IHm). lia.
Qed.

Lemma rev_app_snoc x c : forall acc, rev_app (x +++ String c "") acc = String c (rev_app x acc).
Proof.
  induction x as [|a r IH]; intro acc; cbn [String.append rev_app]; [reflexivity|]. apply IH.
Qed.
Lemma srev_snoc x c : srev (x +++ String c "") = String c (srev x).
Proof. unfold srev. apply rev_app_snoc. Qed.

(* the last character of a printed document *)
Lemma print_last v : exists a r, srev (print v) = String a r /\ is_space a = false /\ (byte_of a <? 128)%N = true.
Proof.
  destruct v as [|[|]|s|z|l|m].
  - eexists _, _. split; [vm_compute; reflexivity|split; reflexivity].
  - eexists _, _. split; [vm_compute; reflexivity|split; reflexivity].
  - eexists _, _. split; [vm_compute; reflexivity|split; reflexivity].
  - exists """"%char, (srev (String """"%char (sp s))). split; [|split; reflexivity].
    cbn [print]. change (String """"%char (sp s +++ String """"%char "")) with ((String """"%char (sp s)) +++ String """"%char "").
    apply srev_snoc.
  - cbn [print]. destruct (dec_head z) as [a [r [E [Hn Hr]]]]. rewrite E.
    destruct (num_start_plain a Hn) as [Hs Hb].
    assert ((fix all (s : string) : Prop := match s with EmptyString => True | String k t => (is_space k = false /\ (byte_of k <? 128)%N = true) /\ all t end) r) as Pr.
    { clear -Hr. induction r as [|b r' IH]; [exact I|]. cbn [all_digits] in Hr. apply andb_prop in Hr. destruct Hr as [Hb Hr'].
      split; [apply num_start_plain; apply digit_num_start; exact Hb|exact (IH Hr')]. }
    exact (rev_app_head_plain r a "" (conj Hs Hb) Pr).
  - exists "]"%char, (srev (String "["%char (print_elems l))). split; [|split; reflexivity].
    rewrite print_arr. change (String "["%char (print_elems l +++ "]")) with ((String "["%char (print_elems l)) +++ String "]"%char "").
    apply srev_snoc.
  - exists "}"%char, (srev (String "{"%char (print_mems m))). split; [|split; reflexivity].
    rewrite print_obj. change (String "{"%char (print_mems m +++ "}")) with ((String "{"%char (print_mems m)) +++ String "}"%char "").
    apply srev_snoc.
Qed.

Lemma trim_space_print v : trim_space (print v) = print v.
Proof.
  unfold trim_space. pose proof (print_head v "") as H. rewrite append_nil_r in H.
  destruct H as [a [r [E [Hs [Hb _]]]]]. rewrite E. rewrite (trim_left_ascii a r Hs Hb). rewrite <- E.
  unfold trim_right. destruct (print_last v) as [c [t [Er [Hc Hd]]]]. rewrite Er.
  rewrite (trim_with_zero _ _ _ (space_suffix_ascii c t Hc Hd)). rewrite <- Er. apply srev_involutive.
Qed.

Theorem json_fragment_roundtrip cfg v :
  c_array cfg = true -> c_dq cfg = true -> c_object cfg = true ->
  wf v = true ->
  parse_value_with_config cfg (print v) = POk (data v).
Proof.
  intros Ha Hd Ho W. unfold parse_value_with_config. rewrite trim_space_print.
  unfold valid_cfg. rewrite Ha. cbn [orb negb]. cbn [parse_top].
  pose proof (parse_print cfg Ha Ho Hd v W (S (String.length (print v)))) as P.
  assert (jsize v < S (String.length (print v))) as L by (pose proof (jsize_le_length v); lia).
  specialize (P L (if c_nocomma cfg then "" else toplevelStopSet) "").
  rewrite append_nil_r in P. rewrite P.
  - cbn [pbind fst snd]. reflexivity.
  - destruct (c_nocomma cfg); repeat split; try reflexivity; apply num_clear_of; reflexivity.
  - left. reflexivity.
Qed.

End Doc.

(** the plain spelling: texts over the printable ASCII characters other than the quote and the backslash *)
Theorem json_fragment_roundtrip_plain cfg v :
  c_array cfg = true -> c_dq cfg = true -> c_object cfg = true ->
  wf safe_str v = true ->
  parse_value_with_config cfg (print (fun s => s) v) = POk (data v).
Proof.
  intros Ha Hd Ho W. apply (json_fragment_roundtrip (fun s => s) safe_str); try assumption.
  intros body rest Hb. apply parse_dquote_safe. exact Hb.
Qed.

(* non-vacuity: a nested document of the fragment *)
Example json_fragment_example :
  let v := JObj [("b", JArr [JNull; JBool true; JArr []; JObj [("x y", JStr "a{b}[c],:'d")]; JInt 18446744073709551615; JInt (-9223372036854775808)]);
                 ("a", JStr ""); ("n", JInt 0)] in
  wf safe_str v = true /\
  print (fun s => s) v = "{""b"":[null,true,[],{""x y"":""a{b}[c],:'d""},18446744073709551615,-9223372036854775808],""a"":"""",""n"":0}" /\
  parse_value_with_config DefaultConfig (print (fun s => s) v) = POk (data v) /\
  data v = PObj [("a", PStr ""); ("b", PArr [PNil; PBool true; PNil; PObj [("x y", PStr "a{b}[c],:'d")]; PUint 18446744073709551615; PInt (-9223372036854775808)]); ("n", PUint 0)].
Proof. vm_compute. repeat split; reflexivity. Qed.
