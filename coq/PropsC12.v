(* PropsC12.v — C12: path-addressed reads, writes and removals behave like a tree. *)
From Ucfg Require Import Base ParseInt Consts Field Tree PathOps Merge OTree Ops.
