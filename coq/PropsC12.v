(* PropsC12.v — C12: path-addressed reads, writes and removals behave like a tree.
   Statements only; proofs are in ProofsTree.v. *)
From Ucfg Require Import Base ParseInt Consts Field Tree PathOps Merge OTree Ops ProofsTree.

(* A value written at an address is read back unchanged from that address: for EVERY path
   (any mixture of names and indices, any depth), every tree, whether intermediate nodes
   existed before or are created by the write. *)
Theorem c12_read_after_write : forall mx rp fs pp node ov v node',
  fs <> [] ->
  set_path mx fs pp node ov v = Ok node' ->
  exists p', get_path_go rp fs pp node' = Ok (Some (p', v)).
Proof. exact set_path_get_path. Qed.
Print Assumptions c12_read_after_write.

(* Writes affect only the addressed setting, at one node: another name is untouched ... *)
Theorem c12_frame_other_name : forall mx n n' pp d a ov v node',
  n <> n' -> set_field mx (FName n) pp (VSub d a) ov v = Ok node' ->
  get_field (FName n') pp node' = get_field (FName n') pp (VSub d a).
Proof. exact set_field_name_other. Qed.
Print Assumptions c12_frame_other_name.

(* ... the named part and the list part of a node do not interfere ... *)
Theorem c12_frame_name_vs_index : forall mx n pp d a ov v node' i,
  set_field mx (FName n) pp (VSub d a) ov v = Ok node' ->
  get_field (FIdx i) pp node' = get_field (FIdx i) pp (VSub d a).
Proof. exact set_field_name_keeps_list. Qed.
Print Assumptions c12_frame_name_vs_index.

Theorem c12_frame_index_vs_name : forall mx i pp d a ov v node' n,
  set_field mx (FIdx i) pp (VSub d a) ov v = Ok node' ->
  get_field (FName n) pp node' = get_field (FName n) pp (VSub d a).
Proof. exact set_field_idx_keeps_dict. Qed.
Print Assumptions c12_frame_index_vs_name.

(* ... and in a list the entries below the old length other than the written one stay. *)
Theorem c12_frame_other_index : forall a idx e j,
  0 <= idx -> Z.of_nat j < lenZ (arr_of a) -> Z.of_nat j <> idx ->
  nth_opt (arr_of (arr_set_at a idx e)) j = nth_opt (arr_of a) j.
Proof. exact arr_set_at_other. Qed.
Print Assumptions c12_frame_other_index.

(* Writing past the end of a list pads with nils (named by their index). *)
Theorem c12_write_past_end_pads_nil : forall a idx e j,
  lenZ (arr_of a) <= j < idx ->
  nth_opt (arr_of (arr_set_at a idx e)) (Z.to_nat j) = Some (dec j, VNil).
Proof. exact arr_set_at_pads. Qed.
Print Assumptions c12_write_past_end_pads_nil.

Theorem c12_write_grows_exactly : forall a idx e,
  0 <= idx -> lenZ (arr_of (arr_set_at a idx e)) = Z.max (lenZ (arr_of a)) (idx + 1).
Proof. exact arr_set_at_length. Qed.
Print Assumptions c12_write_grows_exactly.

(* Removing from a list shifts the later elements down and leaves the earlier ones. *)
Theorem c12_remove_shifts_down : forall (l : list nv) i j,
  (i <= j)%nat -> nth_opt (del_nth l i) j = nth_opt l (S j).
Proof. exact (@del_nth_after nv). Qed.
Print Assumptions c12_remove_shifts_down.

Theorem c12_remove_keeps_earlier : forall (l : list nv) i j,
  (j < i)%nat -> nth_opt (del_nth l i) j = nth_opt l j.
Proof. exact (@del_nth_before nv). Qed.
Print Assumptions c12_remove_keeps_earlier.

(* Removing a named key makes it absent and touches no other key. *)
Theorem c12_remove_name : forall k (d : dict), NoDup (keys d) -> dict_get k (dict_del k d) = None.
Proof. exact (@dict_del_removes nv). Qed.
Print Assumptions c12_remove_name.

Theorem c12_remove_name_frame : forall k k' (d : dict), k <> k' -> dict_get k' (dict_del k d) = dict_get k' d.
Proof. exact (@dict_get_del_other nv). Qed.
Print Assumptions c12_remove_name_frame.

(* a write below something that is not an object is rejected (nothing is written) *)
Theorem c12_write_through_primitive_rejected : forall mx f pp v ov x,
  is_sub v = false -> exists r p, set_field mx f pp v ov x = Err r p.
Proof. exact set_field_non_config. Qed.
Print Assumptions c12_write_through_primitive_rejected.

(* Non-vacuity: a three-level write into an empty tree, read back. *)
Example c12_ex : exists t,
  set_path 1024 [FName "a"; FIdx 2; FName "b"] "" empty_cfg None (VInt 7) = Ok t /\
  get_path "" [FName "a"; FIdx 2; FName "b"] t = Ok (Some ("a.2.b", VInt 7)).
Proof. eexists. split; vm_compute; reflexivity. Qed.
