(* CorrC09.v — results never depend on map iteration order: the same machinery as C05,
   with the determinism property evaluated on the sets of observed outcomes. *)
From Ucfg Require Export CorrC05.

(* repeating a call yields one outcome: the same data, or the same kind of error *)
Definition same_outcome (a b : obs) : bool :=
  match a, b with
  | OE r _, OE s _ => ereason_eqb r s
  | OV x, OV y => data_equiv (strip_root x) (strip_root y)    (* the same data; nil = empty *)
  | _, _ => obs_eqb a b
  end.

Definition single_outcome (l : list obs) : bool :=
  match l with
  | [] => true
  | x :: r => forallb (same_outcome x) r
  end.

Definition prop_holds9 (c : case) : bool :=
  match c with
  | CNormSet _ _ observed | CDup _ _ observed | CRepeat _ observed => single_outcome observed
  | _ => true
  end.

Definition verdict9 (c : case) : N :=
  if skipped c then 8%N
  else ((if model_agrees c then 0 else 1) + (if prop_holds9 c then 0 else 2))%N.

Fixpoint run_cases (i : N) (cs : list case) : list (N * N * N) :=
  match cs with
  | [] => []
  | c :: r =>
    let v := verdict9 c in
    if (v =? 0)%N then run_cases (i + 1)%N r
    else (i, v, signature c) :: run_cases (i + 1)%N r
  end.
