(* Tree.v — the L1.5 tree model of a Config (ucfg.go, types.go): values, dictionaries,
   array parts, stored field names (ctx.field) kept on the container side. *)
From Ucfg Require Import Base ParseInt Consts Field.

(** Variable-expansion expressions (variables.go). *)
Inductive vexp :=
| EConst (s : string)
| ERef (p : list field) (sep : string)
| ESplice (ps : list vexp)
| ESingle (e : vexp) (sep : string)
| EDefault (l r : vexp) (sep : string)
| EAlt (l r : vexp) (sep : string)
| EErr (l r : vexp) (sep : string).

(** A value.  A sub-config has a dictionary part and an optional array part
    ([None] = nil slice, [Some []] = empty non-nil slice).  Every child is stored
    together with the field name the implementation keeps in its [ctx.field]. *)
Inductive value :=
| VNil
| VBool (b : bool)
| VInt (z : Z)
| VUint (z : Z)
| VFloat (bits : Z)
| VStr (s : string)
| VRef (p : list field) (sep : string)
| VSplice (e : vexp)
| VSub (d : list (string * (string * value))) (a : option (list (string * value))).

Definition nv := (string * value)%type.          (* stored name, value *)
Definition dict := list (string * nv).
Definition arr := list nv.

Definition empty_cfg : value := VSub [] None.

(** * Equality (boolean) *)
Fixpoint vexp_eqb (x y : vexp) {struct x} : bool :=
  match x, y with
  | EConst s, EConst t => String.eqb s t
  | ERef p s, ERef q t => list_eqb field_eqb p q && String.eqb s t
  | ESplice ps, ESplice qs =>
    (fix go (l1 l2 : list vexp) : bool :=
       match l1, l2 with
       | [], [] => true
       | a :: r1, b :: r2 => vexp_eqb a b && go r1 r2
       | _, _ => false
       end) ps qs
  | ESingle e s, ESingle f t => vexp_eqb e f && String.eqb s t
  | EDefault l r s, EDefault l2 r2 t => vexp_eqb l l2 && vexp_eqb r r2 && String.eqb s t
  | EAlt l r s, EAlt l2 r2 t => vexp_eqb l l2 && vexp_eqb r r2 && String.eqb s t
  | EErr l r s, EErr l2 r2 t => vexp_eqb l l2 && vexp_eqb r r2 && String.eqb s t
  | _, _ => false
  end.

Fixpoint value_eqb (x y : value) {struct x} : bool :=
  match x, y with
  | VNil, VNil => true
  | VBool a, VBool b => Bool.eqb a b
  | VInt a, VInt b => Z.eqb a b
  | VUint a, VUint b => Z.eqb a b
  | VFloat a, VFloat b => Z.eqb a b
  | VStr a, VStr b => String.eqb a b
  | VRef p s, VRef q t => list_eqb field_eqb p q && String.eqb s t
  | VSplice e, VSplice f => vexp_eqb e f
  | VSub d a, VSub d2 a2 =>
    (fix god (l1 l2 : list (string * (string * value))) : bool :=
       match l1, l2 with
       | [], [] => true
       | (k, (n, v)) :: r1, (k2, (n2, v2)) :: r2 =>
         String.eqb k k2 && String.eqb n n2 && value_eqb v v2 && god r1 r2
       | _, _ => false
       end) d d2
    &&
    match a, a2 with
    | None, None => true
    | Some l1, Some l2 =>
      (fix goa (l1 l2 : list (string * value)) : bool :=
         match l1, l2 with
         | [], [] => true
         | (n, v) :: r1, (n2, v2) :: r2 => String.eqb n n2 && value_eqb v v2 && goa r1 r2
         | _, _ => false
         end) l1 l2
    | _, _ => false
    end
  | _, _ => false
  end.

(** * Dictionaries: association lists kept sorted by key (byte order, as sort.Strings). *)
Fixpoint dict_get {A} (k : string) (d : list (string * A)) : option A :=
  match d with
  | [] => None
  | (k2, x) :: r => if String.eqb k k2 then Some x else dict_get k r
  end.

Fixpoint dict_set {A} (k : string) (x : A) (d : list (string * A)) : list (string * A) :=
  match d with
  | [] => [(k, x)]
  | (k2, y) :: r =>
    match String.compare k k2 with
    | Eq => (k, x) :: r
    | Lt => (k, x) :: (k2, y) :: r
    | Gt => (k2, y) :: dict_set k x r
    end
  end.

Fixpoint dict_del {A} (k : string) (d : list (string * A)) : list (string * A) :=
  match d with
  | [] => []
  | (k2, y) :: r => if String.eqb k k2 then r else (k2, y) :: dict_del k r
  end.

Definition dict_has {A} (k : string) (d : list (string * A)) : bool :=
  match dict_get k d with Some _ => true | None => false end.

(** * toConfig view *)
Inductive cfgview :=
| CV (d : dict) (a : option arr)     (* a sub-config, or a nil (fresh empty config) *)
| CVNot                               (* primitives: ErrTypeMismatch *)
| CVDyn.                              (* reference / splice: evaluated lazily (VarEval.v) *)

Definition to_cfg (v : value) : cfgview :=
  match v with
  | VSub d a => CV d a
  | VNil => CV [] None
  | VRef _ _ | VSplice _ => CVDyn
  | _ => CVNot
  end.

Definition is_nil (v : option value) : bool :=
  match v with None => true | Some VNil => true | _ => false end.
Definition is_sub (v : value) : bool := match v with VSub _ _ => true | _ => false end.

Definition arr_of (a : option arr) : arr := match a with Some l => l | None => [] end.

(** size, used as fuel bound *)
Fixpoint vsize (v : value) : nat :=
  match v with
  | VSub d a =>
    S (Nat.add
         ((fix gd (l : list (string * (string * value))) : nat :=
             match l with [] => O | (_, (_, x)) :: r => Nat.add (vsize x) (gd r) end) d)
         match a with
         | None => O
         | Some l => (fix ga (l : list (string * value)) : nat :=
                        match l with [] => O | (_, x) :: r => Nat.add (vsize x) (ga r) end) l
         end)
  | _ => 1%nat
  end.

(** names "0","1",... for a list starting at index i (fields.append / normalizeArray) *)
Fixpoint renumber (i : Z) (l : list nv) : list nv :=
  match l with
  | [] => []
  | (_, v) :: r => (dec i, v) :: renumber (i + 1) r
  end.

(** fields.setAt(idx, parent, v) on the array part; idx >= 0. Pads with nils named by
    their index. The stored name of the new element is [name]. *)
Fixpoint pad_nils (from : Z) (n : nat) : list nv :=
  match n with
  | O => []
  | S k => (dec from, VNil) :: pad_nils (from + 1) k
  end.

Definition arr_set_at (a : option arr) (idx : Z) (e : nv) : option arr :=
  let l := arr_of a in
  let len := lenZ l in
  if len <=? idx
  then Some (l ++ pad_nils len (Z.to_nat (idx - len)) ++ [e])
  else Some (set_nth l (Z.to_nat idx) e).

(** the path string of a child: parent path joined with the stored field name
    (context.path with separator "."); an empty stored name yields "" *)
Definition path_join (pp name : string) : string :=
  if String.eqb name "" then ""
  else if String.eqb pp "" then name else pp +++ "." +++ name.

(** PathOf: path of a potential field [f] below a config whose path is [pp] *)
Definition path_of (pp f : string) : string :=
  if String.eqb pp "" then f else pp +++ "." +++ f.
