(* ProofsMerge.v — lemmas about Merge.v (C01, C16). *)
From Ucfg Require Import Base ParseInt Consts Field Tree PathOps Merge OTree.

Section Plain.
  Variable o : mopts.

  Lemma merge_absent v : merge_plain o None v = Ok v.
  Proof. destruct v; reflexivity. Qed.

  Lemma merge_over_primitive ov v : to_cfg ov = CVNot -> merge_plain o (Some ov) v = Ok v.
  Proof. intros H. destruct v; cbn; rewrite H; reflexivity. Qed.

  (* a nil in B leaves a container of A in place *)
  Lemma merge_nil_keeps_container d a : merge_plain o (Some (VSub d a)) VNil = Ok (VSub d a).
  Proof. reflexivity. Qed.

  (* a nil in B over a nil in A is an (empty) container *)
  Lemma merge_nil_nil : merge_plain o (Some VNil) VNil = Ok empty_cfg.
  Proof. reflexivity. Qed.

  (* merging an empty config is the identity on the right ... *)
  Lemma merge_empty_r d a : merge_plain o (Some (VSub d a)) empty_cfg = Ok (VSub d a).
  Proof. reflexivity. Qed.

  Lemma merge_empty_list_r d a : merge_plain o (Some (VSub d a)) (VSub [] (Some [])) = Ok (VSub d a).
  Proof. reflexivity. Qed.
End Plain.
