#!/bin/sh
# Build the framework from files on disk only (offline): harness, generated constants, Coq project.
set -e
cd "$(dirname "$0")"
export GOFLAGS=-mod=mod GOPROXY=off GOSUMDB=off GOTOOLCHAIN=local
mkdir -p build evidence replays
export GOCACHE="$PWD/build/gocache"
cp /repo/go.sum harness/go.sum
(cd harness && go build -tags verif -o ../build/harness .)
./build/harness consts /repo build/Consts.v.tmp
cmp -s build/Consts.v.tmp coq/Consts.v || cp build/Consts.v.tmp coq/Consts.v
(cd coq && coq_makefile -f _CoqProject -o Makefile >/dev/null && timeout 3000 make -j16)
