#!/usr/bin/env python3
"""Regenerate MANIFEST.json from props.json (single source of truth for the checks)."""
import json, os
ROOT = os.path.dirname(os.path.abspath(__file__))
cfg = json.load(open(os.path.join(ROOT, "props.json")))
ids = [json.loads(l)["id"] for l in open(os.path.join(ROOT, "properties.jsonl"))]
checks, na = [], []
for pid in ids:
    P = cfg["props"].get(pid)
    if not P or P.get("unclaimed"):
        na.append({"property_id": pid, "reason": (P or {}).get("unclaimed", "check not built yet (work in progress; see DESIGN.md section 7 staging)")})
        continue
    checks.append({
        "property_id": pid,
        "quick_cmd": "./check %s --tier quick" % pid,
        "thorough_cmd": "./check %s --tier thorough" % pid,
        "evidence_file": "/verif/evidence/%s.json" % pid,
        "replay_cmd_template": "./replay %s {path}" % pid,
        "engine": "coq-model+correspondence",
        "level_claimed": {"category": P.get("level", "proof"), "text": P["level_text"], "design_ref": P.get("design_ref", "DESIGN.md section 4 " + pid)},
        "level_note": P["level_note"],
        "technique": P.get("technique", "Rocq/Coq 8.16 proof about a Gallina model + model/implementation correspondence check (vm_compute)"),
    })
m = {
    "version": 1,
    "setup_cmd": "./setup.sh",
    "hooks": {
        "guard": "verif",
        "enable": "go build -tags verif (harness module with replace github.com/elastic/go-ucfg => /repo)",
        "baseline_off_cmd": "cd /repo && GOFLAGS=-mod=mod GOPROXY=off GOSUMDB=off GOTOOLCHAIN=local go test -json -vet=off -count=1 -timeout 25m ./...",
        "source_commits": cfg.get("hook_commits", []),
        "add_only": True,
    },
    "engines": [{"name": "coq-model+correspondence", "path": "/verif/check",
                 "serves_properties": [c["property_id"] for c in checks],
                 "kind_free_text": "Coq 8.16.1 development /verif/coq (Gallina model of go-ucfg, theorems in Props*.v) + Go harness /verif/harness that runs /repo (tags verif) and emits cases evaluated by vm_compute against the model and the boolean form of each property"}],
    "checks": checks,
    "not_applicable": na,
    "notes": "Property theorems: coq/Props<ID>.v. Fix commits in /repo and known findings: known_findings.json. See DESIGN.md.",
}
json.dump(m, open(os.path.join(ROOT, "MANIFEST.json"), "w"), indent=1)
print("checks:", [c["property_id"] for c in checks], "unclaimed:", len(na))
