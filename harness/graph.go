package main

// Object graphs (streams C10, C11): contents, object identities, parent links, paths and reads
// of a config, observed through the verif hook; identities are renumbered per case.

import (
	"fmt"
	"runtime/debug"
	"sort"
	"strings"

	ucfg "github.com/elastic/go-ucfg"
)

func init() {
	register("C10", genC10)
}

type renamer struct {
	m map[uintptr]int
}

func newRenamer() *renamer { return &renamer{m: map[uintptr]int{0: 0}} }
func (r *renamer) id(p uintptr) int {
	if v, ok := r.m[p]; ok {
		return v
	}
	v := len(r.m)
	r.m[p] = v
	return v
}

func coqIds(n *ucfg.VerifNode, ren *renamer) string {
	switch n.Kind {
	case "sub":
		var d []string
		for _, k := range n.Keys {
			d = append(d, "("+coqStr(k)+", "+coqIds(n.Dict[k], ren)+")")
		}
		var a []string
		for _, c := range n.Arr {
			a = append(a, coqIds(c, ren))
		}
		return fmt.Sprintf("(INode %d %d %d %s %s)", ren.id(n.ID), ren.id(n.FieldsID), ren.id(n.ParentID), coqList(d), coqList(a))
	}
	return fmt.Sprintf("(ILeaf %d %d)", ren.id(n.ID), ren.id(n.ParentID))
}

func descIds(n *ucfg.VerifNode, ren *renamer) string {
	switch n.Kind {
	case "sub":
		var parts []string
		for _, k := range n.Keys {
			parts = append(parts, k+":"+descIds(n.Dict[k], ren))
		}
		for _, c := range n.Arr {
			parts = append(parts, descIds(c, ren))
		}
		return fmt.Sprintf("#%d/f%d^%d{%s}", ren.id(n.ID), ren.id(n.FieldsID), ren.id(n.ParentID), strings.Join(parts, " "))
	}
	return fmt.Sprintf("#%d^%d", ren.id(n.ID), ren.id(n.ParentID))
}

// readsOf: what every setting of c reads as (String through the getter), or the error reason
func readsOf(c *ucfg.Config, opts []ucfg.Option) [][2]string {
	var out [][2]string
	var keys []string
	if p, _ := guard(func() { keys = c.FlattenedKeys(opts...) }); p {
		return [][2]string{{"<FlattenedKeys>", "PANIC"}}
	}
	sort.Strings(keys)
	for _, k := range keys {
		var s string
		var err error
		if p, _ := guard(func() { s, err = c.String(k, -1, opts...) }); p {
			out = append(out, [2]string{k, "PANIC"})
			continue
		}
		if err != nil {
			if e, ok := err.(ucfg.Error); ok {
				s = "error " + reasonName(e)
			} else {
				s = "error (untyped)"
			}
		}
		out = append(out, [2]string{k, s})
	}
	return out
}

type snapT struct {
	coq  string
	desc map[string]interface{}
}

func snapshot(c *ucfg.Config, ren *renamer, opts []ucfg.Option) snapT {
	n := ucfg.VerifDump(c)
	reads := readsOf(c, opts)
	rs := make([]string, len(reads))
	for i, r := range reads {
		rs[i] = "(" + coqStr(r[0]) + ", " + coqStr(r[1]) + ")"
	}
	path := c.Path(".")
	return snapT{
		coq: fmt.Sprintf("{| sn_tree := %s; sn_ids := %s; sn_path := %s; sn_reads := %s |}", coqValue(n), coqIds(n, ren), coqStr(path), coqList(rs)),
		desc: map[string]interface{}{"tree": descValue(n), "objects": descIds(n, ren), "path": path, "reads": reads},
	}
}

// a small edit of a config: a write, a removal, or a merge of another map
func randEdit(r *Rng, c *ucfg.Config, tc TreeCfg, opts []ucfg.Option) string {
	names := []string{"a", "b", "l", "a.b", "a.l", "l.0", "l.1", "e", "e.x", "e.0", "n", "n.k"}
	name := names[r.Intn(len(names))]
	idx := []int{-1, -1, -1, 0, 1}[r.Intn(5)]
	var err error
	var what string
	switch r.Intn(5) {
	case 0:
		what = fmt.Sprintf("SetString(%q,%d,\"w\")", name, idx)
		err = c.SetString(name, idx, "w", opts...)
	case 1:
		what = fmt.Sprintf("SetInt(%q,%d,7)", name, idx)
		err = c.SetInt(name, idx, 7, opts...)
	case 2:
		what = fmt.Sprintf("Remove(%q,%d)", name, idx)
		_, err = c.Remove(name, idx, opts...)
	case 3:
		m := randMap(r, tc, 1)
		what = "Merge(" + descTree(m) + ")"
		err = c.Merge(m, opts...)
	default:
		m := randMap(r, tc, 2)
		what = fmt.Sprintf("SetChild(%q,%d,%s)", name, idx, descTree(m))
		sub, e2 := ucfg.NewFrom(m, opts...)
		if e2 == nil {
			err = c.SetChild(name, idx, sub, opts...)
		}
	}
	if err != nil {
		what += " -> error"
	}
	return what
}

// buildSource builds the source config and the value handed to Merge: directly a root config,
// a child of a larger config, or embedded in a map / list / struct.
type c10Source struct {
	cfg      *ucfg.Config // the config observed as "the source"
	from     interface{}  // what is passed to Merge
	embedded bool
	how      string
}

func buildSource(r *Rng, data map[string]interface{}, mode int, opts []ucfg.Option) (c10Source, bool) {
	switch mode {
	case 0: // a root config, passed directly
		c, err := ucfg.NewFrom(data, opts...)
		if err != nil {
			return c10Source{}, false
		}
		return c10Source{cfg: c, from: c, how: "root config"}, true
	case 1: // a child of a larger config, passed directly
		outer, err := ucfg.NewFrom(map[string]interface{}{"s": data, "other": "o"}, opts...)
		if err != nil {
			return c10Source{}, false
		}
		c, err := outer.Child("s", -1, opts...)
		if err != nil {
			return c10Source{}, false
		}
		return c10Source{cfg: c, from: c, how: "child config"}, true
	case 2: // a root config inside a map
		c, err := ucfg.NewFrom(data, opts...)
		if err != nil {
			return c10Source{}, false
		}
		return c10Source{cfg: c, from: map[string]interface{}{"x": c, "y": "v"}, embedded: true, how: "root config in a map"}, true
	case 3: // a child config inside a list inside a map
		outer, err := ucfg.NewFrom(map[string]interface{}{"s": data}, opts...)
		if err != nil {
			return c10Source{}, false
		}
		c, err := outer.Child("s", -1, opts...)
		if err != nil {
			return c10Source{}, false
		}
		return c10Source{cfg: c, from: map[string]interface{}{"l": []interface{}{"first", c}}, embedded: true, how: "child config in a list"}, true
	default: // a root config in a struct field
		c, err := ucfg.NewFrom(data, opts...)
		if err != nil {
			return c10Source{}, false
		}
		return c10Source{cfg: c, from: struct {
			X *ucfg.Config `config:"x"`
			N int          `config:"n"`
		}{c, 3}, embedded: true, how: "root config in a struct field"}, true
	}
}

func genC10(g *Gen) {
	debug.SetGCPercent(-1) // identities are addresses: nothing may be freed and reused within a run
	r := g.R
	tc := TreeCfg{Keys: []string{"a", "b", "e", "l", "n"}, MaxDepth: 3, MaxWidth: 3, PNil: 2, PEmpty: 3}
	for i := 0; i < g.N; i++ {
		opts := []ucfg.Option{ucfg.PathSep(".")}
		varexp := r.P(1, 3)
		if varexp {
			opts = append(opts, ucfg.VarExp)
		}
		srcData := randMap(r, tc, 0)
		if r.Bool() {
			srcData["e"] = map[string]interface{}{} // an empty namespace
		}
		if r.P(1, 3) {
			srcData["l"] = []interface{}{}
		}
		if varexp {
			srcData["r"] = "${a}"
			srcData["q"] = "x-${b:dflt}"
		}
		dstData := mutateTree(r, tc, srcData, 0).(map[string]interface{})
		if r.P(1, 4) {
			dstData = randMap(r, tc, 0)
		}
		if varexp && r.Bool() {
			dstData["r"] = map[string]interface{}{"k": uint64(1)} // a namespace where the source has a reference
		}
		pol := r.Intn(len(policyOpts))
		mode := r.Intn(5)
		g.Mark(map[string]interface{}{"src": encTree(srcData), "dst": encTree(dstData), "policy": policyOpts[pol].name, "mode": mode, "varexp": varexp})

		src, ok := buildSource(r, srcData, mode, opts)
		clone, ok2 := buildSource(r, srcData, mode, opts) // the same construction, used only to show the model what Merge sees
		dst, err := ucfg.NewFrom(dstData, opts...)
		if !ok || !ok2 || err != nil {
			g.Skip("not built")
			continue
		}
		mo := append([]ucfg.Option{}, opts...)
		if p := policyOpts[pol]; p.opt != nil {
			mo = append(mo, p.opt)
		}
		srcn, nerr := ucfg.VerifNormalize(clone.from, mo...)
		if nerr != nil {
			g.Skip("source does not normalize")
			continue
		}
		ren := newRenamer()
		dstBefore := snapshot(dst, ren, opts)
		srcBefore := snapshot(src.cfg, ren, opts)
		var merr error
		panicked, pmsg := guard(func() { merr = dst.Merge(src.from, mo...) })
		if panicked {
			g.Add(Case{Coq: "CMerge10 0 false VNil " + dstBefore.coq + " " + srcBefore.coq + " " + srcBefore.coq + " " + dstBefore.coq + " true [{| fo_on_src := true; fo_what := \"PANIC\"; fo_src := " + dstBefore.coq + "; fo_dst := " + dstBefore.coq + " |}]",
				Desc: map[string]interface{}{"kind": "merge", "panic": pmsg}, Tags: []string{"panic"}, Nontrivial: true})
			continue
		}
		srcAfter := snapshot(src.cfg, ren, opts)
		dstAfter := snapshot(dst, ren, opts)
		var follows []string
		var fdesc []interface{}
		k := 1 + r.Intn(3)
		for j := 0; j < k; j++ {
			onSrc := r.Bool()
			var what string
			if onSrc {
				what = randEdit(r, src.cfg, tc, opts)
			} else {
				what = randEdit(r, dst, tc, opts)
			}
			s := snapshot(src.cfg, ren, opts)
			d := snapshot(dst, ren, opts)
			follows = append(follows, fmt.Sprintf("{| fo_on_src := %s; fo_what := %s; fo_src := %s; fo_dst := %s |}", coqBool(onSrc), coqStr(what), s.coq, d.coq))
			fdesc = append(fdesc, map[string]interface{}{"on_source": onSrc, "op": what, "source": s.desc, "destination": d.desc})
		}
		g.Add(Case{Coq: fmt.Sprintf("CMerge10 %d%%N %s %s %s %s %s %s %s %s", policyOpts[pol].h, coqBool(src.embedded), coqValue(srcn),
			dstBefore.coq, srcBefore.coq, srcAfter.coq, dstAfter.coq, coqBool(merr != nil), coqList(follows)),
			Desc: map[string]interface{}{"kind": "merge", "source is": src.how, "policy": policyOpts[pol].name, "varexp": varexp,
				"merge error": merr != nil, "destination before": dstBefore.desc, "source before": srcBefore.desc, "source after": srcAfter.desc,
				"destination after": dstAfter.desc, "then": fdesc,
				"replay": map[string]interface{}{"src": encTree(srcData), "dst": encTree(dstData), "policy": policyOpts[pol].name, "mode": mode, "varexp": varexp}},
			Tags: []string{"source:" + src.how, "policy:" + policyOpts[pol].name, fmt.Sprintf("follows=%d", k), fmt.Sprintf("varexp=%v", varexp)}, Nontrivial: true})
	}
}
