package main

// Object graphs (streams C10, C11): contents, object identities, parent links, paths and reads
// of a config, observed through the verif hook; identities are renumbered per case.

import (
	"regexp"
	"fmt"
	"runtime"
	"runtime/debug"
	"sort"
	"strings"

	ucfg "github.com/elastic/go-ucfg"
	"github.com/elastic/go-ucfg/cfgutil"
	"github.com/elastic/go-ucfg/parse"
)

type ucfgParseConfig = parse.Config

var parseDefault = parse.DefaultConfig

func init() {
	register("C10", genC10)
}

type renamer struct {
	m map[uintptr]int
}

func newRenamer() *renamer { return &renamer{m: map[uintptr]int{0: 0}} }
func (r *renamer) id(p uintptr) int {
	if v, ok := r.m[p]; ok {
		return v
	}
	v := len(r.m)
	r.m[p] = v
	return v
}

func coqIds(n *ucfg.VerifNode, ren *renamer) string {
	switch n.Kind {
	case "sub":
		var d []string
		for _, k := range n.Keys {
			d = append(d, "("+coqStr(k)+", "+coqIds(n.Dict[k], ren)+")")
		}
		var a []string
		for _, c := range n.Arr {
			a = append(a, coqIds(c, ren))
		}
		return fmt.Sprintf("(INode %d %d %d %s %s)", ren.id(n.ID), ren.id(n.FieldsID), ren.id(n.ParentID), coqList(d), coqList(a))
	}
	return fmt.Sprintf("(ILeaf %d %d)", ren.id(n.ID), ren.id(n.ParentID))
}

func descIds(n *ucfg.VerifNode, ren *renamer) string {
	switch n.Kind {
	case "sub":
		var parts []string
		for _, k := range n.Keys {
			parts = append(parts, k+":"+descIds(n.Dict[k], ren))
		}
		for _, c := range n.Arr {
			parts = append(parts, descIds(c, ren))
		}
		return fmt.Sprintf("#%d/f%d^%d{%s}", ren.id(n.ID), ren.id(n.FieldsID), ren.id(n.ParentID), strings.Join(parts, " "))
	}
	return fmt.Sprintf("#%d^%d", ren.id(n.ID), ren.id(n.ParentID))
}

// readsOf: what every setting of c reads as (String through the getter), or the error reason
func readsOf(c *ucfg.Config, opts []ucfg.Option) [][2]string {
	var out [][2]string
	var keys []string
	if p, _ := guard(func() { keys = c.FlattenedKeys(opts...) }); p {
		return [][2]string{{"<FlattenedKeys>", "PANIC"}}
	}
	sort.Strings(keys)
	for _, k := range keys {
		var s string
		var err error
		if p, _ := guard(func() { s, err = c.String(k, -1, opts...) }); p {
			out = append(out, [2]string{k, "PANIC"})
			continue
		}
		if err != nil {
			if e, ok := err.(ucfg.Error); ok {
				s = "error " + reasonName(e)
			} else {
				s = "error (untyped)"
			}
		}
		out = append(out, [2]string{k, s})
	}
	return out
}

type snapT struct {
	coq  string
	desc map[string]interface{}
}

func snapshot(c *ucfg.Config, ren *renamer, opts []ucfg.Option) snapT {
	n := ucfg.VerifDump(c)
	reads := readsOf(c, opts)
	rs := make([]string, len(reads))
	for i, r := range reads {
		rs[i] = "(" + coqStr(r[0]) + ", " + coqStr(r[1]) + ")"
	}
	path := c.Path(".")
	return snapT{
		coq: fmt.Sprintf("{| sn_tree := %s; sn_ids := %s; sn_path := %s; sn_reads := %s |}", coqValue(n), coqIds(n, ren), coqStr(path), coqList(rs)),
		desc: map[string]interface{}{"tree": descValue(n), "objects": descIds(n, ren), "path": path, "reads": reads},
	}
}

// a small edit of a config: a write, a removal, or a merge of another map
func randEdit(r *Rng, c *ucfg.Config, tc TreeCfg, opts []ucfg.Option) string {
	names := []string{"a", "b", "l", "a.b", "a.l", "l.0", "l.1", "e", "e.x", "e.0", "n", "n.k"}
	name := names[r.Intn(len(names))]
	idx := []int{-1, -1, -1, 0, 1}[r.Intn(5)]
	var err error
	var what string
	switch r.Intn(5) {
	case 0:
		what = fmt.Sprintf("SetString(%q,%d,\"w\")", name, idx)
		err = c.SetString(name, idx, "w", opts...)
	case 1:
		what = fmt.Sprintf("SetInt(%q,%d,7)", name, idx)
		err = c.SetInt(name, idx, 7, opts...)
	case 2:
		what = fmt.Sprintf("Remove(%q,%d)", name, idx)
		_, err = c.Remove(name, idx, opts...)
	case 3:
		m := randMap(r, tc, 1)
		what = "Merge(" + descTree(m) + ")"
		err = c.Merge(m, opts...)
	default:
		m := randMap(r, tc, 2)
		what = fmt.Sprintf("SetChild(%q,%d,%s)", name, idx, descTree(m))
		sub, e2 := ucfg.NewFrom(m, opts...)
		if e2 == nil {
			err = c.SetChild(name, idx, sub, opts...)
		}
	}
	if err != nil {
		what += " -> error"
	}
	return what
}

// buildSource builds the source config and the value handed to Merge: directly a root config,
// a child of a larger config, or embedded in a map / list / struct.
type c10Source struct {
	cfg      *ucfg.Config // the config observed as "the source"
	from     interface{}  // what is passed to Merge
	embedded bool
	how      string
}

func buildSource(r *Rng, data map[string]interface{}, mode int, opts []ucfg.Option) (c10Source, bool) {
	switch mode {
	case 0: // a root config, passed directly
		c, err := ucfg.NewFrom(data, opts...)
		if err != nil {
			return c10Source{}, false
		}
		return c10Source{cfg: c, from: c, how: "root config"}, true
	case 1: // a child of a larger config, passed directly
		outer, err := ucfg.NewFrom(map[string]interface{}{"s": data, "other": "o"}, opts...)
		if err != nil {
			return c10Source{}, false
		}
		c, err := outer.Child("s", -1, opts...)
		if err != nil {
			return c10Source{}, false
		}
		return c10Source{cfg: c, from: c, how: "child config"}, true
	case 2: // a root config inside a map
		c, err := ucfg.NewFrom(data, opts...)
		if err != nil {
			return c10Source{}, false
		}
		return c10Source{cfg: c, from: map[string]interface{}{"x": c, "y": "v"}, embedded: true, how: "root config in a map"}, true
	case 3: // a child config inside a list inside a map
		outer, err := ucfg.NewFrom(map[string]interface{}{"s": data}, opts...)
		if err != nil {
			return c10Source{}, false
		}
		c, err := outer.Child("s", -1, opts...)
		if err != nil {
			return c10Source{}, false
		}
		return c10Source{cfg: c, from: map[string]interface{}{"l": []interface{}{"first", c}}, embedded: true, how: "child config in a list"}, true
	case 5, 6: // a root config in a map, next to dotted keys that extend what it holds
		c, err := ucfg.NewFrom(data, opts...)
		if err != nil {
			return c10Source{}, false
		}
		from := map[string]interface{}{"x": c, "x.zz": uint64(1)}
		if mode == 6 {
			from = map[string]interface{}{"x": c, "x.n.zz": "deep", "x.e": map[string]interface{}{"k": true}, "x.l.5": "far"}
		}
		how := "root config in a map, extended by dotted keys"
		if r.Bool() {
			from["x"] = *c // held by value: not addressable, taken as a copy of the header
			how = "root config BY VALUE in a map, extended by dotted keys"
		}
		return c10Source{cfg: c, from: from, embedded: true, how: how}, true
	default: // a root config in a struct field
		c, err := ucfg.NewFrom(data, opts...)
		if err != nil {
			return c10Source{}, false
		}
		return c10Source{cfg: c, from: struct {
			X *ucfg.Config `config:"x"`
			N int          `config:"n"`
		}{c, 3}, embedded: true, how: "root config in a struct field"}, true
	}
}

func genC10(g *Gen) {
	debug.SetGCPercent(-1) // identities are addresses: nothing may be freed and reused within a run
	r := g.R
	tc := TreeCfg{Keys: []string{"a", "b", "e", "l", "n"}, MaxDepth: 3, MaxWidth: 3, PNil: 2, PEmpty: 3}
	for i := 0; i < g.N; i++ {
		runtime.GC() // between cases only: within a case no object may be freed and its address reused
		opts := []ucfg.Option{ucfg.PathSep(".")}
		varexp := r.P(1, 3)
		if varexp {
			opts = append(opts, ucfg.VarExp)
		}
		srcData := randMap(r, tc, 0)
		if r.Bool() {
			srcData["e"] = map[string]interface{}{} // an empty namespace
		}
		if r.P(1, 3) {
			srcData["l"] = []interface{}{}
		}
		if varexp {
			srcData["r"] = "${a}"
			srcData["q"] = "x-${b:dflt}"
		}
		dstData := mutateTree(r, tc, srcData, 0).(map[string]interface{})
		if r.P(1, 4) {
			dstData = randMap(r, tc, 0)
		}
		if varexp && r.Bool() {
			dstData["r"] = map[string]interface{}{"k": uint64(1)} // a namespace where the source has a reference
		}
		pol := r.Intn(len(policyOpts))
		mode := r.Intn(7)
		g.Mark(map[string]interface{}{"src": encTree(srcData), "dst": encTree(dstData), "policy": policyOpts[pol].name, "mode": mode, "varexp": varexp})

		src, ok := buildSource(r, srcData, mode, opts)
		clone, ok2 := buildSource(r, srcData, mode, opts) // the same construction, used only to show the model what Merge sees
		dst, err := ucfg.NewFrom(dstData, opts...)
		if !ok || !ok2 || err != nil {
			g.Skip("not built")
			continue
		}
		mo := append([]ucfg.Option{}, opts...)
		if p := policyOpts[pol]; p.opt != nil {
			mo = append(mo, p.opt)
		}
		srcn, nerr := ucfg.VerifNormalize(clone.from, mo...)
		if nerr != nil {
			g.Skip("source does not normalize")
			continue
		}
		ren := newRenamer()
		dstBefore := snapshot(dst, ren, opts)
		srcBefore := snapshot(src.cfg, ren, opts)
		var merr error
		panicked, pmsg := guard(func() { merr = dst.Merge(src.from, mo...) })
		if panicked {
			g.Add(Case{Coq: "CMerge10 0 false VNil " + dstBefore.coq + " " + srcBefore.coq + " " + srcBefore.coq + " " + dstBefore.coq + " true [{| fo_on_src := true; fo_what := \"PANIC\"; fo_src := " + dstBefore.coq + "; fo_dst := " + dstBefore.coq + " |}]",
				Desc: map[string]interface{}{"kind": "merge", "panic": pmsg}, Tags: []string{"panic"}, Nontrivial: true})
			continue
		}
		srcAfter := snapshot(src.cfg, ren, opts)
		dstAfter := snapshot(dst, ren, opts)
		var follows []string
		var fdesc []interface{}
		k := 1 + r.Intn(3)
		for j := 0; j < k; j++ {
			onSrc := r.Bool()
			var what string
			if onSrc {
				what = randEdit(r, src.cfg, tc, opts)
			} else {
				what = randEdit(r, dst, tc, opts)
			}
			s := snapshot(src.cfg, ren, opts)
			d := snapshot(dst, ren, opts)
			follows = append(follows, fmt.Sprintf("{| fo_on_src := %s; fo_what := %s; fo_src := %s; fo_dst := %s |}", coqBool(onSrc), coqStr(what), s.coq, d.coq))
			fdesc = append(fdesc, map[string]interface{}{"on_source": onSrc, "op": what, "source": s.desc, "destination": d.desc})
		}
		g.Add(Case{Coq: fmt.Sprintf("CMerge10 %d%%N %s %s %s %s %s %s %s %s", policyOpts[pol].h, coqBool(src.embedded), coqValue(srcn),
			dstBefore.coq, srcBefore.coq, srcAfter.coq, dstAfter.coq, coqBool(merr != nil), coqList(follows)),
			Desc: map[string]interface{}{"kind": "merge", "source is": src.how, "policy": policyOpts[pol].name, "varexp": varexp,
				"merge error": merr != nil, "destination before": dstBefore.desc, "source before": srcBefore.desc, "source after": srcAfter.desc,
				"destination after": dstAfter.desc, "then": fdesc,
				"replay": map[string]interface{}{"src": encTree(srcData), "dst": encTree(dstData), "policy": policyOpts[pol].name, "mode": mode, "varexp": varexp}},
			Tags: []string{"source:" + src.how, "policy:" + policyOpts[pol].name, fmt.Sprintf("follows=%d", k), fmt.Sprintf("varexp=%v", varexp)}, Nontrivial: true})
	}
	aliasCases(g, tc)
	indepCases(g, tc)
	collectorCases(g, tc)
}

// indepCases: configs whose root (or the child that is merged into) is a LIST: no dictionary
// level above the merged entries takes a copy on the way.  After the merge an operation on one
// side must leave the data of the other side as it is.
func indepCases(g *Gen, tc TreeCfg) {
	r := g.R
	entry := func() interface{} {
		switch r.Intn(4) {
		case 0:
			return randMap(r, tc, 1)
		case 1:
			return []interface{}{randScalar(r), randMap(r, tc, 2)}
		case 2:
			if r.Bool() {
				return []string{"${1}", "${0}", "${0.a}", "x${2}"}[r.Intn(4)]
			}
			return randScalar(r)
		default:
			return randScalar(r)
		}
	}
	list := func() []interface{} {
		l := make([]interface{}, 1+r.Intn(3))
		for i := range l {
			l[i] = entry()
		}
		return l
	}
	data := func(c *ucfg.Config, opts []ucfg.Option) string {
		// what the config holds, the names it lists, and where its entries say they are
		out := map[string]interface{}{}
		u, err := unpackAny(c, opts...)
		if err != nil {
			out["data"] = "error: " + err.Error()
		} else {
			out["data"] = u
		}
		var keys []interface{}
		for _, k := range c.FlattenedKeys(opts...) {
			keys = append(keys, k)
		}
		out["keys"] = keys
		var paths []interface{}
		for i := 0; i < 4; i++ {
			if ch, err := c.Child("", i, opts...); err == nil && ch != nil {
				paths = append(paths, fmt.Sprintf("%d:%s", i, ch.Path(".")))
			}
		}
		out["paths"] = paths
		return coqOTree(out)
	}
	names := []string{"0", "1", "0.a", "0.b", "1.a", "0.0", "0.1", "0.1.a", "2", "0.l.0"}
	edit := func(c *ucfg.Config, opts []ucfg.Option) string {
		name := names[r.Intn(len(names))]
		switch r.Intn(3) {
		case 0:
			c.SetString(name, -1, "edited", opts...)
			return "SetString(" + name + ")"
		case 1:
			c.Remove(name, -1, opts...)
			return "Remove(" + name + ")"
		default:
			c.SetInt(name, -1, 42, opts...)
			return "SetInt(" + name + ")"
		}
	}
	for i := 0; i < g.N/3+4; i++ {
		opts := []ucfg.Option{ucfg.PathSep("."), ucfg.VarExp}
		dl, sl := list(), list()
		pol := r.Intn(len(policyOpts))
		if i%3 == 0 {
			// at one index the destination holds a plain value and the source an object or a list,
			// merged index by index (the default policy): what arrives is a copy
			dl[0] = randScalar(r)
			if dl[0] == nil {
				dl[0] = "plain"
			}
			if r.Bool() {
				sl[0] = randMap(r, tc, 1)
			} else {
				sl[0] = []interface{}{randScalar(r), randMap(r, tc, 2)}
			}
			pol = 0
		}
		if i%3 == 1 {
			// the other way round: the destination holds a namespace where the source holds a plain
			// value or a reference (what arrives there is the source's value object unless copied)
			for len(dl) < 2 {
				dl = append(dl, randScalar(r))
			}
			for len(sl) < 3 {
				sl = append(sl, randScalar(r))
			}
			dl[1] = randMap(r, tc, 1)
			if r.Bool() {
				dl[1] = []interface{}{randScalar(r), randMap(r, tc, 2)}
			}
			sl[1] = []interface{}{"${2}", "plain", uint64(7), "x${0}"}[r.Intn(4)]
			pol = 0
		}
		mo := append([]ucfg.Option{}, opts...)
		if p := policyOpts[pol]; p.opt != nil {
			mo = append(mo, p.opt)
		}
		g.Mark(map[string]interface{}{"dst": encTree(dl), "src": encTree(sl), "policy": policyOpts[pol].name})
		var dst, src *ucfg.Config
		var err1, err2 error
		how := "list roots"
		if r.Bool() {
			dst, err1 = ucfg.NewFrom(dl, opts...)
		} else {
			how = "a list child"
			var outer *ucfg.Config
			outer, err1 = ucfg.NewFrom(map[string]interface{}{"inputs": dl, "k": "v"}, opts...)
			if err1 == nil {
				dst, err1 = outer.Child("inputs", -1, opts...)
			}
		}
		src, err2 = ucfg.NewFrom(sl, opts...)
		if err1 != nil || err2 != nil || dst == nil {
			g.Skip("not built")
			continue
		}
		var from interface{} = src
		if r.P(1, 3) {
			from = []interface{}{src} // the source config as an entry of a list
			how += ", source embedded in a list"
		}
		desc := map[string]interface{}{"kind": "independence", "how": how, "dst": descTree(dl), "src": descTree(sl), "policy": policyOpts[pol].name}
		add := func(what string, before, after string) {
			g.Add(Case{Coq: fmt.Sprintf("CIndep10 %s %s %s", coqStr(what), before, after),
				Desc: map[string]interface{}{"kind": "independence", "what": what, "setup": desc}, Tags: []string{"independence"}, Nontrivial: true})
		}
		sb := data(src, opts)
		var merr error
		if p, _ := guard(func() { merr = dst.Merge(from, mo...) }); p {
			add("PANIC in Merge", "ONil", "(OStr \"panic\")")
			continue
		}
		_ = merr
		add("the source around Merge", sb, data(src, opts))
		for j := 0; j < 3; j++ {
			if r.Bool() {
				b := data(src, opts)
				w := edit(dst, opts)
				add("the source around "+w+" on the destination", b, data(src, opts))
			} else {
				b := data(dst, opts)
				w := edit(src, opts)
				add("the destination around "+w+" on the source", b, data(dst, opts))
			}
		}
	}
}

// collectorCases: configs added to a cfgutil.Collector (what the flag package accumulates with) are
// sources like any other: they stay as they were, also the first one, and later Adds and writes
// on the collected config do not show through them
func collectorCases(g *Gen, tc TreeCfg) {
	r := g.R
	data := func(c *ucfg.Config, opts []ucfg.Option) string {
		out := map[string]interface{}{}
		u, err := unpackAny(c, opts...)
		if err != nil {
			out["data"] = "error: " + err.Error()
		} else {
			out["data"] = u
		}
		var keys []interface{}
		for _, k := range c.FlattenedKeys(opts...) {
			keys = append(keys, k)
		}
		out["keys"] = keys
		return coqOTree(out)
	}
	for i := 0; i < 8; i++ {
		opts := []ucfg.Option{ucfg.PathSep(".")}
		if p := policyOpts[r.Intn(len(policyOpts))]; p.opt != nil {
			opts = append(opts, p.opt)
		}
		s1, e1 := ucfg.NewFrom(randMap(r, tc, 0), ucfg.PathSep("."))
		s2, e2 := ucfg.NewFrom(randMap(r, tc, 0), ucfg.PathSep("."))
		if e1 != nil || e2 != nil {
			continue
		}
		var init *ucfg.Config
		if r.P(1, 3) {
			init = ucfg.New()
		}
		col := cfgutil.NewCollector(init, opts...)
		add := func(what, before, after string) {
			g.Add(Case{Coq: fmt.Sprintf("CIndep10 %s %s %s", coqStr(what), before, after),
				Desc: map[string]interface{}{"kind": "independence", "what": what, "setup": "cfgutil.Collector"}, Tags: []string{"independence", "collector"}, Nontrivial: true})
		}
		b1 := data(s1, opts[:1])
		col.Add(s1, nil)
		add("the first config around Collector.Add of it", b1, data(s1, opts[:1]))
		b2 := data(s2, opts[:1])
		col.Add(s2, nil)
		add("the first config around Collector.Add of a second one", b1, data(s1, opts[:1]))
		add("the second config around Collector.Add of it", b2, data(s2, opts[:1]))
		if cc := col.Config(); cc != nil {
			cc.SetString("zz_written", -1, "later", opts[:1]...)
			cc.SetString("a.zz", -1, "later", opts[:1]...)
			add("the first config around a write on the collected config", b1, data(s1, opts[:1]))
			add("the second config around a write on the collected config", b2, data(s2, opts[:1]))
		}
	}
}

// aliasCases: merging into a setting of the destination that is a reference to another setting
// must leave that other setting alone (the merge goes into the reference's own value).
func aliasCases(g *Gen, tc TreeCfg) {
	r := g.R
	// two settings of the destination that are references to one namespace, both merged into by one
	// call: each is merged with what it stands for (neither sees the other's evaluation as a cycle)
	for i := 0; i < 6; i++ {
		opts := []ucfg.Option{ucfg.PathSep("."), ucfg.VarExp}
		base := randMap(r, tc, 1)
		base["k"] = uint64(1)
		ext := map[string]interface{}{"y": randScalar(r)}
		dstData := map[string]interface{}{"base": base, "a": "${base}", "b": "${base}", "c": "${base}"}
		srcData := map[string]interface{}{"a": ext, "b": ext, "c": ext}
		dst, err := ucfg.NewFrom(dstData, opts...)
		if err != nil {
			continue
		}
		if p, _ := guard(func() { err = dst.Merge(srcData, opts...) }); p || err != nil {
			continue
		}
		sub := func(name string) string {
			ch, err := dst.Child(name, -1, opts...)
			if err != nil || ch == nil {
				return "(OStr " + coqStr(fmt.Sprint("no child: ", err)) + ")"
			}
			u, err := unpackAny(ch, opts...)
			if err != nil {
				return "(OStr " + coqStr("error: "+err.Error()) + ")"
			}
			return coqOTree(u)
		}
		for _, n := range []string{"b", "c"} {
			g.Add(Case{Coq: fmt.Sprintf("CIndep10 %s %s %s", coqStr("two references to one namespace, merged into alike: a and "+n), sub("a"), sub(n)),
				Desc: map[string]interface{}{"kind": "independence", "what": "a: ${base}, " + n + ": ${base}, both merged with the same object", "dst": descTree(dstData), "src": descTree(srcData)},
				Tags: []string{"independence", "two-references"}, Nontrivial: true})
		}
	}
	for i := 0; i < g.N/5+4; i++ {
		opts := []ucfg.Option{ucfg.PathSep("."), ucfg.VarExp}
		x := randMap(r, tc, 1)
		x["p"] = uint64(1)
		dstData := map[string]interface{}{"x": x, "a": "${x}", "y": randTree(r, tc, 1),
			"lst": []interface{}{map[string]interface{}{"q": "v"}, "${lst.0}"}, "z": "${x.p}"}
		srcData := map[string]interface{}{"a": randMap(r, tc, 1)}
		srcData["a"].(map[string]interface{})["k"] = uint64(2)
		if r.Bool() {
			srcData["lst"] = []interface{}{nil, map[string]interface{}{"w": true}}
		}
		pol := r.Intn(len(policyOpts))
		if policyOpts[pol].h == 2 { // ReplaceValues drops every setting the source does not mention
			pol = 0
		}
		mo := append([]ucfg.Option{}, opts...)
		if p := policyOpts[pol]; p.opt != nil {
			mo = append(mo, p.opt)
		}
		g.Mark(map[string]interface{}{"dst": encTree(dstData), "src": encTree(srcData), "policy": policyOpts[pol].name})
		dst, err := ucfg.NewFrom(dstData, opts...)
		if err != nil {
			g.Skip("not built")
			continue
		}
		before := ucfg.VerifDump(dst)
		var merr error
		if p, _ := guard(func() { merr = dst.Merge(srcData, mo...) }); p {
			continue
		}
		after := ucfg.VerifDump(dst)
		keys := []string{"x", "y", "z"}
		if _, ok := srcData["lst"]; !ok {
			keys = append(keys, "lst")
		}
		ck := make([]string, len(keys))
		for j, k := range keys {
			ck[j] = coqStr(k)
		}
		g.Add(Case{Coq: fmt.Sprintf("CAlias10 %s %s %s %s", coqStr("merge into a reference"), coqValue(before), coqValue(after), coqList(ck)),
			Desc: map[string]interface{}{"kind": "alias", "destination": descTree(dstData), "source": descTree(srcData), "policy": policyOpts[pol].name,
				"merge error": merr != nil, "before": descValue(before), "after": descValue(after), "must keep": keys},
			Tags: []string{"alias", "policy:" + policyOpts[pol].name}, Nontrivial: true})
	}
}

// ---- C11: reads are pure ---------------------------------------------------------------------

func init() { register("C11", genC11) }

type c11Captured struct {
	// (under the tag name "alt" the captured fields are bound to other settings than the ones
	// they captured)
	Ref  *ucfg.Config            `config:"o2" alt:"s"`        // the setting is a reference to a namespace of the config
	RefA *ucfg.Config            `config:"o3,append" alt:"o2"` // the same, with a handling of its own
	Sub  *ucfg.Config            `config:"s" alt:"n"`
	Subs map[string]*ucfg.Config `config:"m" alt:"m"`
	A    string                  `config:"a" alt:"a"`
	L    []interface{}           `config:"l" alt:"l"`
	N    map[string]interface{}  `config:"n" alt:"n"`
	Z    *int                    `config:"z" alt:"m.j"` // a null setting (its metadata may differ from its namespace's)
	Re   *regexp.Regexp          `config:"re" alt:"re"` // compiled from a plain string setting on every read
}

type c11Read struct {
	name string
	run  func(c *ucfg.Config, opts []ucfg.Option, st *c11State) string
}

type c11State struct {
	captured *c11Captured // a target that is unpacked into more than once
	generic  map[string]interface{}
}

func resErr(err error) string {
	if err == nil {
		return ""
	}
	if e, ok := err.(ucfg.Error); ok {
		return " error " + reasonName(e)
	}
	return " error (untyped)"
}

var c11Names = []string{"a", "b", "s", "s.x", "s.r", "m", "m.k", "l", "l.0", "l.1", "n", "n.k", "z", "r", "q", "o", "o.k", "p.0"}

func c11Reads() []c11Read {
	var rs []c11Read
	for _, n := range c11Names {
		n := n
		rs = append(rs,
			c11Read{"String " + n, func(c *ucfg.Config, o []ucfg.Option, _ *c11State) string { s, err := c.String(n, -1, o...); return s + resErr(err) }},
			c11Read{"Int " + n, func(c *ucfg.Config, o []ucfg.Option, _ *c11State) string { v, err := c.Int(n, -1, o...); return fmt.Sprint(v) + resErr(err) }},
			c11Read{"Bool " + n, func(c *ucfg.Config, o []ucfg.Option, _ *c11State) string { v, err := c.Bool(n, -1, o...); return fmt.Sprint(v) + resErr(err) }},
			c11Read{"Has " + n, func(c *ucfg.Config, o []ucfg.Option, _ *c11State) string { v, err := c.Has(n, -1, o...); return fmt.Sprint(v) + resErr(err) }},
			c11Read{"Child " + n, func(c *ucfg.Config, o []ucfg.Option, _ *c11State) string {
				ch, err := c.Child(n, -1, o...)
				if err != nil {
					return resErr(err)
				}
				return descValue(ucfg.VerifDump(ch)) + " path=" + ch.Path(".")
			}},
			c11Read{"CountField " + n, func(c *ucfg.Config, o []ucfg.Option, _ *c11State) string { v, err := c.CountField(n); return fmt.Sprint(v) + resErr(err) }},
		)
	}
	rs = append(rs,
		c11Read{"GetFields", func(c *ucfg.Config, o []ucfg.Option, _ *c11State) string { f := c.GetFields(); sort.Strings(f); return strings.Join(f, ",") }},
		c11Read{"Path", func(c *ucfg.Config, o []ucfg.Option, _ *c11State) string { return c.Path(".") + "|" + c.PathOf("a", ".") }},
		c11Read{"IsDict/IsArray", func(c *ucfg.Config, o []ucfg.Option, _ *c11State) string { return fmt.Sprint(c.IsDict(), c.IsArray()) }},
		c11Read{"FlattenedKeys", func(c *ucfg.Config, o []ucfg.Option, _ *c11State) string { k := c.FlattenedKeys(o...); sort.Strings(k); return strings.Join(k, ",") }},
		c11Read{"Unpack generic", func(c *ucfg.Config, o []ucfg.Option, _ *c11State) string {
			var m map[string]interface{}
			err := c.Unpack(&m, o...)
			return descTree(m) + resErr(err)
		}},
		c11Read{"Unpack generic again (same target)", func(c *ucfg.Config, o []ucfg.Option, st *c11State) string {
			err := c.Unpack(&st.generic, o...)
			return descTree(st.generic) + resErr(err)
		}},
		c11Read{"Unpack captured (fresh target)", func(c *ucfg.Config, o []ucfg.Option, _ *c11State) string {
			var t c11Captured
			err := c.Unpack(&t, o...)
			return descCaptured(&t) + resErr(err)
		}},
		c11Read{"Unpack captured again (same target)", func(c *ucfg.Config, o []ucfg.Option, st *c11State) string {
			err := c.Unpack(st.captured, o...)
			return descCaptured(st.captured) + resErr(err)
		}},
		c11Read{"Unpack captured append (same target)", func(c *ucfg.Config, o []ucfg.Option, st *c11State) string {
			err := c.Unpack(st.captured, append(append([]ucfg.Option{}, o...), ucfg.AppendValues)...)
			return "append:" + resErr(err)
		}},
		c11Read{"Unpack captured under another tag name (same target)", func(c *ucfg.Config, o []ucfg.Option, st *c11State) string {
			err := c.Unpack(st.captured, append(append([]ucfg.Option{}, o...), ucfg.StructTag("alt"))...)
			return "alt:" + resErr(err)
		}},
		c11Read{"Unpack compiled values twice (fresh targets): what one reader does with its regexp does not show in the other's", func(c *ucfg.Config, o []ucfg.Option, _ *c11State) string {
			var t1, t2 c11Captured
			e1 := c.Unpack(&t1, o...)
			e2 := c.Unpack(&t2, o...)
			if e1 != nil || e2 != nil || t1.Re == nil || t2.Re == nil {
				return "no regexp" + resErr(e1) + resErr(e2)
			}
			before := t2.Re.FindString("aaab")
			t1.Re.Longest()
			return fmt.Sprintf("%q then %q same=%v", before, t2.Re.FindString("aaab"), t1.Re == t2.Re)
		}},
		c11Read{"merge source", func(c *ucfg.Config, o []ucfg.Option, _ *c11State) string {
			d := ucfg.New()
			err := d.Merge(c, o...)
			return descValue(ucfg.VerifDump(d)) + resErr(err)
		}},
		c11Read{"merge source into objects", func(c *ucfg.Config, o []ucfg.Option, _ *c11State) string {
			d, _ := ucfg.NewFrom(map[string]interface{}{"z": map[string]interface{}{"w": 1}, "s": map[string]interface{}{"w": 1}, "n": map[string]interface{}{"k": map[string]interface{}{"w": 1}}}, o...)
			err := d.Merge(c, o...)
			return descValue(ucfg.VerifDump(d)) + resErr(err)
		}},
		c11Read{"merge source prepending to a list", func(c *ucfg.Config, o []ucfg.Option, _ *c11State) string {
			d, _ := ucfg.NewFrom(map[string]interface{}{"l": []interface{}{"own"}}, o...)
			err := d.Merge(c, append(append([]ucfg.Option{}, o...), ucfg.PrependValues)...)
			return descValue(ucfg.VerifDump(d)) + resErr(err)
		}},
		c11Read{"child of null, written", func(c *ucfg.Config, o []ucfg.Option, _ *c11State) string {
			ch, err := c.Child("z", -1, o...)
			if err != nil {
				return resErr(err)
			}
			werr := ch.SetString("w", -1, "written into the reader's object", o...)
			return "child z" + resErr(werr)
		}},
	)
	return rs
}

func descCaptured(t *c11Captured) string {
	var b strings.Builder
	if t.Sub != nil {
		b.WriteString("s=" + descValue(ucfg.VerifDump(t.Sub)))
	}
	if t.Ref != nil {
		b.WriteString(" o2=" + descValue(ucfg.VerifDump(t.Ref)))
	}
	if t.RefA != nil {
		b.WriteString(" o3=" + descValue(ucfg.VerifDump(t.RefA)))
	}
	keys := make([]string, 0, len(t.Subs))
	for k := range t.Subs {
		keys = append(keys, k)
	}
	sort.Strings(keys)
	for _, k := range keys {
		if t.Subs[k] != nil {
			b.WriteString(" m." + k + "=" + descValue(ucfg.VerifDump(t.Subs[k])))
		}
	}
	b.WriteString(" a=" + t.A + " l=" + descTree(t.L) + " n=" + descTree(t.N))
	if t.Re != nil {
		b.WriteString(" re=" + t.Re.String())
	}
	return b.String()
}

func genC11(g *Gen) {
	debug.SetGCPercent(-1)
	r := g.R
	reads := c11Reads()
	tc := TreeCfg{Keys: []string{"a", "b", "x", "k"}, MaxDepth: 2, MaxWidth: 3, PNil: 3, PEmpty: 3}
	for i := 0; i < g.N; i++ {
		runtime.GC() // between cases only
		data := map[string]interface{}{
			"a": randScalar(r), "b": "${a}", "s": map[string]interface{}{"x": randTree(r, tc, 1), "r": "${a}-${s.x:d}"},
			"m": map[string]interface{}{"k": randMap(r, tc, 1), "j": nil}, "l": []interface{}{randTree(r, tc, 1), nil, "${l.0:e}"},
			"n": randMap(r, tc, 0), "z": nil, "r": "${res}", "q": "${obj}", "o": "${obj}", "p": "${lst}",
			"o2": "${s}", "o3": "${m}", "re": []string{"a+?", "a+?b??", "(a|aa)"}[r.Intn(3)],
		}
		if r.P(1, 3) {
			data["n"] = nil
		}
		resolver := func(name string) (string, ucfgParseConfig, error) {
			switch name {
			case "res":
				return "resolved", parseDefault, nil
			case "obj":
				return "{k: v, j: [1, 2]}", parseDefault, nil
			case "lst":
				return "[x, {y: 1}]", parseDefault, nil
			}
			return "", parseDefault, ucfg.ErrMissing
		}
		opts := []ucfg.Option{ucfg.PathSep("."), ucfg.VarExp, ucfg.Resolve(resolver)}
		g.Mark(map[string]interface{}{"data": encTree(data)})
		bopts := opts
		if r.Bool() {
			// loaded with source metadata (the root itself carries none)
			bopts = append(append([]ucfg.Option{}, opts...), ucfg.MetaData(ucfg.Meta{Source: "base.yml"}))
		}
		c, err := ucfg.NewFrom(data, bopts...)
		if err != nil {
			g.Skip("not built")
			continue
		}
		if r.Bool() {
			// a list that has lost an entry keeps the storage: what is appended to a slice of it
			// must not land there
			c.Remove("l", 0, opts...)
		}
		ren := newRenamer()
		st := &c11State{captured: &c11Captured{}}
		// every read on its own, twice, with the object graph observed around it
		k := 6 + r.Intn(8)
		var seq [][2]string
		for j := 0; j < k; j++ {
			rd := reads[r.Intn(len(reads))]
			if r.P(2, 5) { // the whole-config reads (Unpack, merge source, ...) are the last 17
				rd = reads[len(reads)-17+r.Intn(17)]
			}
			before := snapshotNoReads(c, ren)
			var r1, r2 string
			p1, m1 := guard(func() { r1 = rd.run(c, opts, st) })
			p2, m2 := guard(func() { r2 = rd.run(c, opts, st) })
			if p1 {
				r1 = "PANIC " + m1
			}
			if p2 {
				r2 = "PANIC " + m2
			}
			after := snapshotNoReads(c, ren)
			seq = append(seq, [2]string{rd.name, r1})
			stateful := strings.Contains(rd.name, "same target")
			if stateful {
				r2 = r1 // the target accumulates by design; only the config is compared
			}
			g.Add(Case{Coq: fmt.Sprintf("CRead11 %s %s %s %s %s", coqStr(rd.name), before.coq, after.coq, coqStr(r1), coqStr(r2)),
				Desc: map[string]interface{}{"kind": "read", "read": rd.name, "config": before.desc, "after": after.desc, "result": r1, "result again": r2,
					"replay": map[string]interface{}{"data": encTree(data)}},
				Tags: []string{"read:" + strings.SplitN(rd.name, " ", 2)[0]}, Nontrivial: true})
		}
		// an Option value that is made once and used in several calls, alone and combined with
		// another one: what it means does not depend on the calls it was used in before
		{
			optA, optB := ucfg.FieldAppendValues("l"), ucfg.FieldPrependValues("p")
			run := func(o ...ucfg.Option) string {
				// the config as a merge source for a destination that holds lists already
				d, err := ucfg.NewFrom(map[string]interface{}{"l": []interface{}{"pre"}, "p": []interface{}{"pre"}}, ucfg.PathSep("."))
				if err != nil {
					return "not built"
				}
				err = d.Merge(c, append(append([]ucfg.Option{}, opts...), o...)...)
				return descValue(ucfg.VerifDump(d).Dict["l"]) + " " + descValue(ucfg.VerifDump(d).Dict["p"]) + resErr(err)
			}
			before := snapshotNoReads(c, ren)
			var r0, r1 string
			p, m := guard(func() { r0 = run(optA); run(optA, optB); r1 = run(optA) })
			if p {
				r1 = "PANIC " + m
			}
			after := snapshotNoReads(c, ren)
			name := "merge source with a reused per-field option, before and after a call that combined it with another one"
			g.Add(Case{Coq: fmt.Sprintf("CRead11 %s %s %s %s %s", coqStr(name), before.coq, after.coq, coqStr(r0), coqStr(r1)),
				Desc: map[string]interface{}{"kind": "read", "read": name, "config": before.desc, "after": after.desc, "result": r0, "result again": r1,
					"replay": map[string]interface{}{"data": encTree(data)}},
				Tags: []string{"read:reused-option"}, Nontrivial: true})
		}
		// the stateless reads again, all at once from several goroutines
		var pure []c11Read
		for _, rd := range reads {
			if !strings.Contains(rd.name, "same target") && !strings.Contains(rd.name, "written") {
				pure = append(pure, rd)
			}
		}
		nG := 4 + r.Intn(5)
		picks := make([][]int, nG)
		var whole []int // the reads of the whole config (Unpack, merges from it, FlattenedKeys)
		for pi, rd := range pure {
			if strings.HasPrefix(rd.name, "Unpack") || strings.HasPrefix(rd.name, "merge source") || rd.name == "FlattenedKeys" {
				whole = append(whole, pi)
			}
		}
		for gi := range picks {
			for j := 0; j < 12; j++ {
				if r.P(1, 3) && len(whole) > 0 {
					picks[gi] = append(picks[gi], whole[r.Intn(len(whole))])
				} else {
					picks[gi] = append(picks[gi], r.Intn(len(pure)))
				}
			}
		}
		base := map[int]string{}
		for _, ps := range picks {
			for _, pi := range ps {
				if _, ok := base[pi]; !ok {
					p, m := guard(func() { base[pi] = pure[pi].run(c, opts, st) })
					if p {
						base[pi] = "PANIC " + m
					}
				}
			}
		}
		before := snapshotNoReads(c, ren)
		results := make([][]string, nG)
		done := make(chan int, nG)
		for gi := 0; gi < nG; gi++ {
			go func(gi int) {
				defer func() { done <- gi }()
				for _, pi := range picks[gi] {
					var res string
					p, m := guard(func() { res = pure[pi].run(c, opts, &c11State{captured: &c11Captured{}}) })
					if p {
						res = "PANIC " + m
					}
					results[gi] = append(results[gi], res)
				}
			}(gi)
		}
		for gi := 0; gi < nG; gi++ {
			<-done
		}
		after := snapshotNoReads(c, ren)
		var alone, together []string
		for gi, ps := range picks {
			for j, pi := range ps {
				alone = append(alone, "("+coqStr(pure[pi].name)+", "+coqStr(base[pi])+")")
				together = append(together, "("+coqStr(pure[pi].name)+", "+coqStr(results[gi][j])+")")
			}
		}
		g.Add(Case{Coq: fmt.Sprintf("CConc11 %d%%N %s %s %s %s", nG, before.coq, after.coq, coqList(alone), coqList(together)),
			Desc: map[string]interface{}{"kind": "concurrent", "goroutines": nG, "reads per goroutine": 12, "config": before.desc, "after": after.desc,
				"replay": map[string]interface{}{"data": encTree(data)}},
			Tags: []string{"concurrent", fmt.Sprintf("goroutines=%d", nG)}, Nontrivial: true})
	}
}

func snapshotNoReads(c *ucfg.Config, ren *renamer) snapT {
	n := ucfg.VerifDump(c)
	path := c.Path(".")
	return snapT{
		coq:  fmt.Sprintf("{| sn_tree := %s; sn_ids := %s; sn_path := %s; sn_reads := [] |}", coqValue(n), coqIds(n, ren), coqStr(path)),
		desc: map[string]interface{}{"tree": descValue(n), "objects": descIds(n, ren), "path": path},
	}
}
