package main

import (
	"fmt"
	"strings"

	ucfg "github.com/elastic/go-ucfg"
)

func init() { register("C16", genC16) }

var fieldPolicyOpts = []struct {
	name string
	h    int
	mk   func(...string) ucfg.Option
}{
	{"merge", 1, ucfg.FieldMergeValues},
	{"replace", 2, ucfg.FieldReplaceValues},
	{"append", 3, ucfg.FieldAppendValues},
	{"prepend", 4, ucfg.FieldPrependValues},
}

var c16OptPool = map[string]ucfg.Option{}

type fieldSpec struct {
	Path string `json:"path"`
	Pol  int    `json:"pol"`
}

// c16Extra: options of the calls besides the policies (a small MaxIdx or EnableNumKeys make
// numeric names named settings)
var c16Extra []ucfg.Option

func c16Run(ta, tb map[string]interface{}, pol int, specs []fieldSpec) (Case, bool) {
	p := policyOpts[pol]
	opts := append([]ucfg.Option{ucfg.PathSep(".")}, c16Extra...)
	if p.opt != nil {
		opts = append(opts, p.opt)
	}
	var coqSpecs []string
	for _, s := range specs {
		f := fieldPolicyOpts[s.Pol]
		// an Option value is made once and used in every call that names the same policy and
		// path: what one call does with it must not show in the next
		key := fmt.Sprintf("%d|%s", s.Pol, s.Path)
		o, ok := c16OptPool[key]
		if !ok {
			o = f.mk(s.Path)
			c16OptPool[key] = o
		}
		opts = append(opts, o)
		coqSpecs = append(coqSpecs, fmt.Sprintf("(%s, %d%%N)", coqStr(s.Path), f.h))
	}
	dst, err := ucfg.NewFrom(ta, c16Extra...)
	if err != nil {
		return Case{}, false
	}
	vo := ucfg.VerifMakeOptions(opts...)
	ft := "None"
	if vo.FieldTree != nil {
		ft = "(Some " + coqValue(vo.FieldTree) + ")"
	}
	before := ucfg.VerifDump(dst)
	nb, err := ucfg.VerifNormalize(tb, opts...)
	if err != nil {
		return Case{}, false
	}
	merr := dst.Merge(tb, opts...)
	res, unp, descR := "None", "None", "error"
	if merr == nil {
		after := ucfg.VerifDump(dst)
		res = "(Some " + coqValue(after) + ")"
		descR = descValue(after)
		if u, uerr := unpackAny(dst); uerr == nil {
			unp = "(Some " + coqOTree(u) + ")"
		}
	} else {
		descR = "error: " + merr.Error()
	}
	coq := fmt.Sprintf("CFieldMerge %d%%N %s %s %s %s %s %s", vo.Handling, coqList(coqSpecs), ft, coqValue(before), coqValue(nb), res, unp)
	tags := []string{"policy:" + p.name, fmt.Sprintf("specs=%d", len(specs))}
	for _, s := range specs {
		tags = append(tags, "field:"+fieldPolicyOpts[s.Pol].name)
		if strings.Contains(s.Path, "*") {
			tags = append(tags, "wildcard")
		}
	}
	ftd := ""
	if vo.FieldTree != nil {
		ftd = descValue(vo.FieldTree)
	}
	return Case{Coq: coq, Desc: map[string]interface{}{"kind": "fieldmerge", "policy": p.name, "specs": specs, "a": descValue(before), "b": descValue(nb), "ft": ftd, "result": descR,
		"replay": map[string]interface{}{"a": encTree(ta), "b": encTree(tb), "pol": pol, "specs": specs}},
		Tags: tags, Nontrivial: len(specs) > 0 && len(ta) > 0 && len(tb) > 0}, true
}

func c16FromDesc(m map[string]interface{}) (Case, bool) {
	rp, ok := m["replay"].(map[string]interface{})
	if !ok {
		rp = m
	}
	ta, _ := decTree(rp["a"]).(map[string]interface{})
	tb, _ := decTree(rp["b"]).(map[string]interface{})
	var specs []fieldSpec
	if ss, ok := rp["specs"].([]interface{}); ok {
		for _, s := range ss {
			if sm, ok := s.(map[string]interface{}); ok {
				specs = append(specs, fieldSpec{dStr(sm, "path"), int(dInt(sm, "pol"))})
			}
		}
	}
	if ta == nil || tb == nil {
		return Case{}, false
	}
	return c16Run(ta, tb, int(dInt(rp, "pol")), specs)
}

func genC16(g *Gen) {
	r := g.R
	for _, m := range g.CorpusDescs() {
		if c, ok := c16FromDesc(m); ok {
			c.FromCorpus = dStr(m, "_file")
			c.Tags = append(c.Tags, "corpus")
			g.Add(c)
		}
	}
	// named settings whose names are numbers (a small MaxIdx, or EnableNumKeys for a one-segment
	// name), addressed by a per-field policy
	for i := 0; i < 8; i++ {
		inner := func(v interface{}) map[string]interface{} {
			return map[string]interface{}{"l": []interface{}{v}, "m": []interface{}{v}}
		}
		var ta, tb map[string]interface{}
		var path string
		if i%2 == 0 {
			c16Extra = []ucfg.Option{ucfg.MaxIdx(5)}
			ta = map[string]interface{}{"a": map[string]interface{}{"7": inner("a")}, "x": "v"}
			tb = map[string]interface{}{"a": map[string]interface{}{"7": inner("b")}}
			path = "a.7.l"
		} else {
			c16Extra = []ucfg.Option{ucfg.EnableNumKeys(true)}
			ta = map[string]interface{}{"7": inner("a"), "x": "v"}
			tb = map[string]interface{}{"7": inner("b")}
			path = "7.l"
		}
		if c, ok := c16Run(ta, tb, []int{0, 2, 3}[r.Intn(3)], []fieldSpec{{Path: path, Pol: 1 + r.Intn(3)}}); ok {
			c.Tags = append(c.Tags, "numeric-name")
			g.Add(c)
		}
		c16Extra = nil
	}
	// a per-index option pads the handling tree below the named index: an element at a lower index
	// that is itself a list with an entry at the named index and the same name is outside the subtree
	for pol := 1; pol <= 3; pol++ {
		type M = map[string]interface{}
		type L = []interface{}
		ta := M{"a": L{L{M{"k": L{"o1"}}, M{"k": L{"o2"}}}, M{"k": L{"o3"}}}}
		tb := M{"a": L{L{M{"k": L{"n1"}}, M{"k": L{"n2"}}}, M{"k": L{"n3"}}}}
		if c, ok := c16Run(ta, tb, 0, []fieldSpec{{Path: "a.1.k", Pol: pol}}); ok {
			c.Tags = append(c.Tags, "below-named-index")
			g.Add(c)
		}
		ta2 := M{"a": L{L{nil, nil, M{"k": L{"o2"}}}, "x", M{"k": L{"o3"}}}}
		tb2 := M{"a": L{L{nil, nil, M{"k": L{"n2"}}}, "y", M{"k": L{"n3"}}}}
		if c, ok := c16Run(ta2, tb2, 0, []fieldSpec{{Path: "a.2.k", Pol: pol}}); ok {
			c.Tags = append(c.Tags, "below-named-index")
			g.Add(c)
		}
	}
	// a 3-letter alphabet so that names repeat at different depths
	tc := TreeCfg{Keys: []string{"a", "l", "x"}, MaxDepth: 4, MaxWidth: 3, PNil: 1, PEmpty: 1}
	for i := 0; i < g.N; i++ {
		ta := randMap(r, tc, 0)
		tb, _ := mutateTree(r, tc, ta, 0).(map[string]interface{})
		if r.P(1, 5) {
			tb = randMap(r, tc, 0)
		}
		nspec := 1
		if r.P(1, 3) {
			nspec = 2
		}
		if r.P(1, 12) {
			nspec = 0
		}
		specs := make([]fieldSpec, nspec)
		for j := range specs {
			depth := 1 + r.Intn(3)
			segs := make([]string, depth)
			for k := range segs {
				segs[k] = tc.Keys[r.Intn(len(tc.Keys))]
				if k > 0 && r.P(1, 8) {
					segs[k] = fmt.Sprint(r.Intn(3))
				}
			}
			path := strings.Join(segs, ".")
			if r.P(1, 10) {
				path = "**." + segs[len(segs)-1]
			} else if r.P(1, 12) {
				path = path + ".*"
			}
			if j == 1 && r.P(1, 2) && !strings.Contains(specs[0].Path, "*") {
				// related pair: the second path extends the first one
				path = specs[0].Path + "." + tc.Keys[r.Intn(len(tc.Keys))]
				if r.P(1, 3) {
					path += "." + tc.Keys[r.Intn(len(tc.Keys))]
				}
			}
			specs[j] = fieldSpec{path, r.Intn(len(fieldPolicyOpts))}
		}
		// make the addressed settings exist (as lists) in both trees most of the time
		for _, sp := range specs {
			if strings.Contains(sp.Path, "*") || !r.P(2, 3) {
				continue
			}
			segs := strings.Split(sp.Path, ".")
			numeric := false
			for _, sg := range segs {
				if sg[0] >= '0' && sg[0] <= '9' {
					numeric = true
				}
			}
			if numeric {
				continue
			}
			for _, t := range []map[string]interface{}{ta, tb} {
				cur := t
				for k, sg := range segs {
					if k == len(segs)-1 {
						if _, isMap := cur[sg].(map[string]interface{}); !isMap {
							cur[sg] = []interface{}{randScalar(r), randScalar(r)}
						}
						break
					}
					nxt, ok := cur[sg].(map[string]interface{})
					if !ok {
						nxt = map[string]interface{}{}
						cur[sg] = nxt
					}
					cur = nxt
				}
			}
		}
		gpol := r.Intn(len(policyOpts))
		if len(specs) > 0 && r.P(1, 3) {
			// the first field policy repeats the global one (a redundant but legal option)
			for k, f := range fieldPolicyOpts {
				if f.h == policyOpts[gpol].h {
					specs[0].Pol = k
				}
			}
		}
		if c, ok := c16Run(ta, tb, gpol, specs); ok {
			g.Add(c)
		} else {
			g.Skip("does not normalize")
		}
	}
}
