// Command harness: correspondence harness between /repo (built with -tags verif) and the
// Coq model under /verif/coq.  Usage:
//
//	harness consts <out.v>                       regenerate Gen/Consts.v from /repo sources
//	harness gen <prop> -seed N -n N -out DIR     run cases against the implementation and
//	                                             write DIR/cases_<prop>_<shard>.v + .json
//	harness replay <prop> <case.json>            re-run one recorded case and print it
package main

import (
	"flag"
	"fmt"
	"os"
	"sort"
)

type genFunc func(g *Gen)

var generators = map[string]genFunc{}

func register(name string, f genFunc) { generators[name] = f }

func main() {
	if len(os.Args) < 2 {
		fmt.Fprintln(os.Stderr, "usage: harness consts|gen|list ...")
		os.Exit(2)
	}
	switch os.Args[1] {
	case "consts":
		if err := genConsts(os.Args[2], os.Args[3]); err != nil {
			fmt.Fprintln(os.Stderr, "consts:", err)
			os.Exit(2)
		}
	case "list":
		var names []string
		for k := range generators {
			names = append(names, k)
		}
		sort.Strings(names)
		for _, n := range names {
			fmt.Println(n)
		}
	case "gen":
		fs := flag.NewFlagSet("gen", flag.ExitOnError)
		seed := fs.Int64("seed", 1, "PRNG seed")
		n := fs.Int("n", 500, "number of generated cases")
		out := fs.String("out", ".", "output directory")
		shard := fs.Int("shard", 400, "cases per Coq file")
		corpus := fs.String("corpus", "", "corpus directory (replayed first)")
		tier := fs.String("tier", "quick", "quick|thorough")
		prop := os.Args[2]
		fs.Parse(os.Args[3:])
		f, ok := generators[prop]
		if !ok {
			fmt.Fprintln(os.Stderr, "unknown property stream:", prop)
			os.Exit(2)
		}
		g := newGen(prop, *seed, *n, *out, *shard, *corpus, *tier)
		f(g)
		if err := g.flush(); err != nil {
			fmt.Fprintln(os.Stderr, "gen:", err)
			os.Exit(2)
		}
	default:
		fmt.Fprintln(os.Stderr, "unknown command", os.Args[1])
		os.Exit(2)
	}
}
