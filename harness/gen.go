package main

import (
	"crypto/sha1"
	"encoding/hex"
	"encoding/json"
	"fmt"
	"os"
	"path/filepath"
	"sort"
	"strings"
)

// Rng is a splitmix64 generator: every random choice of a run derives from one seed.
type Rng struct{ s uint64 }

func (r *Rng) U64() uint64 {
	r.s += 0x9E3779B97F4A7C15
	z := r.s
	z = (z ^ (z >> 30)) * 0xBF58476D1CE4E5B9
	z = (z ^ (z >> 27)) * 0x94D049BB133111EB
	return z ^ (z >> 31)
}
func (r *Rng) Intn(n int) int {
	if n <= 0 {
		return 0
	}
	return int(r.U64() % uint64(n))
}
func (r *Rng) Bool() bool       { return r.U64()&1 == 1 }
func (r *Rng) P(num, den int) bool { return r.Intn(den) < num }
func (r *Rng) Pick(xs []string) string { return xs[r.Intn(len(xs))] }

// Case is one executed case: its Coq term (type [case] of the stream's Corr module)
// and a readable description used for replays and evidence samples.
type Case struct {
	Coq        string
	Desc       interface{}
	Tags       []string
	Nontrivial bool
	FromCorpus string
}

type Gen struct {
	Prop   string
	Seed   int64
	N      int
	Out    string
	Shard  int
	Corpus string
	Tier   string
	R      *Rng
	Cases  []Case
	Skips  map[string]int
	Wrap   string // constructor put around every case added (a stream that embeds another stream's cases)
}

func newGen(prop string, seed int64, n int, out string, shard int, corpus, tier string) *Gen {
	return &Gen{Prop: prop, Seed: seed, N: n, Out: out, Shard: shard, Corpus: corpus, Tier: tier,
		R: &Rng{s: uint64(seed)*0x9E3779B97F4A7C15 + 0x1234567}, Skips: map[string]int{}}
}

func (g *Gen) Thorough() bool { return g.Tier == "thorough" }

func (g *Gen) Add(c Case) {
	if g.Wrap != "" {
		c.Coq = g.Wrap + " (" + c.Coq + ")"
	}
	g.Cases = append(g.Cases, c)
}

func (g *Gen) Skip(why string) { g.Skips[why]++ }

// Mark records the input that is about to be run: a fatal runtime error (stack overflow, out
// of memory) cannot be recovered; the driver reports this file as the failing input when
// the harness dies.
func (g *Gen) Mark(desc interface{}) {
	if b, err := json.Marshal(map[string]interface{}{"stream": g.Prop, "input": desc}); err == nil {
		os.WriteFile(filepath.Join(g.Out, "last_input.json"), b, 0o644)
	}
}

// CorpusFiles returns the committed corpus entries for this stream, sorted.
func (g *Gen) CorpusFiles() []string {
	if g.Corpus == "" {
		return nil
	}
	m, _ := filepath.Glob(filepath.Join(g.Corpus, "*.json"))
	sort.Strings(m)
	return m
}

// CorpusDescs loads the committed corpus entries (one JSON description per file).
func (g *Gen) CorpusDescs() []map[string]interface{} {
	var out []map[string]interface{}
	for _, f := range g.CorpusFiles() {
		b, err := os.ReadFile(f)
		if err != nil {
			continue
		}
		var m map[string]interface{}
		if json.Unmarshal(b, &m) != nil {
			continue
		}
		m["_file"] = filepath.Base(f)
		out = append(out, m)
	}
	return out
}

func dStr(m map[string]interface{}, k string) string {
	s, _ := m[k].(string)
	return s
}
func dInt(m map[string]interface{}, k string) int64 {
	switch v := m[k].(type) {
	case float64:
		return int64(v)
	case string:
		var i int64
		fmt.Sscan(v, &i)
		return i
	}
	return 0
}
func dBool(m map[string]interface{}, k string) bool {
	b, _ := m[k].(bool)
	return b
}

func (g *Gen) flush() error {
	if err := os.MkdirAll(g.Out, 0o755); err != nil {
		return err
	}
	mod := "Corr" + strings.ReplaceAll(g.Prop, ".", "_")
	tags := map[string]int{}
	distinct := map[string]bool{}
	nontrivial := 0
	type jcase struct {
		Idx        int         `json:"idx"`
		Desc       interface{} `json:"desc"`
		Tags       []string    `json:"tags,omitempty"`
		Nontrivial bool        `json:"nontrivial"`
		FromCorpus string      `json:"from_corpus,omitempty"`
	}
	var jc []jcase
	for i, c := range g.Cases {
		for _, t := range c.Tags {
			tags[t]++
		}
		h := sha1.Sum([]byte(c.Coq))
		k := hex.EncodeToString(h[:])
		if c.Nontrivial && !distinct[k] {
			nontrivial++
		}
		distinct[k] = true
		jc = append(jc, jcase{i, c.Desc, c.Tags, c.Nontrivial, c.FromCorpus})
	}
	nshards := 0
	for start := 0; start < len(g.Cases); start += g.Shard {
		end := start + g.Shard
		if end > len(g.Cases) {
			end = len(g.Cases)
		}
		var b strings.Builder
		fmt.Fprintf(&b, "From Ucfg Require Import Base %s.\nLocal Open Scope string_scope.\nLocal Open Scope Z_scope.\n", mod)
		fmt.Fprintf(&b, "Definition cases : list case := [\n")
		for i := start; i < end; i++ {
			sep := ";"
			if i == end-1 {
				sep = ""
			}
			fmt.Fprintf(&b, " (%s)%s\n", g.Cases[i].Coq, sep)
		}
		fmt.Fprintf(&b, "].\nDefinition R := Eval vm_compute in run_cases %d%%N cases.\nPrint R.\n", start)
		name := filepath.Join(g.Out, fmt.Sprintf("cases_%s_%d.v", strings.ReplaceAll(g.Prop, ".", "_"), nshards))
		if err := os.WriteFile(name, []byte(b.String()), 0o644); err != nil {
			return err
		}
		nshards++
	}
	meta := map[string]interface{}{
		"prop": g.Prop, "seed": g.Seed, "tier": g.Tier, "shards": nshards,
		"evaluations": len(g.Cases), "distinct": len(distinct), "distinct_nontrivial": nontrivial,
		"tags": tags, "skips": g.Skips, "cases": jc,
	}
	js, err := json.Marshal(meta)
	if err != nil {
		return err
	}
	return os.WriteFile(filepath.Join(g.Out, fmt.Sprintf("cases_%s.json", strings.ReplaceAll(g.Prop, ".", "_"))), js, 0o644)
}

// Perm returns a random permutation of 0..n-1.
func (r *Rng) Perm(n int) []int {
	p := make([]int, n)
	for i := range p {
		p[i] = i
	}
	for i := n - 1; i > 0; i-- {
		j := r.Intn(i + 1)
		p[i], p[j] = p[j], p[i]
	}
	return p
}
