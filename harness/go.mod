module verifharness

go 1.23

require (
	github.com/elastic/go-ucfg v0.0.0
	gopkg.in/hjson/hjson-go.v3 v3.0.1
	gopkg.in/yaml.v2 v2.2.8
)

replace github.com/elastic/go-ucfg => /repo
