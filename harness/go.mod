module verifharness

go 1.23

require github.com/elastic/go-ucfg v0.0.0

replace github.com/elastic/go-ucfg => /repo
