module verifharness

go 1.23

require github.com/elastic/go-ucfg v0.0.0

require (
	gopkg.in/hjson/hjson-go.v3 v3.0.1 // indirect
	gopkg.in/yaml.v2 v2.2.8 // indirect
)

replace github.com/elastic/go-ucfg => /repo
