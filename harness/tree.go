package main

import (
	"fmt"
	"math"
	"reflect"
	"sort"
	"strings"

	ucfg "github.com/elastic/go-ucfg"
)

// ---- Coq printers for dumps -------------------------------------------------------------

func coqExp(e *ucfg.VerifExp) string {
	if e == nil {
		return `(EConst "<nil>")`
	}
	switch e.Kind {
	case "const":
		return "(EConst " + coqStr(e.Str) + ")"
	case "ref":
		return "(ERef " + coqFields(e.Path) + " " + coqStr(e.Sep) + ")"
	case "splice":
		xs := make([]string, len(e.Parts))
		for i, p := range e.Parts {
			xs[i] = coqExp(p)
		}
		return "(ESplice " + coqList(xs) + ")"
	case "single":
		return "(ESingle " + coqExp(e.L) + " " + coqStr(e.Sep) + ")"
	case "default":
		return "(EDefault " + coqExp(e.L) + " " + coqExp(e.R) + " " + coqStr(e.Sep) + ")"
	case "alt":
		return "(EAlt " + coqExp(e.L) + " " + coqExp(e.R) + " " + coqStr(e.Sep) + ")"
	case "err":
		return "(EErr " + coqExp(e.L) + " " + coqExp(e.R) + " " + coqStr(e.Sep) + ")"
	}
	return `(EConst "<unknown>")`
}

const absentSentinel = "\x00absent"

// coqValue prints a dumped tree as a Coq [value] (Tree.v).
func coqValue(n *ucfg.VerifNode) string {
	switch n.Kind {
	case "nil":
		return "VNil"
	case "bool":
		return "(VBool " + coqBool(n.B) + ")"
	case "int":
		return "(VInt " + coqZ(n.I) + ")"
	case "uint":
		return "(VUint " + coqZu(n.U) + ")"
	case "float":
		return "(VFloat " + coqZu(n.FBits) + ")"
	case "string":
		return "(VStr " + coqStr(n.S) + ")"
	case "ref":
		if n.Exp != nil && n.Exp.Kind == "ref" {
			return "(VRef " + coqFields(n.Exp.Path) + " " + coqStr(n.Exp.Sep) + ")"
		}
		return "(VStr " + coqStr(absentSentinel) + ")"
	case "splice":
		return "(VSplice " + coqExp(n.Exp) + ")"
	case "sub":
		var d []string
		for _, k := range n.Keys {
			c := n.Dict[k]
			d = append(d, "("+coqStr(k)+", ("+coqStr(c.Field)+", "+coqValue(c)+"))")
		}
		a := "None"
		if n.HasArr {
			var xs []string
			for _, c := range n.Arr {
				xs = append(xs, "("+coqStr(c.Field)+", "+coqValue(c)+")")
			}
			a = "(Some " + coqList(xs) + ")"
		}
		return "(VSub " + coqList(d) + " " + a + ")"
	}
	return "(VStr " + coqStr(absentSentinel+n.Kind) + ")"
}

// descValue renders a dump compactly for replay files / samples.
func descValue(n *ucfg.VerifNode) string {
	switch n.Kind {
	case "nil":
		return "nil"
	case "bool":
		return fmt.Sprint(n.B)
	case "int":
		return fmt.Sprintf("i:%d", n.I)
	case "uint":
		return fmt.Sprintf("u:%d", n.U)
	case "float":
		return fmt.Sprintf("f:%v", math.Float64frombits(n.FBits))
	case "string":
		return fmt.Sprintf("%q", n.S)
	case "ref", "splice":
		return n.Kind
	case "sub":
		var b strings.Builder
		b.WriteString("{")
		for i, k := range n.Keys {
			if i > 0 {
				b.WriteString(",")
			}
			c := n.Dict[k]
			b.WriteString(k)
			if c.Field != k {
				b.WriteString("@" + c.Field)
			}
			b.WriteString(":" + descValue(c))
		}
		b.WriteString("}")
		if n.HasArr {
			b.WriteString("[")
			for i, c := range n.Arr {
				if i > 0 {
					b.WriteString(",")
				}
				if c.Field != fmt.Sprint(i) {
					b.WriteString("@" + c.Field + ":")
				}
				b.WriteString(descValue(c))
			}
			b.WriteString("]")
		}
		return b.String()
	}
	return "<" + n.Kind + ">"
}

// ---- observable trees (what Unpack into interface{} returns) ----------------------------

func coqOTree(v interface{}) string {
	switch x := v.(type) {
	case nil:
		return "ONil"
	case bool:
		return "(OBool " + coqBool(x) + ")"
	case int64:
		return "(OInt " + coqZ(x) + ")"
	case int:
		return "(OInt " + coqZ(int64(x)) + ")"
	case uint64:
		return "(OUint " + coqZu(x) + ")"
	case float64:
		return "(OFloat " + coqZu(math.Float64bits(x)) + ")"
	case string:
		return "(OStr " + coqStr(x) + ")"
	case []interface{}:
		xs := make([]string, len(x))
		for i, e := range x {
			xs[i] = coqOTree(e)
		}
		return "(OList " + coqList(xs) + ")"
	case map[string]interface{}:
		keys := make([]string, 0, len(x))
		for k := range x {
			keys = append(keys, k)
		}
		sort.Strings(keys)
		xs := make([]string, len(keys))
		for i, k := range keys {
			xs[i] = "(" + coqStr(k) + ", " + coqOTree(x[k]) + ")"
		}
		return "(OMap " + coqList(xs) + ")"
	}
	return "(OStr " + coqStr(fmt.Sprintf("\x00unexpected %T", v)) + ")"
}

// unpackAny unpacks a config into the generic representation (map, or list when it has
// only an array part).
func unpackAny(c *ucfg.Config, opts ...ucfg.Option) (interface{}, error) {
	if c.IsArray() && !c.IsDict() {
		var l []interface{}
		if err := c.Unpack(&l, opts...); err != nil {
			return nil, err
		}
		if l == nil {
			return []interface{}{}, nil
		}
		return l, nil
	}
	var m map[string]interface{}
	if err := c.Unpack(&m, opts...); err != nil {
		return nil, err
	}
	return m, nil
}

// ---- random data trees ------------------------------------------------------------------

type TreeCfg struct {
	Keys     []string
	MaxDepth int
	MaxWidth int
	PNil     int // per 16
	PEmpty   int // per 16: empty map / empty list
}

var defaultTreeCfg = TreeCfg{Keys: []string{"a", "b", "c", "l", "x"}, MaxDepth: 3, MaxWidth: 3, PNil: 2, PEmpty: 2}

func randScalar(r *Rng) interface{} {
	switch r.Intn(8) {
	case 0:
		return r.Bool()
	case 1:
		return int64(r.Intn(7)) - 3
	case 2:
		return uint64(r.Intn(5))
	case 3:
		return []float64{0.5, -1.25, 3, 1e10}[r.Intn(4)]
	case 4, 5:
		return []string{"s", "t", "", "v w", "1", "true"}[r.Intn(6)]
	case 6:
		return int64(-1 - r.Intn(100))
	default:
		return uint64(10 + r.Intn(1000))
	}
}

func randTree(r *Rng, c TreeCfg, depth int) interface{} {
	if depth >= c.MaxDepth || r.P(5, 16) {
		if r.P(c.PNil, 16) {
			return nil
		}
		return randScalar(r)
	}
	if r.P(c.PEmpty, 16) {
		if r.Bool() {
			return map[string]interface{}{}
		}
		return []interface{}{}
	}
	if r.P(6, 16) {
		n := 1 + r.Intn(c.MaxWidth)
		l := make([]interface{}, n)
		for i := range l {
			l[i] = randTree(r, c, depth+1)
		}
		return l
	}
	return randMap(r, c, depth)
}

func randMap(r *Rng, c TreeCfg, depth int) map[string]interface{} {
	n := 1 + r.Intn(c.MaxWidth)
	m := map[string]interface{}{}
	for i := 0; i < n; i++ {
		m[c.Keys[r.Intn(len(c.Keys))]] = randTree(r, c, depth+1)
	}
	return m
}

// mutateTree derives a tree related to t (so that keys collide and types change at the
// same key): keeps, replaces, or recursively mutates each entry.
func mutateTree(r *Rng, c TreeCfg, t interface{}, depth int) interface{} {
	switch x := t.(type) {
	case map[string]interface{}:
		m := map[string]interface{}{}
		for _, k := range sortedKeys(x) {
			v := x[k]
			switch r.Intn(6) {
			case 0: // drop
			case 1:
				m[k] = randTree(r, c, depth+1) // type change possible
			case 2:
				m[k] = nil
			default:
				m[k] = mutateTree(r, c, v, depth+1)
			}
		}
		if r.P(1, 2) {
			m[c.Keys[r.Intn(len(c.Keys))]] = randTree(r, c, depth+1)
		}
		return m
	case []interface{}:
		n := len(x) + r.Intn(3) - 1
		if n < 0 {
			n = 0
		}
		l := make([]interface{}, n)
		for i := range l {
			if i < len(x) && r.P(2, 3) {
				l[i] = mutateTree(r, c, x[i], depth+1)
			} else {
				l[i] = randTree(r, c, depth+1)
			}
		}
		return l
	default:
		if r.P(1, 3) {
			return randTree(r, c, depth+1)
		}
		return randScalar(r)
	}
}

func descTree(t interface{}) string {
	switch x := t.(type) {
	case nil:
		return "nil"
	case map[string]interface{}:
		keys := make([]string, 0, len(x))
		for k := range x {
			keys = append(keys, k)
		}
		sort.Strings(keys)
		var b strings.Builder
		b.WriteString("{")
		for i, k := range keys {
			if i > 0 {
				b.WriteString(",")
			}
			b.WriteString(k + ":" + descTree(x[k]))
		}
		b.WriteString("}")
		return b.String()
	case []interface{}:
		xs := make([]string, len(x))
		for i, e := range x {
			xs[i] = descTree(e)
		}
		return "[" + strings.Join(xs, ",") + "]"
	case string:
		return fmt.Sprintf("%q", x)
	case int64:
		return fmt.Sprintf("i:%d", x)
	case uint64:
		return fmt.Sprintf("u:%d", x)
	}
	return fmt.Sprint(t)
}

// asStruct renders a map-rooted tree as a value of a run-time struct type
// (reflect.StructOf) with config tags; nested maps become nested structs.
func asStruct(t map[string]interface{}) interface{} { return asStructOrder(nil, t) }

// asStructOrder: with an Rng the fields are declared in a pseudo-random order (the order in
// which normalizeStruct visits them), otherwise sorted by key.
func asStructOrder(r *Rng, t map[string]interface{}) interface{} {
	keys := sortedKeys(t)
	if r != nil {
		for j := len(keys) - 1; j > 0; j-- {
			k := r.Intn(j + 1)
			keys[j], keys[k] = keys[k], keys[j]
		}
	}
	var fields []reflect.StructField
	var vals []reflect.Value
	for i, k := range keys {
		var v reflect.Value
		switch x := t[k].(type) {
		case map[string]interface{}:
			v = reflect.ValueOf(asStructOrder(r, x))
		case nil:
			v = reflect.Zero(reflect.TypeOf((*interface{})(nil)).Elem())
		default:
			v = reflect.ValueOf(x)
		}
		typ := reflect.TypeOf((*interface{})(nil)).Elem()
		if v.IsValid() && t[k] != nil {
			typ = v.Type()
		}
		fields = append(fields, reflect.StructField{
			Name: fmt.Sprintf("F%d", i), Type: typ,
			Tag: reflect.StructTag(fmt.Sprintf(`config:"%s"`, k)),
		})
		vals = append(vals, v)
	}
	st := reflect.New(reflect.StructOf(fields)).Elem()
	for i, v := range vals {
		if v.IsValid() && t[keys[i]] != nil {
			st.Field(i).Set(v)
		}
	}
	return st.Interface()
}

func treeSize(t interface{}) int {
	switch x := t.(type) {
	case map[string]interface{}:
		n := 1
		for _, v := range x {
			n += treeSize(v)
		}
		return n
	case []interface{}:
		n := 1
		for _, v := range x {
			n += treeSize(v)
		}
		return n
	}
	return 1
}

// ---- replayable encoding of data trees (scalars tagged so JSON keeps their kind) ---------

func encTree(t interface{}) interface{} {
	switch x := t.(type) {
	case nil:
		return nil
	case bool:
		return fmt.Sprintf("b:%v", x)
	case int64:
		return fmt.Sprintf("i:%d", x)
	case uint64:
		return fmt.Sprintf("u:%d", x)
	case float64:
		return fmt.Sprintf("f:%016x", math.Float64bits(x))
	case string:
		return "s:" + x
	case []interface{}:
		l := make([]interface{}, len(x))
		for i, e := range x {
			l[i] = encTree(e)
		}
		return l
	case map[string]interface{}:
		m := map[string]interface{}{}
		for k, e := range x {
			m[k] = encTree(e)
		}
		return m
	}
	return fmt.Sprintf("s:<%T>", t)
}

func decTree(t interface{}) interface{} {
	switch x := t.(type) {
	case nil:
		return nil
	case string:
		if len(x) < 2 {
			return x
		}
		body := x[2:]
		switch x[:2] {
		case "b:":
			return body == "true"
		case "i:":
			var i int64
			fmt.Sscan(body, &i)
			return i
		case "u:":
			var u uint64
			fmt.Sscan(body, &u)
			return u
		case "f:":
			var u uint64
			fmt.Sscanf(body, "%x", &u)
			return math.Float64frombits(u)
		case "s:":
			return body
		}
		return x
	case []interface{}:
		l := make([]interface{}, len(x))
		for i, e := range x {
			l[i] = decTree(e)
		}
		return l
	case map[string]interface{}:
		m := map[string]interface{}{}
		for k, e := range x {
			m[k] = decTree(e)
		}
		return m
	}
	return t
}

// sortedKeys: every walk that draws random numbers visits map entries in sorted order, so that
// one seed always generates the same cases
func sortedKeys(m map[string]interface{}) []string {
	keys := make([]string, 0, len(m))
	for k := range m {
		keys = append(keys, k)
	}
	sort.Strings(keys)
	return keys
}
