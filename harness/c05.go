package main

import (
	"fmt"
	"strings"

	ucfg "github.com/elastic/go-ucfg"
)

func init() {
	register("C05", func(g *Gen) { genC05(g, false) })
	register("C09", func(g *Gen) { genC05(g, true) })
}

// c05Key: a named string type - as a key of an interface-keyed map it is distinct from the
// plain string of the same text
type c05Key string

func randScalarFixed(k int) interface{} { return uint64(7) }

type normOpts struct {
	Sep     string `json:"sep"`
	VarExp  bool   `json:"varexp"`
	NumKeys bool   `json:"numkeys"`
	Pol     int    `json:"pol"`
	MaxIdx  int64  `json:"maxidx,omitempty"` // 0: the default
	Escape  bool   `json:"escape,omitempty"`
	Tag     string `json:"tag,omitempty"` // StructTag name ("" = the default, config)
}

func (o normOpts) opts() []ucfg.Option {
	var out []ucfg.Option
	if o.Sep != "" {
		out = append(out, ucfg.PathSep(o.Sep))
	}
	if o.VarExp {
		out = append(out, ucfg.VarExp)
	}
	if o.NumKeys {
		out = append(out, ucfg.EnableNumKeys(true))
	}
	if p := policyOpts[o.Pol]; p.opt != nil {
		out = append(out, p.opt)
	}
	if o.MaxIdx != 0 {
		out = append(out, ucfg.MaxIdx(o.MaxIdx))
	}
	if o.Escape {
		out = append(out, ucfg.EscapePath())
	}
	if o.Tag != "" {
		out = append(out, ucfg.StructTag(o.Tag))
	}
	return out
}

func (o normOpts) coq() string {
	mx := int64(1024)
	if o.MaxIdx != 0 {
		mx = o.MaxIdx
	}
	return fmt.Sprintf("{| n_p := {| p_sep := %s; p_maxIdx := %d; p_numKeys := %s; p_escape := %s |}; n_varexp := %s; n_m := {| m_h := %d%%N; m_ft := None |} |}",
		coqStr(o.Sep), mx, coqBool(o.NumKeys), coqBool(o.Escape), coqBool(o.VarExp), policyOpts[o.Pol].h)
}

// normObs runs normalize (through the hook) and renders the outcome as an [obs].
func normObs(from interface{}, o normOpts) (string, string) {
	var n *ucfg.VerifNode
	var err error
	if p, m := guard(func() { n, err = ucfg.VerifNormalize(from, o.opts()...) }); p {
		return "OPanic", "PANIC " + m
	}
	if err != nil {
		return coqErr(err), descErr(err)
	}
	return "(OV " + coqValue(n) + ")", descValue(n)
}

func newFromObs(from interface{}, o normOpts) (string, string, *ucfg.Config) {
	var c *ucfg.Config
	var err error
	if p, m := guard(func() { c, err = ucfg.NewFrom(from, o.opts()...) }); p {
		return "OPanic", "PANIC " + m, nil
	}
	if err != nil {
		return coqErr(err), descErr(err), nil
	}
	n := ucfg.VerifDump(c)
	return "(OV " + coqValue(n) + ")", descValue(n), c
}

type c05Dual struct {
	Host string `config:"host" alt:"name"`
	Port int    `config:"port" alt:"host"`
	In   struct {
		A int `config:"a" alt:"b"`
		B int `config:"b" alt:"a,ignore"`
	} `config:"in" alt:"out"`
	L []struct {
		X string `config:"x" alt:"y"`
	} `config:"l" alt:"l"`
}

func c05Norm(from interface{}, o normOpts, desc string, tags ...string) Case {
	if o.Tag != "" {
		gvalStructTag = o.Tag
		defer func() { gvalStructTag = "config" }()
	}
	g := coqGval(from, "")
	obs, d := normObs(from, o)
	return Case{Coq: fmt.Sprintf("CNorm %s %s %s", o.coq(), g, obs),
		Desc: map[string]interface{}{"kind": "norm", "opts": o, "input": desc, "type": fmt.Sprintf("%T", from), "observed": d},
		Tags: append([]string{"norm"}, tags...), Nontrivial: true}
}

// flattenPartial rewrites nested maps into dotted keys at random places (disjoint expansions).
func flattenPartial(r *Rng, t map[string]interface{}, p int) map[string]interface{} {
	out := map[string]interface{}{}
	for _, k := range sortedKeys(t) {
		v := t[k]
		m, ok := v.(map[string]interface{})
		if !ok || len(m) == 0 {
			out[k] = v
			continue
		}
		m = flattenPartial(r, m, p)
		if r.P(p, 8) {
			for _, k2 := range sortedKeys(m) {
				out[k+"."+k2] = m[k2]
			}
		} else {
			out[k] = m
		}
	}
	return out
}

// splitMix writes a subtree partly nested and partly as dotted keys (list indices included):
// every leaf keeps its position, so the result denotes the same tree. With pnil, a sub-map
// all of whose leaves moved to dotted keys may be left behind as an explicit nil.
func splitMix(r *Rng, t map[string]interface{}) map[string]interface{} {
	out := map[string]interface{}{}
	var walk func(prefix string, v interface{}, nested map[string]interface{}, key string)
	put := func(k string, v interface{}) { out[k] = v }
	walk = func(prefix string, v interface{}, nested map[string]interface{}, key string) {
		switch x := v.(type) {
		case map[string]interface{}:
			if len(x) == 0 || r.P(1, 3) {
				nested[key] = v
				return
			}
			sub := map[string]interface{}{}
			for _, k := range sortedKeys(x) {
				e := x[k]
				if r.Bool() {
					walk(prefix+"."+k, e, sub, k)
				} else {
					flat(prefix+"."+k, e, put, r)
				}
			}
			if len(sub) > 0 {
				nested[key] = sub
			} else if r.P(1, 2) {
				nested[key] = nil
			}
		case []interface{}:
			// a literal list that keeps every entry (so indices stay), while some leaves of its
			// map entries are written as dotted keys with the index as a segment
			if len(x) == 0 || r.P(1, 2) {
				nested[key] = v
				return
			}
			lst := make([]interface{}, len(x))
			for i, e := range x {
				if em, ok := e.(map[string]interface{}); ok && len(em) > 0 {
					keep := map[string]interface{}{}
					for _, k := range sortedKeys(em) {
						ev := em[k]
						if r.Bool() {
							keep[k] = ev
						} else {
							flat(fmt.Sprintf("%s.%d.%s", prefix, i, k), ev, put, r)
						}
					}
					lst[i] = keep
				} else {
					lst[i] = e
				}
			}
			nested[key] = lst
		default:
			nested[key] = v
		}
	}
	for _, k := range sortedKeys(t) {
		walk(k, t[k], out, k)
	}
	return out
}

// flat emits v under dotted keys starting at prefix (maps and, sometimes, lists are expanded)
func flat(prefix string, v interface{}, put func(string, interface{}), r *Rng) {
	switch x := v.(type) {
	case map[string]interface{}:
		if len(x) == 0 || r.P(1, 3) {
			put(prefix, v)
			return
		}
		for _, k := range sortedKeys(x) {
			flat(prefix+"."+k, x[k], put, r)
		}
	case []interface{}:
		if len(x) == 0 || r.P(1, 2) {
			put(prefix, v)
			return
		}
		for i, e := range x {
			flat(fmt.Sprintf("%s.%d", prefix, i), e, put, r)
		}
	default:
		put(prefix, v)
	}
}

// kvsOf lists the entries of m in one (pseudo-random) enumeration order: the model must not
// depend on it either.
func kvsOf(r *Rng, m map[string]interface{}) string {
	keys := sortedKeys(m)
	for j := len(keys) - 1; j > 0; j-- {
		k := r.Intn(j + 1)
		keys[j], keys[k] = keys[k], keys[j]
	}
	xs := make([]string, len(keys))
	for i, k := range keys {
		xs[i] = "((KStr " + coqStr(k) + "), " + coqGval(m[k], "") + ")"
	}
	return coqList(xs)
}

// outcomes of repeated NewFrom on one map, rebuilt under different insertion orders
func repeatOutcomes(r *Rng, m map[string]interface{}, o normOpts, runs int) ([]string, []string) {
	seen := map[string]bool{}
	var coqs, descs []string
	keys := sortedKeys(m)
	for i := 0; i < runs; i++ {
		// rebuild the map under a fresh insertion order
		for j := len(keys) - 1; j > 0; j-- {
			k := r.Intn(j + 1)
			keys[j], keys[k] = keys[k], keys[j]
		}
		var in interface{}
		if i%2 == 0 {
			m2 := make(map[string]interface{}, len(m))
			for _, k := range keys {
				m2[k] = m[k]
			}
			in = m2
		} else {
			// the same entries in interface-keyed maps (what a YAML decoder produces), at every depth
			m2 := make(map[interface{}]interface{}, len(m))
			for _, k := range keys {
				m2[k] = ifaceKeyed(m[k])
			}
			in = m2
		}
		c, d, _ := newFromObs(in, o)
		if !seen[c] {
			seen[c] = true
			coqs = append(coqs, c)
			descs = append(descs, d)
		}
	}
	return coqs, descs
}

func ifaceKeyed(t interface{}) interface{} {
	switch x := t.(type) {
	case map[string]interface{}:
		m := make(map[interface{}]interface{}, len(x))
		for k, v := range x {
			m[k] = ifaceKeyed(v)
		}
		return m
	case []interface{}:
		l := make([]interface{}, len(x))
		for i, v := range x {
			l[i] = ifaceKeyed(v)
		}
		return l
	}
	return t
}

var overlapForms = []map[string]interface{}{
	{"a.b": uint64(1), "a": map[string]interface{}{"b": uint64(2)}},
	{"a": uint64(1), "a.b": uint64(2)},
	{"a.b.c": "x", "a.b": map[string]interface{}{"c": "y"}},
	{"a.b": map[string]interface{}{"c": uint64(1)}, "a": map[string]interface{}{"b": map[string]interface{}{"c": uint64(2)}}},
	{"l.0": "x", "l": []interface{}{"y"}},
	{"a.b": "x", "a": map[string]interface{}{"b": "x"}},
	{"a": "s", "a.b.c": true},
	// the same list entries reached under two spellings
	{"a": map[string]interface{}{"l": []interface{}{uint64(1), uint64(2)}}, "a.l": []interface{}{uint64(3)}},
	{"a.l": []interface{}{map[string]interface{}{"x": uint64(1)}}, "a": map[string]interface{}{"l": []interface{}{map[string]interface{}{"x": uint64(2)}}}},
	{"a": map[string]interface{}{"l": []interface{}{[]interface{}{uint64(1)}}}, "a.l": []interface{}{[]interface{}{uint64(2)}}},
	{"a": map[string]interface{}{"l": []interface{}{nil, "y"}}, "a.l.1": "x"},
	// two spellings of a namespace below the top level that share several names: the first shared
	// name is a namespace without a clash, the doubly defined setting is a later sibling / a list entry
	{"p": map[string]interface{}{"a": map[string]interface{}{"b": map[string]interface{}{"q": uint64(1)}, "x": uint64(1)}}, "p.a": map[string]interface{}{"b": map[string]interface{}{"r": uint64(2)}, "x": uint64(2)}},
	{"p": map[string]interface{}{"a": map[string]interface{}{"b": map[string]interface{}{"q": uint64(1)}, "c": map[string]interface{}{"q": "s"}, "k": true}}, "p.a": map[string]interface{}{"b": map[string]interface{}{"r": uint64(2)}, "c": map[string]interface{}{"r": "t"}, "k": false}},
	{"p": map[string]interface{}{"a": map[string]interface{}{"b": map[string]interface{}{"q": uint64(1)}, "l": []interface{}{"u", "v"}}}, "p.a": map[string]interface{}{"b": map[string]interface{}{"r": uint64(2)}, "l": []interface{}{nil, "w"}}},
}

// overlapFormsNum: names that are numbers, kept as names (EnableNumKeys): two names may spell one number
var overlapFormsNum = []map[string]interface{}{
	{"q": map[string]interface{}{"p": map[string]interface{}{"1": "a", "01": "b"}}, "q.p": map[string]interface{}{"1": "c", "01": "d"}},
	{"q": map[string]interface{}{"p": map[string]interface{}{"2": "a", "10": "b", "1a": "e"}}, "q.p": map[string]interface{}{"10": "c", "2": "d", "1a": "f"}},
	{"p": map[string]interface{}{"1": "a", "01": "b"}, "p.1": "c", "p.01": "d"},
	{"p": map[string]interface{}{"2": "a", "10": "b", "1a": "e"}, "p.10": "c", "p.2": "d", "p.1a": "f"},
	{"p": map[string]interface{}{"1": map[string]interface{}{"x": "a"}, "01": map[string]interface{}{"x": "b"}, "001": map[string]interface{}{"x": "b"}}, "p.1.x": "c", "p.01.x": "d", "p.001.x": "d"},
}

// overlapRandom: a tree some of whose settings are spelled a second time by dotted keys, with the
// same value, another value, nil, or a value of another shape: a duplicate or a legal mixture
func overlapRandom(r *Rng, tc TreeCfg) map[string]interface{} {
	t := randMap(r, tc, 0)
	if r.P(1, 2) {
		t["a"] = map[string]interface{}{"l": []interface{}{randScalar(r), map[string]interface{}{"x": randScalar(r)}, []interface{}{randScalar(r)}}, "b": randScalar(r)}
	}
	out := deepCopy(t).(map[string]interface{})
	variant := func(v interface{}) interface{} {
		switch r.Intn(6) {
		case 0:
			return nil
		case 1:
			return randScalar(r)
		case 2:
			return map[string]interface{}{"x": randScalar(r)}
		case 3:
			return []interface{}{randScalar(r)}
		}
		return deepCopy(v)
	}
	var walk func(prefix string, v interface{}, depth int)
	walk = func(prefix string, v interface{}, depth int) {
		switch x := v.(type) {
		case map[string]interface{}:
			for _, k := range sortedKeys(x) {
				p := k
				if prefix != "" {
					p = prefix + "." + k
				}
				if depth >= 1 && r.P(1, 4) {
					out[p] = variant(x[k])
				} else {
					walk(p, x[k], depth+1)
				}
			}
		case []interface{}:
			for i, e := range x {
				p := fmt.Sprintf("%s.%d", prefix, i)
				if depth >= 1 && r.P(1, 4) {
					out[p] = variant(e)
				} else {
					walk(p, e, depth+1)
				}
			}
		}
	}
	walk("", t, 0)
	return out
}

func genC05(g *Gen, c09 bool) {
	r := g.R
	tc := TreeCfg{Keys: []string{"a", "b", "c", "k", "l"}, MaxDepth: 3, MaxWidth: 3, PNil: 2, PEmpty: 2}
	n := g.N
	// (3)+(4) order sensitivity: repeated runs
	runs := 24
	if g.Thorough() {
		runs = 64
	}
	for i, m := range overlapForms {
		o := normOpts{Sep: "."}
		coqs, descs := repeatOutcomes(r, m, o, runs*2)
		g.Add(Case{Coq: fmt.Sprintf("CDup %s %s %s", o.coq(), kvsOf(r, m), coqList(coqs)),
			Desc: map[string]interface{}{"kind": "dup", "form": i, "input": descTree(m), "outcomes": descs},
			Tags: []string{"dup", fmt.Sprintf("outcomes=%d", len(coqs))}, Nontrivial: true})
	}
	for i, m := range overlapFormsNum {
		o := normOpts{Sep: ".", NumKeys: true}
		coqs, descs := repeatOutcomes(r, m, o, runs*2)
		g.Add(Case{Coq: fmt.Sprintf("CDup %s %s %s", o.coq(), kvsOf(r, m), coqList(coqs)),
			Desc: map[string]interface{}{"kind": "dup", "form": 100 + i, "numkeys": true, "input": descTree(m), "outcomes": descs},
			Tags: []string{"dup", "numkeys", fmt.Sprintf("outcomes=%d", len(coqs))}, Nontrivial: true})
	}
	nset := n / 4
	if c09 {
		nset = n
	}
	for i := 0; i < nset; i++ {
		t := randMap(r, tc, 0)
		if r.P(1, 3) {
			t["l"] = []interface{}{map[string]interface{}{"x": randScalar(r), "y": randScalar(r)}, map[string]interface{}{"x": randScalar(r), "z": randTree(r, tc, 2)}}
		}
		o := normOpts{Sep: "."}
		flat := flattenPartial(r, t, 4)
		if r.Bool() {
			flat = splitMix(r, t)
		}
		coqs, descs := repeatOutcomes(r, flat, o, runs)
		g.Add(Case{Coq: fmt.Sprintf("CNormSet %s %s %s", o.coq(), kvsOf(r, flat), coqList(coqs)),
			Desc: map[string]interface{}{"kind": "normset", "input": descTree(flat), "outcomes": descs},
			Tags: []string{"normset", fmt.Sprintf("outcomes=%d", len(coqs))}, Nontrivial: len(flat) > 1})
	}
	// what one input means does not depend on the merge policy of the call it is given to: the
	// spellings of one namespace are folded the same way under every policy
	policyForms := []interface{}{
		map[string]interface{}{"a": map[string]interface{}{"l": []interface{}{nil, uint64(1)}}, "a.l": []interface{}{uint64(2)}},
		map[string]interface{}{"a.b": map[string]interface{}{"x": uint64(1)}, "a": map[string]interface{}{"b": map[string]interface{}{"y": uint64(2)}, "c": uint64(3)}},
		struct {
			B int            `config:"a.b"`
			A map[string]int `config:"a"`
		}{1, map[string]int{"c": 2}},
		struct {
			X int              `config:"a.1"`
			A []map[string]int `config:"a"`
		}{3, []map[string]int{{"k": 1}}},
	}
	for i := 0; i < n/8; i++ {
		policyForms = append(policyForms, overlapRandom(r, tc))
	}
	for _, m := range policyForms {
		c0, d0 := normObs(m, normOpts{Sep: "."})
		for pol := 1; pol < len(policyOpts); pol++ {
			cp, dp := normObs(m, normOpts{Sep: ".", Pol: pol})
			if strings.HasPrefix(c0, "(OE") && strings.HasPrefix(cp, "(OE") {
				continue // rejected either way
			}
			g.Add(Case{Coq: fmt.Sprintf("CSame %s %s %s", coqStr("policy-independent"), c0, cp),
				Desc: map[string]interface{}{"kind": "same", "what": "one input normalized under the default policy and under " + policyOpts[pol].name, "input": fmt.Sprintf("%v", m), "default": d0, policyOpts[pol].name: dp},
				Tags: []string{"same:policy"}, Nontrivial: true})
		}
	}
	// one struct type that names its fields differently under two struct tag names, normalized under
	// either name in one process
	for i := 0; i < 4; i++ {
		v := c05Dual{Host: "h", Port: 8000 + i}
		v.In.A, v.In.B = 1, 2
		v.L = append(v.L, struct {
			X string `config:"x" alt:"y"`
		}{"e"})
		for _, tg := range []string{"", "alt", "", "alt"}[i%2:] {
			var in interface{} = v
			if i >= 2 {
				in = map[string]interface{}{"wrapped": &v, "n": i}
			}
			g.Add(c05Norm(in, normOpts{Sep: ".", Tag: tg}, fmt.Sprintf("%+v under tag %q", v, tg), "struct-tag:"+tg))
		}
	}
	// one existing Config at two places of an input that extends one of them by another spelling,
	// and the same input given a second time: the Config is a value, nothing is written into it
	for i := 0; i < n/8+2; i++ {
		x := randMap(r, tc, 1)
		x["k0"] = randScalar(r)
		if r.Bool() {
			x["n"] = map[string]interface{}{"p": randScalar(r)}
		}
		if r.P(1, 3) {
			x["l"] = []interface{}{randScalar(r), map[string]interface{}{"q": randScalar(r)}}
		}
		cfg, err := ucfg.NewFrom(x, ucfg.PathSep("."))
		if err != nil {
			continue
		}
		ext := "b.zz"
		switch {
		case x["n"] != nil && r.Bool():
			ext = "b.n.zz"
		case x["l"] != nil && r.Bool():
			ext = []string{"b.l.2", "b.l.1.zz", "b.l.4"}[r.Intn(3)]
		}
		var in interface{} = map[string]interface{}{"a": cfg, "b": cfg, ext: randScalar(r)}
		if r.P(1, 3) {
			in = map[string]interface{}{"a": []interface{}{cfg}, "b": cfg, ext: randScalar(r), "c": map[string]interface{}{"d": cfg}}
		}
		o := normOpts{Sep: "."}
		g0 := coqGval(in, "")
		desc := fmt.Sprintf("cfg=%s at a and b, extended by %s", descTree(x), ext)
		for k := 0; k < 2; k++ {
			obs, d := normObs(in, o)
			g.Add(Case{Coq: fmt.Sprintf("CNorm %s %s %s", o.coq(), g0, obs),
				Desc: map[string]interface{}{"kind": "norm", "opts": o, "input": desc, "call": k + 1, "observed": d},
				Tags: []string{"norm", "shared-config", fmt.Sprintf("call:%d", k+1)}, Nontrivial: true})
		}
	}
	for i := 0; i < n/4; i++ {
		o := normOpts{Sep: "."}
		m := overlapRandom(r, tc)
		coqs, descs := repeatOutcomes(r, m, o, 4)
		g.Add(Case{Coq: fmt.Sprintf("CNormSet %s %s %s", o.coq(), kvsOf(r, m), coqList(coqs)),
			Desc: map[string]interface{}{"kind": "normset", "input": descTree(m), "outcomes": descs},
			Tags: []string{"normset", "overlap", fmt.Sprintf("outcomes=%d", len(coqs))}, Nontrivial: len(m) > 1})
	}
	if c09 {
		// repeated Unpack (into generic and typed maps) of configs whose sections reference each
		// other, with defaults that absorb the cycles and several failing settings
		secs := []string{"p", "q", "s", "t"}
		for i := 0; i < n/2; i++ {
			root := map[string]interface{}{}
			ns := 2 + r.Intn(3)
			for j := 0; j < ns; j++ {
				sec := map[string]interface{}{}
				for _, f := range []string{"host", "port", "x"} {
					other := secs[r.Intn(ns)]
					of := []string{"host", "port", "x", "nope"}[r.Intn(4)]
					switch r.Intn(6) {
					case 0:
						sec[f] = fmt.Sprintf("${%s.%s:d%d}", other, of, j)
					case 1:
						sec[f] = fmt.Sprintf("${%s.%s}", other, of)
					case 2:
						sec[f] = fmt.Sprintf("%s-${%s.%s:${%s.%s:e%d}}", f, other, of, secs[r.Intn(ns)], of, j)
					case 3:
						sec[f] = fmt.Sprintf("${%s.%s:?bad %d}", other, of, j)
					default:
						sec[f] = fmt.Sprintf("v%d", r.Intn(3))
					}
				}
				root[secs[j]] = sec
				if r.P(1, 3) {
					// the section is a list as well (named settings and entries in one namespace)
					root[secs[j]+".0"] = "first"
				}
			}
			if r.P(1, 3) {
				root["a"] = fmt.Sprintf("${b:%d}", 1)
				root["b"] = "${a:2}"
			}
			if r.P(1, 3) {
				// a namespace without a reference of its own whose sub-namespaces fail in different
				// ways (a missing name, a cycle): which failure Unpack reports must not depend on the
				// order in which they are visited
				grp := map[string]interface{}{}
				for _, nm := range []string{"u", "v", "w", "x"}[:2+r.Intn(3)] {
					switch r.Intn(3) {
					case 0:
						grp[nm] = map[string]interface{}{"k": "${nope_" + nm + "}"}
					case 1:
						grp[nm] = map[string]interface{}{"k": "${grp." + nm + ".k}"}
					default:
						grp[nm] = map[string]interface{}{"k": "${grp." + nm + ".j:?unset " + nm + "}"}
					}
				}
				root["grp"] = grp
			}
			opts := []ucfg.Option{ucfg.PathSep("."), ucfg.VarExp}
			seen := map[string]bool{}
			var coqs, descs []string
			for k := 0; k < runs; k++ {
				c, err := ucfg.NewFrom(root, opts...)
				if err != nil {
					break
				}
				var d string
				switch k % 3 {
				case 0:
					var m map[string]interface{}
					err = c.Unpack(&m, opts...)
					d = descTree(m)
				case 1:
					var m map[string]map[string]string
					err = c.Unpack(&m, opts...)
					d = fmt.Sprintf("%v", m)
				default:
					var m struct {
						P, Q, S, T map[string]interface{}
						A, B       string
					}
					err = c.Unpack(&m, opts...)
					d = fmt.Sprintf("%v", m)
				}
				var cq string
				if err != nil {
					cq, d = coqErr(err), descErr(err)
				} else {
					cq = "(OV (VStr " + coqStr(fmt.Sprintf("%d:%s", k%3, d)) + "))"
				}
				key := fmt.Sprintf("%d|%s", k%3, cq)
				if !seen[key] {
					seen[key] = true
					coqs = append(coqs, cq)
					descs = append(descs, fmt.Sprintf("target %d: %s", k%3, d))
				}
			}
			// one outcome per target kind: group by kind
			for kind := 0; kind < 3; kind++ {
				var cs, ds []string
				for j, d := range descs {
					if strings.HasPrefix(d, fmt.Sprintf("target %d:", kind)) {
						cs = append(cs, coqs[j])
						ds = append(ds, d)
					}
				}
				if len(cs) == 0 {
					continue
				}
				g.Add(Case{Coq: fmt.Sprintf("CRepeat %s %s", coqStr("unpack-refs"), coqList(cs)),
					Desc: map[string]interface{}{"kind": "repeat-unpack-refs", "root": descTree(root), "target": kind, "outcomes": ds},
					Tags: []string{"repeat-unpack", fmt.Sprintf("outcomes=%d", len(cs))}, Nontrivial: true})
			}
		}
		// histories whose calls carry different options: a reference stored by a call with VarExp is
		// evaluated by a later Merge without it (both ends of the reference are overlaid by one call);
		// names that spell one number, kept as names, with two different faults
		c09Hist := func(label string, run func() (interface{}, error)) {
			seen := map[string]bool{}
			var coqs, descs []string
			for k := 0; k < runs*3; k++ {
				data, err := run()
				var cq, d string
				if err != nil {
					cq, d = coqErr(err), descErr(err)
				} else {
					d = fmt.Sprintf("%v", data)
					cq = "(OV (VStr " + coqStr(d) + "))"
				}
				if !seen[cq] {
					seen[cq] = true
					coqs = append(coqs, cq)
					descs = append(descs, d)
				}
			}
			g.Add(Case{Coq: fmt.Sprintf("CRepeat %s %s", coqStr(label), coqList(coqs)),
				Desc: map[string]interface{}{"kind": "repeat-history", "history": label, "outcomes": descs},
				Tags: []string{"repeat-history", fmt.Sprintf("outcomes=%d", len(coqs))}, Nontrivial: true})
		}
		c09Hist("NewFrom(VarExp) then Merge without VarExp over both ends of references", func() (interface{}, error) {
			with := []ucfg.Option{ucfg.PathSep("."), ucfg.VarExp}
			c, err := ucfg.NewFrom(map[string]interface{}{
				"a": map[string]interface{}{"k": 1}, "z": "${a}",
				"y": map[string]interface{}{"k": 1}, "b": "${y}",
				"m": map[string]interface{}{"k": 1}, "n": "${m}"}, with...)
			if err != nil {
				return nil, err
			}
			if err := c.Merge(map[string]interface{}{
				"a": map[string]interface{}{"j": 2}, "z": map[string]interface{}{"m": 3},
				"y": map[string]interface{}{"j": 2}, "b": map[string]interface{}{"m": 3},
				"m": map[string]interface{}{"j": 2}, "n": map[string]interface{}{"m": 3}}, ucfg.PathSep(".")); err != nil {
				return nil, err
			}
			var to map[string]interface{}
			err = c.Unpack(&to, with...)
			return to, err
		})
		c09Hist("names that spell one number (EnableNumKeys) with two different faults", func() (interface{}, error) {
			o := []ucfg.Option{ucfg.EnableNumKeys(true)}
			c, err := ucfg.NewFrom(map[string]interface{}{"1": -1, "01": 300, "001": "x", "2": 1, "10": 2, "1a": 3}, o...)
			if err != nil {
				return nil, err
			}
			to := map[string]uint8{}
			err = c.Unpack(&to, o...)
			return to, err
		})
		c09Hist("numeric names and references merged twice (EnableNumKeys, VarExp)", func() (interface{}, error) {
			o := []ucfg.Option{ucfg.EnableNumKeys(true), ucfg.VarExp}
			c, err := ucfg.NewFrom(map[string]interface{}{"01": map[string]interface{}{"k": 1}, "1": "${01}", "02": map[string]interface{}{"k": 1}, "2": "${02}"}, o...)
			if err != nil {
				return nil, err
			}
			if err := c.Merge(map[string]interface{}{"01": map[string]interface{}{"j": 2}, "1": map[string]interface{}{"m": 3}, "02": map[string]interface{}{"j": 2}, "2": map[string]interface{}{"m": 3}}, o...); err != nil {
				return nil, err
			}
			var to map[string]interface{}
			err = c.Unpack(&to, o...)
			return to, err
		})
		c09Hist("Unpack into a target with a pre-filled map[int]V whose entries fail different validators", func() (interface{}, error) {
			type V struct {
				A int    `config:"a" validate:"min=1"`
				B string `config:"b" validate:"required"`
			}
			var to struct {
				M map[int]V         `config:"m"`
				I map[interface{}]V `config:"i"`
				Z int               `config:"z"`
			}
			to.M = map[int]V{1: {A: 0, B: "set"}, 2: {A: 5, B: ""}, 3: {A: 0, B: "set"}, 4: {A: 5, B: ""}}
			to.I = map[interface{}]V{1: {A: 5, B: "x"}, "1": {A: 5, B: "x"}}
			c, err := ucfg.NewFrom(map[string]interface{}{"z": 1})
			if err != nil {
				return nil, err
			}
			err = c.Unpack(&to)
			return to.Z, err
		})
		// interface-keyed maps with two distinct keys that spell the same name (a string and a
		// value of a named string type): whatever such an input means, it means it every time
		for i := 0; i < n/8+3; i++ {
			va, vb := randTree(r, tc, 1), randTree(r, tc, 1)
			if r.Bool() {
				va, vb = map[string]interface{}{"k": randScalar(r), "x": randScalar(r)}, map[string]interface{}{"k": nil, "y": randScalar(r)}
			}
			seen := map[string]bool{}
			var coqs, descs []string
			for k := 0; k < runs*2; k++ {
				in := map[interface{}]interface{}{}
				ents := [][2]interface{}{{"a", va}, {c05Key("a"), vb}, {"b", randScalarFixed(k)}, {c05Key("c"), true}}
				if i%2 == 1 {
					// two spellings of one list index
					ents = [][2]interface{}{{"l.01", va}, {"l.1", vb}, {"l.0", randScalarFixed(k)}, {"b", true}}
				}
				perm := r.Perm(len(ents))
				for _, j := range perm {
					in[ents[j][0]] = ents[j][1]
				}
				c, d, _ := newFromObs(in, normOpts{Sep: "."})
				if !seen[c] {
					seen[c] = true
					coqs = append(coqs, c)
					descs = append(descs, d)
				}
			}
			g.Add(Case{Coq: fmt.Sprintf("CRepeat %s %s", coqStr("same-name-keys"), coqList(coqs)),
				Desc: map[string]interface{}{"kind": "repeat-newfrom", "input": fmt.Sprintf("{\"a\": %s, c05Key(\"a\"): %s, ...}", descTree(va), descTree(vb)), "outcomes": descs},
				Tags: []string{"repeat-newfrom", fmt.Sprintf("outcomes=%d", len(coqs))}, Nontrivial: true})
		}
		// C09 also covers merging and unpacking: repeated Merge / Unpack of one input
		for i := 0; i < n/2; i++ {
			ta := randMap(r, tc, 0)
			tb, _ := mutateTree(r, tc, ta, 0).(map[string]interface{})
			var base []ucfg.Option
			if r.P(1, 3) {
				// settings of the target that are references to sibling namespaces, merged with
				// objects for the references and extensions of the namespaces in one call: what a
				// reference stands for while it is merged into depends on what was merged before
				base = []ucfg.Option{ucfg.PathSep("."), ucfg.VarExp}
				ta = map[string]interface{}{
					"primary": map[string]interface{}{"host": "h1", "l": []interface{}{"x"}},
					"second":  map[string]interface{}{"host": "h2"},
					"backup":  "${primary}", "aa": "${second}", "zz": "${primary}", "k": randScalar(r)}
				tb = map[string]interface{}{}
				for _, kk := range []string{"primary", "second", "backup", "aa", "zz"} {
					if r.P(2, 3) {
						tb[kk] = map[string]interface{}{fmt.Sprintf("n%d", r.Intn(3)): randScalar(r), "l": []interface{}{"y"}}
					}
				}
						if r.Bool() {
					// the same one level down: the top level of the target holds plain namespaces
					// only, the references between them sit inside
					ta = map[string]interface{}{
						"p": map[string]interface{}{"b": map[string]interface{}{"x": 1}, "c": "${r.a}"},
						"q": map[string]interface{}{"a": "${p.b}"},
						"r": map[string]interface{}{"a": "${p.b}", "z": "${q.a}"},
						"s": map[string]interface{}{"t": map[string]interface{}{"u": "${q.a}"}}}
					tb = map[string]interface{}{}
					ext := func() interface{} {
						return map[string]interface{}{fmt.Sprintf("n%d", r.Intn(3)): randScalar(r)}
					}
					if r.P(3, 4) {
						tb["p"] = map[string]interface{}{"b": ext()}
					}
					if r.P(3, 4) {
						tb["q"] = map[string]interface{}{"a": ext()}
					}
					if r.P(1, 2) {
						tb["r"] = map[string]interface{}{"a": ext(), "z": ext()}
					}
					if r.P(1, 2) {
						tb["s"] = map[string]interface{}{"t": map[string]interface{}{"u": ext()}}
					}
				}
			}
			pol := r.Intn(len(policyOpts))
			seen := map[string]bool{}
			var coqs, descs []string
			for k := 0; k < runs/2; k++ {
				dst, err := ucfg.NewFrom(ta, base...)
				if err != nil {
					break
				}
				opts := append([]ucfg.Option{}, base...)
				if p := policyOpts[pol]; p.opt != nil {
					opts = append(opts, p.opt)
				}
				var c, d string
				if err := dst.Merge(tb, opts...); err != nil {
					c, d = coqErr(err), descErr(err)
				} else {
					nd := ucfg.VerifDump(dst)
					u, _ := unpackAny(dst, base...)
					c, d = "(OV "+coqValue(nd)+")", descValue(nd)+" => "+descTree(u)
					c = c + "|" + coqOTree(u)
				}
				if !seen[c] {
					seen[c] = true
					coqs = append(coqs, strings.SplitN(c, "|", 2)[0])
					descs = append(descs, d)
				}
			}
			g.Add(Case{Coq: fmt.Sprintf("CRepeat %s %s", coqStr("merge+unpack"), coqList(coqs)),
				Desc: map[string]interface{}{"kind": "repeat-merge", "a": descTree(ta), "b": descTree(tb), "policy": policyOpts[pol].name, "outcomes": descs},
				Tags: []string{"repeat-merge", fmt.Sprintf("outcomes=%d", len(coqs))}, Nontrivial: true})
		}
		return
	}
	// (1) representations, data-in = data-out, idempotence
	for i := 0; i < n; i++ {
		t := randMap(r, tc, 0)
		o := normOpts{}
		if r.Bool() {
			o.Sep = "."
		}
		rep1 := randRep(r, t, 0)
		rep2 := randRep(r, t, 0)
		g.Add(c05Norm(rep1, o, descTree(t), "rep"))
		c1, d1, cfg1 := newFromObs(rep1, o)
		c2, d2, _ := newFromObs(rep2, o)
		g.Add(Case{Coq: fmt.Sprintf("CSame %s %s %s", coqStr("representation"), c1, c2),
			Desc: map[string]interface{}{"kind": "same-rep", "data": descTree(t), "types": []string{fmt.Sprintf("%T", rep1), fmt.Sprintf("%T", rep2)}, "a": d1, "b": d2},
			Tags: []string{"same:rep"}, Nontrivial: treeSize(t) > 2})
		if cfg1 == nil {
			continue
		}
		u, uerr := unpackAny(cfg1)
		unp := "None"
		if uerr == nil {
			unp = "(Some " + coqOTree(u) + ")"
		}
		g.Add(Case{Coq: fmt.Sprintf("CUnpack %s %s %s", coqValue(ucfg.VerifDump(cfg1)), unp, coqOTree(t)),
			Desc: map[string]interface{}{"kind": "unpack", "data": descTree(t), "config": d1, "unpacked": descTree(u)},
			Tags: []string{"unpack"}, Nontrivial: treeSize(t) > 2})
		if uerr == nil {
			c3, d3, _ := newFromObs(u, o)
			g.Add(Case{Coq: fmt.Sprintf("CSame %s %s %s", coqStr("idempotent"), c1, c3),
				Desc: map[string]interface{}{"kind": "same-idem", "data": descTree(t), "a": d1, "b": d3},
				Tags: []string{"same:idem"}, Nontrivial: treeSize(t) > 2})
		}
	}
	// (2) dotted keys are equivalent to nesting, in any mixture
	for i := 0; i < n; i++ {
		t := randMap(r, tc, 0)
		if r.P(1, 3) {
			t["l"] = []interface{}{map[string]interface{}{"x": randScalar(r), "y": randScalar(r)}, map[string]interface{}{"x": randScalar(r), "z": randTree(r, tc, 2)}}
		}
		o := normOpts{Sep: "."}
		flat := flattenPartial(r, t, 5)
		if r.Bool() {
			flat = splitMix(r, t)
		}
		{
			oc, od, _ := newFromObs(flat, o)
			g.Add(Case{Coq: fmt.Sprintf("CNormSet %s %s %s", o.coq(), kvsOf(r, flat), coqList([]string{oc})),
				Desc: map[string]interface{}{"kind": "normset", "input": descTree(flat), "outcomes": []string{od}},
				Tags: []string{"norm", "flat"}, Nontrivial: true})
		}
		// the same mixture as a struct: the fields are visited in declaration order, so a dotted
		// key can come before the literal value it extends
		if r.P(1, 2) {
			st := asStructOrder(r, flat)
			g.Add(c05Norm(st, o, fmt.Sprintf("%+v", st), "flat", "struct"))
			cs, ds, _ := newFromObs(st, o)
			cn, dn, _ := newFromObs(t, o)
			g.Add(Case{Coq: fmt.Sprintf("CSame %s %s %s", coqStr("dotted-struct"), cn, cs),
				Desc: map[string]interface{}{"kind": "same-dotted", "nested": descTree(t), "flat": fmt.Sprintf("%+v", st), "a": dn, "b": ds},
				Tags: []string{"same:dotted-struct"}, Nontrivial: true})
		}
		c1, d1, _ := newFromObs(t, o)
		c2, d2, _ := newFromObs(flat, o)
		g.Add(Case{Coq: fmt.Sprintf("CSame %s %s %s", coqStr("dotted"), c1, c2),
			Desc: map[string]interface{}{"kind": "same-dotted", "nested": descTree(t), "flat": descTree(flat), "a": d1, "b": d2},
			Tags: []string{"same:dotted"}, Nontrivial: len(flat) != len(t) || fmt.Sprint(flat) != fmt.Sprint(t)})
	}
	// (5) unsupported kinds and odd top levels
	odd := []interface{}{
		map[string]interface{}{"hosts": map[string]interface{}{"0": map[string]interface{}{"name": "a"}, "00": map[string]interface{}{"port": 1}}},
		map[string]interface{}{"0": 5, "00": nil}, map[string]interface{}{"1": "x", "01": "y"}, map[string]interface{}{"1": "x", "0x1": "y"},
		map[string]interface{}{"l": map[string]interface{}{"2": []interface{}{1}, "0b10": []interface{}{nil, 2}}},
		map[string]interface{}{"a": complex(1, 2)}, map[string]interface{}{"a": uintptr(5)},
		map[string]interface{}{"a": make(chan int)}, map[string]interface{}{"a": func() {}},
		map[string]interface{}{"a": (chan int)(nil)}, map[string]interface{}{"a": (func())(nil)},
		map[int]interface{}{1: "x"}, map[interface{}]interface{}{1: "x"}, map[interface{}]interface{}{"k": "x"},
		map[string]interface{}{"a": map[int]string{1: "x"}},
		[]interface{}{"x", uint64(1)}, [2]int{1, -1}, 5, "str", nil2(), struct{ A int }{3}, &struct{ A, b int }{3, 4},
		struct {
			A int `config:"x.y"`
			B int `config:",ignore"`
			C map[string]interface{} `config:",inline"`
		}{1, 2, map[string]interface{}{"z": true}},
		struct {
			A int `config:",inline"`
		}{1},
	}
	for _, x := range odd {
		if x == nil {
			continue
		}
		g.Add(c05Norm(x, normOpts{Sep: "."}, fmt.Sprintf("%#v", x), "odd"))
	}
	// (6) strings under VarExp
	vs := []string{"", "plain", "${a}", "${a.b}", "x${a}y", "${a:d}", "${a:+alt}", "${a:?msg}", "$$", "$}", "${", "${}", "${:x}", "${a", "${a}}", "${${a}}", "${a:${b}}", "$", "a:b", "${a:b:c}", "${a:}", "$x", "${a}${b}", "${a.0}", "${0}", "$${a}", "${a$}b}", "${a:$${b}}", "${a:+}", "${ a }"}
	for _, s := range vs {
		g.Add(c05Norm(map[string]interface{}{"s": s}, normOpts{Sep: ".", VarExp: true}, s, "varexp"))
		g.Add(c05Norm(map[string]interface{}{"s": s}, normOpts{VarExp: true}, s, "varexp"))
	}
	for i := 0; i < n/2; i++ {
		pieces := []string{"$", "{", "}", ":", "+", "?", "a", "b", ".", "0", " ", "$$", "${", "x"}
		k := 1 + r.Intn(8)
		var b strings.Builder
		for j := 0; j < k; j++ {
			b.WriteString(pieces[r.Intn(len(pieces))])
		}
		g.Add(c05Norm(map[string]interface{}{"s": b.String()}, normOpts{Sep: ".", VarExp: true}, b.String(), "varexp"))
	}
}

func nil2() interface{} { return map[string]interface{}(nil) }
