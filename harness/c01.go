package main

import (
	"fmt"

	ucfg "github.com/elastic/go-ucfg"
)

func init() { register("C01", genC01) }

var policyOpts = []struct {
	name string
	h    int
	opt  ucfg.Option
}{
	{"default", 0, nil},
	{"replace", 2, ucfg.ReplaceValues},
	{"append", 3, ucfg.AppendValues},
	{"prepend", 4, ucfg.PrependValues},
	{"arrreplace", 5, ucfg.ReplaceArrValues},
}

// c01Step merges src into dst (real implementation) and records one case.
// srcKind: "map" (generic map), "struct" (reflect.StructOf), "config" (*Config), "self".
type frozenSrc struct{ coq, desc string }

func c01Step(g *Gen, dst *ucfg.Config, src interface{}, srcDesc string, srcKind string, pol int, tag string) bool {
	return c01StepF(g, dst, src, srcDesc, srcKind, pol, tag, nil)
}

// c01StepF: with frozen != nil the case records the source as it was when first seen
// (a *Config source that is reused must still be what it was: merging never changes it).
func c01StepF(g *Gen, dst *ucfg.Config, src interface{}, srcDesc string, srcKind string, pol int, tag string, frozen *frozenSrc) bool {
	p := policyOpts[pol]
	var opts []ucfg.Option
	if p.opt != nil {
		opts = append(opts, p.opt)
	}
	before := ucfg.VerifDump(dst)
	var from interface{} = src
	switch srcKind {
	case "config":
		c, err := ucfg.NewFrom(src)
		if err != nil {
			g.Skip("source does not normalize: " + errKind(err))
			return false
		}
		from = c
	case "struct":
		if m, ok := src.(map[string]interface{}); ok {
			from = asStruct(m)
		}
	case "self":
		from = dst
	case "cfgptr": // an existing *Config, used as it is (and possibly more than once)
		from = src
	}
	nb, err := ucfg.VerifNormalize(from, opts...)
	if err != nil {
		g.Skip("source does not normalize: " + errKind(err))
		return false
	}
	coqB := coqValue(nb) // printed before the merge (a *Config source is used by pointer)
	descB := descValue(nb)
	if frozen != nil {
		if frozen.coq == "" {
			frozen.coq, frozen.desc = coqB, descB
		}
		coqB, descB = frozen.coq, frozen.desc
	}
	merr := dst.Merge(from, opts...)
	res, unp := "None", "None"
	descR := "error: "
	if merr == nil {
		after := ucfg.VerifDump(dst)
		res = "(Some " + coqValue(after) + ")"
		descR = descValue(after)
		if u, uerr := unpackAny(dst); uerr == nil {
			unp = "(Some " + coqOTree(u) + ")"
		}
	} else {
		descR += merr.Error()
	}
	coq := fmt.Sprintf("CMerge %d%%N %s %s %s %s", p.h, coqValue(before), coqB, res, unp)
	g.Add(Case{Coq: coq,
		Desc: map[string]interface{}{"kind": "merge", "policy": p.name, "a": descValue(before), "b": descB, "src": srcDesc, "src_kind": srcKind, "result": descR},
		Tags: []string{"policy:" + p.name, "src:" + srcKind, tag}, Nontrivial: len(before.Keys)+len(before.Arr) > 0 && descB != "{}"})
	return merr == nil
}

func errKind(err error) string {
	if e, ok := err.(ucfg.Error); ok {
		return e.Reason().Error()
	}
	return "non-ucfg error"
}

func genC01(g *Gen) {
	r := g.R
	cfg := defaultTreeCfg
	// one source *Config with empty containers merged into several targets, one of which is
	// extended at those keys afterwards: the source is still what it was
	for i := 0; i < g.N/20+3; i++ {
		bm := randMap(r, cfg, 1)
		bm["p"] = map[string]interface{}{}
		bm["l"] = []interface{}{}
		if r.Bool() {
			bm["n"] = map[string]interface{}{"q": map[string]interface{}{}, "m": []interface{}{}}
		}
		b, err := ucfg.NewFrom(bm)
		if err != nil {
			continue
		}
		f := &frozenSrc{}
		t1, t2 := ucfg.New(), ucfg.New()
		pol := r.Intn(len(policyOpts))
		c01StepF(g, t1, b, descTree(bm), "cfgptr", pol, "shared-empty", f)
		c01StepF(g, t2, b, descTree(bm), "cfgptr", pol, "shared-empty", f)
		ext := map[string]interface{}{"p": map[string]interface{}{"x": uint64(1)}, "l": []interface{}{"e"},
			"n": map[string]interface{}{"q": map[string]interface{}{"y": true}, "m": []interface{}{uint64(2)}}}
		c01Step(g, t1, ext, descTree(ext), "map", []int{0, 3, 4, 5}[r.Intn(4)]%len(policyOpts), "shared-empty")
		c01StepF(g, ucfg.New(), b, descTree(bm), "cfgptr", 0, "shared-empty", f)
		c01StepF(g, t2, b, descTree(bm), "cfgptr", 0, "shared-empty", f)
	}
	kinds := []string{"map", "map", "struct", "config"}
	for i := 0; i < g.N; i++ {
		// keys: mostly letters; sometimes numeric keys so that nodes get both parts
		c := cfg
		if r.P(1, 6) {
			c.Keys = []string{"a", "b", "0", "1", "l"}
		}
		ta := randMap(r, c, 0)
		var tb interface{}
		if r.P(3, 4) {
			tb = mutateTree(r, c, ta, 0)
		} else {
			tb = randMap(r, c, 0)
		}
		if r.P(1, 12) { // list-rooted pair
			la := []interface{}{randTree(r, c, 1), randTree(r, c, 1)}
			dst, err := ucfg.NewFrom(la)
			if err != nil {
				g.Skip("A does not normalize")
				continue
			}
			c01Step(g, dst, mutateTree(r, c, la, 0), "list", "map", r.Intn(len(policyOpts)), "root:list")
			continue
		}
		dst, err := ucfg.NewFrom(ta)
		if err != nil {
			g.Skip("A does not normalize: " + errKind(err))
			continue
		}
		pol := r.Intn(len(policyOpts))
		kind := kinds[r.Intn(len(kinds))]
		if !c01Step(g, dst, tb, descTree(tb), kind, pol, "pair") {
			continue
		}
		switch r.Intn(6) {
		case 0: // chain: a third tree with the same policy
			tc := mutateTree(r, c, tb, 0)
			c01Step(g, dst, tc, descTree(tc), kinds[r.Intn(len(kinds))], pol, "chain")
		case 1: // merge into itself
			c01Step(g, dst, nil, "self", "self", pol, "self")
		case 3, 4: // a *Config source reused along a chain: it must still be what it was
			b, err := ucfg.NewFrom(tb)
			if err != nil {
				continue
			}
			fr := &frozenSrc{}
			c01StepF(g, dst, b, descTree(tb), "map", pol, "reuse:1", fr)
			tc := mutateTree(r, c, tb, 0)
			c01Step(g, dst, tc, descTree(tc), "map", r.Intn(len(policyOpts)), "reuse:mid")
			c01StepF(g, dst, b, descTree(tb), "map", pol, "reuse:2", fr)
			c01StepF(g, ucfg.New(), b, descTree(tb), "map", pol, "reuse:fresh", fr)
		case 2: // merging an empty config, and merging into an empty config
			c01Step(g, dst, map[string]interface{}{}, "{}", "map", pol, "empty-right")
			e := ucfg.New()
			c01Step(g, e, dst, "config", "map", pol, "empty-left")
		}
	}
}
