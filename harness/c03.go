package main

import (
	"fmt"
	"math"
	"reflect"
	"strconv"
	"time"

	ucfg "github.com/elastic/go-ucfg"
)

func init() { register("C03", genC03) }

type nInt8 int8
type nInt64 int64
type nUint16 uint16
type nFloat32 float32
type nBool bool
type nString string

type kindSpec struct {
	name string
	coq  string
	typ  reflect.Type
}

var c03Kinds = []kindSpec{
	{"bool", "KBool", reflect.TypeOf(false)},
	{"int", "(KInt 64)", reflect.TypeOf(int(0))},
	{"int8", "(KInt 8)", reflect.TypeOf(int8(0))},
	{"int16", "(KInt 16)", reflect.TypeOf(int16(0))},
	{"int32", "(KInt 32)", reflect.TypeOf(int32(0))},
	{"int64", "(KInt 64)", reflect.TypeOf(int64(0))},
	{"uint", "(KUint 64)", reflect.TypeOf(uint(0))},
	{"uint8", "(KUint 8)", reflect.TypeOf(uint8(0))},
	{"uint16", "(KUint 16)", reflect.TypeOf(uint16(0))},
	{"uint32", "(KUint 32)", reflect.TypeOf(uint32(0))},
	{"uint64", "(KUint 64)", reflect.TypeOf(uint64(0))},
	{"float32", "KFloat32", reflect.TypeOf(float32(0))},
	{"float64", "KFloat64", reflect.TypeOf(float64(0))},
	{"string", "KString", reflect.TypeOf("")},
	{"duration", "KDuration", reflect.TypeOf(time.Duration(0))},
	// named variants
	{"nInt8", "(KInt 8)", reflect.TypeOf(nInt8(0))},
	{"nInt64", "(KInt 64)", reflect.TypeOf(nInt64(0))},
	{"nUint16", "(KUint 16)", reflect.TypeOf(nUint16(0))},
	{"nFloat32", "KFloat32", reflect.TypeOf(nFloat32(0))},
	{"nBool", "KBool", reflect.TypeOf(nBool(false))},
	{"nString", "KString", reflect.TypeOf(nString(""))},
}

func coqCval(v reflect.Value) string {
	if v.Type() == reflect.TypeOf(time.Duration(0)) {
		return "(CD " + coqZ(v.Int()) + ")"
	}
	switch v.Kind() {
	case reflect.Bool:
		return "(CB " + coqBool(v.Bool()) + ")"
	case reflect.Int, reflect.Int8, reflect.Int16, reflect.Int32, reflect.Int64:
		return "(CI " + coqZ(v.Int()) + ")"
	case reflect.Uint, reflect.Uint8, reflect.Uint16, reflect.Uint32, reflect.Uint64:
		return "(CU " + coqZu(v.Uint()) + ")"
	case reflect.Float32, reflect.Float64:
		f := v.Float()
		if math.IsNaN(f) {
			f = math.NaN() // one NaN: payloads are not compared
		}
		return "(CF " + coqZu(math.Float64bits(f)) + ")"
	case reflect.String:
		return "(CS " + coqStr(v.String()) + ")"
	}
	return "(CS \"?\")"
}

func coqCobs(v reflect.Value, err error, panicked bool) (string, string) {
	if panicked {
		return "CPanic", "PANIC"
	}
	if err != nil {
		name := "EOther"
		if e, ok := err.(ucfg.Error); ok {
			name = reasonName(e)
		} else if n, ok := reasonNames[err]; ok {
			name = n
		}
		return "(CEr " + name + ")", descErr(err)
	}
	return "(COk " + coqCval(v) + ")", fmt.Sprint(v.Interface())
}

func ftextTable(fs ...float64) string {
	var xs []string
	for _, f := range fs {
		xs = append(xs, fmt.Sprintf("(%s, %s)", coqZu(math.Float64bits(f)), coqStr(fmt.Sprintf("%v", f))))
	}
	return coqList(xs)
}

func durTable(ss ...string) string {
	var xs []string
	seen := map[string]bool{}
	for _, s := range ss {
		if seen[s] {
			continue
		}
		seen[s] = true
		d, err := time.ParseDuration(s)
		if err != nil {
			xs = append(xs, "("+coqStr(s)+", None)")
		} else {
			xs = append(xs, "("+coqStr(s)+", (Some "+coqZ(int64(d))+"))")
		}
	}
	return coqList(xs)
}

// unpackInto unpacks {"v": val} (config c) into a fresh struct{V T}, optionally through a pointer field.
func unpackInto(c *ucfg.Config, t reflect.Type, ptr bool, opts ...ucfg.Option) (reflect.Value, error, bool) {
	ft := t
	if ptr {
		ft = reflect.PtrTo(t)
	}
	st := reflect.New(reflect.StructOf([]reflect.StructField{{Name: "V", Type: ft, Tag: `config:"v"`}}))
	var err error
	p, _ := guard(func() { err = c.Unpack(st.Interface(), opts...) })
	f := st.Elem().Field(0)
	if ptr && !p && err == nil {
		if f.IsNil() {
			return reflect.Zero(t), nil, false
		}
		f = f.Elem()
	}
	return f, err, p
}

func c03Direct(val interface{}, k kindSpec, how string, viaSet bool) (Case, bool) {
	var c *ucfg.Config
	var err error
	via := "newfrom"
	if viaSet {
		// written with a typed setter: the setting keeps the setter's kind whatever the value
		// (a positive number stays a signed integer after SetInt)
		c = ucfg.New()
		via = "set"
		switch x := val.(type) {
		case int64:
			err = c.SetInt("v", -1, x)
		case uint64:
			err = c.SetUint("v", -1, x)
		case float64:
			err = c.SetFloat("v", -1, x)
		case bool:
			err = c.SetBool("v", -1, x)
		case string:
			err = c.SetString("v", -1, x)
		default:
			return Case{}, false
		}
	} else {
		c, err = ucfg.NewFrom(map[string]interface{}{"v": val})
	}
	if err != nil {
		return Case{}, false
	}
	n := ucfg.VerifDump(c)
	vn := n.Dict["v"]
	var f reflect.Value
	var uerr error
	var panicked bool
	switch how {
	case "field":
		f, uerr, panicked = unpackInto(c, k.typ, false)
	case "pointer":
		f, uerr, panicked = unpackInto(c, k.typ, true)
	case "getter":
		panicked, _ = guard(func() {
			switch k.coq {
			case "KBool":
				b, e := c.Bool("v", -1)
				f, uerr = reflect.ValueOf(b), e
			case "(KInt 64)":
				i, e := c.Int("v", -1)
				f, uerr = reflect.ValueOf(i), e
			case "(KUint 64)":
				u, e := c.Uint("v", -1)
				f, uerr = reflect.ValueOf(u), e
			case "KFloat64":
				x, e := c.Float("v", -1)
				f, uerr = reflect.ValueOf(x), e
			case "KString":
				s, e := c.String("v", -1)
				f, uerr = reflect.ValueOf(s), e
			}
		})
		if !f.IsValid() && uerr == nil && !panicked {
			return Case{}, false
		}
	}
	obs, d := coqCobs(f, uerr, panicked)
	var fts []float64
	var durs []string
	switch x := val.(type) {
	case float64:
		fts = append(fts, x)
	case string:
		durs = append(durs, x)
	case bool:
		durs = append(durs, fmt.Sprint(x))
	}
	coq := fmt.Sprintf("CConv %s %s %s %s %s %s", coqStr(how), k.coq, coqValue(vn), ftextTable(fts...), durTable(durs...), obs)
	return Case{Coq: coq, Desc: map[string]interface{}{"kind": "conv", "how": how, "via": via, "target": k.name, "value": encTree(val), "stored": descValue(vn), "observed": d},
		Tags: []string{"target:" + k.name, "how:" + how, "via:" + via, "src:" + vn.Kind, "res:" + d[:min(3, len(d))]}, Nontrivial: true}, true
}

func c03Dyn(val interface{}, k kindSpec, mode string) (Case, bool) {
	s := c02Setup{}
	switch mode {
	case "ref":
		s.Root = map[string]interface{}{"v": "${x}", "x": val}
	case "splice":
		s.Root = map[string]interface{}{"v": "${x}${e}", "x": val, "e": ""}
	case "resolver":
		s.Root = map[string]interface{}{"v": "${r}"}
		s.Resolvers = []resolverTable{{"r": {Val: fmt.Sprint(val), Cfg: 0}}}
	}
	root, opts, eo, ok := s.build()
	if !ok {
		return Case{}, false
	}
	f, uerr, panicked := unpackInto(root, k.typ, false, opts...)
	obs, d := coqCobs(f, uerr, panicked)
	var durs []string
	if sv, ok := val.(string); ok {
		durs = append(durs, sv)
	}
	durs = append(durs, fmt.Sprint(val))
	coq := fmt.Sprintf("CConvDyn %s %s %s %s %s %s", coqStr(mode), k.coq, eo, coqValue(ucfg.VerifDump(root)), durTable(durs...), obs)
	return Case{Coq: coq, Desc: map[string]interface{}{"kind": "convdyn", "mode": mode, "target": k.name, "value": encTree(val), "observed": d},
		Tags: []string{"target:" + k.name, "dyn:" + mode}, Nontrivial: true}, true
}

func c03Values(r *Rng) []interface{} {
	var out []interface{}
	for _, b := range []uint{7, 8, 15, 16, 31, 32, 63} {
		p := int64(1) << b
		out = append(out, p-1, p, p+1, -p-1, -p, -p+1, uint64(p), uint64(p)-1, uint64(p)+1)
		out = append(out, float64(p), float64(p)-0.5, float64(p)+0.5, -float64(p), -float64(p)-1, math.Nextafter(float64(p), 0), math.Nextafter(float64(p), math.Inf(1)))
	}
	out = append(out, int64(0), int64(-1), uint64(0), uint64(math.MaxUint64), uint64(1)<<63, int64(math.MinInt64), int64(math.MaxInt64),
		0.0, math.Copysign(0, -1), 0.5, -0.5, 1.5, -1.5, 1e30, -1e30, 1e19, 1.8446744073709552e19, 1.8446744073709550e19,
		9.223372036854775807e18, 9.223372036854776e18, -9.223372036854776e18, -9.223372036854778e18,
		math.NaN(), math.Inf(1), math.Inf(-1), math.SmallestNonzeroFloat64, math.MaxFloat64, math.MaxFloat32, math.MaxFloat32 * 1.0000001, 3.4028235677973366e38,
		// float seconds around the largest Duration (2^63 ns = 9223372036.854775808 s): the product with 1e9 decides
		9223372036.854775, 9223372036.854776, 9223372036.8547745, 9223372036.9, 9223372036.5, 9223372035.9, 9223372036.999999,
		-9223372036.854775, -9223372036.854776, -9223372036.8547745, -9223372036.9, -9223372036.999999, -9223372037.0,
		math.Nextafter(9223372036.854776, 0), math.Nextafter(9223372036.854776, math.Inf(1)), math.Nextafter(-9223372036.854776, 0), math.Nextafter(-9223372036.854776, math.Inf(-1)),
		9223372036.0, 9223372037.0, int64(9223372036), int64(9223372037), uint64(9223372037), int64(-9223372037), 1e-10, 0.1, 3.14,
		true, false,
		"", "0", "1", "-1", "+5", "0x10", "0b101", "0o17", "017", "1_000", "1e3", "1.5", "abc", "true", "T", "on", "null",
		"255", "256", "-129", "65536", "4294967296", "9223372036854775807", "9223372036854775808", "-9223372036854775808", "-9223372036854775809",
		"18446744073709551615", "18446744073709551616", "5s", "1h30m", "-2ms", "10", "1.5h", "5 s", "3.4028236e38", "1e39", "nan", "inf")
	for i := 0; i < 20; i++ {
		out = append(out, math.Float64frombits(r.U64()), int64(r.U64()), r.U64()>>uint(r.Intn(64)))
	}
	return out
}

func genC03(g *Gen) {
	r := g.R
	vals := c03Values(r)
	hows := []string{"field", "field", "pointer", "getter"}
	// every boundary value x every target kind (field); the other access paths by sampling
	for _, v := range vals {
		for _, k := range c03Kinds {
			if !g.Thorough() && !r.P(1, 3) {
				continue
			}
			how := hows[r.Intn(len(hows))]
			g.Mark(map[string]interface{}{"kind": "conv", "how": how, "target": k.name, "value": encTree(v)})
			if c, ok := c03Direct(v, k, how, r.P(1, 4)); ok {
				g.Add(c)
			}
		}
	}
	// whole seconds across the range a Duration can hold, signed and unsigned, written both ways:
	// the nanosecond count must be exact (above 2^53 ns a float product is not)
	var dur kindSpec
	for _, k := range c03Kinds {
		if k.name == "duration" {
			dur = k
		}
	}
	const maxSecs = int64(9223372036)
	secs := []int64{maxSecs - 1, maxSecs, maxSecs + 1, 4611686018, 4611686019, 5000000001, 1<<33 + 1, 9007199254, 9007199255, 1 << 62, math.MaxInt64}
	for i := 0; i < 24; i++ {
		secs = append(secs, 1+int64(r.U64()%uint64(maxSecs+4)))
	}
	for _, x := range secs {
		for _, v := range []interface{}{x, -x, uint64(x)} {
			for _, viaSet := range []bool{false, true} {
				how := hows[r.Intn(3)]
				g.Mark(map[string]interface{}{"kind": "conv", "how": how, "target": "duration", "value": encTree(v)})
				if c, ok := c03Direct(v, dur, how, viaSet); ok {
					g.Add(c)
				}
			}
		}
	}
	for i := 0; i < g.N; i++ {
		v := vals[r.Intn(len(vals))]
		k := c03Kinds[r.Intn(len(c03Kinds))]
		mode := []string{"ref", "splice", "resolver"}[r.Intn(3)]
		if f, ok := v.(float64); ok && mode != "ref" {
			v = strconv.FormatFloat(f, 'g', -1, 64)
		}
		g.Mark(map[string]interface{}{"kind": "convdyn", "mode": mode, "target": k.name, "value": encTree(v)})
		if c, ok := c03Dyn(v, k, mode); ok {
			g.Add(c)
		}
	}
}
