package main

import (
	"fmt"
	"math"
	"math/big"
	"strings"

	ucfg "github.com/elastic/go-ucfg"
)

// coqStr prints a Go string (a byte sequence) as a Coq [string] term.
func coqStr(s string) string {
	safe := true
	for i := 0; i < len(s); i++ {
		c := s[i]
		if c < 0x20 || c > 0x7e || c == '"' {
			safe = false
			break
		}
	}
	if safe {
		return `"` + s + `"`
	}
	var b strings.Builder
	b.WriteString("(bs [")
	for i := 0; i < len(s); i++ {
		if i > 0 {
			b.WriteString(";")
		}
		fmt.Fprintf(&b, "%d", s[i])
	}
	b.WriteString("]%N)")
	return b.String()
}

func coqZ(i int64) string {
	if i < 0 {
		return fmt.Sprintf("(%d)", i)
	}
	return fmt.Sprintf("%d", i)
}

func coqZu(u uint64) string { return new(big.Int).SetUint64(u).String() }

func coqBool(b bool) string {
	if b {
		return "true"
	}
	return "false"
}

func coqList(xs []string) string { return "[" + strings.Join(xs, "; ") + "]" }

func coqOpt(ok bool, x string) string {
	if !ok {
		return "None"
	}
	return "(Some " + x + ")"
}

func coqStrList(xs []string) string {
	ys := make([]string, len(xs))
	for i, x := range xs {
		ys[i] = coqStr(x)
	}
	return coqList(ys)
}

func coqField(f ucfg.VerifField) string {
	if f.IsIdx {
		return "(FIdx " + coqZ(int64(f.Idx)) + ")"
	}
	return "(FName " + coqStr(f.Name) + ")"
}

func coqFields(fs []ucfg.VerifField) string {
	xs := make([]string, len(fs))
	for i, f := range fs {
		xs[i] = coqField(f)
	}
	return coqList(xs)
}

func mathFloat64bits(f float64) uint64 { return math.Float64bits(f) }
